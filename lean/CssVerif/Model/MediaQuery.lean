/-
The grammars `MediaQuery._setMediaText` and `MediaList._setMediaText` build (stylesheets/mediaquery.py,
medialist.py), transcribed Prod by Prod, and the two entry points that run them on the engine of
`Model/ProdParser`.

Nested callables: the value of an expression is a `Choice(ColorValue, Dimension, Value, ratio)`; the first
three build a nested object from `pushtoken(t, tokens)`.  `Value`, `DimensionValue` and `ColorValue` for a
colour name or a hash stop on their first token (`stop=True`), so the callable consumes nothing further; the
outer parser never looks at their `wellformed`.  ABSTRACTION: a colour *function* (`rgb(` `rgba(` `hsl(`
`hsla(`) matches `ColorValue` here as in the code, but the nested parse up to its `)` is not modelled (`valueHook`
takes the one token); inputs with such tokens are outside the correspondence and excluded in the theorems.
The MediaList callable `MediaQuery(pushtoken(t, tokens), _partof=True)` is the engine itself (`listHook`).
-/
import CssVerif.Model.ProdParser
namespace CssVerif.PP.MQ
open CssVerif.PP

def tAnd : Text := [97, 110, 100]
def tOnly : Text := [111, 110, 108, 121]
def tNot : Text := [110, 111, 116]
def tLpar : Text := [40]
def tRpar : Text := [41]
def tColon : Text := [58]
def tComma : Text := [44]

/-- `MediaQuery.MEDIA_TYPES` -/
def mediaTypes : List Text :=
  [[97, 108, 108],
   [98, 114, 97, 105, 108, 108, 101],
   [104, 97, 110, 100, 104, 101, 108, 100],
   [112, 114, 105, 110, 116],
   [112, 114, 111, 106, 101, 99, 116, 105, 111, 110],
   [115, 112, 101, 101, 99, 104],
   [115, 99, 114, 101, 101, 110],
   [116, 116, 121],
   [116, 118],
   [101, 109, 98, 111, 115, 115, 101, 100],
   [97, 109, 122, 110, 45, 109, 111, 98, 105],
   [97, 109, 122, 110, 45, 107, 102, 56]]

def colorFns : List Text := [[114, 103, 98, 40], [114, 103, 98, 97, 40], [104, 115, 108, 40], [104, 115, 108, 97, 40]]

/- names of the Prods (as reported by the driver) -/
def nOnlyNot := 1
def nType := 2
def nAnd := 3
def nOpen := 4
def nFeature := 5
def nColon := 6
def nColor := 7
def nDim := 8
def nValue := 9
def nRatio := 10
def nClose := 11
def nQuery := 20
def nComma := 21
def nComment := 22

/-- `css.value.MediaQueryValueProd`; `colors`: the keys of `ColorValue.COLORS` -/
def valueChoice (colors : List Text) : G :=
  .choice (.cons (.prod { name := nColor, toSeq := .nested nColor }
                    (.or .hexcolor (.or (.kindValIn .function colorFns) (.kindValIn .ident colors))))
          (.cons (.prod { name := nDim, toSeq := .nested nDim } (.kindIn [.dimension, .number, .percentage]))
          (.cons (.prod { name := nValue, toSeq := .nested nValue } (.kindIn [.ident, .string, .urange]))
          (.cons (.prod { name := nRatio } (.kind .ratio)) .nil)))) none

/-- `expression()`; `partof`: `stopIfNoMoreMatch=self._partof` on the closing parenthesis -/
def expression (partof : Bool) (colors : List Text) : G :=
  .seq (.cons (.prod { name := nOpen } (.val tLpar))
       (.cons (.prod { name := nFeature } (.kind .ident))
       (.cons (.seq (.cons (.prod { name := nColon } (.val tColon)) (.cons (valueChoice colors) .nil)) 0 (some 1))
       (.cons (.prod { name := nClose, simm := partof } (.val tRpar)) .nil)))) 1 (some 1)

def andExpr (partof : Bool) (colors : List Text) : G :=
  .seq (.cons (.prod { name := nAnd } (.kindVal .ident tAnd)) (.cons (expression partof colors) .nil)) 0 none

def onlyNot : G := .prod { name := nOnlyNot, optional := true } (.kindValIn .ident [tOnly, tNot])

/-- the `Choice` of `_setMediaText`: [only|not]? known-type (and expr)* | expr (and expr)* | [only|not]? IDENT (and expr)* -/
def grammar (partof : Bool) (colors : List Text) : G :=
  .choice
    (.cons (.seq (.cons onlyNot
                 (.cons (.prod { name := nType, simm := true } (.kindValIn .ident mediaTypes))
                 (.cons (andExpr partof colors) .nil))) 1 (some 1))
    (.cons (.seq (.cons (expression partof colors) (.cons (andExpr partof colors) .nil)) 1 (some 1))
    (.cons (.seq (.cons onlyNot
                 (.cons (.prod { name := nType } (.kind .ident))
                 (.cons (andExpr partof colors) .nil))) 1 (some 1)) .nil))) none

/-- the nested value objects: every `ProdParser()` clears the push-back list; nothing further is consumed -/
def valueHook : Hook := fun k t toks saved _ =>
  { item := .nested k true [.tok k t], toks := toks, saved := saved, pushed := [] }

/-- `MediaQuery(mediaText)` for a string (`toplevel`, source = the global tokenizer) -/
def mediaQuery (colors : List Text) (toks : List Tok) : Res :=
  parse valueHook { toplevel := true, global := true } (grammar false colors) toks []

/-- `MediaQuery(pushtoken(t, tokens), _partof=True)` inside a list -/
def listHook (colors : List Text) (global : Bool) : Hook := fun k t toks saved _ =>
  let r := parse valueHook { toplevel := false, global := global } (grammar true colors) (t :: toks) saved
  { item := .nested k r.wf r.items, toks := r.rest, saved := r.saved, pushed := r.pushed, errs := r.errs,
    status := r.status }

def listGrammar : G :=
  .seq (.cons (.seq (.cons (.prod { name := nComment, optional := true } (.kind .comment)) .nil) 0 none)
       (.cons (.prod { name := nQuery, toSeq := .nested nQuery } (.or (.kind .ident) (.val tLpar)))
       (.cons (.seq (.cons (.prod { name := nComma, toSeq := .drop } (.val tComma))
                    (.cons (.prod { name := nQuery, toSeq := .nested nQuery } (.or (.kind .ident) (.val tLpar))) .nil)) 0 none)
        .nil))) 1 (some 1)

def Item.queryWf : Item → Option Bool
  | .nested _ wf _ => some wf
  | _ => none

/-- the check after the parse: every query well-formed (stop at the first that is not), at least one -/
def allQueriesWf : List Item → Bool → Bool × Bool
  | [], seen => (true, seen)
  | it :: r, seen =>
    match Item.queryWf it with
    | some false => (false, seen)
    | some true => allQueriesWf r true
    | none => allQueriesWf r seen

/-- `MediaList(mediaText)` for a string (`global`) or a token list: verdict and the engine result -/
def mediaList (colors : List Text) (global : Bool) (toks : List Tok) : Bool × Res :=
  let r := parse (listHook colors global) { toplevel := global, global := global } listGrammar toks []
  let (allwf, atleastone) := allQueriesWf r.items false
  (r.wf && allwf && atleastone, r)

end CssVerif.PP.MQ
