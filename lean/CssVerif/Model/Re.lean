/-
L0 — regular expressions with CPython `re` backtracking semantics.

Text is `List Nat` (code points; Python `str` can hold surrogates, Lean `Char`
cannot).  Only the operators that occur in css_parser's patterns are modelled;
the translator (`harness/gen_tables.py`) refuses anything else.

Two definitions:
* `ms r s`  — *all* remainders after a match of `r` at the front of `s`, in
  backtracking priority order (the "list of successes").  `re.match` is the
  head of that list.  Proofs are about `ms`.
* `m r s k` — the usual continuation-passing backtracking matcher (first
  success only).  The driver runs `m`; `m_eq_ms` relates the two.

A greedy star iterates its body only on *proper* remainders, which is what
CPython does for a body that can match empty; for a non-nullable body the
filter is a no-op.
-/
namespace CssVerif

abbrev Text := List Nat

inductive Re where
  | eps
  | cls (neg : Bool) (rs : List (Nat × Nat))
  | seq (a b : Re)
  | alt (a b : Re)
  | star (a : Re)          -- greedy `*`
  | opt (a : Re)           -- greedy `?`
  | lazyStar (a : Re)      -- non-greedy `*?`
  | ahead (c : Nat)        -- `(?=c)` for a single literal
  | nahead (neg : Bool) (rs : List (Nat × Nat))   -- `(?![...])`: the next character is not in the class (or there is none)
  deriving Repr, DecidableEq, Inhabited

namespace Re

def inRanges (c : Nat) : List (Nat × Nat) → Bool
  | [] => false
  | (lo, hi) :: rs => (lo ≤ c && c ≤ hi) || inRanges c rs

def clsMatch (neg : Bool) (rs : List (Nat × Nat)) (c : Nat) : Bool :=
  if neg then !(inRanges c rs) else inRanges c rs

/-- iterate `step` greedily, only through proper remainders; fuel = |s| suffices -/
def starIter (step : Text → List Text) : Nat → Text → List Text
  | 0, s => [s]
  | n+1, s => ((step s).filter (fun t => t.length < s.length)).flatMap (starIter step n) ++ [s]

def lazyIter (step : Text → List Text) : Nat → Text → List Text
  | 0, s => [s]
  | n+1, s => s :: ((step s).filter (fun t => t.length < s.length)).flatMap (lazyIter step n)

/-- list of successes, in priority order -/
def ms : Re → Text → List Text
  | eps, s => [s]
  | cls _ _, [] => []
  | cls neg rs, c :: s => if clsMatch neg rs c then [s] else []
  | seq a b, s => (ms a s).flatMap (ms b)
  | alt a b, s => ms a s ++ ms b s
  | star a, s => starIter (ms a) s.length s
  | opt a, s => ms a s ++ [s]
  | lazyStar a, s => lazyIter (ms a) s.length s
  | ahead _, [] => []
  | ahead c, d :: s => if c = d then [d :: s] else []
  | nahead _ _, [] => [[]]
  | nahead neg rs, d :: s => if clsMatch neg rs d then [] else [d :: s]

/-- `re.match`: remainder after the first (highest-priority) match -/
def matchRest (r : Re) (s : Text) : Option Text := (ms r s).head?

def mStar (step : Text → (Text → Option α) → Option α) (k : Text → Option α) :
    Nat → Text → Option α
  | 0, s => k s
  | n+1, s =>
    match step s (fun t => if t.length < s.length then mStar step k n t else none) with
    | some x => some x
    | none => k s

def mLazy (step : Text → (Text → Option α) → Option α) (k : Text → Option α) :
    Nat → Text → Option α
  | 0, s => k s
  | n+1, s =>
    match k s with
    | some x => some x
    | none => step s (fun t => if t.length < s.length then mLazy step k n t else none)

/-- executable CPS backtracking matcher (first success) -/
def m : Re → Text → (Text → Option α) → Option α
  | eps, s, k => k s
  | cls _ _, [], _ => none
  | cls neg rs, c :: s, k => if clsMatch neg rs c then k s else none
  | seq a b, s, k => m a s (fun t => m b t k)
  | alt a b, s, k => match m a s k with
    | some x => some x
    | none => m b s k
  | star a, s, k => mStar (fun s k => m a s k) k s.length s
  | opt a, s, k => match m a s k with
    | some x => some x
    | none => k s
  | lazyStar a, s, k => mLazy (fun s k => m a s k) k s.length s
  | ahead _, [], _ => none
  | ahead c, d :: s, k => if c = d then k (d :: s) else none
  | nahead _ _, [], k => k []
  | nahead neg rs, d :: s, k => if clsMatch neg rs d then none else k (d :: s)

/-- executable `re.match`: remainder after the match -/
def exec (r : Re) (s : Text) : Option Text := m r s some

/-- syntactic nullability (can match the empty string) -/
def nullable : Re → Bool
  | eps => true
  | cls _ _ => false
  | seq a b => nullable a && nullable b
  | alt a b => nullable a || nullable b
  | star _ => true
  | opt _ => true
  | lazyStar _ => true
  | ahead _ => true
  | nahead _ _ => true

/-- conservative: `covers r c` ⇒ `r` matches at the front of every `c :: s` -/
def covers : Re → Nat → Bool
  | eps, _ => true
  | cls neg rs, c => clsMatch neg rs c
  | seq a b, c => covers a c && total b
  | alt a b, c => covers a c || covers b c
  | star _, _ => true
  | opt _, _ => true
  | lazyStar _, _ => true
  | ahead _, _ => false
  | nahead _ _, _ => false
where
  /-- `total r` ⇒ `r` matches at the front of every text -/
  total : Re → Bool
    | eps => true
    | cls _ _ => false
    | seq a b => total a && total b
    | alt a b => total a || total b
    | star _ => true
    | opt _ => true
    | lazyStar _ => true
    | ahead _ => false
    | nahead _ _ => false

end Re
end CssVerif
