/-
L13 — an exception-aware IR for text setters.  One program per setter is *generated from the Python AST*
of /repo (harness/gen_setters.py → Gen/Setters.lean); `run` is the abstract semantics the kernel evaluates,
`Exec` (Proofs/SetterIR.lean) the concrete one it is proved sound for.

Abstract values are upper bounds of the set of fields of the object that may differ from their value at
setter entry ("dirty" fields); an outcome kind that cannot occur has no bound.
-/
namespace CssVerif.SetterIR

inductive IR
  | skip
  | store (f : Nat)                   -- a store to field `f` of the object (or an in-place change below it)
  | raise_                            -- a point that may raise; nothing of the object is changed there
  | call (fs : List Nat)              -- a setter of the object itself: may raise *before* changing anything,
                                      -- otherwise changes (at most) the fields `fs`
  | seq (a b : IR)
  | alt (a b : IR)                    -- if / else; a statement that may be skipped
  | loop (a : IR)                     -- zero or more times
  | ret                               -- return
  | scope (a : IR)                    -- body of a called function / production: its `return` ends only itself
  | tryRestore (rs : List Nat) (body : IR)   -- try: body / except: put back the fields `rs` as saved at entry; raise
  | tryFinally (body fin : IR)        -- try: body / finally: fin
  | restore (rs : List Nat)           -- the fields `rs` are put back to the values saved at entry
  deriving Repr, DecidableEq

abbrev Bound := Option (List Nat)

def Bound.join : Bound → Bound → Bound
  | none, b => b
  | a, none => a
  | some a, some b => some (a ++ b)

structure Outs where
  norm : Bound := none
  rais : Bound := none
  ret : Bound := none
  deriving Repr, DecidableEq

def Outs.join (a b : Outs) : Outs := ⟨a.norm.join b.norm, a.rais.join b.rais, a.ret.join b.ret⟩

/-- the fields a program may store to -/
def mutFields : IR → List Nat
  | .store f => [f]
  | .call fs => fs
  | .seq a b | .alt a b | .tryFinally a b => mutFields a ++ mutFields b
  | .loop a | .tryRestore _ a | .scope a => mutFields a
  | _ => []

/-- `D` extended by the elements of `fs` it does not have yet (idempotent) -/
def addNew (D fs : List Nat) : List Nat := D ++ fs.filter (fun f => !D.contains f)

/-- continue with `k` after the normal outcome of `o` -/
def Outs.bind (o : Outs) (k : List Nat → Outs) : Outs :=
  match o.norm with
  | none => o
  | some U => let ob := k U; ⟨ob.norm, o.rais.join ob.rais, o.ret.join ob.ret⟩

def run : IR → List Nat → Outs
  | .skip, D => { norm := some D }
  | .store f, D => { norm := some (f :: D) }
  | .raise_, D => { norm := some D, rais := some D }
  | .call fs, D => { norm := some (fs ++ D), rais := some D }
  | .seq a b, D => (run a D).bind (run b)
  | .alt a b, D => (run a D).join (run b D)
  | .loop a, D =>
    -- every state at the loop head differs from the one at loop entry only in fields the body may store to
    let H := addNew D (mutFields a)
    let o := run a H
    { norm := some H, rais := o.rais, ret := o.ret }
  | .ret, D => { ret := some D }
  | .restore rs, D => { norm := some (D.filter (fun f => !rs.contains f)) }
  | .scope a, D => let o := run a D; { norm := o.norm.join o.ret, rais := o.rais }
  | .tryRestore rs body, D =>
    let o := run body D
    { o with rais := o.rais.map (fun U => U.filter (fun f => !rs.contains f)) }
  | .tryFinally body fin, D =>
    let o := run body D
    let afterNorm : Outs := ({ norm := o.norm } : Outs).bind (run fin)
    -- raised / returned: the finally block runs, then the exception / return travels on
    let onRais : Outs := match o.rais with
      | none => {}
      | some U => let f := run fin U; { rais := f.norm.join f.rais, ret := f.ret }
    let onRet : Outs := match o.ret with
      | none => {}
      | some U => let f := run fin U; { ret := f.norm.join f.ret, rais := f.rais }
    (afterNorm.join onRais).join onRet

/-- started on the unchanged object, whenever the program raises no field differs from its value at entry -/
def Disciplined (p : IR) : Prop := (run p []).rais = none ∨ (run p []).rais = some []

instance (p : IR) : Decidable (Disciplined p) := by unfold Disciplined; infer_instance

def Bound.clean (b : Bound) : Bool := b == none || b == some []

/-- however the program ends — normally, by return or by an exception — no field differs from its entry value -/
def Clean (p : IR) : Prop := (run p []).norm.clean = true ∧ (run p []).rais.clean = true ∧ (run p []).ret.clean = true

instance (p : IR) : Decidable (Clean p) := by unfold Clean; infer_instance

end CssVerif.SetterIR
