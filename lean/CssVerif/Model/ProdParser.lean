/-
The combinator engine of `css_parser/prodparser.py` over abstract tokens: `Prod`, `Sequence`, `Choice` with
their `matches` / `nextProd` protocol (the mutable counters `_i`, `_round`, `_roundstarted`, `_exhausted` are
explicit frame state), the token loop of `ProdParser.parse` (savedTokens, COMMENT / S / INVALID / EOF handling,
the descent over the production stack, `stop` / `stopAndKeep` / `stopIfNoMoreMatch` / `nextSor` (`_SorFilter`) /
`mayEnd`), and the end-of-input walk with `Done` / `Missing` / `NoMatch` / `Exhausted`.

Frames.  Python keeps the counters inside the Sequence / Choice objects and a stack `prods` of references.  An
object is `reset()` at the moment `nextProd` of its parent returns it (that is when it is pushed), `matches` and
`optional` never read the counters, and the stack is always a chain parent → child; so the counters of an
object that is not on the stack are dead, and the model keeps them in the stack frames only.

`toSeq` callables.  `keep` is the default (`lambda t, tokens: (t[0], t[1])`), `drop` is `toSeq=False`,
`nested n` is a callable that builds a nested object from `pushtoken(t, tokens)` — it runs another parser on the
same token stream and the same module globals (`savedTokens`, the pushed-back list of the global tokenizer).
The engine takes it as a parameter `hook`; `Model` instantiates it with the engine itself for MediaList →
MediaQuery.  NOT modelled: a nested callable invoked while an S filter is installed reads *through* the filter
object (here it reads the underlying list; the filter is inactive at that moment because the token just matched
was a real one); `store` / `toStore` / `storeToken` (no influence on control flow); line / column.

The global tokenizer's push-back list (`tokenizer.push`, used by the `except ParseError` branch and by
`stopAndKeep`) is `pushed`: when the token source is a generator of the global tokenizer (`cfg.global`, a parse
started from a string) a pushed token is delivered before the next token of the text — not after the last one —;
every `ProdParser()` constructor clears it.
-/
namespace CssVerif.PP

abbrev Text := List Nat

inductive Kind
  | ident | char | number | dimension | percentage | string | urange | ratio | hash | function | uri
  | atkeyword | s | comment | eof | invalid | other
  deriving DecidableEq, Repr, Inhabited

/-- `val`: the token value as the tokenizer gives it; `norm`: `helper.normalize(val)` (escapes removed, lower case),
    which is what the callbacks that compare names look at -/
structure Tok where
  kind : Kind
  val : Text := []
  norm : Text := val
  deriving DecidableEq, Repr, Inhabited

/-- `match` callbacks as data -/
inductive Pred
  | kind (k : Kind)                          -- `t == K`
  | kindIn (ks : List Kind)                  -- `t in (K1, K2, …)`
  | val (v : Text)                           -- `v == 'x'`
  | kindVal (k : Kind) (v : Text)            -- `t == K and normalize(v) == 'x'`
  | kindValIn (k : Kind) (vs : List Text)    -- `t == K and normalize(v) in (…)`
  | hexcolor                                 -- `t == 'HASH' and reHexcolor.match(v)`
  | or (a b : Pred)
  | any
  deriving DecidableEq, Repr, Inhabited

def isHexDigit (c : Nat) : Bool := (48 ≤ c && c ≤ 57) || (65 ≤ c && c ≤ 70) || (97 ≤ c && c ≤ 102)

/-- `reHexcolor`: `^#(?:[0-9a-fA-F]{3}|[0-9a-fA-F]{6})\Z` (the end of the text: `Gen.hexColorStrictEnd`, an obligation
of C01/C02; with `$` a HASH ending in a newline - `#abc\a ` - was taken for a colour and `int('', 16)` raised) -/
def isHexColor (v : Text) : Bool :=
  match v with
  | 35 :: ds => (ds.length == 3 || ds.length == 6) && ds.all isHexDigit
  | _ => false

def Pred.eval : Pred → Tok → Bool
  | .kind k, t => t.kind == k
  | .kindIn ks, t => ks.contains t.kind
  | .val v, t => t.val == v
  | .kindVal k v, t => t.kind == k && t.norm == v
  | .kindValIn k vs, t => t.kind == k && vs.contains t.norm
  | .hexcolor, t => t.kind == .hash && isHexColor t.val
  | .or a b, t => a.eval t || b.eval t
  | .any, _ => true

inductive ToSeq
  | keep | drop | nested (n : Nat)
  deriving DecidableEq, Repr, Inhabited

/-- the flags of a `Prod` -/
structure PF where
  name : Nat := 0
  optional : Bool := false
  stop : Bool := false
  stopAndKeep : Bool := false
  simm : Bool := false            -- stopIfNoMoreMatch
  nextSor : Bool := false
  mayEnd : Bool := false
  toSeq : ToSeq := .keep
  deriving DecidableEq, Repr, Inhabited

mutual
  inductive G
    | prod (f : PF) (m : Pred)
    | seq (items : GL) (mn : Nat) (mx : Option Nat)      -- `mx = none`: `sys.maxsize`
    | choice (items : GL) (opt : Option Bool)            -- `opt`: the explicit `optional=` option
  inductive GL
    | nil
    | cons (g : G) (tl : GL)
end

def GL.length : GL → Nat
  | .nil => 0
  | .cons _ tl => tl.length + 1

def GL.get? : GL → Nat → Option G
  | .nil, _ => none
  | .cons g _, 0 => some g
  | .cons _ tl, i + 1 => tl.get? i

def GL.ofList : List G → GL
  | [] => .nil
  | g :: gs => .cons g (GL.ofList gs)

mutual
  /-- `Prod.optional`, `Sequence.optional` (`_min == 0`), `Choice.optional` (the option, else: any alternative) -/
  def G.optional : G → Bool
    | .prod f _ => f.optional
    | .seq _ mn _ => mn == 0
    | .choice items opt =>
      match opt with
      | some b => b
      | none => GL.anyOptional items
  def GL.anyOptional : GL → Bool
    | .nil => false
    | .cons g tl => g.optional || tl.anyOptional
end

mutual
  /-- `matches(token)` for a token -/
  def G.matches : G → Tok → Bool
    | .prod _ m, t => m.eval t
    | .seq items _ _, t => GL.seqMatches items t
    | .choice items _, t => GL.choiceMatches items t
  /-- `Sequence.matches`: scan up to and including the first non-optional item -/
  def GL.seqMatches : GL → Tok → Bool
    | .nil, _ => false
    | .cons g tl, t => g.matches t || (g.optional && tl.seqMatches t)
  def GL.choiceMatches : GL → Tok → Bool
    | .nil, _ => false
    | .cons g tl, t => g.matches t || tl.choiceMatches t
end

/-- `matches(None)` is False everywhere -/
def G.matchesO (g : G) : Option Tok → Bool
  | none => false
  | some t => g.matches t

inductive Frame
  | seq (items : GL) (mn : Nat) (mx : Option Nat) (i round : Nat) (started : Bool)
  | choice (items : GL) (opt : Option Bool) (exhausted : Bool)

/-- outcome of `nextProd`: a returned object, `None`, or the exception raised — each with the counters as the
    call leaves them (they are advanced before the tests, also when the call ends in an exception);
    `spin`: the `while` loop of an all-optional unbounded Sequence would run `sys.maxsize` rounds;
    `crash`: IndexError of an empty Sequence -/
inductive NP
  | found (g : G) (fr : Frame)
  | none_ (fr : Frame)
  | exhausted (fr : Frame) | noMatch (fr : Frame) | missing (fr : Frame) | done (fr : Frame)
  | spin | crash

def ltMax (round : Nat) : Option Nat → Bool
  | none => true
  | some m => round < m

/-- `Sequence.nextProd`.  `k` counts the iterations of the `while` loop left in this call: any iteration that
    does not `continue` leaves the loop, so after `length items` iterations every item has been seen to be
    optional and not matching, and (the tests never read the counters) every further round goes the same way:
    the loop ends when `_round` reaches `_max` — never, for `sys.maxsize`. -/
def seqNext (items : GL) (mn : Nat) (mx : Option Nat) (tok : Option Tok) : Nat → Nat → Nat → Bool → NP
  | 0, _, _, _ =>
    match mx with
    | none => .spin
    | some m => if tok.isSome then .exhausted (.seq items mn mx 0 m false) else .none_ (.seq items mn mx 0 m false)
  | k + 1, i, round, started =>
    if ltMax round mx then
      match items.get? i with
      | none => .crash
      | some p =>
        let started' := if i == 0 then false else started
        let i' := if i + 1 == items.length then 0 else i + 1
        let round' := if i + 1 == items.length then round + 1 else round
        if p.matchesO tok then .found p (.seq items mn mx i' round' true)
        else if p.optional then seqNext items mn mx tok k i' round' started'
        else if round < mn || started' then .missing (.seq items mn mx i' round' started')
        else if tok.isNone then .done (.seq items mn mx i' round' started')
        else .noMatch (.seq items mn mx i' round' started')
    else if tok.isSome then .exhausted (.seq items mn mx i round started) else .none_ (.seq items mn mx i round started)

def GL.firstMatch : GL → Option Tok → Option G
  | .nil, _ => none
  | .cons g tl, t => if g.matchesO t then some g else tl.firstMatch t

/-- `Choice.nextProd` -/
def choiceNext (items : GL) (opt : Option Bool) (exhausted : Bool) (tok : Option Tok) : NP :=
  if exhausted then (if tok.isSome then .exhausted (.choice items opt true) else .none_ (.choice items opt true))
  else match items.firstMatch tok with
    | some p => .found p (.choice items opt true)
    | none => if items.anyOptional then .none_ (.choice items opt false) else .noMatch (.choice items opt false)

def Frame.next (fr : Frame) (tok : Option Tok) : NP :=
  match fr with
  | .seq items mn mx i round started => seqNext items mn mx tok items.length i round started
  | .choice items opt exhausted => choiceNext items opt exhausted tok

/-- the frame of an object that has just been `reset()`; a `Prod` has none -/
def fresh : G → Frame
  | .seq items mn mx => .seq items mn mx 0 0 false
  | .choice items opt => .choice items opt false
  | .prod _ _ => .choice .nil none true

/-- result of the inner `while True` of the token loop -/
inductive DR
  | prod (f : PF) (stack : List Frame)
  | noMatch (stack : List Frame)  -- `raise NoMatch('No match')` at the bottom of the stack (`prod` is None then)
  | parseErr (last : Option PF) (stack : List Frame)  -- Missing (or Done) came out of `nextProd`; `last`: the variable `prod` as it stands
  | spin | crash | fuel

/-- `last` follows the variable `prod`: `some f` while it holds a Prod, `none` for `None` and for a nested
    Sequence / Choice (neither has the attribute `mayEnd`). -/
def descend (tok : Tok) : Nat → List Frame → Option PF → DR
  | 0, _, _ => .fuel
  | _ + 1, [], _ => .crash
  | n + 1, fr :: rest, last =>
    match fr.next (some tok) with
    | .found (.prod f _) fr' => .prod f (fr' :: rest)
    | .found g fr' => descend tok n (fresh g :: fr' :: rest) none
    | .none_ fr' | .exhausted fr' | .noMatch fr' =>
      match rest with
      | [] => .noMatch [fr']
      | _ :: _ => descend tok n rest none
    | .missing fr' | .done fr' => .parseErr last (fr' :: rest)
    | .spin => .spin
    | .crash => .crash

inductive Err
  | invalid        -- 'Invalid token'
  | noMatch        -- NoMatch at the bottom, token not taken over
  | parseErr       -- Missing with a token
  | endMissing     -- Missing at the end of input
  | endOther       -- another ParseError at the end of input (NoMatch of a Choice)
  | noContent      -- 'No content to parse.'
  | trailing       -- 'Unexpected trailing token'
  deriving DecidableEq, Repr

inductive Item
  | comment
  | s
  | tok (name : Nat) (t : Tok)
  | nested (name : Nat) (wf : Bool) (sub : List Item)

inductive Status
  | ok | spin | crash | fuel
  deriving DecidableEq, Repr

structure Res where
  wf : Bool
  items : List Item
  errs : List Err
  rest : List Tok          -- what is left in the token source
  saved : List Tok         -- module global `savedTokens` (top first)
  pushed : List Tok        -- push-back list of the global tokenizer
  empty : Bool := false    -- the early `return False, [], None, None`
  status : Status := .ok

structure HookRes where
  item : Item
  toks : List Tok
  saved : List Tok
  pushed : List Tok
  errs : List Err := []       -- what the nested parser logged, in order
  status : Status := .ok

/-- a nested `toSeq`: number of the callable, the matched token, the token source, savedTokens, pushed -/
abbrev Hook := Nat → Tok → List Tok → List Tok → List Tok → HookRes

def noHook : Hook := fun _ t toks saved pushed => { item := .tok 0 t, toks := toks, saved := saved, pushed := pushed }

structure Cfg where
  keepS : Bool := false
  checkS : Bool := false
  emptyOk : Bool := false
  toplevel : Bool := false    -- `text` is a string: left-over savedTokens are an error and are dropped
  global : Bool := false      -- the token source is a generator of the global tokenizer
  dfuel : Nat := 0            -- fuel of one descent

/-- `_SorFilter` state -/
structure Filt where
  active : Bool
  pending : List Tok

structure LS where
  stack : List Frame
  wf : Bool := true
  started : Bool := false
  defaultS : Bool := true
  simm : Bool := false
  stopall : Bool := false
  last : Option PF := none
  items : List Item := []      -- reversed
  errs : List Err := []        -- reversed
  filt : Option Filt := none
  saved : List Tok := []
  pushed : List Tok := []

def isS (t : Tok) : Bool := t.kind == .s

/-- `next_[1] in ',/'` (substring test) -/
def inUntil (v : Text) : Bool := v == [] || v == [44] || v == [47] || v == [44, 47]

/-- `_SorFilter.__next__` over the list of tokens still to come -/
def sorNext (f : Filt) (toks : List Tok) : Option (Tok × Filt × List Tok) :=
  match f.pending with
  | p :: ps => some (p, { f with pending := ps }, toks)
  | [] =>
    match toks with
    | [] => none
    | t :: r =>
      if !f.active then some (t, f, r)
      else if t.kind == .s then
        match r.dropWhile isS with
        | [] => some (t, f, [])
        | n :: r' =>
          if inUntil n.val then some (n, f, r')
          else if n.kind == .comment then some (n, f, r')
          else some (t, { active := false, pending := [n] }, r')
      else if t.kind == .comment then some (t, f, r)
      else some (t, { f with active := false }, r)

/-- one read of the loop head: `savedTokens.pop()`, else `next(tokens)` -/
def readTok (cfg : Cfg) (st : LS) (toks : List Tok) : Option (Tok × LS × List Tok) :=
  match st.saved with
  | t :: sv => some (t, { st with saved := sv }, toks)
  | [] =>
    -- the generator of the global tokenizer delivers pushed-back tokens before the next token of the text
    let (toks, pushed) := if cfg.global && !toks.isEmpty then (st.pushed ++ toks, []) else (toks, st.pushed)
    match st.filt with
    | none =>
      match toks with
      | [] => none
      | t :: r => some (t, { st with pushed := pushed }, r)
    | some f =>
      match sorNext f toks with
      | none => none
      | some (t, f', r) => some (t, { st with pushed := pushed, filt := some f' }, r)

/-- the `while True` after the token loop: every frame from the top is asked `nextProd(None)` once
    (`nextProd(None)` never returns an object, so the branches for a returned prod are dead code) -/
def endLoop (last : Option PF) : List Frame → Bool → List Err → Bool × List Err × Status
  | [], wf, errs => (wf, errs, .ok)
  | fr :: rest, wf, errs =>
    match fr.next none with
    | .missing _ =>
      match last with
      | some f => if f.mayEnd then endLoop last rest wf errs else endLoop last rest false (.endMissing :: errs)
      | none => endLoop last rest wf errs          -- `hasattr(lastprod, 'mayEnd')` is False
    | .noMatch _ | .exhausted _ => endLoop last rest false (.endOther :: errs)
    | .spin => (wf, errs, .spin)
    | .crash => (wf, errs, .crash)
    | _ => endLoop last rest wf errs

def Item.isS : Item → Bool
  | .s => true
  | .tok _ t => t.kind == .s
  | _ => false

/-- `Seq.rstrip` on the reversed list -/
def rstripRev : List Item → List Item
  | [] => []
  | it :: r => if it.isS then rstripRev r else it :: r

/-- everything after the token loop -/
def finish (cfg : Cfg) (st : LS) (toks : List Tok) : Res :=
  let (wf, errs, status) := if st.stopall then (st.wf, st.errs, Status.ok) else endLoop st.last st.stack st.wf st.errs
  if status != .ok then
    { wf := wf, items := st.items.reverse, errs := errs.reverse, rest := toks, saved := st.saved, pushed := st.pushed,
      status := status }
  else if !st.stopall && !cfg.emptyOk && st.items.isEmpty then
    { wf := false, items := [], errs := (Err.noContent :: errs).reverse, rest := toks, saved := st.saved,
      pushed := st.pushed, empty := true }
  else if cfg.toplevel && !st.saved.isEmpty then
    { wf := false, items := (rstripRev st.items).reverse, errs := (Err.trailing :: errs).reverse, rest := toks, saved := [],
      pushed := st.pushed }
  else
    { wf := wf, items := (rstripRev st.items).reverse, errs := errs.reverse, rest := toks, saved := st.saved,
      pushed := st.pushed }

def failRes (st : LS) (toks : List Tok) (s : Status) : Res :=
  { wf := st.wf, items := st.items.reverse, errs := st.errs.reverse, rest := toks, saved := st.saved, pushed := st.pushed,
    status := s }

/-- the token loop of `ProdParser.parse` -/
def loop (hook : Hook) (cfg : Cfg) : Nat → LS → List Tok → Res
  | 0, st, toks => failRes st toks .fuel
  | n + 1, st, toks =>
    match readTok cfg st toks with
    | none => finish cfg st toks
    | some (t, st, toks) =>
      if t.kind == .comment then loop hook cfg n { st with items := .comment :: st.items } toks
      else if st.defaultS && t.kind == .s && !cfg.checkS then
        if !cfg.keepS || !st.started then loop hook cfg n st toks
        else loop hook cfg n { st with items := .s :: st.items } toks
      else if t.kind == .invalid then finish cfg { st with wf := false, errs := .invalid :: st.errs } toks
      else if t.kind == .eof then loop hook cfg n { st with stopall := true } toks
      else
        let st := { st with started := true }
        match descend t cfg.dfuel st.stack st.last with
        | .noMatch stack =>
          if st.simm then finish cfg { st with stack := stack, saved := t :: st.saved, stopall := true, last := none } toks
          else finish cfg { st with stack := stack, wf := false, errs := .noMatch :: st.errs, last := none } toks
        | .parseErr last stack =>
          if st.simm then finish cfg { st with stack := stack, pushed := t :: st.pushed, stopall := true, last := last } toks
          else finish cfg { st with stack := stack, wf := false, errs := .parseErr :: st.errs, last := last } toks
        | .spin => failRes st toks .spin
        | .crash => failRes st toks .crash
        | .fuel => failRes st toks .fuel
        | .prod f stack =>
          let st := { st with stack := stack, last := some f, simm := f.simm || st.simm }
          let (st, toks, hs) :=
            if f.stopAndKeep then (st, toks, Status.ok) else
            match f.toSeq with
            | .drop => (st, toks, Status.ok)
            | .keep => ({ st with items := .tok f.name t :: st.items }, toks, Status.ok)
            | .nested k =>
              let r := hook k t toks st.saved st.pushed
              ({ st with items := r.item :: st.items, saved := r.saved, pushed := r.pushed,
                         errs := r.errs.reverse ++ st.errs }, r.toks, r.status)
          if hs != .ok then failRes st toks hs
          else if f.stop then finish cfg st toks
          else if f.stopAndKeep then finish cfg { st with pushed := t :: st.pushed, stopall := true } toks
          else if f.nextSor then
            let filt : Filt := match st.filt with
              | some fl => { fl with active := true }
              | none => { active := true, pending := [] }
            loop hook cfg n { st with filt := some filt, defaultS := false } toks
          else loop hook cfg n { st with defaultS := true } toks

mutual
  def G.size : G → Nat
    | .prod _ _ => 1
    | .seq items _ _ => items.size + 1
    | .choice items _ => items.size + 1
  def GL.size : GL → Nat
    | .nil => 0
    | .cons g tl => g.size + tl.size
end

/-- the fuel the entry points give: one descent visits every node at most twice; the loop reads a token,
    a saved token or a pushed token per turn -/
def dfuelOf (g : G) : Nat := 2 * g.size + 2

def loopFuel (toks saved pushed : List Tok) : Nat := toks.length + saved.length + pushed.length + 1

/-- `ProdParser().parse(tokens, name, g, …)`: the constructor clears the global tokenizer's push-back list -/
def parse (hook : Hook) (cfg : Cfg) (g : G) (toks saved : List Tok) : Res :=
  loop hook { cfg with dfuel := dfuelOf g } (loopFuel toks saved []) { stack := [fresh g], saved := saved } toks

end CssVerif.PP
