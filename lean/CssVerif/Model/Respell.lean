/-
Equivalent spellings of a name (C10): the characters of a name written plain, in the other letter case, as a
hex escape (leading zeros, either digit case, optional terminating white space) or as a literal escape, and
the reading the library applies to a name: the tokenizer's `unicodesub` (`Escape.cssUnescape`), then
`helper.normalize` (remove the backslash of `\x` for x not a hex digit; lower-case).
-/
import CssVerif.Model.Escape
namespace CssVerif.Respell
open CssVerif.Escape

/-- `helper._simpleescapes`: `(\\[^0-9a-fA-F])` replaced by the character after the backslash -/
def stripLit : Text → Text
  | 92 :: c :: rest => if (hexVal c).isSome then 92 :: stripLit (c :: rest) else c :: stripLit rest
  | c :: rest => c :: stripLit rest
  | [] => []

def lowerC (c : Nat) : Nat := if 65 ≤ c ∧ c ≤ 90 then c + 32 else c

/-- `helper.normalize` (letters of ASCII; the library uses `str.lower`) -/
def normalize (s : Text) : Text := (stripLit s).map lowerC

/-- what the library compares when it looks a name up: escapes read, then normalised -/
def decode (s : Text) : Text := normalize (cssUnescape s)

/-- a way of writing one character -/
inductive Sp
  | plain
  | upper
  | hex (zeros : Nat) (d1 d2 : Nat) (term : Option Nat)
  | lit (up : Bool)
deriving Repr, DecidableEq

def isLetter (c : Nat) : Bool := 97 ≤ c && c ≤ 122
/-- the characters of a (normalised, ASCII) name: a-z 0-9 - _ -/
def isNameChar (c : Nat) : Bool := isLetter c || (48 ≤ c && c ≤ 57) || c == 45 || c == 95

def up (c : Nat) : Nat := if isLetter c then c - 32 else c

def write (c : Nat) : Sp → Text
  | .plain => [c]
  | .upper => [up c]
  | .hex z d1 d2 t => 92 :: List.replicate z 48 ++ [d1, d2] ++ t.toList
  | .lit u => [92, if u then up c else c]

def render : List (Nat × Sp) → Text
  | [] => []
  | (c, s) :: l => write c s ++ render l

/-- the text that follows does not start with white space -/
def startsClean : Text → Bool
  | [] => true
  | x :: _ => !isWs x
/-- … nor with a hex digit -/
def startsNonHex : Text → Bool
  | [] => true
  | x :: _ => !isWs x && (hexVal x).isNone

/-- the side conditions of one spelling, `t` being the text written after it -/
def okOne (c : Nat) (t : Text) : Sp → Bool
  | .plain => true
  | .upper => isLetter c
  | .hex z d1 d2 term =>
    z ≤ 4 &&
    (match hexVal d1, hexVal d2 with
     | some h1, some h2 => h1 * 16 + h2 == c || h1 * 16 + h2 == up c
     | _, _ => false) &&
    (match term with
     | none => (z == 4 || startsNonHex t) && startsClean t
     | some w => isWs w && !(w == 13 && t.head? == some 10))
  | .lit u => (hexVal (if u then up c else c)).isNone

def ok : List (Nat × Sp) → Bool
  | [] => true
  | (c, s) :: l => isNameChar c && okOne c (render l) s && ok l

end CssVerif.Respell
