/-
L12 — loading an @import: what the fetcher may do, how the bytes are decoded (`util._readUrl`), what
`CSSImportRule._setHref` makes of it, and how a relative href is resolved (`util.urljoin`, path part).
-/
namespace CssVerif.Import

/-! ### the encoding decision of `_readUrl` -/

/-- where the encoding used for an imported sheet comes from (`enctype`) -/
inductive EncSource | override | http | content | parent | default
  deriving DecidableEq, Repr

def EncSource.code : EncSource → Nat
  | .override => 0 | .http => 1 | .content => 2 | .parent => 4 | .default => 5

/-- encodings are abstracted to identifiers; `explicit` = BOM or @charset found in the content -/
def chooseEncoding (override http explicit parent : Option Nat) (utf8 : Nat) : Nat × EncSource :=
  match override with
  | some e => (e, .override)
  | none =>
    match http with
    | some e => (e, .http)
    | none =>
      match explicit with
      | some e => (e, .content)
      | none =>
        match parent with
        | some e => (e, .parent)
        | none => (utf8, .default)

/-- how `_setHref` hands the choice on to the imported sheet: an override is sticky, HTTP/content/parent
are a plain encoding, the default is not passed at all -/
def handOn (c : Nat × EncSource) : Option Nat × Option Nat :=   -- (encodingOverride, encoding)
  match c.2 with
  | .override => (some c.1, none)
  | .http | .content | .parent => (none, some c.1)
  | .default => (none, none)

/-- the encoding of a sheet imported by an imported sheet: the first level's choice is handed on (`handOn`) and
the same decision runs again with the second fetch's own sources -/
def chooseNested (override http1 explicit1 parent1 http2 explicit2 : Option Nat) (utf8 : Nat) : Nat × EncSource :=
  let c1 := chooseEncoding override http1 explicit1 parent1 utf8
  chooseEncoding (handOn c1).1 http2 explicit2 (handOn c1).2 utf8

/-! ### what a fetcher can do, and what becomes of it -/

inductive Fetch
  | none                      -- returns None
  | notPair                   -- returns something that is not a 2-tuple / 2-list
  | noContent                 -- (encoding, None)
  | text                      -- (encoding?, str)
  | bytesOk                   -- (encoding?, bytes) that decode
  | bytesUndecodable          -- (encoding?, bytes) that do not decode under the chosen encoding
  | unknownEncoding           -- bytes with an encoding label Python does not know
  | raisesOSError | raisesIOError | raisesValueError
  | cyclic                    -- the text imports (directly or indirectly) the sheet that is being loaded
  deriving DecidableEq, Repr

inductive Load | loaded | failedEmpty
  deriving DecidableEq, Repr

/-- `_readUrl`: `none` = (None, None, None); `fx = false` is the pinned snapshot, where an unknown encoding
label raised LookupError and a non-sequence TypeError through everything (`none` of the outer option) -/
def readUrl (fx : Bool) : Fetch → Option (Option Unit)      -- outer none = an exception escapes
  | .none | .noContent | .notPair => if fx then some none else some none
  | .text | .bytesOk | .cyclic => some (some ())
  | .bytesUndecodable => some none
  | .unknownEncoding => if fx then some none else none
  | .raisesOSError | .raisesIOError | .raisesValueError => some none   -- raised inside the try of _setHref

/-- `_setHref`: the rule keeps its href whatever happens; the load either succeeds or leaves an empty sheet -/
def setHref (fx : Bool) (f : Fetch) : Option Load :=
  match readUrl fx f with
  | none => none
  | some none => some .failedEmpty
  | some (some ()) => if f = .cyclic then (if fx then some .failedEmpty else none) else some .loaded

/-! ### `urljoin`, path part -/

abbrev Path := List String     -- segments between `/`

/-- the loop over the merged segments -/
def resolveLoop : List String → List String → List String
  | [], acc => acc.reverse
  | seg :: rest, acc =>
    if seg = ".." then
      (match acc with
        | [] => resolveLoop rest [".."]                 -- nothing to pop: keep the `..`
        | _ :: acc' => resolveLoop rest acc')
    else if seg = "." then resolveLoop rest acc
    else resolveLoop rest (seg :: acc)

/-- `segments[1:-1] = filter(None, segments[1:-1])` -/
def dropInnerEmpty (segs : List String) : List String :=
  match segs with
  | [] => []
  | [a] => [a]
  | a :: rest => a :: ((rest.dropLast).filter (· ≠ "")) ++ [rest.getLast!]

/-- path of `urljoin(base, rel)` for a non-empty relative path; both as segment lists of `split('/')` -/
def joinPath (base rel : Path) : Path :=
  let baseParts := if base.getLast? == some "" then base else base.dropLast
  let segments := if rel.head? == some "" then rel else dropInnerEmpty (baseParts ++ rel)
  let resolved := resolveLoop segments []
  let resolved := if segments.getLast? == some "." || segments.getLast? == some ".." then resolved ++ [""] else resolved
  resolved

/-! ### RFC 3986, 5.2.4 `remove_dot_segments`, on the segments of an absolute path -/

def rfcLoop : List String → List String → List String
  | [], st => st.reverse
  | seg :: rest, st =>
    if seg = ".." then rfcLoop rest st.tail            -- the root is never removed
    else if seg = "." then rfcLoop rest st
    else rfcLoop rest (seg :: st)

/-- `segs` = the merged path split at `/` (first segment empty: the path is absolute) -/
def rfcPath (segs : List String) : List String :=
  "" :: rfcLoop segs.tail [] ++ (if segs.getLast? == some "." || segs.getLast? == some ".." then [""] else [])

/-- the reference never climbs above the root: at depth `d`, every `..` finds something to remove -/
def noClimb : Nat → List String → Bool
  | _, [] => true
  | d, seg :: rest =>
    if seg = ".." then (d > 0 && noClimb (d - 1) rest)
    else if seg = "." then noClimb d rest
    else noClimb (d + 1) rest

/-- `urlunparse` with a network location: a path that does not start with `/` gets one -/
def unparsePath (segs : Path) : String :=
  let s := "/".intercalate segs
  let s := if s == "" then "/" else s
  if s.startsWith "/" then s else "/" ++ s

end CssVerif.Import
