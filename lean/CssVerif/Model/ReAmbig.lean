/-
A decidable sufficient condition against catastrophic backtracking in the tokenizer's regular expressions.

For every star in an expression, taken in its context (what follows it), the ways to go on must be told apart
by the next one or two characters: the alternatives of the body among each other, and — after a first
character — what may follow it (further optional parts, a restart of the star).  Negative look-aheads
restrict the character sets of what follows them.  If this holds, a match that is going to fail is abandoned
after trying one way per position instead of exponentially many.
-/
import CssVerif.Model.Re
namespace CssVerif.Re

/-- a character set: (complement of)? ranges, minus the excluded ranges -/
structure CSet where
  neg : Bool
  rs : List (Nat × Nat)
  ex : List (Nat × Nat) := []
  deriving Repr

def rangesDisjoint (a b : List (Nat × Nat)) : Bool :=
  a.all (fun x => b.all (fun y => x.2 < y.1 || y.2 < x.1))

def rangeInside (x : Nat × Nat) (b : List (Nat × Nat)) : Bool := b.any (fun y => y.1 ≤ x.1 && x.2 ≤ y.2)

/-- conservative disjointness -/
def csetDisjoint (a b : CSet) : Bool :=
  (match a.neg, b.neg with
    | false, false => rangesDisjoint a.rs b.rs
    | false, true => a.rs.all (fun x => rangeInside x b.rs)
    | true, false => b.rs.all (fun x => rangeInside x a.rs)
    | true, true => false) ||
  (!a.neg && a.rs.all (fun x => rangeInside x b.ex)) || (!b.neg && b.rs.all (fun x => rangeInside x a.ex))

/-- a way to go on: the next character and what must follow it -/
abbrev Head := CSet × List Re

/-- the possible next characters of `r` followed by the continuation `k` (zero-width parts resolved) -/
def hd : Nat → Re → List Re → List (Nat × Nat) → List Head
  | 0, _, _, _ => []
  | fuel + 1, r, k, ex =>
    match r with
    | .eps => (match k with
        | [] => []
        | r' :: k' => hd fuel r' k' ex)
    | .cls n rs => [(⟨n, rs, ex⟩, k)]
    | .seq a b => hd fuel a (b :: k) ex
    | .alt a b => hd fuel a k ex ++ hd fuel b k ex
    | .opt a => hd fuel a k ex ++ hd fuel .eps k ex
    | .star a => hd fuel a (.star a :: k) ex ++ hd fuel .eps k ex
    | .lazyStar a => hd fuel .eps k ex ++ hd fuel a (.lazyStar a :: k) ex
    | .ahead _ => hd fuel .eps k ex
    | .nahead false rs => hd fuel .eps k (ex ++ rs)
    | .nahead true _ => hd fuel .eps k ex

def FUEL : Nat := 60

def cont (k : List Re) : List Head := hd FUEL .eps k []

/-- two ways to go on are told apart now, or — `d` characters later at most — by what follows them -/
def pairOK : Nat → Head → Head → Bool
  | 0, x, y => csetDisjoint x.1 y.1
  | d + 1, x, y =>
    csetDisjoint x.1 y.1 ||
    (let a := cont x.2; let b := cont y.2
     !a.isEmpty && !b.isEmpty && a.all (fun p => b.all (fun q => pairOK d p q)))

def selfOK (d : Nat) : List Head → Bool
  | [] => true
  | x :: xs => xs.all (pairOK d x) && selfOK d xs

/-- after each of the next `d` characters the ways to go on stay distinguishable -/
def detCont : Nat → List Head → Bool
  | 0, hs => selfOK 1 hs
  | d + 1, hs => selfOK 1 hs && hs.all (fun h => detCont d (cont h.2))

/-- every star of the expression, in its context -/
def walk : Re → List Re → Bool
  | .eps, _ | .cls _ _, _ | .ahead _, _ | .nahead _ _, _ => true
  | .seq a b, k => walk a (b :: k) && walk b k
  | .alt a b, k => walk a k && walk b k
  | .opt a, k => walk a k
  -- (only the ways that stay inside the loop: leaving it against going on costs a polynomial factor at most)
  | .star a, _ => !nullable a && walk a [.star a] && detCont 2 (hd FUEL a [.star a] [])
  | .lazyStar a, _ => !nullable a && walk a [.lazyStar a] && detCont 2 (hd FUEL a [.lazyStar a] [])

def starsOK (r : Re) : Bool := walk r []

end CssVerif.Re
