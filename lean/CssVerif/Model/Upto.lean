/-
L3 — statement boundaries: `Base._tokensupto2` (util.py) with every mode, and the statement loop of
`CSSStyleSheet._setCssText` / the body of `CSSMediaRule` that hands each statement to its production.

Tokens are abstracted to the classes the boundary finder distinguishes (by value for the bracket and end
characters, by type for FUNCTION, STRING, EOF and the tokens the statement loop skips).
-/
import CssVerif.Model.Sheet
namespace CssVerif.Upto

inductive TK
  | lbrace | rbrace | lbracket | rbracket | lparen | rparen
  | func          -- FUNCTION `name(`
  | semi | colon | bang | comma
  | string        -- STRING (an end *type* in the media-query modes)
  | eof
  | ws            -- S
  | cdo           -- CDO / CDC
  | comment
  | atkw (k : Nat)  -- an at-keyword; `k` tells the productions apart
  | ident
  | other
  deriving DecidableEq, Repr, Inhabited

/-- the parameters the flags of `_tokensupto2` boil down to -/
structure Mode where
  ends : List TK
  endString : Bool := false
  brace0 : Int := 0
  paren0 : Int := 0
  mq : Bool := false          -- mediaqueryendonly
  attrStart : Bool := false   -- selectorattendonly: a `[` start token counts twice
  deriving Repr

def default : Mode := { ends := [.semi, .rbrace] }
def blockstartonly : Mode := { ends := [.lbrace], brace0 := -1 }
def blockendonly : Mode := { ends := [.rbrace], brace0 := 1 }
def mediaendonly : Mode := { ends := [.rbrace], brace0 := 1 }
def importmediaqueryendonly : Mode := { ends := [.semi], endString := true }
def mediaqueryendonly : Mode := { ends := [.lbrace], brace0 := -1, endString := true, mq := true }
def semicolon : Mode := { ends := [.semi] }
def propertynameendonly : Mode := { ends := [.colon, .semi] }
def propertyvalueendonly : Mode := { ends := [.semi, .bang] }
def propertypriorityendonly : Mode := { ends := [.semi] }
def selectorattendonly : Mode := { ends := [.rbracket], attrStart := true }
def funcendonly : Mode := { ends := [.rparen], paren0 := 1 }
def listseponly : Mode := { ends := [.comma] }

structure Cnt where
  brace : Int
  bracket : Int
  paren : Int
  deriving DecidableEq, Repr

def Cnt.zero (c : Cnt) : Bool := c.brace == 0 && c.bracket == 0 && c.paren == 0

/-- the counter updates of the loop body -/
def bump (c : Cnt) : TK → Cnt
  | .lbrace => { c with brace := c.brace + 1 }
  | .rbrace => { c with brace := c.brace - 1 }
  | .lbracket => { c with bracket := c.bracket + 1 }
  | .rbracket => { c with bracket := c.bracket - 1 }
  | .lparen | .func => { c with paren := c.paren + 1 }
  | .rparen => { c with paren := c.paren - 1 }
  | _ => c

def endTok (m : Mode) (t : TK) : Bool := m.ends.contains t || (m.endString && t == .string)

def stops (m : Mode) (c : Cnt) (t : TK) : Bool :=
  (c.zero && endTok m t) ||
  (m.mq && c.brace == -1 && c.bracket == 0 && c.paren == 0 && m.endString && t == .string)

/-- the `for token in tokenizer` loop: (tokens taken, tokens left in the tokenizer) -/
def scan (m : Mode) : Cnt → List TK → List TK × List TK
  | _, [] => ([], [])
  | c, t :: ts =>
    if t = .eof then ([t], ts)
    else
      let c' := bump c t
      if stops m c' t then ([t], ts)
      else let r := scan m c' ts; (t :: r.1, r.2)

/-- the start token only opens brackets; with `fixedStart = false` (the pinned snapshot) a FUNCTION start
token did not count as an opening parenthesis -/
def bumpStart (fixedStart : Bool) (c : Cnt) : TK → Cnt
  | .lbracket => { c with bracket := c.bracket + 1 }
  | .lbrace => { c with brace := c.brace + 1 }
  | .lparen => { c with paren := c.paren + 1 }
  | .func => if fixedStart then { c with paren := c.paren + 1 } else c
  | _ => c

def initCnt (m : Mode) (start : Option TK) : Cnt :=
  { brace := m.brace0, paren := m.paren0,
    bracket := if m.attrStart && start == some .lbracket then 1 else 0 }

/-- `_tokensupto2(tokenizer, starttoken, <mode>)` -/
def upto (fixedStart : Bool) (m : Mode) (start : Option TK) (toks : List TK) : List TK × List TK :=
  match start with
  | none => scan m (initCnt m none) toks
  | some s => let r := scan m (bumpStart fixedStart (initCnt m start) s) toks; (s :: r.1, r.2)

/-! ### the statement loop -/

/-- tokens the sheet's loop consumes one at a time: S, CDO/CDC (nothing), COMMENT (a comment rule) -/
def single : TK → Bool
  | .ws | .cdo | .comment => true
  | _ => false

/-- the statements handed to the productions (every other token starts one, taken with `upto default`) -/
def split (fixedStart : Bool) : Nat → List TK → List (List TK)
  | 0, _ => []
  | _, [] => []
  | fuel + 1, t :: ts =>
    if t = .eof then []
    else if single t then (if t = .comment then [[t]] else []) ++ split fixedStart fuel ts
    else
      let r := upto fixedStart default (some t) ts
      r.1 :: split fixedStart fuel r.2

def splitAll (fixedStart : Bool) (toks : List TK) : List (List TK) := split fixedStart (toks.length + 1) toks

/-! ### the declaration loop of `CSSStyleDeclaration._setCssText` -/

inductive DKind | property | atrule | ignored | comment
  deriving DecidableEq, Repr

/-- spans handed to the Property parser (`IDENT` first), to the nested unknown-rule production
(`ATKEYWORD` first), kept comments, and spans skipped as malformed.  `fx = false`: the recovery of the
pinned snapshot (up to the next `;` or `!`, the offending token not counted). -/
def dsplit (fx : Bool) : Nat → List TK → List (DKind × List TK)
  | 0, _ => []
  | _, [] => []
  | fuel + 1, t :: ts =>
    match t with
    | .eof => []
    | .ws => dsplit fx fuel ts
    | .semi => dsplit fx fuel ts
    | .comment => (.comment, [t]) :: dsplit fx fuel ts
    | .ident => let r := upto true semicolon (some t) ts; (.property, r.1) :: dsplit fx fuel r.2
    | .atkw _ => let r := upto true default (some t) ts; (.atrule, r.1) :: dsplit fx fuel r.2
    | _ =>
      if fx then let r := upto true semicolon (some t) ts; (.ignored, r.1) :: dsplit fx fuel r.2
      else let r := upto true propertyvalueendonly none ts; (.ignored, t :: r.1) :: dsplit fx fuel r.2

def dsplitAll (fx : Bool) (toks : List TK) : List (DKind × List TK) := dsplit fx (toks.length + 1) toks

/-! ### the order state across statements, accepted or not -/

open CssVerif.Sheet in
/-- the level the order state takes after a statement of this kind -/
def lvlOf (k : Kind) (expected : Nat) : Nat :=
  match k with
  | .charset => 1 | .import => 1 | .namespace => 2 | .variables => 2
  | .unknown | .comment | .margin => max 1 expected
  | _ => 3

open CssVerif.Sheet in
/-- the highest level at which a statement of this kind is still allowed -/
def needOf (k : Kind) : Nat :=
  match k with
  | .charset => 0 | .import => 1 | .namespace => 2 | .variables => 2 | _ => 3

open CssVerif.Sheet in
/-- one statement through its production: `r = none` when the production rejected the text.
`fx = false` is the pinned snapshot, where the order state advanced for rejected statements too
(`k` = the kind of production that consumed the statement). -/
def stmtStep (fx : Bool) (st : Nat × Sheet) (k : Kind) (r : Option Rule) : Nat × Sheet :=
  match r with
  | none => if fx then st else (if st.1 > needOf k then st.1 else lvlOf k st.1, st.2)
  | some r =>
    if st.1 > needOf k then st
    else
      (lvlOf k st.1,
        if k = .namespace && st.2.any (fun x => x.kind = .namespace && x.p = r.p) then
          st.2.map (fun x => if x.kind = .namespace && x.p = r.p then { x with u := r.u } else x)
        else (parseInsert true st.2 r).1)

/-- what the sheet's loop meets: whitespace (it ends the place where @charset is allowed) or a statement -/
inductive SItem
  | ws
  | stmt (k : Sheet.Kind) (r : Option Sheet.Rule)
  deriving Repr

def sitemStep (fx : Bool) (st : Nat × Sheet.Sheet) : SItem → Nat × Sheet.Sheet
  | .ws => (max 1 st.1, st.2)
  | .stmt k r => stmtStep fx st k r

def stmts (fx : Bool) (l : List SItem) (st : Nat × Sheet.Sheet) : Nat × Sheet.Sheet :=
  l.foldl (sitemStep fx) st

/-- `parseString`: the loop, then `_cleanNamespaces` -/
def parseStmts (fx : Bool) (l : List SItem) : Sheet.Sheet :=
  (Sheet.cleanNamespaces (stmts fx l (0, [])).2).1

end CssVerif.Upto
