/-
L5 — model of `CSSStyleDeclaration` as the sequence of its Property items.

Names, values and priorities are opaque (`Nat` identifiers; priority = important or not): the
value parser is not in the loop.  Non-Property items (comments) are skipped by every method of the
real class and are left out.  The methods are transcribed as coded: reverse scans, the double
reverse of `__nnames`, in-place update through the *effective* property.
-/
import CssVerif.Model.Tokenizer
namespace CssVerif.Decl

structure Entry where
  name : Nat        -- normalised name
  lit : Nat         -- literal spelling as written
  val : Nat
  imp : Bool        -- priority == "important"
  deriving Repr, DecidableEq, Inhabited

abbrev Block := List Entry

/-- `__nnames`: scan the reversed sequence keeping first occurrences, then reverse -/
def nnamesRev : List Entry → List Nat → List Nat
  | [], acc => acc
  | e :: es, acc => if acc.contains e.name then nnamesRev es acc else nnamesRev es (acc ++ [e.name])

def nnames (l : Block) : List Nat := (nnamesRev l.reverse []).reverse

/-- the loop of `getProperty(name)` (normalize=True) over `reversed(self.seq)`: the first important
match, else the first match seen -/
def scanE : List Entry → Nat → Option Entry → Option Entry
  | [], _, found => found
  | e :: es, n, found =>
    if e.name = n then
      if e.imp then some e
      else scanE es n (match found with | some f => some f | none => some e)
    else scanE es n found

def getProperty (l : Block) (n : Nat) : Option Entry := scanE l.reverse n none

def getPropertyValue (l : Block) (n : Nat) : Option Nat := (getProperty l n).map (·.val)
def getPropertyPriority (l : Block) (n : Nat) : Bool :=
  match getProperty l n with | some e => e.imp | none => false
def contains (l : Block) (n : Nat) : Bool := (nnames l).contains n
def keys (l : Block) : List Nat := nnames l
def length (l : Block) : Nat := (nnames l).length
/-- `item(index)` with Python negative indices; `none` = '' -/
def item (l : Block) (i : Int) : Option Nat :=
  let ks := nnames l
  if i ≥ 0 then ks[i.toNat]?
  else if (-i).toNat ≤ ks.length then ks[ks.length - (-i).toNat]? else none
def iter (l : Block) : List (Option Entry) := (nnames l).map (getProperty l)
/-- `getProperties(name, all=True)` -/
def getAll (l : Block) (n : Nat) : List Entry := l.filter (·.name = n)
/-- `getProperties()` : effective properties in name order -/
def getEffective (l : Block) : List (Option Entry) := iter l

/-- `removeProperty(name)` -/
def removeProperty (l : Block) (n : Nat) : Block := l.filter (fun e => e.name ≠ n)

/-- mutate the first element satisfying `p` -/
def updFirst (p : Entry → Bool) (f : Entry → Entry) : List Entry → List Entry
  | [] => []
  | e :: es => if p e then f e :: es else e :: updFirst p f es

/-- `setProperty(name, value, priority, replace)` for a well-formed non-empty value: the effective
property *object* gets the new value and priority (its place and literal name stay), else a new
property is appended -/
def setProperty (l : Block) (n lit v : Nat) (imp : Bool) (replace : Bool) : Block :=
  if replace then
    match getProperty l n with
    | some _ =>
      let r := l.reverse
      let upd : Entry → Entry := fun e => { e with val := v, imp := imp }
      if r.any (fun e => e.name = n && e.imp) then (updFirst (fun e => e.name = n && e.imp) upd r).reverse
      else (updFirst (fun e => e.name = n) upd r).reverse
    | none => l ++ [⟨n, lit, v, imp⟩]
  else l ++ [⟨n, lit, v, imp⟩]

inductive Op where
  | set (n lit v : Nat) (imp replace : Bool)
  | remove (n : Nat)
  | assign (l : Block)          -- cssText = …
  deriving Repr

def step (l : Block) : Op → Block
  | .set n lit v imp r => setProperty l n lit v imp r
  | .remove n => removeProperty l n
  | .assign l' => l'

/-! ### abstract specification (written from the property statement) -/

/-- the effective entry for a name: the last `!important` one, else the last one -/
def effective (l : Block) (n : Nat) : Option Entry :=
  ((l.filter (fun e => e.name = n && e.imp)).getLast?).or ((l.filter (fun e => e.name = n)).getLast?)

/-- distinct names ordered by last occurrence -/
def namesSpec : Block → List Nat
  | [] => []
  | e :: es => if (es.any (·.name = e.name)) then namesSpec es else e.name :: namesSpec es

/-! ### camel-case aliases -/

def upperC (c : Nat) : Nat := if 97 ≤ c ∧ c ≤ 122 then c - 32 else c

structure AliasRow where
  css : Text        -- hyphenated property name
  dom : Text        -- `_toDOMname(css)` as computed by the code
  eff : Text        -- name of the property that assigning the attribute `dom` actually sets
  deriving Repr, DecidableEq

structure NameTables where
  cssToDom : Re          -- `-[a-z]` (ignore-case)
  domToCss : Re          -- `([A-Z])[a-z]+`
  rows : List AliasRow   -- one row per known property, in the code's iteration order

/-- `_toDOMname` -/
def toDOM (T : NameTables) (n : Text) : Text :=
  reSub T.cssToDom (fun m => (m.drop 1).map upperC) n.length n

/-- `_toCSSname` -/
def toCSS (T : NameTables) (d : Text) : Text :=
  reSub T.domToCss (fun m => 45 :: lowerT m) d.length d

end CssVerif.Decl
