/-
L11b — owner links of the SUB-objects of a rule (Model/Links.lean keeps the rule tree only): declaration
blocks, properties, property values, selector lists, selectors, media lists.  Objects are ids in a store;
every object keeps the raw link field the code keeps (`_parentRule` / `_parent`) and its child ids.
"Assign TEXT" builds fresh objects whose constructor receives the owner (`parentRule=self` / `parent=self`);
"assign an OBJECT" adopts the given object: the code writes the object's link field and the new owner's
child field AND NOTHING ELSE — the previous owner is not told (it keeps listing the object).  Objects that
are replaced keep their stale link; they are no longer reachable from the rule.

Sources: css/cssstylerule.py (_setStyle, _setSelectorList, _setSelectorText, _setCssText), csspagerule.py /
marginrule.py / cssfontfacerule.py (_setStyle, same text), cssmediarule.py / cssimportrule.py (_setMedia),
cssstyledeclaration.py (_setCssText, setProperty, removeProperty; __setitem__/_setP call setProperty),
property.py (__init__: `self.seqs[1] = PropertyValue(parent=self)`; the value object is afterwards updated in
place, never replaced), selectorlist.py (__prepareset, appendSelector, _setSelectorText),
stylesheets/medialist.py (media queries carry no owner attribute: mediaText / appendMedium change no link).
-/
namespace CssVerif.Owners

inductive Obj
  | free                                                 -- not allocated
  | rule (style sl media : Option Nat)                    -- _style, _selectorList, _media (where the rule type has them)
  | block (pr : Option Nat) (props : List Nat)             -- CSSStyleDeclaration: _parentRule, seq
  | prop (par : Option Nat) (name : Nat) (value : Nat)     -- Property: _parent, name, seqs[1]
  | value (par : Option Nat)                              -- PropertyValue: parent
  | sellist (pr : Option Nat) (sels : List Nat)            -- SelectorList: _parentRule, seq
  | sel (par : Option Nat) (text : Nat)                   -- Selector: _parent, selectorText
  | media (pr : Option Nat)                               -- MediaList: _parentRule
  deriving Repr, DecidableEq

structure St where
  objs : Nat → Obj := fun _ => .free
  next : Nat := 0                                         -- ids are handed out in creation order

def set (st : St) (x : Nat) (o : Obj) : St := { st with objs := fun y => if y = x then o else st.objs y }

def parent : Obj → Option Nat
  | .block p _ | .prop p _ _ | .value p | .sellist p _ | .sel p _ | .media p => p
  | _ => none
def kids : Obj → List Nat
  | .rule s l m => s.toList ++ l.toList ++ m.toList
  | .block _ ps => ps | .prop _ _ v => [v] | .sellist _ ss => ss
  | _ => []
def nameOf : Obj → Option Nat | .prop _ n _ => some n | _ => none
def textOf : Obj → Option Nat | .sel _ t => some t | _ => none

/-! ### constructors (ids in pre-order: the object, then its children left to right) -/

/-- `Property(name, value, parent=par)`: `self.parent = parent; self.seqs[1] = PropertyValue(parent=self)` -/
def newProp (st : St) (par : Option Nat) (name : Nat) : St × Nat :=
  let p := st.next
  (set (set { st with next := p + 2 } p (.prop par name (p + 1))) (p + 1) (.value (some p)), p)

def newProps (st : St) (par : Option Nat) : List Nat → St × List Nat
  | [] => (st, [])
  | n :: ns => let a := newProp st par n; let b := newProps a.1 par ns; (b.1, a.2 :: b.2)

/-- `CSSStyleDeclaration(cssText, parentRule=par)`: every parsed property gets `parent=self` -/
def newBlock (st : St) (par : Option Nat) (names : List Nat) : St × Nat :=
  let b := st.next
  let a := newProps { st with next := b + 1 } (some b) names
  (set a.1 b (.block par a.2), b)

def newSel (st : St) (par : Option Nat) (text : Nat) : St × Nat :=
  (set { st with next := st.next + 1 } st.next (.sel par text), st.next)

def newSels (st : St) (par : Option Nat) : List Nat → St × List Nat
  | [] => (st, [])
  | t :: ts => let a := newSel st par t; let b := newSels a.1 par ts; (b.1, a.2 :: b.2)

/-- `SelectorList(selectorText, parentRule=par)`: every parsed selector gets `parent=self` -/
def newSelList (st : St) (par : Option Nat) (texts : List Nat) : St × Nat :=
  let l := st.next
  let a := newSels { st with next := l + 1 } (some l) texts
  (set a.1 l (.sellist par a.2), l)

/-- `MediaList(mediaText, parentRule=par)` -/
def newMedia (st : St) (par : Option Nat) : St × Nat :=
  (set { st with next := st.next + 1 } st.next (.media par), st.next)

/-- a freshly parsed rule: the parts its type has, each constructed with `parentRule=self` -/
def optSelList (st : St) (r : Nat) : Option (List Nat) → St × Option Nat
  | some ts => ((newSelList st (some r) ts).1, some (newSelList st (some r) ts).2) | none => (st, none)
def optBlock (st : St) (r : Nat) : Option (List Nat) → St × Option Nat
  | some ns => ((newBlock st (some r) ns).1, some (newBlock st (some r) ns).2) | none => (st, none)
def optMedia (st : St) (r : Nat) : Bool → St × Option Nat
  | true => ((newMedia st (some r)).1, some (newMedia st (some r)).2) | false => (st, none)
def newRule (st : St) (sels decls : Option (List Nat)) (media : Bool) : St × Nat :=
  let r := st.next
  let a := optSelList { st with next := r + 1 } r sels
  let b := optBlock a.1 r decls
  let c := optMedia b.1 r media
  (set c.1 r (.rule b.2 a.2 c.2), r)

/-! ### object assignment: `x._parentRule = self; self._x = x` (resp. `_parent`) — nothing else is written -/

def setStyleObj (st : St) (r x : Nat) : St :=
  match st.objs r, st.objs x with
  | .rule (some _) l m, .block _ ps => set (set st x (.block (some r) ps)) r (.rule (some x) l m)
  | _, _ => st

def setSelListObj (st : St) (r x : Nat) : St :=
  match st.objs r, st.objs x with
  | .rule s (some _) m, .sellist _ ss => set (set st x (.sellist (some r) ss)) r (.rule s (some x) m)
  | _, _ => st

def setMediaObj (st : St) (r x : Nat) : St :=
  match st.objs r, st.objs x with
  | .rule s l (some _), .media _ => set (set st x (.media (some r))) r (.rule s l (some x))
  | _, _ => st

/-- `setProperty(propertyObject)`: a present property of that name has its value TEXT updated (its value
object is kept, no link is written); otherwise `newp.parent = self; self.seq.append(newp)` -/
def setPropObj (st : St) (b p : Nat) : St :=
  match st.objs b, st.objs p with
  | .block pr ps, .prop _ n v =>
    if ps.any (fun q => nameOf (st.objs q) == some n) then st
    else set (set st p (.prop (some b) n v)) b (.block pr (ps ++ [p]))
  | _, _ => st

/-- `appendSelector(selectorObject)`: `newSelector._parent = self`; selectors of equal text are dropped -/
def appendSelObj (st : St) (l s : Nat) : St :=
  match st.objs l, st.objs s with
  | .sellist pr ss, .sel _ t =>
    set (set st s (.sel (some l) t)) l (.sellist pr (ss.filter (fun q => textOf (st.objs q) != some t) ++ [s]))
  | _, _ => st

/-! ### text assignment: the constructor is given the owner, then the same store as above -/

/-- `rule.style = text` (old block: stale `_parentRule`, unreachable) -/
def setStyleText (st : St) (r : Nat) (names : List Nat) : St :=
  let a := newBlock st (some r) names; setStyleObj a.1 r a.2
/-- `rule.selectorText = text`; `[]` = not wellformed: nothing stored -/
def setSelectorText (st : St) (r : Nat) (texts : List Nat) : St :=
  if texts.isEmpty then st else let a := newSelList st (some r) texts; setSelListObj a.1 r a.2
/-- `rule.media = text` -/
def setMediaText (st : St) (r : Nat) : St := let a := newMedia st (some r); setMediaObj a.1 r a.2
/-- `rule.cssText = text`: `SelectorList(parentRule=self)`, then `CSSStyleDeclaration(parentRule=self)`, both
stored through the property setters above (same ids and same final store as the code's order, in which the two
stores follow the two constructions) -/
def setRuleText (st : St) (r : Nat) (texts names : List Nat) : St :=
  let a := newSelList st (some r) texts; setStyleText (setSelListObj a.1 r a.2) r names
/-- `block.cssText = text`, in place: the block stays, `Property(parent=self)` for every declaration; the old
properties keep `parent = block` (stale, unreachable) -/
def setBlockText (st : St) (b : Nat) (names : List Nat) : St :=
  match st.objs b with
  | .block pr _ => let a := newProps st (some b) names; set a.1 b (.block pr a.2)
  | _ => st
/-- `setProperty(name, value)` / `block[name] = value`; the fresh `Property(.., parent=self)` is dropped when a
property of that name is present -/
def setPropText (st : St) (b : Nat) (name : Nat) : St :=
  match st.objs b with
  | .block _ ps =>
    if ps.any (fun q => nameOf (st.objs q) == some name) then st
    else let a := newProp st (some b) name; setPropObj a.1 b a.2
  | _ => st
/-- `removeProperty(name)`: the removed properties keep `parent = block` (stale, unreachable) -/
def removeProp (st : St) (b : Nat) (name : Nat) : St :=
  match st.objs b with
  | .block pr ps => set st b (.block pr (ps.filter (fun q => nameOf (st.objs q) != some name)))
  | _ => st
/-- `selectorList.selectorText = text`, in place; `[]` = not wellformed -/
def setSelListText (st : St) (l : Nat) (texts : List Nat) : St :=
  match st.objs l with
  | .sellist pr _ =>
    if texts.isEmpty then st else let a := newSels st (some l) texts; set a.1 l (.sellist pr a.2)
  | _ => st
/-- `appendSelector(text)`: `Selector(text, parent=self)` -/
def appendSelText (st : St) (l : Nat) (text : Nat) : St := let a := newSel st (some l) text; appendSelObj a.1 l a.2

inductive Op
  | styleText (r : Nat) (names : List Nat) | styleObj (r x : Nat) | ruleText (r : Nat) (texts names : List Nat)
  | blockText (b : Nat) (names : List Nat) | propText (b : Nat) (name : Nat) | propObj (b p : Nat)
  | removeProp (b : Nat) (name : Nat)
  | selectorText (r : Nat) (texts : List Nat) | selListObj (r x : Nat) | selListText (l : Nat) (texts : List Nat)
  | appendSelText (l : Nat) (text : Nat) | appendSelObj (l s : Nat)
  | mediaText (r : Nat) | mediaObj (r x : Nat)
  | mediaEdit (m : Nat)                                    -- medialist.mediaText = / appendMedium: no link
  | mkBlock (names : List Nat) | mkProp (name : Nat) | mkSelList (texts : List Nat) | mkSel (text : Nat)
  | mkMedia                                               -- detached objects (owner `None`)
  | mkRule (sels decls : Option (List Nat)) (media : Bool)
  deriving Repr

def step (st : St) : Op → St
  | .styleText r ns => setStyleText st r ns | .styleObj r x => setStyleObj st r x
  | .ruleText r ts ns => setRuleText st r ts ns
  | .blockText b ns => setBlockText st b ns | .propText b n => setPropText st b n
  | .propObj b p => setPropObj st b p | .removeProp b n => removeProp st b n
  | .selectorText r ts => setSelectorText st r ts | .selListObj r x => setSelListObj st r x
  | .selListText l ts => setSelListText st l ts
  | .appendSelText l t => appendSelText st l t | .appendSelObj l s => appendSelObj st l s
  | .mediaText r => setMediaText st r | .mediaObj r x => setMediaObj st r x
  | .mediaEdit _ => st
  | .mkBlock ns => (newBlock st none ns).1 | .mkProp n => (newProp st none n).1
  | .mkSelList ts => (newSelList st none ts).1 | .mkSel t => (newSel st none t).1
  | .mkMedia => (newMedia st none).1 | .mkRule ss ds m => (newRule st ss ds m).1

def run (st : St) (ops : List Op) : St := ops.foldl step st

/-! ### the property: every object reached from a rule names the container it was reached through -/

def valueOk (st : St) (p v : Nat) : Bool := match st.objs v with | .value par => par == some p | _ => false
def propOk (st : St) (b p : Nat) : Bool :=
  match st.objs p with | .prop par _ v => par == some b && valueOk st p v | _ => false
def blockOk (st : St) (r b : Nat) : Bool :=
  match st.objs b with | .block par ps => par == some r && ps.all (propOk st b) | _ => false
def selOk (st : St) (l s : Nat) : Bool := match st.objs s with | .sel par _ => par == some l | _ => false
def selListOk (st : St) (r l : Nat) : Bool :=
  match st.objs l with | .sellist par ss => par == some r && ss.all (selOk st l) | _ => false
def mediaOk (st : St) (r m : Nat) : Bool := match st.objs m with | .media par => par == some r | _ => false
def consistent (st : St) (r : Nat) : Bool :=
  match st.objs r with
  | .rule s l m => s.all (blockOk st r) && l.all (selListOk st r) && m.all (mediaOk st r)
  | _ => false

/-- the objects reachable from `x` within `d` containment steps, pre-order -/
def reach (st : St) : Nat → Nat → List Nat
  | 0, x => [x]
  | d + 1, x => x :: (kids (st.objs x)).flatMap (reach st d)

/-- what the differential check compares: every object reachable from the rule with its owner link -/
def dump (st : St) (r : Nat) : List (Nat × Option Nat) := (reach st 3 r).map fun x => (x, parent (st.objs x))

/-! ### an example history: two style rules; text edits; then rule 7 adopts the block of rule 0 -/
def exampleOps : List Op :=
  [.mkRule (some [10, 11]) (some [20, 21]) false,   -- 0: a,b {p;q}   list 1 (sels 2 3) block 4 (props 5/6 7/8)
   .mkRule (some [12]) (some [22]) false,           -- 9: c {r}       list 10 (sel 11) block 12 (prop 13/14)
   .propText 4 23, .removeProp 4 20, .appendSelText 1 10, .blockText 12 [24, 25], .selectorText 9 [13],
   .mkBlock [26],                                   -- 24: detached block (prop 25/26)
   .styleObj 9 24]                                  -- a detached block is adopted: fine
#eval (dump (run {} exampleOps) 0, consistent (run {} exampleOps) 0)
#eval (dump (run {} exampleOps) 9, consistent (run {} exampleOps) 9)
-- aliasing: rule 9 takes the block that rule 0 still lists; rule 0 now reaches a block owned by 9
#eval let st := run {} (exampleOps ++ [.styleObj 9 4]); (dump st 0, consistent st 0, dump st 9, consistent st 9)

end CssVerif.Owners

/-
## Line protocol for a differential check (Lean side: Driver/OwnOps.lean, command `own`)

request   own <roots> <ops>
  <roots>  ids of the rules to report, joined by `,`            e.g.  0,9
  <ops>    the history, operations joined by `,`, fields by `.`; a list of naturals is joined by `+`,
           the empty list is `_`, an absent part of a rule is `x`:
             nr.<sels|x>.<decls|x>.<0|1>   mkRule            parse a rule (selector texts, property names, media?)
             st.<r>.<names>                styleText         rule.style = "…"
             so.<r>.<x>                    styleObj          rule.style = blockObject
             rt.<r>.<texts>.<names>        ruleText          rule.cssText = "…"          (style rules)
             bt.<b>.<names>                blockText         block.cssText = "…"
             pt.<b>.<name>                 propText          block.setProperty(name, value) / block[name] = value
             po.<b>.<p>                    propObj           block.setProperty(propertyObject)
             rp.<b>.<name>                 removeProp        block.removeProperty(name)
             xt.<r>.<texts>                selectorText      rule.selectorText = "…"     (`_` = ill-formed text)
             lo.<r>.<x>                    selListObj        rule.selectorList = listObject
             lt.<l>.<texts>                selListText       list.selectorText = "…"     (`_` = ill-formed text)
             at.<l>.<text>                 appendSelText     list.appendSelector("…")
             ao.<l>.<s>                    appendSelObj      list.appendSelector(selectorObject)
             mt.<r>                        mediaText         rule.media = "…"
             mo.<r>.<x>                    mediaObj          rule.media = mediaListObject
             me.<m>                        mediaEdit         medialist.mediaText = "…" / appendMedium(…)
             nb.<names> np.<name> nl.<texts> ns.<text> nm    detached CSSStyleDeclaration / Property / SelectorList /
                                                             Selector / MediaList (owner None)
reply     one segment per operation, joined by ` | `; in a segment one report per root, joined by ` ; `;
          a report is  <0|1> <id>:<owner> <id>:<owner> …  — the check `consistent`, then every object reachable
          from the root in pre-order (rule, style, each property followed by its value, selector list, each
          selector, media list) with the id its link field names (`-` for None).
          `bad-op` if the request does not parse.

The harness side.  A property name k is a fixed injective table of valid property names (so that equal k ⇔ equal
normalised name), a selector text k the type selector `e<k>`; every text it sends is well-formed except the
explicit `_`.  Ids are the model's: a counter starting at 0; every constructing operation takes the next ids in
pre-order — Property: p, value; block: b, then each property; selector list: l, then each selector; rule: r,
[selector list], [block], [media list] — and the harness binds the Python objects it can reach from the object
just created to those ids in the same order (`id(obj)` → id).  Operations that construct nothing reachable take
no id: `pt` when a property of that name is present (the library drops the fresh Property), `xt`/`lt` with `_`.
`st` takes 1 + 2·|names|, `bt` 2·|names|, `pt` 2 or 0, `xt`/`nl` 1 + |texts|, `lt` |texts|, `at`/`ns`/`nm`/`mt` 1,
`np` 2, `nb` 1 + 2·|names|, `rt` (1 + |texts|) + (1 + 2·|names|).  Repeated names or texts inside one list are
fine (the parsers keep both objects; only setProperty / removeProperty / appendSelector compare them).
After every operation the harness walks each root the same way — `rule.style`, `style.getProperties(all=True)`,
`property.propertyValue`, `rule.selectorList`, its items, `rule.media` — and prints, for every object, its id and
the id bound to `parentRule` / `parent` (`-` for None, `?` for an object that has no id), and compares the
`<id>:<owner>` lists; the leading flag is the model's verdict and must be 1 exactly when every printed owner is
the object the walk came from.
-/
