/-
`serialize.Out` (C05): the list of output pieces and `Out.append`, which takes all spacing decisions of the
serialiser from the preferences.  `val` is the text after the type-specific rewriting of the PRE step
(`helper.string`, `helper.uri`, `_hash`, `cssText` of an object); everything that decides about white space is
transcribed.
-/
namespace CssVerif.Out

abbrev Text := List Nat

structure Prefs where
  spacer : Text := [32]
  listItemSpacer : Text := [32]
  propertyNameSpacer : Text := [32]
  paranthesisSpacer : Text := [32]
  selectorCombinatorSpacer : Text := [32]
  lineSeparator : Text := [10]
  indent : Text := [32, 32, 32, 32]
  keepComments : Bool := true
  indentClosingBrace : Bool := true
  level : Nat := 0
deriving Repr

inductive Ty | comment | s | string | uri | hash | func | styletext | other
deriving DecidableEq, Repr

/-- `str.isspace` on the characters the serialiser meets -/
def isSpaceC (c : Nat) : Bool := (9 ≤ c && c ≤ 13) || (28 ≤ c && c ≤ 32) || c == 0x85 || c == 0xa0

def stripBy (p : Nat → Bool) (s : Text) : Text := ((s.dropWhile p).reverse.dropWhile p).reverse

/-- `not s.strip(chars)` -/
def blankBy (p : Nat → Bool) (s : Text) : Bool := (stripBy p s).isEmpty

/-- `_remove_last_if_S(space)` -/
def removeLastIfS (p : Nat → Bool) (out : List Text) : List Text :=
  match out.getLast? with
  | some l => if blankBy p l then out.dropLast else out
  | none => out

/-- `val in s` for strings: substring -/
def isSub (val : Text) : Text → Bool
  | [] => val.isEmpty
  | c :: s => val.isPrefixOf (c :: s) || isSub val s

def str (s : String) : Text := s.toList.map Char.toNat

/-- `out.insert(-1, x)` -/
def insertBeforeLast (out : List Text) (x : Text) : List Text :=
  match out.reverse with
  | l :: r => (l :: x :: r).reverse
  | [] => [x]

/-- `text.split(sep)` for a non-empty separator: (pieces before the current one reversed, current piece reversed) -/
def splitAux (sep : Text) : Nat → Text → Text → List Text → List Text
  | 0, _, cur, acc => (cur.reverse :: acc).reverse
  | _, [], cur, acc => (cur.reverse :: acc).reverse
  | fuel + 1, c :: s, cur, acc =>
    if sep.isPrefixOf (c :: s) then splitAux sep fuel ((c :: s).drop sep.length) [] (cur.reverse :: acc)
    else splitAux sep fuel s (c :: cur) acc

def splitOn (sep text : Text) : List Text := splitAux sep (text.length + 1) text [] []

def joinWith (sep : Text) : List Text → Text
  | [] => []
  | [a] => a
  | a :: l => a ++ sep ++ joinWith sep l

/-- `_indentblock(text, level)` -/
def indentBlock (p : Prefs) (val : Text) (level : Nat) : Text :=
  if blankBy (fun c => c == 32 || c == 9) p.lineSeparator then val
  else joinWith p.lineSeparator
    (((splitOn p.lineSeparator val).filter (fun l => !l.isEmpty)).map (fun l => (List.replicate level p.indent).flatten ++ l))

def append (p : Prefs) (out : List Text) (val : Text) (ty : Ty) (space keepS indent alwaysS : Bool) : List Text :=
  if val.isEmpty && ty != .string && ty != .uri then out else
  -- PRE
  let pre : Option (List Text × Text) :=
    match ty with
    | .comment => if p.keepComments then some (out, val) else none
    | .s => if keepS then some (out, [32]) else none
    | .string => some (if p.spacer.isEmpty then removeLastIfS isSpaceC out else out, val)
    | .uri | .hash => some (out, val)
    | _ =>
      if isSub val (str "+>~,:{;)]/=}") && !alwaysS then some (removeLastIfS isSpaceC out, val)
      else if val == p.lineSeparator && !alwaysS then some (removeLastIfS (fun c => c == 32 || c == 9) out, val)
      else some (out, val)
  match pre with
  | none => out
  | some (out, val) =>
    -- APPEND
    let out :=
      if indent || (val == str "}" && p.indentClosingBrace) then out ++ [indentBlock p val (p.level + 1)]
      else (if val.getLast? == some 32 then removeLastIfS isSpaceC out else out) ++ [val]
    -- POST
    if alwaysS && isSub val (str "-+*/") then out ++ [[32]]
    else if isSub val (str "+>~") then insertBeforeLast out p.selectorCombinatorSpacer ++ [p.selectorCombinatorSpacer]
    else if val == str ")" && !keepS then out ++ [[32]]
    else if val == str "," then out ++ [p.listItemSpacer]
    else if val == str ":" then out ++ [p.propertyNameSpacer]
    else if val == str "{" then insertBeforeLast out p.paranthesisSpacer ++ [p.lineSeparator]
    else if val == str ";" || ty == .styletext then out ++ [p.lineSeparator]
    else if !isSub val (str "}[]()/=") && space && ty != .func then
      let out := out ++ [p.spacer]
      if ty != .string && p.spacer.isEmpty && out.getLast?.bind List.getLast? != some 32 then out ++ [[32]] else out
    else out

/-- `Out.value(delim='', end=None, keepS)` -/
def value (out : List Text) (keepS : Bool) : Text :=
  (if keepS then out else removeLastIfS isSpaceC out).flatten

end CssVerif.Out
