/-
L6 — `Selector._setSelectorText`: the token-combining pre-pass and the
`expected × context-stack` state machine, incl. namespace resolution and specificity.

`expected` is kept as the *string* the code uses and tested by substring search, exactly as
`'class' in expected` does in Python.
-/
import CssVerif.Model.Tokenizer
namespace CssVerif.Selector
open CssVerif

def str (s : String) : Text := s.toList.map Char.toNat

/-- Python `a in b` for strings -/
def isInfix (a b : Text) : Bool :=
  match b with
  | [] => a.isEmpty
  | _ :: t => a.isPrefixOf b || isInfix a t

def startsWith (s p : Text) : Bool := p.isPrefixOf s
def endsWith (s p : Text) : Bool := p.reverse.isPrefixOf s.reverse

abbrev T2 := String × Text       -- (type, value)

/-! ### pre-pass -/

def prepassStep (T : Tables) (acc : List T2) (t : T2) : List T2 :=
  -- `acc` is kept reversed: head = tokens[-1]
  let typ := t.1
  let val := t.2
  match acc with
  | [] =>
    if val == str "*" then [("universal", val)]
    else if val == str "|" then [("namespace_prefix", val)]
    else [t]
  | last :: rest =>
    if val == str ":" && last.2 == str ":" then (typ, str "::") :: rest
    else if typ == "IDENT" && last.2 == str "." then ("class", str "." ++ val) :: rest
    else if typ == "IDENT" && startsWith last.2 (str ":") && !endsWith last.2 (str "(") then
      ((if startsWith last.2 (str "::") then "pseudo-element" else "pseudo-class"), last.2 ++ val) :: rest
    else if typ == "FUNCTION" && normalize T val == str "not(" && last.2 == str ":" then
      ("negation", str ":" ++ val) :: rest
    else if typ == "FUNCTION" && startsWith last.2 (str ":") then
      ((if startsWith last.2 (str "::") then "pseudo-element" else "pseudo-class"), last.2 ++ val) :: rest
    else if val == str "*" && last.1 == "namespace_prefix" && endsWith last.2 (str "|") then
      ("universal", last.2 ++ val) :: rest
    else if val == str "*" then ("universal", val) :: acc
    else if val == str "|" && (last.1 == "IDENT" || last.1 == "universal") && !(last.2.contains 124) then
      ("namespace_prefix", last.2 ++ str "|") :: rest
    else if val == str "|" then ("namespace_prefix", val) :: acc
    else t :: acc

def prepass (T : Tables) (ts : List T2) : List T2 := (ts.foldl (prepassStep T) []).reverse

/-! ### the state machine -/

inductive Ns
  | none        -- Python None: no namespace information
  | any         -- `*|`
  | empty       -- `|name`: no namespace
  | uri (u : Text)
  deriving DecidableEq, Repr

structure Item where
  typ : String
  val : Text
  ns : Option Ns        -- `some` for (namespaceURI, name) tuples
  deriving DecidableEq, Repr

structure St where
  expected : Text
  context : List String        -- head = innermost; bottom = ""
  pfx : Option Text            -- saved `_PREFIX`
  b : Nat
  c : Nat
  d : Nat
  items : List Item            -- reversed
  wellformed : Bool
  nsErr : Bool                 -- an undeclared prefix was met (NamespaceErr)
  firstErr : String            -- class of the first error logged ("" = none)
  deriving Repr

def sss : Text := str "type_selector universal HASH class attrib pseudo negation "
def sss2 : Text := str "HASH class attrib pseudo negation "
def elementName : Text := str "element_name"
def negationArg : Text := str "type_selector universal HASH class attrib pseudo"
def negationEnd : Text := str ")"
def attname : Text := str "prefix attribute"
def attname2 : Text := str "attribute"
def attcombinator : Text := str "combinator ]"
def attvalue : Text := str "value"
def attend : Text := str "]"
def expressionStart : Text := str "PLUS - DIMENSION NUMBER STRING IDENT"
def expression : Text := expressionStart ++ str " )"
def combinator : Text := str " combinator"

def init : St :=
  { expected := sss, context := [""], pfx := none, b := 0, c := 0, d := 0, items := [], wellformed := true,
    nsErr := false, firstErr := "" }

def ctx (st : St) : String := st.context.head?.getD ""

abbrev NsMap := List (Text × Text)     -- prefix → URI ('' = default namespace)

def nsGet (m : NsMap) (p : Text) : Option Text := (m.find? (·.1 == p)).map (·.2)

/-- `append(seq, val, typ)` -/
def append (m : NsMap) (st : St) (val : Text) (typ : String) : St :=
  if typ == "_PREFIX" then { st with pfx := some (val.take (val.length - 1)) } else
  -- prefix and bare name
  let pv : Option Text × Text × St :=
    match st.pfx with
    | some p => (some p, val, { st with pfx := none })
    | none =>
      if typ == "universal" && val.contains 124 then
        let i := (val.findIdx? (· == 124)).getD 0
        (some (val.take i), val.drop (i + 1), st)
      else (none, val, st)
  let pfx0 := pv.1
  let name := pv.2.1
  let st := pv.2.2
  let isSel := typ.endsWith "-selector" || typ == "universal"
  let namespaced := isSel && !(typ == "attribute-selector" && (pfx0.isNone || pfx0 == some []))
  -- namespace resolution: `none` result = undeclared prefix
  let res : Option (Option Ns) :=
    if namespaced then
      match pfx0 with
      | some p =>
        if p == str "*" then some (some .any)
        else if p == [] then some (some .empty)
        else match nsGet m p with
          | some u => some (some (.uri u))
          | none => none
      | none => some (some (match nsGet m [] with | some u => .uri u | none => .none))
    else some none
  match res with
  | none =>
    { st with wellformed := false, nsErr := true,
              firstErr := (if st.firstErr == "" then "NamespaceErr" else st.firstErr) }
  | some ns =>
    let c := ctx st
    let counts := c == "" || c == "negation"
    let st :=
      if counts then
        if typ == "id" then { st with b := st.b + 1 }
        else if (ns.isNone && name == str "[") || typ == "class" || typ == "pseudo-class" then
          (if typ != "pseudo-class" || name != str ":where(" then { st with c := st.c + 1 } else st)
        else if typ == "type-selector" || typ == "negation-type-selector" || typ == "pseudo-element" then
          { st with d := st.d + 1 }
        else st
      else st
    { st with items := ⟨typ, name, ns⟩ :: st.items }

def fail (st : St) : St :=
  { st with wellformed := false, firstErr := (if st.firstErr == "" then "SyntaxErr" else st.firstErr) }

def failWith (st : St) (e : String) : St :=
  { st with wellformed := false, firstErr := (if st.firstErr == "" then e else st.firstErr) }

def lowerName (T : Tables) (v : Text) : Text := normalize T v

def legacyPseudoElements : List Text := [str ":first-line", str ":first-letter", str ":before", str ":after"]

/-- one token through its production -/
def step (T : Tables) (m : NsMap) (st : St) (t : T2) : St :=
  let typ := t.1
  let val := t.2
  let c := ctx st
  let exp := st.expected
  let has (s : String) : Bool := isInfix (str s) exp
  let ret (st : St) (e : Text) : St := { st with expected := e }
  if typ == "COMMENT" then append m st val "COMMENT"
  else if typ == "S" then
    if c.startsWith "pseudo-" then
      match st.items with
      | last :: _ => if !(isInfix last.val (str "+-")) || last.ns.isSome then append m st (str " ") "S" else st
      | [] => st
    else if c != "attrib" && has "combinator" then ret (append m st (str " ") "descendant") (sss ++ combinator)
    else st
  else if typ == "universal" then
    if has "universal" then
      let st := append m st val "universal"
      if c == "negation" then ret st negationEnd else ret st (sss2 ++ combinator)
    else fail st
  else if typ == "namespace_prefix" then
    if c == "attrib" && has "prefix" then ret (append m st val "_PREFIX") attname2
    else if has "type_selector" then ret (append m st val "_PREFIX") elementName
    else fail st
  else if typ == "pseudo-class" || typ == "pseudo-element" then
    let v := lowerName T val
    if has "pseudo" then
      let typ' := if legacyPseudoElements.contains v then "pseudo-element" else typ
      let st := append m st v typ'
      if endsWith v (str "(") then ret { st with context := typ' :: st.context } expressionStart
      else if c == "negation" then ret st negationEnd
      else if typ' == "pseudo-element" then ret st combinator
      else ret st (sss2 ++ combinator)
    else fail st
  else if typ == "NUMBER" || typ == "DIMENSION" then
    if c.startsWith "pseudo-" then ret (append m st val typ) expression else fail st
  else if typ == "PREFIXMATCH" || typ == "SUFFIXMATCH" || typ == "SUBSTRINGMATCH" || typ == "DASHMATCH" ||
      typ == "INCLUDES" then
    if c == "attrib" && has "combinator" then ret (append m st val typ.toLower) attvalue else fail st
  else if typ == "STRING" then
    -- `_stringtokenvalue`: quotes removed, escaped quote resolved
    -- `_stringtokenvalue`: the surrounding quotes are removed (escaped quotes inside are not generated)
    let sv := (val.drop 1).take (val.length - 2)
    if c == "attrib" && has "value" then ret (append m st sv typ) attend
    else if c.startsWith "pseudo-" then ret (append m st sv typ) expression
    else fail st
  else if typ == "IDENT" then
    if c == "attrib" && has "attribute" then ret (append m st val "attribute-selector") attcombinator
    else if c == "attrib" && has "value" then ret (append m st val "attribute-value") attend
    else if c == "negation" then ret (append m st val "negation-type-selector") negationEnd
    else if c.startsWith "pseudo-" then ret (append m st val typ) expression
    else if has "type_selector" || exp == elementName then ret (append m st val "type-selector") (sss2 ++ combinator)
    else fail st
  else if typ == "class" then
    if has "class" then
      let st := append m st val "class"
      if c == "negation" then ret st negationEnd else ret st (sss2 ++ combinator)
    else fail st
  else if typ == "HASH" then
    if has "HASH" then
      let st := append m st val "id"
      if c == "negation" then ret st negationEnd else ret st (sss2 ++ combinator)
    else fail st
  else if typ == "negation" then
    if has "negation" then
      ret (append m { st with context := "negation" :: st.context } (lowerName T val) "negation-start") negationArg
    else fail st
  else if typ == "ATKEYWORD" then fail st
  else if typ == "CHAR" then
    if val == str "]" && c == "attrib" && has "]" then
      let st := append m st val "attribute-end"
      let st := { st with context := st.context.drop 1 }
      if ctx st == "negation" then ret st negationEnd else ret st (sss2 ++ combinator)
    else if val == str "=" && c == "attrib" && has "combinator" then ret (append m st val "equals") attvalue
    else if val == str ")" && c == "negation" && has ")" then
      let st := append m st val "negation-end"
      ret { st with context := st.context.drop 1 } (sss ++ combinator)
    else if isInfix val (str "+-") && c.startsWith "pseudo-" then
      let nm := if val == str "+" then "plus" else if val == str "-" then "minus" else "KeyError"
      match st.items with
      | last :: rest =>
        if val == str "+" && last.val == str " " && last.ns.isNone then
          ret { st with items := ⟨nm, val, none⟩ :: rest } expression
        else ret (append m st val nm) expression
      | [] => ret (append m st val nm) expression
    else if val == str ")" && c.startsWith "pseudo-" && exp == expression then
      let st := append m st val "function-end"
      let st := { st with context := st.context.drop 1 }
      if ctx st == "negation" then ret st negationEnd
      else if c == "pseudo-element" then ret st combinator else ret st (sss ++ combinator)
    else if val == str "[" && has "attrib" then
      let st := append m st val "attribute-start"
      ret { st with context := "attrib" :: st.context } attname
    else if isInfix val (str "+>~") && has "combinator" then
      let nm := if val == str ">" then "child" else if val == str "+" then "adjacent-sibling"
        else if val == str "~" then "following-sibling" else "KeyError"
      match st.items with
      | last :: rest =>
        if last.val == str " " && last.ns.isNone then ret { st with items := ⟨nm, val, none⟩ :: rest } sss
        else ret (append m st val nm) sss
      | [] => ret (append m st val nm) sss
    else if val == str "," then failWith st "InvalidModificationErr"
    else fail st
  else fail st       -- no production for this token type

structure Result where
  wellformed : Bool
  nsErr : Bool
  firstErr : String
  spec : Nat × Nat × Nat
  items : List Item
  deriving Repr

/-- the whole of `_setSelectorText` after tokenizing -/
def parse (T : Tables) (m : NsMap) (toks : List T2) : Result :=
  let st := (prepass T toks).foldl (step T m) init
  let items0 := st.items
  let wf := st.wellformed
    && !(st.context.length > 1 || items0.isEmpty)
    && !(st.expected == elementName)
    && !(st.expected == sss && !items0.isEmpty)
  -- a trailing whitespace-only item is dropped
  let items1 := match items0 with
    | last :: rest => if last.ns.isNone && last.val.all (fun c => c == 32 || c == 9 || c == 10 || c == 13 || c == 12)
        && !(last.typ == "COMMENT") then rest else items0
    | [] => []
  { wellformed := wf, nsErr := st.nsErr,
    firstErr := (if st.firstErr != "" then st.firstErr else if wf then "" else "SyntaxErr"), spec := (st.b, st.c, st.d), items := items1.reverse }

end CssVerif.Selector
