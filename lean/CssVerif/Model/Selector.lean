/-
L6 — `Selector._setSelectorText`: the token-combining pre-pass and the
`expected × context-stack` state machine, incl. namespace resolution and specificity.

`expected` is kept as the *string* the code uses and tested by substring search, exactly as
`'class' in expected` does in Python.  Token / item types and contexts are enumerations (the
driver prints the code's names).
-/
import CssVerif.Model.Tokenizer
namespace CssVerif.Selector
open CssVerif

def str (s : String) : Text := s.toList.map Char.toNat

/-- Python `a in b` for strings -/
def isInfix (a b : Text) : Bool :=
  match b with
  | [] => a.isEmpty
  | _ :: t => a.isPrefixOf b || isInfix a t

def startsWith (s p : Text) : Bool := p.isPrefixOf s
def endsWith (s p : Text) : Bool := p.reverse.isPrefixOf s.reverse

/-- token types that have a production in the selector parser (after the pre-pass) -/
inductive TT
  | comment | s | universal | nsprefix | pclass | pelem | number | dimension
  | prefixmatch | suffixmatch | substringmatch | dashmatch | includes
  | string | ident | cls | hash | negation | atkw | char | func | other
  deriving DecidableEq, Repr, Inhabited

def TT.ofString : String → TT
  | "COMMENT" => .comment | "S" => .s | "NUMBER" => .number | "DIMENSION" => .dimension
  | "PREFIXMATCH" => .prefixmatch | "SUFFIXMATCH" => .suffixmatch | "SUBSTRINGMATCH" => .substringmatch
  | "DASHMATCH" => .dashmatch | "INCLUDES" => .includes | "STRING" => .string | "IDENT" => .ident
  | "HASH" => .hash | "ATKEYWORD" => .atkw | "CHAR" => .char | "FUNCTION" => .func
  | _ => .other

abbrev T2 := TT × Text       -- (type, value)

/-- item types of the selector's sequence -/
inductive IT
  | comment | s | descendant | universal | typesel | negtypesel | attrsel | attrvalue | attrstart | attrend
  | equals | prefixmatch | suffixmatch | substringmatch | dashmatch | includes
  | string | ident | number | dimension | cls | id | pclass | pelem
  | negstart | negend | funcend | plus | minus | child | adjacent | following | keyError
  deriving DecidableEq, Repr, Inhabited

inductive Ctx | root | attrib | negation | pclass | pelem
  deriving DecidableEq, Repr, Inhabited

def Ctx.isPseudo : Ctx → Bool
  | .pclass | .pelem => true
  | _ => false

/-! ### pre-pass -/

def prepassStep (T : Tables) (acc : List T2) (t : T2) : List T2 :=
  -- `acc` is kept reversed: head = tokens[-1]
  let typ := t.1
  let val := t.2
  match acc with
  | [] =>
    if val == str "*" then [(.universal, val)]
    else if val == str "|" then [(.nsprefix, val)]
    else [t]
  | last :: rest =>
    if val == str ":" && last.2 == str ":" then (typ, str "::") :: rest
    else if typ == .ident && last.2 == str "." then (.cls, str "." ++ val) :: rest
    else if typ == .ident && startsWith last.2 (str ":") && !endsWith last.2 (str "(") then
      ((if startsWith last.2 (str "::") then TT.pelem else TT.pclass), last.2 ++ val) :: rest
    else if typ == .func && normalize T val == str "not(" && last.2 == str ":" then
      (.negation, str ":" ++ val) :: rest
    else if typ == .func && startsWith last.2 (str ":") then
      ((if startsWith last.2 (str "::") then TT.pelem else TT.pclass), last.2 ++ val) :: rest
    else if val == str "*" && last.1 == .nsprefix && endsWith last.2 (str "|") then
      (.universal, last.2 ++ val) :: rest
    else if val == str "*" then (.universal, val) :: acc
    else if val == str "|" && (last.1 == .ident || last.1 == .universal) && !(last.2.contains 124) then
      (.nsprefix, last.2 ++ str "|") :: rest
    else if val == str "|" then (.nsprefix, val) :: acc
    else t :: acc

def prepass (T : Tables) (ts : List T2) : List T2 := (ts.foldl (prepassStep T) []).reverse

/-! ### the state machine -/

inductive Ns
  | none        -- Python None: no namespace information
  | any         -- `*|`
  | empty       -- `|name`: no namespace
  | uri (u : Text)
  deriving DecidableEq, Repr

structure Item where
  typ : IT
  val : Text
  ns : Option Ns        -- `some` for (namespaceURI, name) tuples
  deriving DecidableEq, Repr

structure St where
  expected : Text
  context : List Ctx           -- head = innermost; bottom = root
  pfx : Option Text            -- saved `_PREFIX`
  b : Nat
  c : Nat
  d : Nat
  items : List Item            -- reversed
  wellformed : Bool
  firstErr : String            -- class of the first error logged ("" = none)
  deriving Repr

def sss : Text := str "type_selector universal HASH class attrib pseudo negation "
def sss2 : Text := str "HASH class attrib pseudo negation "
def elementName : Text := str "element_name"
def negationArg : Text := str "type_selector universal HASH class attrib pseudo"
def negationEnd : Text := str ")"
def attname : Text := str "prefix attribute"
def attname2 : Text := str "attribute"
def attcombinator : Text := str "combinator ]"
def attvalue : Text := str "value"
def attend : Text := str "]"
def expressionStart : Text := str "PLUS - DIMENSION NUMBER STRING IDENT"
def expression : Text := expressionStart ++ str " )"
def combinator : Text := str " combinator"

def init : St :=
  { expected := sss, context := [.root], pfx := none, b := 0, c := 0, d := 0, items := [], wellformed := true,
    firstErr := "" }

def ctx (st : St) : Ctx := st.context.head?.getD .root

abbrev NsMap := List (Text × Text)     -- prefix → URI ('' = default namespace)

def nsGet (m : NsMap) (p : Text) : Option Text := (m.find? (·.1 == p)).map (·.2)

def failWith (st : St) (e : String) : St :=
  { st with wellformed := false, firstErr := (if st.firstErr == "" then e else st.firstErr) }

def fail (st : St) : St := failWith st "SyntaxErr"

/-- the `_PREFIX` pseudo-append: remember the prefix for the next name -/
def savePrefix (st : St) (val : Text) : St := { st with pfx := some (val.take (val.length - 1)) }

def IT.isSelector : IT → Bool
  | .typesel | .negtypesel | .attrsel | .universal => true
  | _ => false

/-- specificity bookkeeping of `append` -/
def count (st : St) (typ : IT) (name : Text) (isTuple : Bool) : St :=
  let c := ctx st
  if c == .root || c == .negation then
    if typ == .id then { st with b := st.b + 1 }
    else if (!isTuple && name == str "[") || typ == .cls || typ == .pclass then
      (if typ != .pclass || name != str ":where(" then { st with c := st.c + 1 } else st)
    else if typ == .typesel || typ == .negtypesel || typ == .pelem then { st with d := st.d + 1 }
    else st
  else st

/-- `namespaces.get('', None)` -/
def defaultNs (m : NsMap) : Ns := match nsGet m [] with | some u => .uri u | none => .none

/-- `append(seq, val, typ)` -/
def append (m : NsMap) (st : St) (val : Text) (typ : IT) : St :=
  -- prefix and bare name
  let pv : Option Text × Text × St :=
    match st.pfx with
    | some p => (some p, val, { st with pfx := none })
    | none =>
      if typ == .universal && val.contains 124 then
        let i := (val.findIdx? (· == 124)).getD 0
        (some (val.take i), val.drop (i + 1), st)
      else (none, val, st)
  let pfx0 := pv.1
  let name := pv.2.1
  let st := pv.2.2
  let namespaced := typ.isSelector && !(typ == .attrsel && (pfx0.isNone || pfx0 == some []))
  -- namespace resolution: `none` result = undeclared prefix
  let res : Option (Option Ns) :=
    if namespaced then
      match pfx0 with
      | some p =>
        if p == str "*" then some (some .any)
        else if p == [] then some (some .empty)
        else match nsGet m p with
          | some u => some (some (.uri u))
          | none => none
      | none => some (some (defaultNs m))
    else some none
  match res with
  | none => failWith st "NamespaceErr"
  | some ns =>
    let st := count st typ name ns.isSome
    { st with items := ⟨typ, name, ns⟩ :: st.items }

def legacyPseudoElements : List Text := [str ":first-line", str ":first-letter", str ":before", str ":after"]

def matchItem : TT → IT
  | .prefixmatch => .prefixmatch | .suffixmatch => .suffixmatch | .substringmatch => .substringmatch
  | .dashmatch => .dashmatch | _ => .includes

def ret (st : St) (e : Text) : St := { st with expected := e }

def isWsText (t : Text) : Bool := t.all (fun c => c == 32 || c == 9 || c == 10 || c == 13 || c == 12)

/-- the CHAR production -/
def stepChar (m : NsMap) (st : St) (val : Text) : St :=
  let c := ctx st
  let exp := st.expected
  let has (s : String) : Bool := isInfix (str s) exp
  if val == str "]" && c == .attrib && has "]" then
    let st := append m st val .attrend
    let st := { st with context := st.context.drop 1 }
    if ctx st == .negation then ret st negationEnd else ret st (sss2 ++ combinator)
  else if val == str "=" && c == .attrib && has "combinator" then ret (append m st val .equals) attvalue
  else if val == str ")" && c == .negation && has ")" then
    let st := append m st val .negend
    ret { st with context := st.context.drop 1 } (sss ++ combinator)
  else if isInfix val (str "+-") && c.isPseudo then
    let nm := if val == str "+" then IT.plus else if val == str "-" then IT.minus else IT.keyError
    match st.items with
    | last :: rest =>
      if val == str "+" && last.val == str " " && last.ns.isNone then
        ret { st with items := ⟨nm, val, none⟩ :: rest } expression
      else ret (append m st val nm) expression
    | [] => ret (append m st val nm) expression
  else if val == str ")" && c.isPseudo && exp == expression then
    let st := append m st val .funcend
    let st := { st with context := st.context.drop 1 }
    if ctx st == .negation then ret st negationEnd
    else if c == .pelem then ret st combinator else ret st (sss ++ combinator)
  else if val == str "[" && has "attrib" then
    let st := append m st val .attrstart
    ret { st with context := .attrib :: st.context } attname
  else if isInfix val (str "+>~") && has "combinator" then
    let nm := if val == str ">" then IT.child else if val == str "+" then IT.adjacent
      else if val == str "~" then IT.following else IT.keyError
    match st.items with
    | last :: rest =>
      if last.val == str " " && last.ns.isNone then ret { st with items := ⟨nm, val, none⟩ :: rest } sss
      else ret (append m st val nm) sss
    | [] => ret (append m st val nm) sss
  else if val == str "," then failWith st "InvalidModificationErr"
  else fail st

/-- one token through its production -/
def step (T : Tables) (m : NsMap) (st : St) (t : T2) : St :=
  let val := t.2
  let c := ctx st
  let exp := st.expected
  let has (s : String) : Bool := isInfix (str s) exp
  match t.1 with
  | .comment => append m st val .comment
  | .s =>
    if c.isPseudo then
      match st.items with
      | last :: _ => if !(isInfix last.val (str "+-")) || last.ns.isSome then append m st (str " ") .s else st
      | [] => st
    else if c != .attrib && has "combinator" then ret (append m st (str " ") .descendant) (sss ++ combinator)
    else st
  | .universal =>
    if has "universal" then
      let st := append m st val .universal
      if c == .negation then ret st negationEnd else ret st (sss2 ++ combinator)
    else fail st
  | .nsprefix =>
    if c == .attrib && has "prefix" then ret (savePrefix st val) attname2
    else if has "type_selector" then ret (savePrefix st val) elementName
    else fail st
  | .pclass | .pelem =>
    let v := normalize T val
    if has "pseudo" then
      let isElem := legacyPseudoElements.contains v || t.1 == .pelem
      let st := append m st v (if isElem then .pelem else .pclass)
      if endsWith v (str "(") then ret { st with context := (if isElem then Ctx.pelem else Ctx.pclass) :: st.context } expressionStart
      else if c == .negation then ret st negationEnd
      else if isElem then ret st combinator
      else ret st (sss2 ++ combinator)
    else fail st
  | .number => if c.isPseudo then ret (append m st val .number) expression else fail st
  | .dimension => if c.isPseudo then ret (append m st val .dimension) expression else fail st
  | .prefixmatch | .suffixmatch | .substringmatch | .dashmatch | .includes =>
    if c == .attrib && has "combinator" then ret (append m st val (matchItem t.1)) attvalue else fail st
  | .string =>
    -- `_stringtokenvalue`: the surrounding quotes are removed (escaped quotes inside are not generated)
    let sv := (val.drop 1).take (val.length - 2)
    if c == .attrib && has "value" then ret (append m st sv .string) attend
    else if c.isPseudo then ret (append m st sv .string) expression
    else fail st
  | .ident =>
    if c == .attrib && has "attribute" then ret (append m st val .attrsel) attcombinator
    else if c == .attrib && has "value" then ret (append m st val .attrvalue) attend
    else if c == .negation then ret (append m st val .negtypesel) negationEnd
    else if c.isPseudo then ret (append m st val .ident) expression
    else if has "type_selector" || exp == elementName then ret (append m st val .typesel) (sss2 ++ combinator)
    else fail st
  | .cls =>
    if has "class" then
      let st := append m st val .cls
      if c == .negation then ret st negationEnd else ret st (sss2 ++ combinator)
    else fail st
  | .hash =>
    if has "HASH" then
      let st := append m st val .id
      if c == .negation then ret st negationEnd else ret st (sss2 ++ combinator)
    else fail st
  | .negation =>
    if has "negation" then
      ret (append m { st with context := .negation :: st.context } (normalize T val) .negstart) negationArg
    else fail st
  | .atkw => fail st
  | .char => stepChar m st val
  | .func | .other => fail st       -- no production for this token type

structure Result where
  wellformed : Bool
  firstErr : String
  spec : Nat × Nat × Nat
  items : List Item
  deriving Repr

def run (T : Tables) (m : NsMap) (toks : List T2) : St := toks.foldl (step T m) init

/-- post-conditions of `_setSelectorText` -/
def finish (st : St) : Result :=
  let items0 := st.items
  let wf := st.wellformed
    && !(st.context.length > 1 || items0.isEmpty)
    && !(st.expected == elementName)
    && !(st.expected == sss && !items0.isEmpty)
  -- a trailing whitespace-only item is dropped
  let items1 := match items0 with
    | last :: rest => if last.ns.isNone && isWsText last.val && !(last.typ == IT.comment) then rest else items0
    | [] => []
  { wellformed := wf,
    firstErr := (if st.firstErr != "" then st.firstErr else if wf then "" else "SyntaxErr"),
    spec := (st.b, st.c, st.d), items := items1.reverse }

/-- the whole of `_setSelectorText` after tokenizing -/
def parse (T : Tables) (m : NsMap) (toks : List T2) : Result := finish (run T m (prepass T toks))

end CssVerif.Selector
