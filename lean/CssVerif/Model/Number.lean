/-
L7 (numbers) — `DimensionValue` parsing and the number branch of `CSSSerializer.do_css_Value`.

Python keeps a literal without '.' as `int` and one with '.' as `float` (the correctly rounded
nearest IEEE double).  Both are modelled exactly: values are fractions `num / den` of unbounded
integers; `toDouble` rounds a decimal to the nearest double (ties to even), `fmt6` is `'%f'`.
-/
import CssVerif.Model.Tokenizer
namespace CssVerif.Number

/-- non-negative fraction num/den (den > 0), with a separate sign -/
structure Q where
  neg : Bool
  num : Nat
  den : Nat
  deriving Repr, DecidableEq

def Q.isZero (q : Q) : Bool := q.num == 0
def Q.lt (a b : Q) : Bool :=
  -- signed comparison a < b
  match a.neg && !a.isZero, b.neg && !b.isZero with
  | false, false => a.num * b.den < b.num * a.den
  | true, true => b.num * a.den < a.num * b.den
  | true, false => true
  | false, true => false
def Q.absLt (a b : Q) : Bool := a.num * b.den < b.num * a.den
def Q.isInt (q : Q) : Bool := q.num % q.den == 0

def digitsVal (ds : List Nat) : Nat := ds.foldl (fun a d => 10 * a + (d - 48)) 0
def isDigit (c : Nat) : Bool := 48 ≤ c && c ≤ 57

def log2F : Nat → Nat → Nat
  | 0, _ => 0
  | f + 1, n => if n ≥ 2 then log2F f (n / 2) + 1 else 0

def scaleBy (num den : Nat) (e : Int) : Nat × Nat :=
  if e ≥ 0 then (num, den * 2 ^ e.toNat) else (num * 2 ^ (-e).toNat, den)

/-- move the exponent until the quotient lies in [2^52, 2^53) -/
def adjustExp (num den : Nat) : Nat → Int → Int
  | 0, e => e
  | f + 1, e =>
    let nd := scaleBy num den e
    let q := nd.1 / nd.2
    if q < 2 ^ 52 then adjustExp num den f (e - 1)
    else if q ≥ 2 ^ 53 then adjustExp num den f (e + 1)
    else e

/-- nearest double of `num/den` (num, den > 0), as an exact fraction: mantissa in [2^52, 2^53),
ties to even.  Subnormals / overflow are outside the modelled range. -/
def roundToDouble (num den : Nat) : Nat × Nat :=
  if num == 0 then (0, 1) else
  let e0 : Int := (log2F (num + 1) num : Int) - (log2F (den + 1) den : Int) - 53
  let pick := adjustExp num den 4 e0
  let nd := scaleBy num den pick
  let q := nd.1 / nd.2
  let r := nd.1 % nd.2
  let q' := if 2 * r > nd.2 then q + 1 else if 2 * r < nd.2 then q else (if q % 2 == 1 then q + 1 else q)
  if pick ≥ 0 then (q' * 2 ^ pick.toNat, 1) else (q', 2 ^ (-pick).toNat)

structure Parsed where
  sign : Option Nat        -- literal sign character (43 '+', 45 '-') or none
  isFloat : Bool           -- literal contained a '.'
  value : Q                -- exact value of the Python number (double-rounded if float)
  dim : Text               -- unit as stored (normalised text after the number), may be empty
  deriving Repr

/-- `__reUnNumDim` on the normalised text: sign, `\d*\.\d+ | \d+`, rest -/
def signText : Option Nat → Text
  | some c => [c]
  | none => []

def splitSign (t : Text) : Option Nat × Text :=
  match t with
  | 43 :: r => (some 43, r)
  | 45 :: r => (some 45, r)
  | r => (none, r)

def splitNum (t : Text) : Option (Option Nat × List Nat × Option (List Nat) × Text) :=
  let sign := (splitSign t).1
  let r := (splitSign t).2
  let ip := r.takeWhile isDigit
  let r1 := r.dropWhile isDigit
  match r1 with
  | 46 :: r2 =>
    let fp := r2.takeWhile isDigit
    if fp.isEmpty then (if ip.isEmpty then none else some (sign, ip, none, r1))
    else some (sign, ip, some fp, r2.dropWhile isDigit)
  | _ => if ip.isEmpty then none else some (sign, ip, none, r1)

/-- `DimensionValue._setCssText` value extraction from the (already normalised) token text -/
def parseNum (t : Text) : Option Parsed :=
  match splitNum t with
  | none => none
  | some (sign, ip, none, rest) =>
    some { sign := sign, isFloat := false, value := ⟨sign == some 45, digitsVal ip, 1⟩, dim := rest }
  | some (sign, ip, some fp, rest) =>
    let num := digitsVal (ip ++ fp)
    let den := 10 ^ fp.length
    let (n, d) := roundToDouble num den
    some { sign := sign, isFloat := true, value := ⟨sign == some 45, n, d⟩, dim := rest }

/-- round |q|·10^6 to an integer, ties to even (what `'%f'` prints) -/
def round6 (q : Q) : Nat :=
  let n := q.num * 1000000
  let k := n / q.den
  let r := n % q.den
  if 2 * r > q.den then k + 1 else if 2 * r < q.den then k else (if k % 2 == 1 then k + 1 else k)

/-- decimal digits (as code points) of a natural number, most significant first -/
def toDigitsAux : Nat → Nat → List Nat → List Nat
  | 0, _, acc => acc
  | fuel + 1, n, acc => if n < 10 then (48 + n) :: acc else toDigitsAux fuel (n / 10) ((48 + n % 10) :: acc)

def natDigits (n : Nat) : List Nat := toDigitsAux (n + 1) n []

/-- the six fraction digits of `n < 10^6` -/
def pad6 (n : Nat) : List Nat :=
  [48 + n / 100000 % 10, 48 + n / 10000 % 10, 48 + n / 1000 % 10, 48 + n / 100 % 10, 48 + n / 10 % 10, 48 + n % 10]

/-- `'%f' % value` -/
def fmtF (q : Q) : Text :=
  let r := round6 q
  (if q.neg && !q.isZero then [45] else []) ++ natDigits (r / 1000000) ++ [46] ++ pad6 (r % 1000000)

/-- `_strip_zeros`: keep one digit after the point, strip trailing zeros from the rest -/
def stripZeros (s : Text) : Text :=
  match s.findIdx? (· == 46) with
  | none => s
  | some i =>
    let a := s.take (i + 2)
    let b := s.drop (i + 2)
    a ++ (b.reverse.dropWhile (· == 48)).reverse

def zeroUnits : List Text :=
  ["cm", "mm", "in", "px", "pc", "pt", "em", "ex"].map (fun s => s.toList.map Char.toNat)

/-- the serializer variants: `fixedRounding` = tests are made on the value rounded to 6 places
(/repo after the repair), else on the raw value (pinned snapshot) -/
def fmtParts (fixedRounding : Bool) (omitLeadingZero : Bool) (p : Parsed) : Text × Text × Text :=
  let q := p.value
  -- the value the branch tests look at
  let r6 := round6 q
  let tz : Bool := if fixedRounding && p.isFloat then r6 == 0 else q.isZero
  let tint : Bool := if fixedRounding && p.isFloat then r6 % 1000000 == 0 else q.isInt
  let tsmall : Bool := if fixedRounding && p.isFloat then r6 < 1000000 else q.absLt ⟨false, 1, 1⟩
  let intStr : Text :=
    let k := if fixedRounding && p.isFloat then r6 / 1000000 else q.num / q.den
    (if q.neg && k != 0 then [45] else []) ++ natDigits k
  let vd : Text × Text :=
    if tz then ([48], if zeroUnits.contains p.dim then [] else p.dim)
    else if tint then (intStr, p.dim)
    else if omitLeadingZero && tsmall then
      let v := stripZeros (fmtF q)
      (if p.sign == some 45 then v.take 1 ++ v.drop 2 else v.drop 1, p.dim)
    else (stripZeros (fmtF q), p.dim)
  let sign : Text := if !tz && p.sign == some 43 then [43] else []
  (sign, vd.1, vd.2)

/-- `'+'?` ++ number ++ unit, as `out.append(sign + val + dim)` -/
def fmtNumber (fixedRounding : Bool) (omitLeadingZero : Bool) (p : Parsed) : Text :=
  let r := fmtParts fixedRounding omitLeadingZero p
  r.1 ++ r.2.1 ++ r.2.2

/-- exact value of a decimal text `[-+]?digits[.digits]` (what a reader of the output gets) -/
def decimalValue (t : Text) : Option Q :=
  match splitNum t with
  | some (sign, ip, none, []) => some ⟨sign == some 45, digitsVal ip, 1⟩
  | some (sign, ip, some fp, []) => some ⟨sign == some 45, digitsVal (ip ++ fp), 10 ^ fp.length⟩
  | _ => none

end CssVerif.Number

namespace CssVerif.Color
open CssVerif

def hexDigitVal (c : Nat) : Option Nat :=
  if 48 ≤ c ∧ c ≤ 57 then some (c - 48)
  else if 97 ≤ c ∧ c ≤ 102 then some (c - 87)
  else if 65 ≤ c ∧ c ≤ 70 then some (c - 55)
  else none

/-- `ColorValue` for a HASH token value `#rgb` / `#rrggbb` (the `#` included) -/
def hexColor (v : Text) : Option (Nat × Nat × Nat) :=
  match v with
  | [35, a, b, c] => do
    let a ← hexDigitVal a; let b ← hexDigitVal b; let c ← hexDigitVal c
    pure (17 * a, 17 * b, 17 * c)
  | [35, a1, a2, b1, b2, c1, c2] => do
    let a1 ← hexDigitVal a1; let a2 ← hexDigitVal a2
    let b1 ← hexDigitVal b1; let b2 ← hexDigitVal b2
    let c1 ← hexDigitVal c1; let c2 ← hexDigitVal c2
    pure (16 * a1 + a2, 16 * b1 + b2, 16 * c1 + c2)
  | _ => none

/-- `CSSSerializer._hash` with `minimizeColorHash` -/
def shortenHash (minimize : Bool) (v : Text) : Text :=
  match v with
  | [h, a1, a2, b1, b2, c1, c2] =>
    if minimize && a1 == a2 && b1 == b2 && c1 == c2 then [h, a1, b1, c1] else v
  | _ => v

structure ColorRow where
  name : Text
  r : Nat
  g : Nat
  b : Nat
  alpha1000 : Nat          -- alpha × 1000
  deriving Repr, DecidableEq

/-- an `rgb()` integer component clipped to the device gamut -/
def clamp255 (neg : Bool) (n : Nat) : Nat := if neg then 0 else if n > 255 then 255 else n

end CssVerif.Color
