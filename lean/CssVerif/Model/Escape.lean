/-
The CSS way of writing a character the output encoding cannot express (`serialize._escapecss`:
backslash, upper-case hex code point, one space) and the reading of such escapes (the tokenizer's
`unicodesub`: backslash, 1-6 hex digits, one optional white-space character).
-/
namespace CssVerif.Escape

abbrev Text := List Nat

def hexDigit (d : Nat) : Nat := if d < 10 then 48 + d else 55 + d      -- 0-9, A-F

/-- upper-case hex digits of `n`, most significant first (`hex(n)[2:].upper()`) -/
def hexUpper : Nat → Nat → Text
  | 0, _ => []
  | fuel + 1, n => if n < 16 then [hexDigit n] else hexUpper fuel (n / 16) ++ [hexDigit (n % 16)]

def escChar (c : Nat) : Text := 92 :: hexUpper 8 c ++ [32]

/-- `text.encode(encoding, 'escapecss')`, seen before the bytes are made: `can c` = the encoding has `c` -/
def escapeAll (can : Nat → Bool) (t : Text) : Text := t.flatMap (fun c => if can c then [c] else escChar c)

def hexVal (c : Nat) : Option Nat :=
  if 48 ≤ c ∧ c ≤ 57 then some (c - 48)
  else if 65 ≤ c ∧ c ≤ 70 then some (c - 55)
  else if 97 ≤ c ∧ c ≤ 102 then some (c - 87)
  else none

/-- up to `k` hex digits: (value, number of digits taken, rest) -/
def takeHex : Nat → Nat → Nat → Text → Nat × Nat × Text
  | 0, acc, n, s => (acc, n, s)
  | k + 1, acc, n, c :: s =>
    match hexVal c with
    | some d => takeHex k (acc * 16 + d) (n + 1) s
    | none => (acc, n, c :: s)
  | _, acc, n, [] => (acc, n, [])

def isWs (c : Nat) : Bool := c == 32 || c == 9 || c == 10 || c == 13 || c == 12

/-- the reading of hex escapes (specification of the tokenizer's `unicodesub`) -/
def unescape : Nat → Text → Text
  | 0, s => s
  | _, [] => []
  | fuel + 1, 92 :: s =>
    let (v, n, rest) := takeHex 6 0 0 s
    if n = 0 then 92 :: unescape fuel s
    else
      let (ws, rest) : Text × Text := match rest with
        | 13 :: 10 :: r => ([13, 10], r)
        | w :: r => if isWs w then ([w], r) else ([], w :: r)
        | [] => ([], [])
      -- a code point beyond U+10FFFF is no character: the escape is left as written
      (if v ≤ 0x10FFFF then [v] else 92 :: s.take n ++ ws) ++ unescape fuel rest
  | fuel + 1, c :: s => c :: unescape fuel s

def cssUnescape (s : Text) : Text := unescape (s.length + 1) s

end CssVerif.Escape
