/-
L4 — the rule list of a style sheet and its editing operations, transcribed from
`CSSStyleSheet.insertRule / add / deleteRule / encoding / namespaces[...] / cssText=`
(css/cssstylesheet.py, util._Namespaces), plus the child-kind checks of @media / @page.

A rule carries its kind and the payload the operations read: encoding (charset), prefix and URI
(namespace), the namespace URIs its selectors use (style; for @media the union over its child
style rules).  Texts are abstracted to small identifiers.
-/
namespace CssVerif.Sheet

inductive Kind
  | unknown | style | charset | import | media | fontface | page | namespace | comment | variables | margin
  deriving DecidableEq, Repr, Inhabited

structure Rule where
  kind : Kind
  p : Nat := 0            -- namespace: prefix (0 = default namespace ''); charset: encoding
  u : Nat := 0            -- namespace: URI
  used : List Nat := []   -- URIs used by selectors
  deriving DecidableEq, Repr, Inhabited

abbrev Sheet := List Rule

inductive Err | indexSize | hierarchy | noModification | namespaceErr | syntax
  deriving DecidableEq, Repr

inductive Res
  | ok (idx : Nat)
  | none                  -- returned without inserting / nothing to report
  | raised (e : Err)
  deriving DecidableEq, Repr

def isKind (k : Kind) (r : Rule) : Bool := r.kind = k
def kindIn (ks : List Kind) (r : Rule) : Bool := ks.contains r.kind

def insertAt (s : Sheet) (i : Nat) (r : Rule) : Sheet := s.take i ++ r :: s.drop i

/-! ### the `namespaces` view -/

def dictHasKey (d : List (Nat × Nat)) (k : Nat) : Bool := d.any (·.1 = k)
def dictHasVal (d : List (Nat × Nat)) (v : Nat) : Bool := d.any (·.2 = v)
def dictGet (d : List (Nat × Nat)) (k : Nat) : Option Nat := (d.find? (·.1 = k)).map (·.2)
def dictSet (d : List (Nat × Nat)) (k v : Nat) : List (Nat × Nat) :=
  if dictHasKey d k then d.map (fun kv => if kv.1 = k then (k, v) else kv) else d ++ [(k, v)]

/-- `_Namespaces.namespaces`: walk the @namespace rules from the last to the first; a rule whose
URI is not yet a value and whose prefix is not yet bound adds `prefix ↦ uri` (later rules win) -/
def view (s : Sheet) : List (Nat × Nat) :=
  (s.filter (isKind .namespace)).reverse.foldl
    (fun d r => if dictHasVal d r.u || dictHasKey d r.p then d else d ++ [(r.p, r.u)]) []

/-- `__findrule`: index in `s` of the last @namespace rule with this prefix -/
def findRuleIdx (s : Sheet) (p : Nat) : Option Nat :=
  let idxs := (List.range s.length).filter (fun i =>
    match s[i]? with | some r => r.kind = .namespace && r.p = p | none => false)
  idxs.getLast?

def usedURIs (s : Sheet) : List Nat :=
  s.flatMap (fun r => if r.kind = .style || r.kind = .media then r.used else [])

/-! ### a selector's namespace at serialisation and at parse time -/

/-- the namespace half of a stored `(namespaceURI, name)` pair -/
inductive NsV
  | none            -- Python None: parsed without a default namespace
  | any             -- `*|name`
  | empty           -- `|name`
  | uri (u : Nat)
  deriving DecidableEq, Repr

/-- how a name is written -/
inductive PForm
  | bare            -- `name`
  | star            -- `*|name`
  | bar             -- `|name`
  | named (p : Nat) -- `p|name`
  deriving DecidableEq, Repr

/-- `prefixForNamespaceURI` -/
def prefixFor (d : List (Nat × Nat)) (u : Nat) : Option Nat := (d.find? (·.2 = u)).map (·.1)

/-- `do_css_Selector`: the form chosen for a pair under the mapping `d` (prefix 0 = the default namespace) -/
def serForm (d : List (Nat × Nat)) (ns : NsV) : PForm :=
  let dflt := dictGet d 0
  if (match ns, dflt with
      | .uri u, some v => decide (u = v)
      | .none, none => true
      | _, _ => false) then .bare
  else match ns with
    | .any => .star
    | .uri u => (match prefixFor d u with
        | some p => if p = 0 then .bar else .named p
        | none => .bar)            -- IndexError → prefix ''
    | .none => .bar
    | .empty => .bar

/-- `append()` of the selector parser: the namespace a written form denotes under `d`
(`none` = undeclared prefix, the selector is rejected); for an attribute name `.none` stands for
"not namespaced" (a plain string, no pair) and `|a` is the same as `a` -/
def resolveForm (d : List (Nat × Nat)) (attr : Bool) : PForm → Option NsV
  | .bare => some (if attr then .none     -- attribute names are not in the default namespace
      else match dictGet d 0 with | some u => .uri u | none => .none)
  | .star => some .any
  | .bar => some (if attr then .none else .empty)
  | .named p => (dictGet d p).map .uri

/-! ### deleteRule -/

/-- Python list index: negative counts from the end -/
def pyIndex (len : Nat) (i : Int) : Option Nat :=
  if i ≥ 0 then (if i.toNat < len then some i.toNat else none)
  else if (-i).toNat ≤ len then some (len - (-i).toNat) else none

def deleteRule (s : Sheet) (i : Int) : Sheet × Res :=
  match pyIndex s.length i with
  | none => (s, .raised .indexSize)
  | some idx =>
    match s[idx]? with
    | none => (s, .raised .indexSize)
    | some r =>
      if r.kind = .namespace &&
         (usedURIs s).contains r.u &&
         ((s.filter (isKind .namespace)).map (·.u)).count r.u = 1
      then (s, .raised .noModification)
      else (s.eraseIdx idx, .none)

/-- `_cleanNamespaces`: drop every @namespace rule whose (prefix, URI) is not effective; the item
list is computed once; a protected rule makes the inner deleteRule raise -/
def cleanLoop (items : List (Nat × Nat)) : Nat → Sheet → Nat → Sheet × Option Err
  | 0, s, _ => (s, none)
  | fuel + 1, s, i =>
    match s[i]? with
    | none => (s, none)
    | some r =>
      if r.kind = .namespace && !(items.contains (r.p, r.u)) then
        match deleteRule s i with
        | (s', .raised e) => (s', some e)
        | (s', _) => cleanLoop items fuel s' i
      else cleanLoop items fuel s (i + 1)

def cleanNamespaces (s : Sheet) : Sheet × Option Err := cleanLoop (view s) (s.length + 1) s 0

/-! ### insertRule -/

/-- split after the last rule satisfying `p`: `(pre, rest)` with `pre ++ rest = s`, no `p` in `rest`,
and `pre` empty or ending in a `p`-rule (the "find last of this type" loops) -/
def splitLast (p : Rule → Bool) (s : Sheet) : Sheet × Sheet :=
  ((s.reverse.dropWhile (fun x => !p x)).reverse, (s.reverse.takeWhile (fun x => !p x)).reverse)

/-- split before the first rule satisfying `q` (the "find first point to insert" loops) -/
def splitFirst (q : Rule → Bool) (s : Sheet) : Sheet × Sheet :=
  (s.takeWhile (fun x => !q x), s.dropWhile (fun x => !q x))

def headIs (s : Sheet) (k : Kind) : Bool := match s.head? with | some r => r.kind = k | none => false

def bodyKinds : List Kind := [.variables, .media, .page, .style, .fontface]

/-- in-order position of a rule kind that must follow the `before` kinds and precede the `cands`:
after the last rule of its own kind if there is one; else in front of the first candidate —
with the repaired code only candidates behind the last `before`-rule count -/
def inOrderPlace (fixedOrder : Bool) (s : Sheet) (own : Kind) (before cands : List Kind)
    (fallback : Nat) : Nat :=
  if !(splitLast (isKind own) s).1.isEmpty then (splitLast (isKind own) s).1.length
  else
    let sp := if fixedOrder then splitLast (kindIn before) s else ([], s)
    let sf := splitFirst (kindIn cands) sp.2
    if !sf.2.isEmpty then sp.1.length + sf.1.length else fallback

/-- `insertRule(rule, index, inOrder)` for a well-formed rule object.
`fixedOrder` = the repaired in-order placement of @namespace/@variables (after the last rule that
must precede them); with `false` the placement is the one of the pinned snapshot -/
def insertRule (fixedOrder : Bool) (s : Sheet) (r : Rule) (index : Option Nat) (inOrder : Bool)
    (clean : Bool := true) : Sheet × Res :=
  let index := index.getD s.length
  if index > s.length then (s, .raised .indexSize) else
  match r.kind with
  | .charset =>
    if inOrder then
      if headIs s .charset then
        (match s with | h :: t => ({ h with p := r.p } :: t, .ok 0) | [] => (s, .ok 0))
      else (r :: s, .ok 0)
    else if index ≠ 0 || headIs s .charset then (s, .raised .hierarchy)
    else (insertAt s index r, .ok index)
  | .import =>
    if inOrder then
      let idx := if !(splitLast (isKind .import) s).1.isEmpty then (splitLast (isKind .import) s).1.length
        else if headIs s .charset || headIs s .comment then 1 else 0
      (insertAt s idx r, .ok idx)
    else if index = 0 && headIs s .charset then (s, .raised .hierarchy)
    else if (s.take index).any (kindIn (.namespace :: bodyKinds)) then (s, .raised .hierarchy)
    else (insertAt s index r, .ok index)
  | .namespace =>
    let place : Option Nat :=
      if inOrder then
        some (inOrderPlace fixedOrder s .namespace [.charset, .import] (bodyKinds ++ [.unknown, .comment])
          (if fixedOrder then s.length else index))     -- repaired: a given index is ignored
      else if (s.drop index).any (kindIn [.charset, .import]) then none
      else if (s.take index).any (kindIn bodyKinds) then none
      else some index
    match place with
    | none => (s, .raised .hierarchy)
    | some idx =>
      if dictGet (view s) r.p = some r.u then (s, .ok idx)
      else
        let s' := insertAt s idx r
        if clean then
          match cleanNamespaces s' with
          | (_, some e) => (s, .raised e)       -- undone: the sheet stays as it was
          | (s'', none) => (s'', .ok idx)
        else (s', .ok idx)
  | .variables =>
    let place : Option Nat :=
      if inOrder then
        some (inOrderPlace fixedOrder s .variables [.charset, .import, .namespace]
          [.media, .page, .style, .fontface, .unknown, .comment] (if fixedOrder then s.length else index))
      else if (s.drop index).any (kindIn [.charset, .import, .namespace]) then none
      else if (s.take index).any (kindIn [.media, .page, .style, .fontface]) then none
      else some index
    match place with
    | none => (s, .raised .hierarchy)
    | some idx => (insertAt s idx r, .ok idx)
  | k =>
    if (k = .unknown || k = .comment) && !inOrder then
      if index = 0 && headIs s .charset then (s, .raised .hierarchy)
      else (insertAt s index r, .ok index)
    else if inOrder then (s ++ [r], .ok s.length)
    else if (s.drop index).any (kindIn [.charset, .import, .namespace]) then (s, .raised .hierarchy)
    else (insertAt s index r, .ok index)

/-! ### encoding / namespaces[...] -/

def setEncoding (fx : Bool) (s : Sheet) (e : Option Nat) : Sheet × Res :=
  if headIs s .charset then
    match e, s with
    | some enc, h :: t => ({ h with p := enc } :: t, .none)
    | none, _ => deleteRule s 0
    | _, [] => (s, .none)
  else match e with
    | some enc =>
      match insertRule fx s { kind := .charset, p := enc } (some 0) false with
      | (s', .ok _) => (s', .none)
      | x => x
    | none => (s, .none)

/-- `namespaces[p] = u` -/
def nsSet (fx : Bool) (s : Sheet) (p u : Nat) : Sheet × Res :=
  match findRuleIdx s p with
  | none =>
    match insertRule fx s { kind := .namespace, p := p, u := u } none true with
    | (s', .ok _) => (s', .none)      -- an assignment statement reports nothing
    | x => x
  | some i =>
    match s[i]? with
    | none => (s, .none)
    | some r =>
      if dictHasKey (view s) p && r.u ≠ u then (s, .raised .noModification)
      else (s, .none)      -- URI unchanged; re-assigning the prefix does not move any rule

/-- `del namespaces[p]`: deletes by the position *among the @namespace rules* (as coded) -/
def nsDel (s : Sheet) (p : Nat) : Sheet × Res :=
  match findRuleIdx s p with
  | none => (s, .raised .namespaceErr)
  | some i =>
    let k := ((List.range i).filter (fun j => match s[j]? with
      | some r => r.kind = .namespace | none => false)).length
    deleteRule s k

/-! ### `cssText = …`: the parse-time ordering machine -/

/-- one accepted statement goes through `insertRule(rule)` (append position, not in-order, no
clean-up); a refusal there is logged like any other error -/
def parseInsert (fx : Bool) (acc : Sheet) (r : Rule) : Sheet × Bool :=
  match insertRule fx acc r none false false with
  | (s', .raised _) => (s', false)
  | (s', _) => (s', true)

/-- statements are given as rules; `expected` levels 0..3 as in the code.  Returns the kept rules
and whether every statement was accepted (with a raising log the first refusal raises instead) -/
def parseLoop (fx : Bool) : List Rule → Nat → Sheet → Bool → Sheet × Bool
  | [], _, acc, ok => (acc, ok)
  | r :: rs, expected, acc, ok =>
    match r.kind with
    | .charset =>
      if expected > 0 then parseLoop fx rs expected acc false
      else let (a, o) := parseInsert fx acc r; parseLoop fx rs 1 a (ok && o)
    | .import =>
      if expected > 1 then parseLoop fx rs expected acc false
      else let (a, o) := parseInsert fx acc r; parseLoop fx rs 1 a (ok && o)
    | .namespace =>
      if expected > 2 then parseLoop fx rs expected acc false
      else if !(acc.any (fun x => x.kind = .namespace && x.p = r.p)) then
        let (a, o) := parseInsert fx acc r; parseLoop fx rs 2 a (ok && o)
      else
        -- prefix already declared: the existing rules with that prefix get the new URI
        parseLoop fx rs 2
          (acc.map (fun x => if x.kind = .namespace && x.p = r.p then { x with u := r.u } else x)) ok
    | .variables =>
      if expected > 2 then parseLoop fx rs expected acc false
      else let (a, o) := parseInsert fx acc r; parseLoop fx rs 2 a (ok && o)
    | .unknown | .comment | .margin =>
      let (a, o) := parseInsert fx acc r; parseLoop fx rs (max 1 expected) a (ok && o)
    | _ => let (a, o) := parseInsert fx acc r; parseLoop fx rs 3 a (ok && o)

/-- `parseString`: refusals are logged, the rest is kept -/
def parseSheet (fx : Bool) (rs : List Rule) : Sheet := (cleanNamespaces (parseLoop fx rs 0 [] true).1).1

/-- `sheet.cssText = …` with a raising log: all or nothing -/
def assignSheet (fx : Bool) (s : Sheet) (rs : List Rule) : Sheet × Res :=
  let (a, ok) := parseLoop fx rs 0 [] true
  if ok then ((cleanNamespaces a).1, .none) else (s, .raised .hierarchy)

/-! ### containers -/

def mediaForbids : List Kind := [.charset, .fontface, .import, .namespace, .margin]
def pageForbids : List Kind := [.charset, .fontface, .import, .namespace, .page, .media]

def containerInsert (forbid : List Kind) (kids : List Kind) (k : Kind) (index : Option Nat) :
    List Kind × Res :=
  let index := index.getD kids.length
  if index > kids.length then (kids, .raised .indexSize)
  else if forbid.contains k then (kids, .raised .hierarchy)
  else (kids.take index ++ k :: kids.drop index, .ok index)

def containerDelete (kids : List Kind) (i : Int) : List Kind × Res :=
  match pyIndex kids.length i with
  | none => (kids, .raised .indexSize)
  | some idx => (kids.eraseIdx idx, .none)

/-! ### operations and validity -/

inductive Op
  | insert (r : Rule) (index : Option Nat) (inOrder : Bool)
  | delete (i : Int)
  | encoding (e : Option Nat)
  | nsSet (p u : Nat)
  | nsDel (p : Nat)
  | assign (rs : List Rule)
  deriving Repr

def step (fx : Bool) (s : Sheet) : Op → Sheet × Res
  | .insert r i o => insertRule fx s r i o
  | .delete i => deleteRule s i
  | .encoding e => setEncoding fx s e
  | .nsSet p u => nsSet fx s p u
  | .nsDel p => nsDel s p
  | .assign rs => assignSheet fx s rs

/-- ordering level of the kinds the property constrains -/
def lvl : Kind → Option Nat
  | .import => some 1
  | .namespace => some 2
  | .style | .media | .page | .fontface => some 3
  | _ => none

/-- valid rule order: @charset only as the first rule; @import before @namespace, both before
style / @media / @page / @font-face -/
def Valid (s : Sheet) : Prop :=
  (∀ r ∈ s.tail, r.kind ≠ .charset) ∧ (s.filterMap (fun r => lvl r.kind)).Pairwise (· ≤ ·)

instance (s : Sheet) : Decidable (Valid s) := by unfold Valid; infer_instance

end CssVerif.Sheet
