/-
C06 — the parse entry points switch the process-wide flag `css_parser.log.raiseExceptions` to the parser's
own parse-time value for the duration of a call and put the caller's value back (parse.py, CSSParser:
`__parseSetting(True)` before the `try`, `__parseSetting(False)` in the `finally` of parseString/parseStyle).

A parse can be RE-ENTERED: the fetcher called for an @import may call parseString/parseStyle of the very same
parser object, or of other parser objects, to any depth.  This file models the flag and the private memory of
every parser object under the two disciplines the code has had:

* `Stack` (the code now): `self.__globalRaising.append(log.raiseExceptions); log.raiseExceptions =
  self.__parseRaising` at entry, `log.raiseExceptions = self.__globalRaising.pop()` at exit;
* `Slot` (the code before the repair): `self.__globalRaising = log.raiseExceptions; log.raiseExceptions =
  self.__parseRaising` at entry, `log.raiseExceptions = self.__globalRaising` at exit.

A history is a list of events: `enter p` / `exit p` (p the index of a parser object; there is one parse-time
value `pv p` per index, so any finite number of parser objects is covered), and `set v`: the caller, at top
level (outside any call), assigns the flag.

Exceptions are not events: the exit code stands in a `finally`, so it runs whether the body of the call
returns or raises — by the time control is back at the caller, `exit p` has happened in both cases, and a
call that raised is the same history as a call that returned.  (That every entry point has this try/finally
shape is `temporaries_clean` in Props/C06.lean, decided on the AST of the code.)

Import-free and executable: `openAfter` is the well-nestedness checker, `stackObs` / `slotObs` run a history
for a finite list of parse-time values and return what can be observed.
-/
namespace CssVerif.SaveStack

inductive Ev
  | enter (p : Nat)        -- parser p: __parseSetting(True)
  | exit (p : Nat)         -- parser p: __parseSetting(False), in the finally
  | set (v : Bool)         -- the caller assigns css_parser.log.raiseExceptions = v (top level)
  deriving Repr, DecidableEq

/-- `f` with the value at `p` replaced -/
def upd {α : Type} (f : Nat → α) (p : Nat) (a : α) : Nat → α := fun q => if q = p then a else f q

/-! ### Stack discipline (the code now) -/

structure StackState where
  flag : Bool                          -- css_parser.log.raiseExceptions
  mem : Nat → List Bool                -- parser p's self.__globalRaising, most recent first

/-- one event; `pv p` is parser p's `self.__parseRaising`.  `pop()` of an empty list (IndexError in Python)
cannot happen in a history where every exit follows its enter; the model leaves the state as it is. -/
def stepStack (pv : Nat → Bool) (s : StackState) : Ev → StackState
  | .enter p => { flag := pv p, mem := upd s.mem p (s.flag :: s.mem p) }
  | .exit p =>
    match s.mem p with
    | [] => s
    | v :: r => { flag := v, mem := upd s.mem p r }
  | .set v => { s with flag := v }

def runStack (pv : Nat → Bool) (s : StackState) : List Ev → StackState
  | [] => s
  | e :: h => runStack pv (stepStack pv s e) h

/-! ### Slot discipline (the code before the repair) -/

structure SlotState where
  flag : Bool
  slot : Nat → Bool                    -- parser p's self.__globalRaising: ONE remembered value

def stepSlot (pv : Nat → Bool) (s : SlotState) : Ev → SlotState
  | .enter p => { flag := pv p, slot := upd s.slot p s.flag }
  | .exit p => { s with flag := s.slot p }
  | .set v => { s with flag := v }

def runSlot (pv : Nat → Bool) (s : SlotState) : List Ev → SlotState
  | [] => s
  | e :: h => runSlot pv (stepSlot pv s e) h

/-! ### well-nested histories -/

/-- The checker: `stk` lists the parsers whose calls are open, innermost first.  `enter p` opens a call of p
inside whatever is open (calls of different parsers, or of the same parser, may nest in each other);
`exit p` must close the innermost open call, which must be p's; `set v` happens at top level only.
`none`: not well nested.  With `strict`, entering a parser that is already active is refused as well
(no re-entry; calls of DIFFERENT parsers may still nest). -/
def openAfter (strict : Bool) : List Nat → List Ev → Option (List Nat)
  | stk, [] => some stk
  | stk, .enter p :: h => if strict && stk.contains p then none else openAfter strict (p :: stk) h
  | q :: stk, .exit p :: h => if p = q then openAfter strict stk h else none
  | [], .exit _ :: _ => none
  | [], .set _ :: h => openAfter strict [] h
  | _ :: _, .set _ :: _ => none

/-- a prefix of a well-nested history: `stk` is what is open after it (innermost first) -/
def OpenAfter (h : List Ev) (stk : List Nat) : Prop := openAfter false [] h = some stk
/-- well nested and complete: all calls closed -/
def WellNested (h : List Ev) : Prop := openAfter false [] h = some []
/-- … and no parser is entered while one of its calls is open -/
def WellNestedNoReentry (h : List Ev) : Prop := openAfter true [] h = some []

instance (h : List Ev) (stk : List Nat) : Decidable (OpenAfter h stk) := by unfold OpenAfter; exact inferInstance
instance (h : List Ev) : Decidable (WellNested h) := by unfold WellNested; exact inferInstance
instance (h : List Ev) : Decidable (WellNestedNoReentry h) := by unfold WellNestedNoReentry; exact inferInstance

/-- the same histories, as a grammar: a complete sequence of calls is empty, or a call of some parser p
around a complete sequence of calls, followed by a complete sequence of calls … -/
inductive Calls : List Ev → Prop
  | nil : Calls []
  | call (p : Nat) {inner rest : List Ev} : Calls inner → Calls rest → Calls (.enter p :: (inner ++ .exit p :: rest))

/-- … and a top-level history interleaves complete calls with assignments by the caller -/
inductive History : List Ev → Prop
  | nil : History []
  | set (v : Bool) {rest : List Ev} : History rest → History (.set v :: rest)
  | call (p : Nat) {inner rest : List Ev} : Calls inner → History rest → History (.enter p :: (inner ++ .exit p :: rest))

/-- what the caller last set: the value of the last `set` of the history, `v` if there is none -/
def lastSet (v : Bool) : List Ev → Bool
  | [] => v
  | .set v' :: h => lastSet v' h
  | _ :: h => lastSet v h

/-! ### observation, for finitely many parsers given by the list of their parse-time values -/

def pvOf (pvs : List Bool) : Nat → Bool := fun p => pvs.getD p false

/-- the flag after each event -/
def traceStack (pv : Nat → Bool) (s : StackState) : List Ev → List Bool
  | [] => []
  | e :: h => (stepStack pv s e).flag :: traceStack pv (stepStack pv s e) h

def traceSlot (pv : Nat → Bool) (s : SlotState) : List Ev → List Bool
  | [] => []
  | e :: h => (stepSlot pv s e).flag :: traceSlot pv (stepSlot pv s e) h

/-- run from fresh parser objects (empty memories): the flag after each event and the final memories -/
def stackObs (pvs : List Bool) (flag : Bool) (h : List Ev) : List Bool × List (List Bool) :=
  let s0 : StackState := { flag := flag, mem := fun _ => [] }
  (traceStack (pvOf pvs) s0 h, (List.range pvs.length).map (runStack (pvOf pvs) s0 h).mem)

/-- the pre-repair code: `slots` is what each parser object remembered when it was made -/
def slotObs (pvs : List Bool) (slots : List Bool) (flag : Bool) (h : List Ev) : List Bool × List Bool :=
  let s0 : SlotState := { flag := flag, slot := fun p => slots.getD p false }
  (traceSlot (pvOf pvs) s0 h, (List.range pvs.length).map (runSlot (pvOf pvs) s0 h).slot)

end CssVerif.SaveStack
