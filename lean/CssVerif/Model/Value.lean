/-
The value grammar (C02, C03, C05): `PropertyValue._setCssText` with the productions of `css/value.py` read as a
recursive-descent parser over the kinds of the tokens, and the abstract syntax it builds.

  value    : term [ [','|'/']? term ]*                      (white space and comments anywhere between)
  term     : IDENT | STRING | UNICODE-RANGE | NUMBER | PERCENTAGE | DIMENSION | URI | colour
           | FUNCTION [ term [ ','? term ]* ]? ')'
           | rgb( | hsl( | rgba( | hsla(  component [ ','? component ]*  ')'      (3 resp. 4 components)
           | calc(  S* operand [ operator operand ]* S* ')'
  operator : [*/] S*  |  S+ [*/] S*  |  S+ [+-] S+            (comments anywhere)
-/
namespace CssVerif.Value

inductive VT
  | ident | str | urange | num | pct | dim | uri | color
  | func | colorFunc (alpha : Bool) | calcFunc
  | rparen | comma | slash | plus | minus | star
  | ws | comment
  | other
deriving DecidableEq, Repr

def isAtom : VT → Bool
  | .ident | .str | .urange | .num | .pct | .dim | .uri | .color => true
  | _ => false

def isOperand : VT → Bool
  | .num | .pct | .dim => true
  | _ => false

def isComponent : VT → Bool
  | .num | .pct => true
  | _ => false

def isGap : VT → Bool
  | .ws | .comment => true
  | _ => false

inductive Sep | none | comma | slash
deriving DecidableEq, Repr

mutual
  inductive Comp
    | atom (k : VT)
    | fn (args : Args)
    | colorFn (alpha : Bool) (comps : List (Bool × VT))     -- (comma before?, component)
    | calc (first : VT) (rest : List (VT × VT))             -- operand, then (operator, operand)*
  inductive Args
    | nil
    | cons (comma : Bool) (c : Comp) (tl : Args)
end

abbrev Value := List (Sep × Comp)

/-- drop leading white space and comments -/
def skipGap : List VT → List VT
  | t :: ts => if isGap t then skipGap ts else t :: ts
  | [] => []

/-- drop leading comments -/
def skipCmt : List VT → List VT
  | .comment :: ts => skipCmt ts
  | ts => ts

/-- leading white space (comments in between are dropped): (was there white space?, rest) -/
def takeWs : List VT → Bool × List VT
  | .ws :: ts => (true, (takeWs ts).2)
  | .comment :: ts => takeWs ts
  | ts => (false, ts)

/-- components of a colour function after the first: `[','? component]*` up to `)`; `n` counts them -/
def pcomps : Nat → List VT → Option (List (Bool × VT) × List VT)
  | 0, _ => none
  | f + 1, ts =>
    match skipGap ts with
    | .rparen :: r => some ([], r)
    | .comma :: r =>
      match skipGap r with
      | c :: r' => if isComponent c then (pcomps f r').map (fun (l, r'') => ((true, c) :: l, r'')) else none
      | [] => none
    | c :: r' => if isComponent c then (pcomps f r').map (fun (l, r'') => ((false, c) :: l, r'')) else none
    | [] => none

/-- the operator / operand pairs of calc() after an operand, up to `)` -/
def pcalcRest : Nat → List VT → Option (List (VT × VT) × List VT)
  | 0, _ => none
  | f + 1, ts =>
    let (hadWs, r) := takeWs ts
    match r with
    | .rparen :: r' => some ([], r')
    | op :: r' =>
      if op = .star ∨ op = .slash then
        match skipGap r' with
        | x :: r'' => if isOperand x then (pcalcRest f r'').map (fun (l, q) => ((op, x) :: l, q)) else none
        | [] => none
      else if (op = .plus ∨ op = .minus) ∧ hadWs then
        let (ws2, r2) := takeWs r'
        if ws2 then
          match r2 with
          | x :: r'' => if isOperand x then (pcalcRest f r'').map (fun (l, q) => ((op, x) :: l, q)) else none
          | [] => none
        else none
      else none
    | [] => none

mutual
  def pterm : Nat → List VT → Option (Comp × List VT)
    | 0, _ => none
    | _, [] => none
    | f + 1, t :: ts =>
      if isAtom t then some (.atom t, ts)
      else match t with
        | .func => (pargs f true ts).map (fun (a, r) => (.fn a, r))
        | .colorFunc al =>
          match skipGap ts with
          | c :: r =>
            if isComponent c then
              match pcomps (r.length + 1) r with
              | some (l, r') =>
                let n := l.length + 1
                if n = (if al then 4 else 3) then some (.colorFn al ((false, c) :: l), r') else none
              | none => none
            else none
          | [] => none
        | .calcFunc =>
          match skipGap ts with
          | x :: r =>
            if isOperand x then (pcalcRest (r.length + 1) r).map (fun (l, q) => (.calc x l, q)) else none
          | [] => none
        | _ => none
  def pargs : Nat → Bool → List VT → Option (Args × List VT)
    | 0, _, _ => none
    | f + 1, first, ts =>
      match skipGap ts with
      | .rparen :: r => some (.nil, r)
      | .comma :: r =>
        if first then none
        else match pterm f (skipGap r) with
          | some (c, r') => (pargs f false r').map (fun (a, r'') => (.cons true c a, r''))
          | none => none
      | t :: r =>
        match pterm f (t :: r) with
        | some (c, r') => (pargs f false r').map (fun (a, r'') => (.cons false c a, r''))
        | none => none
      | [] => none
end

/-- the terms after the first: `[[','|'/']? term]*` to the end of the tokens -/
def pmore : Nat → List VT → Option Value
  | 0, _ => none
  | f + 1, ts =>
    match skipGap ts with
    | [] => some []
    | .comma :: r =>
      match pterm (r.length + 1) (skipGap r) with
      | some (c, r') => (pmore f r').map (fun v => (.comma, c) :: v)
      | none => none
    | .slash :: r =>
      match pterm (r.length + 1) (skipGap r) with
      | some (c, r') => (pmore f r').map (fun v => (.slash, c) :: v)
      | none => none
    | t :: r =>
      match pterm (r.length + 2) (t :: r) with
      | some (c, r') => (pmore f r').map (fun v => (.none, c) :: v)
      | none => none

/-- `PropertyValue(cssText)`: the components, or `none` when the value is not well-formed -/
def pvalue (ts : List VT) : Option Value :=
  match pterm (ts.length + 1) (skipGap ts) with
  | some (c, r) => (pmore (r.length + 1) r).map (fun v => (.none, c) :: v)
  | none => none

end CssVerif.Value

/-! ### the serialiser (`do_css_PropertyValue`, `do_css_CSSFunction`, `do_css_CSSCalc` through `Out.append`),
as the kinds of the tokens of its output.  Preferences that matter here: `spacer` (between terms; when empty one
blank is written anyway) and `listItemSpacer` (after a comma; may be empty). -/
namespace CssVerif.Value

structure SerPrefs where
  listSpacerEmpty : Bool := false
deriving Repr

def lsp (p : SerPrefs) : List VT := if p.listSpacerEmpty then [] else [.ws]

def serComps (p : SerPrefs) : List (Bool × VT) → List VT
  | [] => [.rparen]
  | (comma, c) :: l => (if comma then .comma :: lsp p else [.ws]) ++ c :: serComps p l

def serCalc : List (VT × VT) → List VT
  | [] => [.rparen]
  | (op, x) :: l => .ws :: op :: .ws :: x :: serCalc l

mutual
  def serComp (p : SerPrefs) : Comp → List VT
    | .atom k => [k]
    | .fn a => .func :: serArgs p true a
    | .colorFn al l =>
      match l with
      | (_, c) :: l' => .colorFunc al :: c :: serComps p l'
      | [] => [.colorFunc al, .rparen]
    | .calc x l => .calcFunc :: x :: serCalc l
  def serArgs (p : SerPrefs) : Bool → Args → List VT
    | _, .nil => [.rparen]
    | first, .cons comma c tl =>
      (if comma then .comma :: lsp p else if first then [] else [.ws]) ++ (serComp p c ++ serArgs p false tl)
end

def serMore (p : SerPrefs) : Value → List VT
  | [] => []
  | (.none, c) :: v => .ws :: (serComp p c ++ serMore p v)
  | (.comma, c) :: v => .comma :: (lsp p ++ (serComp p c ++ serMore p v))
  | (.slash, c) :: v => .slash :: (serComp p c ++ serMore p v)

def serValue (p : SerPrefs) : Value → List VT
  | (_, c) :: v => serComp p c ++ serMore p v
  | [] => []

/-- values the parser can produce -/
def wfComps : List (Bool × VT) → Bool
  | [] => true
  | (_, c) :: l => isComponent c && wfComps l

def isOp (o : VT) : Bool := o == .star || o == .slash || o == .plus || o == .minus

def wfCalc : List (VT × VT) → Bool
  | [] => true
  | (op, x) :: l => isOp op && isOperand x && wfCalc l

mutual
  def wfComp : Comp → Bool
    | .atom k => isAtom k
    | .fn a => wfArgs true a
    | .colorFn al l =>
      match l with
      | (false, c) :: l' => isComponent c && wfComps l' && (l'.length + 1 == (if al then 4 else 3))
      | _ => false
    | .calc x l => isOperand x && wfCalc l
  def wfArgs : Bool → Args → Bool
    | _, .nil => true
    | first, .cons comma c tl => !(comma && first) && wfComp c && wfArgs false tl
end

def wfMore : Value → Bool
  | [] => true
  | (_, c) :: v => wfComp c && wfMore v

def wfValue : Value → Bool
  | (.none, c) :: v => wfComp c && wfMore v
  | _ => false

end CssVerif.Value
