/-
L1 — model of `css_parser.tokenize2.Tokenizer.tokenize` (both modes,
`doComments` both ways), written against an abstract `Tables` record whose
concrete value is regenerated from /repo on every run (`Gen/Productions.lean`).
-/
import CssVerif.Model.Re
namespace CssVerif
open Re

structure Prod where
  name : String
  notAfter : Option Nat      -- `(?<!c)` at the very start of the pattern
  re : Re
  deriving Repr, DecidableEq, Inhabited

structure Tables where
  bom : Re
  prods : List Prod                    -- ordered, BOM removed
  atkeywords : List (Text × String)
  unicodesub : Re
  cleanstring : Re
  simpleescapes : Re
  fastChars : Text                     -- the `,:;{}>[]` fast path
  escTypes : List String               -- token types whose value is un-escaped
  deriving Repr

structure Cfg where
  fullsheet : Bool
  doComments : Bool
  deriving Repr, DecidableEq

structure Tok where
  typ : String
  val : Text
  line : Nat
  col : Nat
  deriving Repr, DecidableEq, Inhabited

structure St where
  prev : Option Nat        -- character just before the current position
  rest : Text              -- text[pos:]
  line : Nat
  col : Nat
  deriving Repr, DecidableEq

/-! ### small text helpers -/

def lowerC (c : Nat) : Nat := if 65 ≤ c ∧ c ≤ 90 then c + 32 else c
def lowerT (t : Text) : Text := t.map lowerC

def hasAt (s pat : Text) : Bool := pat.isPrefixOf s

def isHex (c : Nat) : Bool := (48 ≤ c && c ≤ 57) || (65 ≤ c && c ≤ 70) || (97 ≤ c && c ≤ 102)
def hexVal (c : Nat) : Nat :=
  if 48 ≤ c ∧ c ≤ 57 then c - 48 else if 65 ≤ c ∧ c ≤ 70 then c - 55 else c - 87

/-- value of the leading hex digits of `t` -/
def hexNum (t : Text) : Nat := (t.takeWhile isHex).foldl (fun a c => 16 * a + hexVal c) 0

/-- `re.sub` for a pattern that cannot match empty: leftmost, non-overlapping -/
def reSub (r : Re) (f : Text → Text) : Nat → Text → Text
  | 0, s => s
  | _, [] => []
  | n+1, c :: s =>
    match exec r (c :: s) with
    | some t =>
      if t.length < (c :: s).length then
        f ((c :: s).take ((c :: s).length - t.length)) ++ reSub r f n t
      else c :: reSub r f n s
    | none => c :: reSub r f n s

/-- `_repl` of the tokenizer: `\hex{1,6}ws?` → the character, if it is one -/
def hexRepl (mt : Text) : Text :=
  let num := hexNum (mt.drop 1)
  if num ≤ 0x10FFFF then [num] else mt

def unicodeSub (T : Tables) (s : Text) : Text := reSub T.unicodesub hexRepl s.length s
def cleanString (T : Tables) (s : Text) : Text := reSub T.cleanstring (fun _ => []) s.length s
/-- `helper.normalize` -/
def normalize (T : Tables) (s : Text) : Text :=
  lowerT (reSub T.simpleescapes (fun mt => mt.drop 1) s.length s)

def lookupKw (tbl : List (Text × String)) (k : Text) : Option String :=
  match tbl with
  | [] => none
  | (k', v) :: r => if k = k' then some v else lookupKw r k

def findProd (ps : List Prod) (n : String) : Option Prod := ps.find? (fun p => p.name == n)

def matchProd (p : Prod) (prev : Option Nat) (s : Text) : Option Text :=
  match p.notAfter, prev with
  | some c, some d => if c = d then none else exec p.re s
  | _, _ => exec p.re s

/-- matched prefix given the remainder -/
def consumed (s rem : Text) : Text := s.take (s.length - rem.length)

def countNl (t : Text) : Nat := t.count 10

/-- characters from the last `\n` (inclusive) to the end -/
def tailFromLastNl (t : Text) : Nat :=
  (t.reverse.takeWhile (· ≠ 10)).length + 1

def advance (st : St) (found : Text) : St :=
  let nls := countNl found
  { prev := found.getLast?
    rest := st.rest.drop found.length
    line := st.line + nls
    col := if nls > 0 then tailFromLastNl found else st.col + found.length }

structure Res where
  emit : Option Tok
  raw : Text
  st : St
  deriving Repr

def uriEnds : List Text := [[39, 41], [34, 41], [41]]

/-- completion of `url(`… in full-sheet mode -/
def completeUri (T : Tables) (rest : Text) : List Text → Option Text
  | [] => none
  | e :: es =>
    match findProd T.prods "URI" with
    | none => none
    | some up =>
      match exec up.re (rest ++ e) with
      | some rem => some (consumed (rest ++ e) rem)
      | none => completeUri T rest es

/-- full-sheet completion of INVALID → STRING and `url(` FUNCTION → URI -/
def finishName (T : Tables) (cfg : Cfg) (st : St) (name0 : String) (found0 rem : Text) : String × Text :=
  if cfg.fullsheet then
    if name0 == "INVALID" && rem.isEmpty then ("STRING", found0 ++ found0.take 1)
    else if name0 == "FUNCTION" && normalize T (unicodeSub T found0) == [117, 114, 108, 40] then
      match completeUri T st.rest uriEnds with
      | some u => ("URI", u)
      | none => (name0, found0)
    else (name0, found0)
  else (name0, found0)

def atCharset : Text := [64, 99, 104, 97, 114, 115, 101, 116]

/-- value computation and at-keyword lookup: (final name, final found, value) -/
def finishVal (T : Tables) (st : St) (name : String) (found : Text) : String × Text × Text :=
  if T.escTypes.contains name then
    let v := unicodeSub T found
    (name, found, if name == "STRING" || name == "INVALID" then cleanString T v else v)
  else if name == "ATKEYWORD" then
    match lookupKw T.atkeywords (normalize T (unicodeSub T found)) with
    | some sym => (sym, found, found)
    | none =>
      if found == atCharset && hasAt (st.rest.drop found.length) [32]
      then ("CHARSET_SYM", found ++ [32], found ++ [32])
      else ("ATKEYWORD", found, unicodeSub T found)     -- an unknown at-keyword is unescaped like any name
  else (name, found, found)

def finish (T : Tables) (cfg : Cfg) (st : St) (name0 : String) (found0 rem : Text) : Res :=
  let nf := finishName T cfg st name0 found0 rem
  let nv := finishVal T st nf.1 nf.2
  { emit := if cfg.doComments || nv.1 != "COMMENT" then some ⟨nv.1, nv.2.2, st.line, st.col⟩ else none
    raw := nv.2.1
    st := advance st nv.2.1 }

/-- the `for name, matcher in productions` loop at one position -/
def tryProds (T : Tables) (cfg : Cfg) (st : St) : List Prod → Option Res
  | [] => none
  | p :: ps =>
    let special : Option Res :=
      if cfg.fullsheet && p.name == "CHAR" && hasAt st.rest [47, 42] then
        let pc := st.rest ++ [42, 47]
        match findProd T.prods "COMMENT" with
        | some cp =>
          if (exec cp.re pc).isSome && cfg.doComments then
            some { emit := some ⟨"COMMENT", pc, st.line, st.col⟩, raw := pc,
                   st := { st with prev := none, rest := [] } }
          else none
        | none => none
      else none
    match special with
    | some r => some r
    | none =>
      match matchProd p st.prev st.rest with
      | none => tryProds T cfg st ps
      | some rem =>
        let found := consumed st.rest rem
        if p.name == "IDENT" && lowerT found != [97, 110, 100] && rem.head? == some 40 then
          tryProds T cfg st ps
        else some (finish T cfg st p.name found rem)

/-- one iteration of `while pos < len(text)`; `none` = no production matched (stuck) -/
def step (T : Tables) (cfg : Cfg) (st : St) : Option Res :=
  match st.rest with
  | [] => none
  | c :: r =>
    if T.fastChars.contains c then
      some { emit := some ⟨"CHAR", [c], st.line, st.col⟩, raw := [c],
             st := { prev := some c, rest := r, line := st.line, col := st.col + 1 } }
    else tryProds T cfg st T.prods

def charsetLit : Text := [64, 99, 104, 97, 114, 115, 101, 116, 32]

/-- BOM and leading `@charset ` handling; returns the tokens emitted and the loop's start state -/
def prelude (T : Tables) (s : Text) : List (Tok × Text) × St :=
  let st0 : St := { prev := none, rest := s, line := 1, col := 1 }
  let (bomToks, st1) : List (Tok × Text) × St :=
    match exec T.bom s with
    | some rem =>
      let found := consumed s rem
      ([(⟨"BOM", found, 1, 1⟩, found)], { st0 with prev := found.getLast?, rest := s.drop found.length })
    | none => ([], st0)
  if hasAt st1.rest charsetLit then
    (bomToks ++ [(⟨"CHARSET_SYM", charsetLit, st1.line, st1.col⟩, charsetLit)],
     { st1 with prev := some 32, rest := st1.rest.drop charsetLit.length, col := st1.col + charsetLit.length })
  else (bomToks, st1)

inductive LoopEnd | done | stuck | fuel
  deriving Repr, DecidableEq

/-- the main loop: (token if emitted, raw match) per iteration, final state, how it ended -/
def loop (T : Tables) (cfg : Cfg) : Nat → St → List (Option Tok × Text) × St × LoopEnd
  | 0, st => ([], st, if st.rest.isEmpty then .done else .fuel)
  | n+1, st =>
    match st.rest with
    | [] => ([], st, .done)
    | _ :: _ =>
      match step T cfg st with
      | none => ([], st, .stuck)
      | some r =>
        let o := loop T cfg n r.st
        ((r.emit, r.raw) :: o.1, o.2.1, o.2.2)

structure Result where
  items : List (Option Tok × Text)   -- every match in order: token (if emitted) and its raw text
  eof : Option Tok
  endKind : LoopEnd
  deriving Repr

def Result.toks (r : Result) : List Tok := r.items.filterMap (·.1) ++ r.eof.toList
def Result.raws (r : Result) : List Text := r.items.map (·.2)

def tokenize (T : Tables) (cfg : Cfg) (s : Text) : Result :=
  let pre := prelude T s
  let out := loop T cfg (pre.2.rest.length + 1) pre.2
  { items := pre.1.map (fun p => (some p.1, p.2)) ++ out.1
    eof := if cfg.fullsheet then some ⟨"EOF", [], out.2.1.line, out.2.1.col⟩ else none
    endKind := out.2.2 }

/-- (line, col) of the position just after the prefix `p` (1-based; line separator `\n`) -/
def lineCol (p : Text) : Nat × Nat := (1 + countNl p, (p.reverse.takeWhile (· ≠ 10)).length + 1)

/-- width of the leading byte-order mark, as the tokenizer sees it -/
def bomLen (T : Tables) (s : Text) : Nat :=
  match exec T.bom s with
  | some rem => (consumed s rem).length
  | none => 0

end CssVerif
