/-
Which rules and which items of a declaration block the serialiser WRITES under the omission preferences
(serialize.py: do_CSSStyleSheet, do_CSSComment, do_CSSStyleRule, do_CSSMediaRule, do_CSSPageRule, do_MarginRule,
do_CSSFontFaceRule, do_CSSUnknownRule, do_CSSNamespaceRule, do_css_CSSStyleDeclaration, do_Property;
cssstylesheet._getUsedURIs; cssstyledeclaration.getProperties / getProperty).

The sheet is abstract: a rule is its kind plus what the omission logic looks at; a declaration is the id of its
normalised name, "has a priority" and "valid".  Uris are ids; id 0 stands for Python's `None` (a type selector
parsed while no default namespace was declared).

Transcribed quirks (all replayed on the real code by harness/props/c05o.py):
* keepEmptyRules is consulted by do_CSSStyleRule and do_CSSMediaRule only: an `@page`, a margin box or an
  `@font-face` without written content is never written;
* "empty" means "the text of the block is the empty string": a block holding only a comment is not empty while
  comments are kept; do_css_CSSStyleDeclaration appends the text of a nested at-rule AND a separator without
  looking at the text, so with keepUnknownAtRules off two nested at-rules leave one separator behind and the block
  is not empty unless lineSeparator is the empty string;
* the used uris are those of ALL style rules of the sheet (at any @media depth), written or not;
* a default `@namespace` rule stays while `None` is among the used uris;
* the effective declarations are computed on the whole block before validOnly is looked at: an invalid effective
  declaration shadows a valid earlier one.
-/
namespace CssVerif.Omit

structure Prefs where
  keepComments : Bool := true
  keepEmptyRules : Bool := false
  keepUnknownAtRules : Bool := true
  keepUsedNamespaceRulesOnly : Bool := false
  keepAllProperties : Bool := true
  validOnly : Bool := false
  /-- `lineSeparator` is not the empty string (a layout preference; see the second quirk above) -/
  lineSep : Bool := true
  deriving DecidableEq, Repr

/-- `Preferences.useMinified` (it leaves keepAllProperties as it is) -/
def useMinified (p : Prefs) : Prefs :=
  { p with keepComments := false, keepEmptyRules := false, keepUnknownAtRules := false,
           keepUsedNamespaceRulesOnly := true, validOnly := false, lineSep := false }

/-- every keep-preference at its "keep" value -/
def keepEverything : Prefs := { keepEmptyRules := true }

inductive Item
  | decl (name : Nat) (important valid : Bool)
  | comment
  | atrule
  deriving DecidableEq, Repr

abbrev Block := List Item

inductive Rule
  | comment | charset | imp | unknown
  | ns (uri : Nat) (dflt : Bool)               -- `dflt`: the prefix is empty
  | style (used : List Nat) (b : Block)        -- `used`: selectorList._getUsedUris()
  | media (kids : List Rule)
  | page (b : Block) (margins : List Block)
  | fontface (b : Block)
  deriving Repr

abbrev Sheet := List Rule

/-! ### declaration blocks -/

def isNamed (n : Nat) : Item → Bool
  | .decl m _ _ => m == n
  | _ => false

def isImpNamed (n : Nat) : Item → Bool
  | .decl m i _ => m == n && i
  | _ => false

/-- `getProperty(name) is this one`: the reversed scan returns the first declaration of the name that has a
priority, else the first one found; so a declaration with a priority is effective iff none with a priority follows
it, one without iff none of its name follows and none with a priority precedes.  It stays where it stands. -/
def effective (pre post : List Item) (n : Nat) (imp : Bool) : Bool :=
  if imp then !post.any (isImpNamed n) else !post.any (isNamed n) && !pre.any (isImpNamed n)

/-- the item is in `seq` (all of style.seq, or with keepAllProperties off the effective declarations and
everything that is no declaration) -/
def inSeq (p : Prefs) (pre post : List Item) : Item → Bool
  | .decl n i _ => p.keepAllProperties || effective pre post n i
  | _ => true

/-- the item has a non-empty text: do_Property (`_valid`), do_CSSComment / the keepComments test,
do_CSSUnknownRule -/
def writes (p : Prefs) : Item → Bool
  | .decl _ _ v => !p.validOnly || v
  | .comment => p.keepComments
  | .atrule => p.keepUnknownAtRules

def kept (p : Prefs) (pre post : List Item) (x : Item) : Bool := inSeq p pre post x && writes p x

/-- the items written, `pre` = what stands before in the original block -/
def wItems (p : Prefs) : List Item → List Item → List Item
  | _, [] => []
  | pre, x :: post =>
    if kept p pre post x then x :: wItems p (pre ++ [x]) post else wItems p (pre ++ [x]) post

def wBlock (p : Prefs) (b : Block) : Block := wItems p [] b

/-- the text an item of `seq` appends to `out` (followed by a separator), as "is not empty": a comment and a
declaration append only when they have a text (`if self.prefs.keepComments`, `if val.cssText`), a nested at-rule
always (`out.append(val.cssText)`) -/
def textOf (p : Prefs) : Item → List Bool
  | .atrule => [p.keepUnknownAtRules]
  | .comment => if p.keepComments then [true] else []
  | .decl _ _ v => if !p.validOnly || v then [true] else []

/-- the texts do_css_CSSStyleDeclaration appends to `out` -/
def texts (p : Prefs) : List Item → List Item → List Bool
  | _, [] => []
  | pre, x :: post => (if inSeq p pre post x then textOf p x else []) ++ texts p (pre ++ [x]) post

/-- `styleText != ''`: out is t1 sep t2 sep … tn after the last separator is removed -/
def blockText (p : Prefs) (b : Block) : Bool :=
  let ts := texts p [] b
  ts.any id || (p.lineSep && decide (2 ≤ ts.length))

/-- do_MarginRule for every margin box of an @page rule -/
def wMargins (p : Prefs) : List Block → List Block
  | [] => []
  | m :: ms => if blockText p m then wBlock p m :: wMargins p ms else wMargins p ms

/-! ### rules -/

mutual
/-- `_getUsedURIs`: style rules of the sheet and of @media rules at any depth -/
def usedRule : Rule → List Nat
  | .style u _ => u
  | .media kids => usedRules kids
  | _ => []
def usedRules : List Rule → List Nat
  | [] => []
  | r :: rs => usedRule r ++ usedRules rs
end

/-- do_CSSStyleSheet: `keepUsedNamespaceRulesOnly and namespaceURI not in useduris and (prefix or None not in useduris)` -/
def nsOmitted (p : Prefs) (used : List Nat) (top : Bool) (u : Nat) (dflt : Bool) : Bool :=
  top && p.keepUsedNamespaceRulesOnly && !used.contains u && (!dflt || !used.contains 0)

mutual
/-- the rule as it is written (`none`: its cssText is empty / it is skipped); `top`: a rule of the sheet itself -/
def wRule (p : Prefs) (used : List Nat) (top : Bool) : Rule → Option Rule
  | .comment => if p.keepComments then some .comment else none
  | .charset => some .charset
  | .imp => some .imp
  | .unknown => if p.keepUnknownAtRules then some .unknown else none
  | .ns u d => if nsOmitted p used top u d then none else some (.ns u d)
  | .style u b => if blockText p b || p.keepEmptyRules then some (.style u (wBlock p b)) else none
  | .media kids =>
    let ks := wRules p used false kids
    if !ks.isEmpty || p.keepEmptyRules then some (.media ks) else none
  | .page b ms =>
    let ms' := wMargins p ms
    if blockText p b || !ms'.isEmpty then some (.page (wBlock p b) ms') else none
  | .fontface b => if blockText p b then some (.fontface (wBlock p b)) else none
def wRules (p : Prefs) (used : List Nat) (top : Bool) : List Rule → List Rule
  | [] => []
  | r :: rs =>
    match wRule p used top r with
    | some r' => r' :: wRules p used top rs
    | none => wRules p used top rs
end

/-- the sheet the text of `sheet.cssText` under `p` re-parses to -/
def written (p : Prefs) (s : Sheet) : Sheet := wRules p (usedRules s) true s

/-! ### equality test (the nested type has no derived DecidableEq) -/

mutual
def Rule.beq : Rule → Rule → Bool
  | .comment, .comment => true
  | .charset, .charset => true
  | .imp, .imp => true
  | .unknown, .unknown => true
  | .ns u d, .ns u' d' => u == u' && d == d'
  | .style u b, .style u' b' => u == u' && b == b'
  | .media k, .media k' => beqRules k k'
  | .page b m, .page b' m' => b == b' && m == m'
  | .fontface b, .fontface b' => b == b'
  | _, _ => false
def beqRules : List Rule → List Rule → Bool
  | [], [] => true
  | a :: as, b :: bs => Rule.beq a b && beqRules as bs
  | _, _ => false
end

end CssVerif.Omit
