/-
L8 — model of the `css` codec (`_codec3.py`): encoding detection by candidate elimination,
text-level detection, `@charset` rewriting, one-shot decode/encode and the incremental decoder /
encoder state machines over an abstract inner codec.

Bytes and code points are `Nat`; encoding names are texts.
-/
import CssVerif.Model.Tokenizer
namespace CssVerif.Codec

abbrev Bytes := List Nat

def ofStr (s : String) : Text := s.toList.map Char.toNat

/-! ### `detectencoding_str` -/

inductive Cand
  | utf8sig | utf16asLE | utf16asBE | utf16LE | utf16BE | utf32asLE | utf32asBE | utf32LE | utf32BE | charset
  deriving DecidableEq, Repr

def allCands : List Cand :=
  [.utf8sig, .utf16asLE, .utf16asBE, .utf16LE, .utf16BE, .utf32asLE, .utf32asBE, .utf32LE, .utf32BE, .charset]

/-- the byte each candidate requires at positions 0..3 (`none` = any) -/
def pat : Cand → List (Option Nat)
  | .utf8sig => [some 0xEF, some 0xBB, some 0xBF, none]
  | .utf16asLE => [some 0xFF, some 0xFE, none, none]
  | .utf16asBE => [some 0xFE, some 0xFF, none, none]
  | .utf16LE => [some 64, some 0, some 99, some 0]
  | .utf16BE => [some 0, some 64, none, none]
  | .utf32asLE => [some 0xFF, some 0xFE, some 0, some 0]
  | .utf32asBE => [some 0, some 0, some 0xFE, some 0xFF]
  | .utf32LE => [some 64, some 0, some 0, some 0]
  | .utf32BE => [some 0, some 0, some 0, some 64]
  | .charset => [some 64, some 99, some 104, some 97]

def patOK : List (Option Nat) → Bytes → Bool
  | [], _ => true
  | _, [] => true
  | none :: ps, _ :: bs => patOK ps bs
  | some x :: ps, b :: bs => x == b && patOK ps bs

/-- candidate still possible after looking at (up to) the first four bytes -/
def compat (c : Cand) (input : Bytes) : Bool :=
  patOK (pat c) input &&
  !(c == .utf16asLE && input.length ≥ 4 && (input.drop 2).take 2 == [0, 0])

def cands (input : Bytes) : List Cand := allCands.filter (fun c => compat c input)

def need : Cand → Nat
  | .utf8sig => 3 | .utf16asLE => 2 | .utf16asBE => 2 | .utf16LE => 4 | .utf16BE => 2
  | _ => 4

def candName : Cand → Text × Bool
  | .utf8sig => (ofStr "utf-8-sig", true)
  | .utf16asLE => (ofStr "utf-16", true)
  | .utf16asBE => (ofStr "utf-16", true)
  | .utf16LE => (ofStr "utf-16-le", false)
  | .utf16BE => (ofStr "utf-16-be", false)
  | .utf32asLE => (ofStr "utf-32", true)
  | .utf32asBE => (ofStr "utf-32", true)
  | .utf32LE => (ofStr "utf-32-le", false)
  | .utf32BE => (ofStr "utf-32-be", false)
  | .charset => ([], true)

def charsetPrefix : Text := ofStr "@charset \""
def utf8 : Text := ofStr "utf-8"

/-- index of the first `"` at or after position `from` -/
def findQuote (t : Text) (start : Nat) : Option Nat :=
  match (t.drop start).findIdx? (· == 34) with
  | some i => some (start + i)
  | none => none

/-- the name in a leading `@charset "…"` of a text, if the rule head is complete -/
def charsetName (t : Text) : Option Text :=
  if charsetPrefix.isPrefixOf t then
    match findQuote t charsetPrefix.length with
    | some pos => some ((t.take pos).drop charsetPrefix.length)
    | none => none
  else none

/-- `detectencoding_str(input, final)`: (encoding or none, explicit) -/
def detectStr (input : Bytes) (final : Bool) : Option Text × Bool :=
  let cs := cands input
  let dflt : Option Text × Bool :=
    if final then
      -- a UTF-16 (LE) BOM with fewer than four bytes cannot become the UTF-32 BOM any more
      (if cs.contains .utf16asLE && 2 ≤ input.length && input.length < 4 then (some (ofStr "utf-16"), true)
       else (some utf8, false))
    else (none, false)
  match cs with
  | [] => (some utf8, false)
  | [c] =>
    if input.length ≥ need c then
      if c == .charset then
        match charsetName input with
        | some n => (some n, true)
        | none => dflt
      else ((candName c).1, (candName c).2) |> fun x => (some x.1, x.2)
    else dflt
  | _ => dflt

/-- `detectencoding_unicode(input, final)` -/
def detectUnicode (input : Text) (final : Bool) : Option Text × Bool :=
  if charsetPrefix.isPrefixOf input then
    match findQuote input charsetPrefix.length with
    | some pos => (some ((input.take pos).drop charsetPrefix.length), true)
    | none => (none, false)
  else if final || !(input.isPrefixOf charsetPrefix) then (some utf8, false)
  else (none, false)

def normName (e : Text) : Text := (e.map (fun c => if c = 95 then 45 else c)).map lowerC

def isUtf8Sig (e : Text) : Bool := normName e == ofStr "utf-8-sig"

/-- `_fixencoding(input, encoding, final)` -/
def fixEncoding (input : Text) (enc : Text) (final : Bool) : Option Text :=
  if input.length > charsetPrefix.length then
    if charsetPrefix.isPrefixOf input then
      match findQuote input charsetPrefix.length with
      | some pos => some (charsetPrefix ++ (if isUtf8Sig enc then utf8 else enc) ++ input.drop pos)
      | none => if final then some input else none
    else some input
  else if !(input.isPrefixOf charsetPrefix) || final then some input
  else none

/-! ### abstract inner codec -/

/-- what the css codec needs from Python's codec registry for one encoding name: an incremental
decoder and encoder, each a deterministic state machine that may fail (`none` = Unicode error) -/
structure Inner where
  D : Type
  E : Type
  known : Text → Bool                       -- `codecs.lookup` succeeds
  dinit : Text → D
  dec : D → Bytes → Bool → Option (Text × D)
  einit : Text → E
  enc : E → Text → Bool → Option (Bytes × E)

/-- one-shot = feed everything to a fresh machine with `final=True` -/
def Inner.decodeAll (I : Inner) (e : Text) (b : Bytes) : Option Text := (I.dec (I.dinit e) b true).map (·.1)
def Inner.encodeAll (I : Inner) (e : Text) (t : Text) : Option Bytes := (I.enc (I.einit e) t true).map (·.1)

inductive CErr | lookup | unicode | value | attribute
  deriving DecidableEq, Repr

/-- decode with a known encoding name and rewrite the header -/
def decodeWith (I : Inner) (enc : Text) (input : Bytes) : Except CErr Text :=
  if !I.known enc then .error .lookup
  else match I.decodeAll enc input with
    | none => .error .unicode
    | some t => .ok ((fixEncoding t enc true).getD t)

/-- the codec's own name, in any letter case (the codec registry is case-insensitive, so the guards
against calling the css codec from itself have to be, too; repaired in /repo) -/
def isCss (e : Text) : Bool := e.map lowerC == ofStr "css"

/-- `decode(input, encoding, force)` -/
def decode (I : Inner) (input : Bytes) (encoding : Option Text) (force : Bool) : Except CErr Text :=
  let d := detectStr input true
  let enc : Text :=
    match encoding with
    | none => d.1.getD utf8
    | some e => if !force && d.2 then d.1.getD utf8 else e
  if (encoding.isNone || !force) && (d.1.map isCss).getD false then .error .value
  else decodeWith I enc input

/-- `encode(input, encoding)` -/
def encode (I : Inner) (input : Text) (encoding : Option Text) : Except CErr Bytes :=
  match encoding with
  | none =>
    match some (((detectUnicode input true).1).getD utf8) with   -- unterminated head: UTF-8
    | none => .error .attribute
    | some e =>
      let t := if isUtf8Sig e then (fixEncoding input utf8 true).getD input else input
      if isCss e then .error .value
      else if !I.known e then .error .lookup
      else match I.encodeAll e t with | none => .error .unicode | some b => .ok b
  | some e =>
    let t := (fixEncoding input e true).getD input
    if isCss e then .error .value
    else if !I.known e then .error .lookup
    else match I.encodeAll e t with | none => .error .unicode | some b => .ok b

/-! ### incremental decoder -/

structure DecSt (I : Inner) where
  decoder : Option I.D
  encoding : Option Text
  force : Bool
  bbuf : Bytes          -- bytes buffered before the encoding is known
  tbuf : Text           -- text buffered until the header is fixed
  headerfixed : Bool

def decInit (I : Inner) (encoding : Option Text) (force : Bool) : DecSt I :=
  { decoder := none, encoding := encoding, force := force, bbuf := [], tbuf := [], headerfixed := false }

/-- header handling once the inner decoder has produced `out` -/
def decHeader (I : Inner) (st1 : DecSt I) (d' : I.D) (out : Text) (final : Bool) : Text × DecSt I :=
  if st1.headerfixed then (out, { st1 with decoder := some d' })
  else
    match fixEncoding (st1.tbuf ++ out) (st1.encoding.getD utf8) final with
    | none => ([], { st1 with decoder := some d', tbuf := st1.tbuf ++ out })
    | some o => (o, { st1 with decoder := some d', tbuf := [], headerfixed := true })

/-- run the inner decoder of a decided state -/
def decRun (I : Inner) (st1 : DecSt I) (d : I.D) (inp : Bytes) (final : Bool) : Except CErr (Text × DecSt I) :=
  match I.dec d inp final with
  | none => .error .unicode
  | some (out, d') => .ok (decHeader I st1 d' out final)

/-- which encoding an undecided decoder settles on, given what the detector says about the bytes
seen so far (`ok none` = not yet) -/
def chooseFrom (encoding : Option Text) (force : Bool) (d : Option Text × Bool) : Except CErr (Option Text) :=
  if encoding.isNone || !force then
    match d.1 with
    | none => .ok none
    | some e =>
      if isCss e then .error .value
      else .ok (some (if (d.2 && !force) || encoding.isNone then e else encoding.getD utf8))
  else .ok (some (encoding.getD utf8))

/-- `IncrementalDecoder.decode(input, final)` -/
def decStep (I : Inner) (st : DecSt I) (input : Bytes) (final : Bool) : Except CErr (Text × DecSt I) :=
  match st.decoder with
  | some d => decRun I st d input final
  | none =>
    match chooseFrom st.encoding st.force (detectStr (st.bbuf ++ input) final) with
    | .error e => .error e
    | .ok none => .ok ([], { st with bbuf := st.bbuf ++ input })
    | .ok (some enc) =>
      if !I.known enc then .error .lookup
      else decRun I { st with encoding := some enc, bbuf := [] } (I.dinit enc) (st.bbuf ++ input) final

/-- feed the chunks with `final=False`, then an empty final call (as `iterdecode` does) -/
def decFeed (I : Inner) : DecSt I → List Bytes → Except CErr (Text × DecSt I)
  | st, [] => decStep I st [] true
  | st, c :: cs =>
    match decStep I st c false with
    | .error e => .error e
    | .ok (o, st') =>
      match decFeed I st' cs with
      | .error e => .error e
      | .ok (o', st'') => .ok (o ++ o', st'')

/-! ### incremental encoder -/

structure EncSt (I : Inner) where
  encoder : Option I.E
  encoding : Option Text
  buf : Text

def encInit (I : Inner) (encoding : Option Text) : EncSt I := { encoder := none, encoding := encoding, buf := [] }

/-- `IncrementalEncoder.encode(input, final)` -/
def encStep (I : Inner) (st : EncSt I) (input : Text) (final : Bool) : Except CErr (Bytes × EncSt I) :=
  match st.encoder with
  | some e =>
    match I.enc e input final with
    | none => .error .unicode
    | some (b, e') => .ok (b, { st with encoder := some e' })
  | none =>
    let inp := st.buf ++ input
    -- (text to encode, encoding) once known
    let r : Option (Text × Option Text) :=
      match st.encoding with
      | some e =>
        match fixEncoding inp e final with
        | none => none
        | some t => some (t, some e)
      | none => some (inp, match (detectUnicode inp final).1 with
          | some e => some e
          | none => if final then some utf8 else none)
    match r with
    | none => .ok ([], { st with buf := inp })
    | some (_, none) => .ok ([], { st with buf := inp, encoding := none })
    | some (t, some e) =>
      if isCss e then .error .value
      else if !I.known e then .error .lookup
      else
        let t' := if isUtf8Sig e then (fixEncoding t utf8 true).getD t else t
        match I.enc (I.einit e) t' final with
        | none => .error .unicode
        | some (b, e') => .ok (b, { encoder := some e', encoding := some e, buf := [] })

def encFeed (I : Inner) : EncSt I → List Text → Except CErr (Bytes × EncSt I)
  | st, [] => encStep I st [] true
  | st, c :: cs =>
    match encStep I st c false with
    | .error e => .error e
    | .ok (o, st') =>
      match encFeed I st' cs with
      | .error e => .error e
      | .ok (o', st'') => .ok (o ++ o', st'')

end CssVerif.Codec
