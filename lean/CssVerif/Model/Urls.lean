/-
URLs of a sheet: the traversal of `css_parser.getUrls` / `replaceUrls` over the rule tree, and the quoting
(`helper.uri`, `helper.string`) and un-quoting (`helper.urivalue`, `helper.stringvalue`) of a URL string.
-/
namespace CssVerif.Urls

/-! ### rule tree -/

inductive Node
  | import_ (href : List Nat)
  | style (urls : List (List Nat))                                    -- also @font-face: has `style`, no `cssRules`
  | page (own : List (List Nat)) (margins : List (List (List Nat)))  -- has `cssRules` (margin rules) *and* `style`
  | media (kids : List Node)                                          -- has `cssRules`
  | other                                                             -- unknown rule, comment, @charset, @namespace
  deriving Repr

abbrev Url := List Nat

mutual
  /-- `styleDeclarations(base)` for a rule; `fx = false`: the pinned snapshot did not yield the own declarations of
  a rule that has `cssRules` -/
  def declsOf (fx : Bool) : Node → List Url
    | .import_ _ => []
    | .style us => us
    | .page own ms => (if fx then own else []) ++ ms.flatten
    | .media kids => declsOfList fx kids
    | .other => []
  def declsOfList (fx : Bool) : List Node → List Url
    | [] => []
    | n :: ns => declsOf fx n ++ declsOfList fx ns
end

def importHrefs : List Node → List Url
  | [] => []
  | .import_ h :: ns => h :: importHrefs ns
  | _ :: ns => importHrefs ns

/-- `getUrls(sheet)` -/
def getUrls (fx : Bool) (sheet : List Node) : List Url := importHrefs sheet ++ declsOfList fx sheet

mutual
  def replaceIn (fx : Bool) (f : Url → Url) : Node → Node
    | .import_ h => .import_ h
    | .style us => .style (us.map f)
    | .page own ms => .page (if fx then own.map f else own) (ms.map (·.map f))
    | .media kids => .media (replaceInList fx f kids)
    | .other => .other
  def replaceInList (fx : Bool) (f : Url → Url) : List Node → List Node
    | [] => []
    | n :: ns => replaceIn fx f n :: replaceInList fx f ns
end

def replaceImports (f : Url → Url) : List Node → List Node
  | [] => []
  | .import_ h :: ns => .import_ (f h) :: replaceImports f ns
  | n :: ns => n :: replaceImports f ns

/-- `replaceUrls(sheet, replacer, ignoreImportRules)` -/
def replaceUrls (fx : Bool) (f : Url → Url) (ignoreImports : Bool) (sheet : List Node) : List Node :=
  replaceInList fx f (if ignoreImports then sheet else replaceImports f sheet)

/-! ### quoting -/

/-- `str.isspace()` / `\s` under re.U -/
def isSpace (c : Nat) : Bool :=
  (9 ≤ c && c ≤ 13) || (28 ≤ c && c ≤ 32) || c == 0x85 || c == 0xa0 || c == 0x1680 || (0x2000 ≤ c && c ≤ 0x200a) ||
  c == 0x2028 || c == 0x2029 || c == 0x202f || c == 0x205f || c == 0x3000

/-- `_match_forbidden_in_uri`: characters that force quotes (`fx = false`: without the control characters) -/
def forbidden (fx : Bool) (c : Nat) : Bool :=
  c == 40 || c == 41 || c == 59 || c == 44 || c == 39 || c == 34 || isSpace c || (fx && (c < 32 || c == 127))

/-- `helper.string` on a value without newline, form feed, carriage return: `"` is escaped; a final backslash
is doubled -/
def cssString (v : Url) : Url :=
  let e := v.flatMap (fun c => if c = 34 then [92, 34] else [c])
  let e := if e.getLast? == some 92 then e.dropLast ++ [92, 92] else e
  [34] ++ e ++ [34]

/-- `helper.uri` -/
def cssUri (fx : Bool) (v : Url) : Url :=
  [117, 114, 108, 40] ++ (if v.any (forbidden fx) then cssString v else v) ++ [41]

/-- `s.replace('\\' + q, q)`: left to right, non-overlapping -/
def unescape (q : Nat) : Url → Url
  | 92 :: c :: r => if c = q then q :: unescape q r else 92 :: unescape q (c :: r)
  | c :: r => c :: unescape q r
  | [] => []

/-- `helper.stringvalue` -/
def stringValue (s : Url) : Url :=
  match s with
  | [] => []
  | q :: _ => ((unescape q s).drop 1).dropLast

/-- CSS white space: what `urivalue` strips from the text between the parentheses (repaired in /repo: before,
`str.strip()` also removed a no-break space or U+3000 at the edge of a bare URL) -/
def isCssWs (c : Nat) : Bool := c == 32 || c == 9 || c == 10 || c == 12 || c == 13

def strip (s : Url) : Url := ((s.dropWhile isCssWs).reverse.dropWhile isCssWs).reverse

/-- `helper.urivalue` -/
def uriValue (u : Url) : Url :=
  let inner := strip ((u.drop ((u.findIdx? (· == 40)).getD 0 + 1)).dropLast)
  match inner.head?, inner.getLast? with
  | some a, some b => if (a = 34 || a = 39) && a = b then stringValue inner else inner
  | _, _ => inner

end CssVerif.Urls
