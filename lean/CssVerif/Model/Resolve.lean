/-
`css_parser.resolveImports(sheet)` (src/css_parser/__init__.py) with the parts of
`CSSStyleSheet.add` (= `insertRule(rule, inOrder=True)`), `_cleanNamespaces`, `deleteRule`,
`_Namespaces.namespaces` and `CSSMediaRule.add` it runs through.  Import-free.

A sheet is the list of its rules.  A rule carries what the code reads:
  @charset               — skipped by resolveImports
  @namespace p u         — prefix and URI (0 = the default prefix '')
  @import id q target    — id of the href, id of `media.mediaText` (0 = 'all'),
                           `some sheet` = hrefFound with the parsed imported sheet, `none` = not loaded
  @media q { rules }     — a media block (one written in a sheet, or one made by resolveImports)
  comment id, `/* START @import "id" */` (the comment resolveImports writes; type COMMENT as well)
  style id used          — a style rule and the namespace URIs its selectors use
  block k id             — @page, @font-face, an unknown at-rule
@variables rules are not modelled.

The log raises (css_parser.log.raiseExceptions is True outside a parse), so
`CSSMediaRule.insertRule` of a rule that may not live in @media raises HierarchyRequestErr and
`deleteRule` of a namespace in use raises NoModificationAllowedErr.  resolveImports catches
HierarchyRequestErr of the nested call only.  (With the check of the rule kinds before wrapping —
comments and style rules only — neither the `except` branch nor the raising `CSSMediaRule.add` can be
reached any more: `Proofs/Resolve.lean`, `resolve_never_hierarchy`.  They are transcribed all the same.)
-/
namespace CssVerif.Resolve

inductive BK | page | fontface | unknown
  deriving DecidableEq, Repr

inductive Rule where
  | charset (enc : Nat)
  | ns (pfx uri : Nat)
  | imp (id q : Nat) (target : Option (List Rule))
  | media (q : Nat) (rules : List Rule)
  | comment (id : Nat)
  | start (id : Nat)
  | style (id : Nat) (used : List Nat)
  | block (k : BK) (id : Nat)
  deriving Repr, Inhabited

abbrev Sheet := List Rule

inductive Err | hierarchy | noModification | fuel
  deriving DecidableEq, Repr

inductive Res
  | ok (s : Sheet)
  | raised (e : Err)
  deriving Repr

/-! ### rule types -/

def Rule.isCharset : Rule → Bool | .charset _ => true | _ => false
def Rule.isImport : Rule → Bool | .imp _ _ _ => true | _ => false
def Rule.isNs : Rule → Bool | .ns _ _ => true | _ => false
/-- type COMMENT -/
def Rule.isComment : Rule → Bool | .comment _ => true | .start _ => true | _ => false
/-- VARIABLES, MEDIA, PAGE, STYLE, FONT_FACE, UNKNOWN, COMMENT: the kinds an in-order @namespace is put in front of -/
def Rule.isCand : Rule → Bool
  | .media _ _ => true | .comment _ => true | .start _ => true | .style _ _ => true | .block _ _ => true
  | _ => false
/-- everything that `add` appends at the end -/
def Rule.isBody (r : Rule) : Bool := !(r.isCharset || r.isImport || r.isNs)
/-- `r.type in (r.COMMENT, r.STYLE_RULE)`: what resolveImports is willing to put into @media (an @import
left in the flattened imported sheet — a kept one, e.g. not loadable — is not: @media refuses it) -/
def Rule.canWrap : Rule → Bool
  | .comment _ => true | .start _ => true | .style _ _ => true | _ => false
/-- what `CSSMediaRule.insertRule` refuses (there is no margin rule at sheet level) -/
def Rule.mediaForbids : Rule → Bool
  | .charset _ => true | .ns _ _ => true | .imp _ _ _ => true | .block .fontface _ => true | _ => false

/-! ### namespaces of a sheet -/

def nsPairs : Sheet → List (Nat × Nat)
  | [] => []
  | .ns p u :: rs => (p, u) :: nsPairs rs
  | _ :: rs => nsPairs rs

/-- `_Namespaces.namespaces`: from the last @namespace rule to the first; a rule whose URI is not yet a
value and whose prefix is not yet bound adds `prefix ↦ uri` -/
def viewOf (pairs : List (Nat × Nat)) : List (Nat × Nat) :=
  pairs.reverse.foldl (fun d pu => if d.any (·.2 = pu.2) || d.any (·.1 = pu.1) then d else d ++ [pu]) []

def view (s : Sheet) : List (Nat × Nat) := viewOf (nsPairs s)

def dictGet (d : List (Nat × Nat)) (k : Nat) : Option Nat := (d.find? (·.1 = k)).map (·.2)

mutual
/-- `_getUsedURIs`: style rules, and @media rules recursively -/
def Rule.usedURIs : Rule → List Nat
  | .style _ u => u
  | .media _ rs => usedL rs
  | _ => []
def usedL : List Rule → List Nat
  | [] => []
  | r :: rs => r.usedURIs ++ usedL rs
end

/-- `_cleanNamespaces`: every @namespace rule whose (prefix, URI) is not an item of the view is deleted;
`deleteRule` refuses (NoModificationAllowedErr) when the URI is in use and declared by this rule only.
`acc` = the rules already passed (kept), in order. -/
def cleanGo (items : List (Nat × Nat)) (used : List Nat) : Sheet → Sheet → Option Sheet
  | acc, [] => some acc
  | acc, .ns p u :: rest =>
    if items.contains (p, u) then cleanGo items used (acc ++ [.ns p u]) rest
    else if used.contains u && ((nsPairs (acc ++ .ns p u :: rest)).map (·.2)).count u == 1 then none
    else cleanGo items used acc rest
  | acc, r :: rest => cleanGo items used (acc ++ [r]) rest

def cleanNamespaces (s : Sheet) : Option Sheet := cleanGo (view s) (usedL s) [] s

/-! ### `CSSStyleSheet.add` -/

def insertAt (s : Sheet) (i : Nat) (r : Rule) : Sheet := s.take i ++ r :: s.drop i

/-- index behind the last rule satisfying `p` ("find last of this type") -/
def afterLast (p : Rule → Bool) : Sheet → Option Nat
  | [] => none
  | r :: rs =>
    match afterLast p rs with
    | some i => some (i + 1)
    | none => if p r then some 1 else none

/-- index of the first rule at or behind `start` satisfying `p` -/
def firstFrom (p : Rule → Bool) (start : Nat) : Sheet → Nat → Option Nat
  | [], _ => none
  | r :: rs, i => if i ≥ start && p r then some i else firstFrom p start rs (i + 1)

def headIs (p : Rule → Bool) : Sheet → Bool
  | r :: _ => p r
  | [] => false

/-- in-order place of an @import: behind the last @import; if there is none, behind a leading @charset or
comment, else in front -/
def importIdx (s : Sheet) : Nat :=
  (afterLast Rule.isImport s).getD (if headIs Rule.isCharset s || headIs Rule.isComment s then 1 else 0)

/-- in-order place of an @namespace: behind the last @namespace; if there is none, in front of the first
other rule behind the last @charset / @import (never in front of these), else at the end -/
def nsIdx (s : Sheet) : Nat :=
  (afterLast Rule.isNs s).getD
    ((firstFrom Rule.isCand ((afterLast (fun x => x.isCharset || x.isImport) s).getD 0) s 0).getD s.length)

/-- `insertRule(rule, inOrder=True)` of a well-formed rule object: `none` = NoModificationAllowedErr
(the only exception this path can raise), the sheet is unchanged then -/
def add (s : Sheet) (r : Rule) : Option Sheet :=
  match r with
  | .charset e =>
    -- always first and only
    match s with
    | .charset _ :: t => some (.charset e :: t)
    | _ => some (r :: s)
  | .imp _ _ _ => some (insertAt s (importIdx s) r)
  | .ns p u =>
    if dictGet (view s) p = some u then some s        -- no doublettes
    else cleanNamespaces (insertAt s (nsIdx s) r)
  | _ => some (s ++ [r])

/-- `CSSMediaRule.add`: `none` = HierarchyRequestErr -/
def mediaAdd (kids : Sheet) (r : Rule) : Option Sheet :=
  if r.mediaForbids then none else some (kids ++ [r])

/-- `for r in importedSheet: target.add(r)` -/
def addAll : Sheet → List Rule → Option Sheet
  | t, [] => some t
  | t, r :: rs => match add t r with | some t' => addAll t' rs | none => none

/-- `for r in importedSheet: mediaproxy.add(r)` -/
def wrapAll : Sheet → List Rule → Option Sheet
  | kids, [] => some kids
  | kids, r :: rs => match mediaAdd kids r with | some k' => wrapAll k' rs | none => none

/-! ### resolveImports -/

def liftAdd : Option Sheet → Res
  | some t => .ok t
  | none => .raised .noModification

/-- one pass of the `for rule in sheet.cssRules` loop; `rec` is the nested `resolveImports` -/
def step (rec : Sheet → Res) (t : Sheet) (r : Rule) : Res :=
  match r with
  | .charset _ => .ok t
  | .imp _ _ none => liftAdd (add t r)                            -- keep @import as it is
  | .imp id q (some sub) =>
    match add t (.start id) with
    | none => .raised .noModification
    | some t1 =>
      match rec sub with
      | .raised .hierarchy => liftAdd (add t1 r)                  -- "Cannot resolve target, keeping rule"
      | .raised e => .raised e
      | .ok imported =>
        if q = 0 then liftAdd (addAll t1 imported)
        else if imported.any (fun x => !x.canWrap) then liftAdd (add t1 r)   -- "Cannot combine imported sheet with given media"
        else
          match wrapAll [] imported with
          | none => .raised .hierarchy
          | some kids => liftAdd (add t1 (.media q kids))
  | _ => liftAdd (add t r)

def run (rec : Sheet → Res) : Sheet → Sheet → Res
  | [], t => .ok t
  | r :: rs, t =>
    match step rec t r with
    | .ok t' => run rec rs t'
    | e => e

/-- `resolveImports(sheet)` with `fuel` levels of nesting -/
def resolve : Nat → Sheet → Res
  | 0 => fun _ => .raised .fuel
  | fuel + 1 => fun s => run (resolve fuel) s []

mutual
/-- nesting depth of loaded imports, plus one -/
def Rule.height : Rule → Nat
  | .imp _ _ (some sub) => heightL sub + 1
  | _ => 0
def heightL : List Rule → Nat
  | [] => 1
  | r :: rs => max r.height (heightL rs)
end

def resolveImports (s : Sheet) : Res := resolve (heightL s) s

end CssVerif.Resolve
