import CssVerif.Driver.Proto
import CssVerif.Model.Number
namespace CssVerif.NumOps
open CssVerif CssVerif.Number CssVerif.Proto

/-- `num <fixed 0|1> <omitLeadingZero 0|1> <text>` → serialised text -/
def opNum (fx om hex : String) : String :=
  match parseText hex with
  | none => "bad-op"
  | some t =>
    match parseNum t with
    | none => "~"
    | some p => showText (fmtNumber (fx == "1") (om == "1") p)

/-- `numval <text>` → value of a decimal text as `sign num/den` -/
def opVal (hex : String) : String :=
  match parseText hex with
  | none => "bad-op"
  | some t =>
    match parseNum t with
    | none => "~"
    | some p => s!"{if p.value.neg && !p.value.isZero then "-" else ""}{p.value.num}/{p.value.den} {showText p.dim} {if p.isFloat then "f" else "i"}"

end CssVerif.NumOps

namespace CssVerif.NumOps
open CssVerif CssVerif.Color CssVerif.Proto

/-- `hexc <text>` → r,g,b of a hex colour or `~` -/
def opHex (hex : String) : String :=
  match parseText hex with
  | none => "bad-op"
  | some t => match hexColor t with
    | some (r, g, b) => s!"{r},{g},{b}"
    | none => "~"

/-- `hash <minimize 0|1> <text>` -/
def opHash (m hex : String) : String :=
  match parseText hex with
  | none => "bad-op"
  | some t => showText (shortenHash (m == "1") t)

end CssVerif.NumOps
