import CssVerif.Driver.Proto
import CssVerif.Model.Escape
import CssVerif.Model.Respell
namespace CssVerif.EscOps
open CssVerif CssVerif.Escape CssVerif.Proto

/-- `escall <ascii|latin1> <text>` -/
def opEscAll (enc hex : String) : String :=
  match parseText hex with
  | some t => showText (escapeAll (fun c => if enc == "ascii" then c < 128 else c < 256) t)
  | none => "bad-op"

/-- `unesc <text>` -/
def opUnesc (hex : String) : String :=
  match parseText hex with
  | some t => showText (cssUnescape t)
  | none => "bad-op"

/-- `decode <text>`: escapes read, then normalised (C10) -/
def opDecode (hex : String) : String :=
  match parseText hex with
  | some t => showText (Respell.decode t)
  | none => "bad-op"

/-- `norm <text>`: `helper.normalize` -/
def opNorm (hex : String) : String :=
  match parseText hex with
  | some t => showText (Respell.normalize t)
  | none => "bad-op"

end CssVerif.EscOps
