import CssVerif.Driver.Proto
import CssVerif.Model.Escape
namespace CssVerif.EscOps
open CssVerif CssVerif.Escape CssVerif.Proto

/-- `escall <ascii|latin1> <text>` -/
def opEscAll (enc hex : String) : String :=
  match parseText hex with
  | some t => showText (escapeAll (fun c => if enc == "ascii" then c < 128 else c < 256) t)
  | none => "bad-op"

/-- `unesc <text>` -/
def opUnesc (hex : String) : String :=
  match parseText hex with
  | some t => showText (cssUnescape t)
  | none => "bad-op"

end CssVerif.EscOps
