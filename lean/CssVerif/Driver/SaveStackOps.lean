import CssVerif.Model.SaveStack
namespace CssVerif.SaveStackOps
open CssVerif.SaveStack

/-
`savestack <pvs> <flag> <events>`: pvs = one 0/1 per parser object (its parse-time value), flag = 0/1 (what the caller
set), events joined by `,`: `e<p>` enter parser p, `x<p>` exit parser p, `s0` / `s1` the caller assigns the flag.
Output: the flag after each event (0/1 string), `;`, the number of values each parser still remembers.
-/

def bit (c : Char) : Option Bool := if c == '1' then some true else if c == '0' then some false else none

def parseEv (t : String) : Option Ev :=
  match t.toList with
  | 'e' :: r => (String.ofList r).toNat?.map .enter
  | 'x' :: r => (String.ofList r).toNat?.map .exit
  | ['s', c] => (bit c).map .set
  | _ => none

def run (pvs flag evs : String) : String :=
  match pvs.toList.mapM bit, flag.toList.mapM bit, (evs.splitOn ",").mapM parseEv with
  | some ps, some [f], some h =>
    let (tr, mem) := stackObs ps f h
    String.ofList (tr.map (fun b => if b then '1' else '0')) ++ ";" ++ ",".intercalate (mem.map (fun m => toString m.length))
  | _, _, _ => "bad-op"

end CssVerif.SaveStackOps
