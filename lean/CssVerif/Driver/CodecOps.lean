import CssVerif.Driver.Proto
import CssVerif.Model.Codec
namespace CssVerif.CodecOps
open CssVerif CssVerif.Codec CssVerif.Proto

/-- the driver's inner codecs: single-byte encodings that are the identity on their range, and
utf-8-sig restricted to ASCII payloads.  Multi-byte inner codecs are Python's own (trusted base). -/
inductive DSt | plain (limit : Nat) | sig (first : Bool) (pend : Bytes)

def limitOf (e : Text) : Option Nat :=
  let n := normName e
  if n == ofStr "ascii" || n == ofStr "us-ascii" then some 128
  else if n == ofStr "utf-8" || n == ofStr "utf8" then some 128     -- ASCII-only payloads in the harness
  else if n == ofStr "latin-1" || n == ofStr "iso-8859-1" || n == ofStr "latin1" then some 256
  else none

def bom8 : Bytes := [0xEF, 0xBB, 0xBF]

def decPlain (limit : Nat) (b : Bytes) : Option Text := if b.all (· < limit) then some b else none

def simple : Inner where
  D := DSt
  E := Nat × Bool        -- (limit, bom still to be written)
  known := fun e => (limitOf e).isSome || isUtf8Sig e
  dinit := fun e => if isUtf8Sig e then .sig true [] else .plain ((limitOf e).getD 128)
  dec := fun st b final =>
    match st with
    | .plain l => (decPlain l b).map (fun t => (t, .plain l))
    | .sig false _ => (decPlain 128 b).map (fun t => (t, .sig false []))
    | .sig true pend =>
      let data := pend ++ b
      if data.length < 3 then
        if data.isPrefixOf bom8 then
          -- not enough data to decide whether this is a BOM: keep it (even at final, as CPython does)
          some ([], .sig true data)
        else (decPlain 128 data).map (fun t => (t, .sig false []))
      else
        let body := if bom8.isPrefixOf data then data.drop 3 else data
        (decPlain 128 body).map (fun t => (t, .sig false []))
  einit := fun e => if isUtf8Sig e then (128, true) else ((limitOf e).getD 128, false)
  enc := fun st t _ =>
    if t.all (· < st.1) then some ((if st.2 then bom8 else []) ++ t, (st.1, false)) else none

def showErr : CErr → String
  | .lookup => "ERR:lookup" | .unicode => "ERR:unicode" | .value => "ERR:value" | .attribute => "ERR:attribute"

def flag (s : String) : Bool := s == "F" || s == "1"

def optEnc (s : String) : Option (Option Text) := if s == "~" then some none else (parseText s).map some

def opDetect (f hex : String) : String :=
  match parseText hex with
  | none => "bad-op"
  | some b => let r := detectStr b (flag f); s!"{showOptText r.1}/{if r.2 then 1 else 0}"

def opDetectU (f hex : String) : String :=
  match parseText hex with
  | none => "bad-op"
  | some b => let r := detectUnicode b (flag f); s!"{showOptText r.1}/{if r.2 then 1 else 0}"

def opFix (f enc hex : String) : String :=
  match parseText enc, parseText hex with
  | some e, some t => showOptText (fixEncoding t e (flag f))
  | _, _ => "bad-op"

def opDec (enc force hex : String) : String :=
  match optEnc enc, parseText hex with
  | some e, some b =>
    match decode simple b e (flag force) with
    | .ok t => showText t
    | .error er => showErr er
  | _, _ => "bad-op"

def opEnc (enc hex : String) : String :=
  match optEnc enc, parseText hex with
  | some e, some t =>
    match encode simple t e with
    | .ok b => showText b
    | .error er => showErr er
  | _, _ => "bad-op"

def parseChunks (s : String) : Option (List (List Nat)) :=
  if s == "" then some [] else (s.splitOn ";").mapM parseText

def opIDec (enc force chunks : String) : String :=
  match optEnc enc, parseChunks chunks with
  | some e, some cs =>
    match decFeed simple (decInit simple e (flag force)) cs with
    | .ok (t, _) => showText t
    | .error er => showErr er
  | _, _ => "bad-op"

def opIEnc (enc chunks : String) : String :=
  match optEnc enc, parseChunks chunks with
  | some e, some cs =>
    match encFeed simple (encInit simple e) cs with
    | .ok (b, _) => showText b
    | .error er => showErr er
  | _, _ => "bad-op"

end CssVerif.CodecOps
