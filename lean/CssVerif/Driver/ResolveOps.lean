import CssVerif.Driver.Proto
import CssVerif.Model.Resolve
namespace CssVerif.ResolveOps
open CssVerif CssVerif.Resolve

/-
Sheets cross as comma separated tokens (`-` = the empty sheet):
  C<enc>  N<prefix>:<uri>  U<href>:<media>  I<href>:<media>[ … ]  M<media>[ … ]
  c<id>  S<href>  s<id>[:<uri>+<uri>…]  p<id>  f<id>  u<id>
`U` = @import not loaded, `I … ]` = loaded @import with the imported sheet, media 0 = `all`,
`S` = the START comment, `p f u` = @page, @font-face, unknown at-rule.
-/

inductive Frame
  | top
  | imp (id q : Nat)
  | media (q : Nat)

def two (s : String) : Option (Nat × Nat) :=
  match s.splitOn ":" with
  | [a, b] => do pure (← a.toNat?, ← b.toNat?)
  | _ => none

def uris (s : String) : Option (List Nat) := (s.splitOn "+").mapM (·.toNat?)

def leaf (tok : String) : Option Rule :=
  let body := (tok.drop 1).toString
  match tok.front with
  | 'C' => body.toNat?.map .charset
  | 'N' => (two body).map (fun pu => .ns pu.1 pu.2)
  | 'U' => (two body).map (fun iq => .imp iq.1 iq.2 none)
  | 'c' => body.toNat?.map .comment
  | 'S' => body.toNat?.map .start
  | 's' => (match body.splitOn ":" with
      | [i] => i.toNat?.map (fun i => .style i [])
      | [i, u] => do pure (.style (← i.toNat?) (← uris u))
      | _ => none)
  | 'p' => body.toNat?.map (.block .page)
  | 'f' => body.toNat?.map (.block .fontface)
  | 'u' => body.toNat?.map (.block .unknown)
  | _ => none

/-- the stack holds the open frames with their rules so far (reversed) -/
def parseGo : List String → List (Frame × List Rule) → Option Sheet
  | [], [(.top, acc)] => some acc.reverse
  | [], _ => none
  | tok :: toks, stack =>
    if tok == "]" then
      match stack with
      | (.imp id q, acc) :: (f, pacc) :: st => parseGo toks ((f, .imp id q (some acc.reverse) :: pacc) :: st)
      | (.media q, acc) :: (f, pacc) :: st => parseGo toks ((f, .media q acc.reverse :: pacc) :: st)
      | _ => none
    else if tok.back == '[' then
      let body := ((tok.drop 1).dropEnd 1).toString
      match tok.front with
      | 'I' => (match two body with
          | some (id, q) => parseGo toks ((.imp id q, []) :: stack)
          | none => none)
      | 'M' => (match body.toNat? with
          | some q => parseGo toks ((.media q, []) :: stack)
          | none => none)
      | _ => none
    else
      match leaf tok, stack with
      | some r, (f, acc) :: st => parseGo toks ((f, r :: acc) :: st)
      | _, _ => none

def parseSheet (s : String) : Option Sheet :=
  if s == "-" then some [] else parseGo (s.splitOn ",") [(.top, [])]

mutual
def showRule : Rule → List String
  | .charset e => [s!"C{e}"]
  | .ns p u => [s!"N{p}:{u}"]
  | .imp id q none => [s!"U{id}:{q}"]
  | .imp id q (some sub) => s!"I{id}:{q}[" :: (showRules sub ++ ["]"])
  | .media q rs => s!"M{q}[" :: (showRules rs ++ ["]"])
  | .comment i => [s!"c{i}"]
  | .start i => [s!"S{i}"]
  | .style i [] => [s!"s{i}"]
  | .style i us => [s!"s{i}:" ++ "+".intercalate (us.map toString)]
  | .block .page i => [s!"p{i}"]
  | .block .fontface i => [s!"f{i}"]
  | .block .unknown i => [s!"u{i}"]
def showRules : List Rule → List String
  | [] => []
  | r :: rs => showRule r ++ showRules rs
end

def showSheet (s : Sheet) : String := if s.isEmpty then "-" else ",".intercalate (showRules s)

def showRes : Res → String
  | .ok s => "ok " ++ showSheet s
  | .raised .hierarchy => "raised hierarchy"
  | .raised .noModification => "raised nomod"
  | .raised .fuel => "raised fuel"

/-- `resolve <sheet>` → `ok <flat sheet>` | `raised hierarchy` | `raised nomod` -/
def opResolve (s : String) : String :=
  match parseSheet s with
  | some sh => showRes (resolveImports sh)
  | none => "bad-op"

end CssVerif.ResolveOps
