import CssVerif.Driver.Proto
import CssVerif.Driver.SheetOps
import CssVerif.Model.Upto
namespace CssVerif.UptoOps
open CssVerif CssVerif.Upto

def tkOf (c : Char) : Option TK :=
  match c with
  | '{' => some .lbrace | '}' => some .rbrace | '[' => some .lbracket | ']' => some .rbracket
  | '(' => some .lparen | ')' => some .rparen | 'F' => some .func | ';' => some .semi | ':' => some .colon
  | '!' => some .bang | ',' => some .comma | 'S' => some .string | 'E' => some .eof | 'w' => some .ws
  | 'c' => some .cdo | 'm' => some .comment | '@' => some (.atkw 0) | 'i' => some .ident | 'o' => some .other
  | _ => none

def parseToks (s : String) : Option (List TK) := if s == "-" then some [] else s.toList.mapM tkOf

def modeOf : String → Option Mode
  | "default" => some default | "blockstartonly" => some blockstartonly | "blockendonly" => some blockendonly
  | "mediaendonly" => some mediaendonly | "importmediaqueryendonly" => some importmediaqueryendonly
  | "mediaqueryendonly" => some mediaqueryendonly | "semicolon" => some semicolon
  | "propertynameendonly" => some propertynameendonly | "propertyvalueendonly" => some propertyvalueendonly
  | "propertypriorityendonly" => some propertypriorityendonly | "selectorattendonly" => some selectorattendonly
  | "funcendonly" => some funcendonly | "listseponly" => some listseponly
  | _ => none

/-- `upto <fx> <mode> <start|-> <toks>` → number of tokens returned -/
def opUpto (fx mode start toks : String) : String :=
  match modeOf mode, parseToks start, parseToks toks with
  | some m, some st, some ts =>
    let r := upto (fx == "1") m st.head? ts
    s!"{r.1.length}"
  | _, _, _ => "bad-op"

/-- `split <fx> <toks>` → lengths of the statements handed to productions -/
def opSplit (fx toks : String) : String :=
  match parseToks toks with
  | some ts => ",".intercalate ((splitAll (fx == "1") ts).map (fun s => toString s.length))
  | none => "bad-op"

def dk : DKind → String
  | .property => "P" | .atrule => "A" | .ignored => "I" | .comment => "C"

/-- `dsplit <fx> <toks>` → kind and length of every span of a declaration block -/
def opDsplit (fx toks : String) : String :=
  match parseToks toks with
  | some ts => ",".intercalate ((dsplitAll (fx == "1") ts).map (fun s => s!"{dk s.1}{s.2.length}"))
  | none => "bad-op"

/-- `stmts <fx> <k=rule|k=-|w,...>` → the rule list kept (kinds with payload) -/
def opStmts (fx items : String) : String :=
  let parsed : Option (List SItem) :=
    if items == "-" then some [] else
    (items.splitOn ",").mapM (fun it => match it.splitOn "=" with
      | ["w"] => some .ws
      | [k, r] => do
        let k ← SheetOps.kindOf k
        if r == "-" then pure (.stmt k none) else do let r ← SheetOps.parseRule r; pure (.stmt k (some r))
      | _ => none)
  match parsed with
  | some l => " ".intercalate ((parseStmts (fx == "1") l).map SheetOps.showRule)
  | none => "bad-op"

end CssVerif.UptoOps
