import CssVerif.Driver.Proto
import CssVerif.Model.Out
namespace CssVerif.OutOps
open CssVerif.Proto CssVerif.Out

def tyOf : String → Option Ty
  | "comment" => some .comment | "s" => some .s | "string" => some .string | "uri" => some .uri | "hash" => some .hash
  | "func" => some .func | "styletext" => some .styletext | "other" => some .other | _ => none

/-- one append: `ty:flags:val` with flags a 4-character string of 0/1 (space keepS indent alwaysS) -/
def parseOp (w : String) : Option (Ty × Bool × Bool × Bool × Bool × Text) :=
  match w.splitOn ":" with
  | [t, f, v] =>
    match tyOf t, f.toList, parseText v with
    | some ty, [a, b, c, d], some val => some (ty, a == '1', b == '1', c == '1', d == '1', val)
    | _, _, _ => none
  | _ => none

/-- `out <spacer> <listItemSpacer> <propertyNameSpacer> <paranthesisSpacer> <selectorCombinatorSpacer> <lineSeparator>
<indent> <keepComments><indentClosingBrace> <level> <keepS of value()> <op>*` → the pieces, then the joined value -/
def opOut (args : List String) : String :=
  match args with
  | sp :: li :: pn :: pa :: sc :: ls :: ind :: flags :: lvl :: ks :: ops =>
    match parseText sp, parseText li, parseText pn, parseText pa, parseText sc, parseText ls, parseText ind, flags.toList,
        lvl.toNat?, ops.mapM parseOp with
    | some sp, some li, some pn, some pa, some sc, some ls, some ind, [kc, icb], some lvl, some ops =>
      let p : Prefs := { spacer := sp, listItemSpacer := li, propertyNameSpacer := pn, paranthesisSpacer := pa,
                         selectorCombinatorSpacer := sc, lineSeparator := ls, indent := ind, keepComments := kc == '1',
                         indentClosingBrace := icb == '1', level := lvl }
      let out := ops.foldl (fun o (ty, a, b, c, d, v) => append p o v ty a b c d) []
      " ".intercalate (out.map showText) ++ " | " ++ showText (value out (ks == "1"))
    | _, _, _, _, _, _, _, _, _, _ => "bad-op"
  | _ => "bad-op"

end CssVerif.OutOps
