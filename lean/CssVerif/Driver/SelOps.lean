import CssVerif.Driver.Proto
import CssVerif.Model.Selector
import CssVerif.Gen.Productions
namespace CssVerif.SelOps
open CssVerif CssVerif.Selector CssVerif.Proto

def parseNsMap (s : String) : Option NsMap :=
  if s == "~" then some [] else
  (s.splitOn ";").mapM (fun kv => match kv.splitOn "=" with
    | [k, v] => do let k ← parseText k; let v ← parseText v; pure (k, v)
    | _ => none)

def showNs : Option Ns → String
  | none => "-"
  | some .none => "N"
  | some .any => "A"
  | some .empty => "E"
  | some (.uri u) => "U" ++ showText u

def itName : IT → String
  | .comment => "COMMENT" | .s => "S" | .descendant => "descendant" | .universal => "universal"
  | .typesel => "type-selector" | .negtypesel => "negation-type-selector" | .attrsel => "attribute-selector"
  | .attrvalue => "attribute-value" | .attrstart => "attribute-start" | .attrend => "attribute-end"
  | .equals => "equals" | .prefixmatch => "prefixmatch" | .suffixmatch => "suffixmatch"
  | .substringmatch => "substringmatch" | .dashmatch => "dashmatch" | .includes => "includes"
  | .string => "STRING" | .ident => "IDENT" | .number => "NUMBER" | .dimension => "DIMENSION"
  | .cls => "class" | .id => "id" | .pclass => "pseudo-class" | .pelem => "pseudo-element"
  | .negstart => "negation-start" | .negend => "negation-end" | .funcend => "function-end"
  | .plus => "plus" | .minus => "minus" | .child => "child" | .adjacent => "adjacent-sibling"
  | .following => "following-sibling" | .keyError => "KeyError"

def showItem (i : Item) : String := s!"{itName i.typ}:{showText i.val}:{showNs i.ns}"

/-- `sel <nsmap> <text>` -/
def opSel (ns hex : String) : String :=
  match parseNsMap ns, parseText hex with
  | some m, some t =>
    let toks := (tokenize Gen.tables ⟨false, true⟩ t).toks.map (fun k => (TT.ofString k.typ, k.val))
    let r := parse Gen.tables m toks
    if r.wellformed then
      s!"ok;{r.spec.1},{r.spec.2.1},{r.spec.2.2};{" ".intercalate (r.items.map showItem)}"
    else s!"{r.firstErr}"
  | _, _ => "bad-op"

end CssVerif.SelOps
