import CssVerif.Model.Omit
namespace CssVerif.OmitOps
open CssVerif.Omit

/-
Sheet encoding: tokens joined by `.`, prefix notation with counts.
  sheet  T<k> rule*k
  rule   C comment · H charset · I import · U unknown · N<uri> / D<uri> @namespace with / without prefix ·
         S<k> uri*k block · M<k> rule*k · P<k> block block*k · F block
  block  B<k> item*k        item  c comment · a nested at-rule · x<n> / y<n> / z<n> / w<n> declaration of name n:
         x plain invalid, y plain valid, z with priority invalid, w with priority valid
-/

def num (s : String) : Option Nat := (s.drop 1).toNat?

def parseItem (t : String) : Option Item :=
  match t.toList.head? with
  | some 'c' => if t == "c" then some .comment else none
  | some 'a' => if t == "a" then some .atrule else none
  | some 'x' => (num t).map (fun n => .decl n false false)
  | some 'y' => (num t).map (fun n => .decl n false true)
  | some 'z' => (num t).map (fun n => .decl n true false)
  | some 'w' => (num t).map (fun n => .decl n true true)
  | _ => none

def parseBlock : List String → Option (Block × List String)
  | [] => none
  | t :: ts =>
    if t.toList.head? != some 'B' then none else
    match num t with
    | none => none
    | some k =>
      if ts.length < k then none else
      match (ts.take k).mapM parseItem with
      | none => none
      | some its => some (its, ts.drop k)

def parseBlocks : Nat → List String → Option (List Block × List String)
  | 0, ts => some ([], ts)
  | k + 1, ts =>
    match parseBlock ts with
    | none => none
    | some (b, ts) =>
      match parseBlocks k ts with
      | none => none
      | some (bs, ts) => some (b :: bs, ts)

mutual
partial def parseRule : List String → Option (Rule × List String)
  | [] => none
  | t :: ts =>
    match t.toList.head? with
    | some 'C' => some (.comment, ts)
    | some 'H' => some (.charset, ts)
    | some 'I' => some (.imp, ts)
    | some 'U' => some (.unknown, ts)
    | some 'N' => (num t).map (fun u => (.ns u false, ts))
    | some 'D' => (num t).map (fun u => (.ns u true, ts))
    | some 'S' =>
      match num t with
      | none => none
      | some k =>
        if ts.length < k then none else
        match (ts.take k).mapM String.toNat?, parseBlock (ts.drop k) with
        | some us, some (b, ts) => some (.style us b, ts)
        | _, _ => none
    | some 'M' =>
      match num t with
      | none => none
      | some k => (parseRules k ts).map (fun (rs, ts) => (.media rs, ts))
    | some 'P' =>
      match num t, parseBlock ts with
      | some k, some (b, ts) => (parseBlocks k ts).map (fun (ms, ts) => (.page b ms, ts))
      | _, _ => none
    | some 'F' => (parseBlock ts).map (fun (b, ts) => (.fontface b, ts))
    | _ => none
partial def parseRules : Nat → List String → Option (List Rule × List String)
  | 0, ts => some ([], ts)
  | k + 1, ts =>
    match parseRule ts with
    | none => none
    | some (r, ts) =>
      match parseRules k ts with
      | none => none
      | some (rs, ts) => some (r :: rs, ts)
end

def parseSheet (s : String) : Option Sheet :=
  match s.splitOn "." with
  | t :: ts =>
    if t.toList.head? != some 'T' then none else
    match num t with
    | none => none
    | some k =>
      match parseRules k ts with
      | some (rs, []) => some rs
      | _ => none
  | [] => none

def showItem : Item → String
  | .comment => "c"
  | .atrule => "a"
  | .decl n false false => s!"x{n}"
  | .decl n false true => s!"y{n}"
  | .decl n true false => s!"z{n}"
  | .decl n true true => s!"w{n}"

def showBlock (b : Block) : List String := s!"B{b.length}" :: b.map showItem

mutual
partial def showRule : Rule → List String
  | .comment => ["C"]
  | .charset => ["H"]
  | .imp => ["I"]
  | .unknown => ["U"]
  | .ns u false => [s!"N{u}"]
  | .ns u true => [s!"D{u}"]
  | .style us b => s!"S{us.length}" :: us.map toString ++ showBlock b
  | .media ks => s!"M{ks.length}" :: showRules ks
  | .page b ms => s!"P{ms.length}" :: showBlock b ++ (ms.map showBlock).flatten
  | .fontface b => "F" :: showBlock b
partial def showRules : List Rule → List String
  | [] => []
  | r :: rs => showRule r ++ showRules rs
end

def showSheet (s : Sheet) : String := ".".intercalate (s!"T{s.length}" :: showRules s)

/-- `omit <bits> <sheet>`; bits: keepComments keepEmptyRules keepUnknownAtRules keepUsedNamespaceRulesOnly
keepAllProperties validOnly lineSeparator-not-empty, a trailing `m` applies useMinified afterwards → the sheet written -/
def opOmit (bits sheet : String) : String :=
  match bits.toList, parseSheet sheet with
  | kc :: ke :: ku :: kn :: ka :: vo :: ls :: rest, some s =>
    let p : Prefs := { keepComments := kc == '1', keepEmptyRules := ke == '1', keepUnknownAtRules := ku == '1',
                       keepUsedNamespaceRulesOnly := kn == '1', keepAllProperties := ka == '1', validOnly := vo == '1',
                       lineSep := ls == '1' }
    let p := if rest == ['m'] then useMinified p else p
    showSheet (written p s)
  | _, _ => "bad-op"

end CssVerif.OmitOps
