import CssVerif.Driver.Proto
import CssVerif.Model.Sheet
namespace CssVerif.SheetOps
open CssVerif CssVerif.Sheet

def kindOf : String → Option Kind
  | "c" => some .charset | "i" => some .import | "n" => some .namespace | "v" => some .variables
  | "s" => some .style | "m" => some .media | "p" => some .page | "f" => some .fontface
  | "u" => some .unknown | "x" => some .comment | "g" => some .margin | _ => none

def kindStr : Kind → String
  | .charset => "c" | .import => "i" | .namespace => "n" | .variables => "v" | .style => "s"
  | .media => "m" | .page => "p" | .fontface => "f" | .unknown => "u" | .comment => "x" | .margin => "g"

def parseRule (s : String) : Option Rule :=
  match s.splitOn ":" with
  | [k, p, u, used] => do
    let k ← kindOf k; let p ← p.toNat?; let u ← u.toNat?
    let used ← if used == "" then some [] else (used.splitOn "/").mapM (·.toNat?)
    pure { kind := k, p := p, u := u, used := used }
  | _ => none

def parseInt (s : String) : Option Int :=
  if s.startsWith "-" then (s.drop 1).toNat?.map (fun n => -(n : Int)) else s.toNat?.map (fun n => (n : Int))

def parseOp (s : String) : Option Op :=
  match s.splitOn "." with
  | ["i", r, idx, o] => do
    let r ← parseRule r
    let idx ← if idx == "n" then some none else (idx.toNat?).map some
    pure (.insert r idx (o == "1"))
  | ["d", i] => do let i ← parseInt i; pure (.delete i)
  | ["e", e] => if e == "n" then some (.encoding none) else (e.toNat?).map (fun x => .encoding (some x))
  | ["ns", p, u] => do let p ← p.toNat?; let u ← u.toNat?; pure (.nsSet p u)
  | ["nd", p] => do let p ← p.toNat?; pure (.nsDel p)
  | ["a", rs] => if rs == "" then some (.assign []) else do
      let l ← (rs.splitOn "+").mapM parseRule
      pure (.assign l)
  | _ => none

def showRule (r : Rule) : String :=
  match r.kind with
  | .namespace => s!"n:{r.p}:{r.u}"
  | .charset => s!"c:{r.p}"
  | k => kindStr k

def showRes : Res → String
  | .ok i => s!"ok{i}"
  | .none => "none"
  | .raised .indexSize => "IndexSizeErr"
  | .raised .hierarchy => "HierarchyRequestErr"
  | .raised .noModification => "NoModificationAllowedErr"
  | .raised .namespaceErr => "NamespaceErr"
  | .raised .syntax => "SyntaxErr"

def insertSorted (x : Nat × Nat) : List (Nat × Nat) → List (Nat × Nat)
  | [] => [x]
  | y :: ys => if x.1 ≤ y.1 then x :: y :: ys else y :: insertSorted x ys

def showView (s : Sheet) : String :=
  let v := (view s).foldr insertSorted []
  ",".intercalate (v.map (fun kv => s!"{kv.1}={kv.2}"))

def observe (s : Sheet) (r : Res) : String :=
  s!"{showRes r};{" ".intercalate (s.map showRule)};{showView s};{if decide (Valid s) then "V" else "INVALID"}"

def run (fx : String) (hist : String) : String :=
  match (hist.splitOn ",").mapM parseOp with
  | none => "bad-op"
  | some ops =>
    let (_, outs) := ops.foldl (fun (acc : Sheet × List String) op =>
      let (s', r) := Sheet.step (fx == "1") acc.1 op
      (s', observe s' r :: acc.2)) (([] : Sheet), [])
    " | ".intercalate outs.reverse



/-- `nsform <p=u,p=u|-> <attr 0|1> <N|A|E|U<u>>`: how the serialiser writes a pair under a mapping, and what that form
denotes when parsed under the same mapping -/
def runNsForm (dict attr ns : String) : String :=
  let d : Option (List (Nat × Nat)) :=
    if dict == "-" then some [] else
    (dict.splitOn ",").mapM (fun kv => match kv.splitOn "=" with
      | [k, v] => do let k ← k.toNat?; let v ← v.toNat?; pure (k, v)
      | _ => none)
  let nsv : Option NsV :=
    if ns == "N" then some .none else if ns == "A" then some .any else if ns == "E" then some .empty
    else if ns.startsWith "U" then (ns.drop 1).toNat?.map .uri else none
  let showNs : NsV → String
    | .none => "N" | .any => "A" | .empty => "E" | .uri u => s!"U{u}"
  match d, nsv with
  | some d, some nsv =>
    let f := serForm d nsv
    let fs := match f with | .bare => "B" | .star => "S" | .bar => "R" | .named p => s!"P{p}"
    let back := match resolveForm d (attr == "1") f with | some n => showNs n | none => "undeclared"
    s!"{fs};{back}"
  | _, _ => "bad-op"

/-- `cont <m|p> <history>`: child-kind bookkeeping of @media / @page -/
def runCont (which : String) (hist : String) : String :=
  let forbid := if which == "m" then mediaForbids else pageForbids
  let step := fun (acc : List Kind × List String) (op : String) =>
    let (kids, outs) := acc
    match op.splitOn "." with
    | ["i", k, idx] =>
      match kindOf k with
      | some k =>
        let i := if idx == "n" then none else idx.toNat?
        let (kids', r) := containerInsert forbid kids k i
        (kids', s!"{showRes r};{" ".intercalate (kids'.map kindStr)}" :: outs)
      | none => (kids, "bad-op" :: outs)
    | ["d", i] =>
      match parseInt i with
      | some i =>
        let (kids', r) := containerDelete kids i
        (kids', s!"{showRes r};{" ".intercalate (kids'.map kindStr)}" :: outs)
      | none => (kids, "bad-op" :: outs)
    | _ => (kids, "bad-op" :: outs)
  let (_, outs) := (hist.splitOn ",").foldl step ([], [])
  " | ".intercalate outs.reverse


end CssVerif.SheetOps
