import CssVerif.Driver.Proto
import CssVerif.Model.Owners
namespace CssVerif.OwnOps
open CssVerif CssVerif.Owners

/-- `_` = empty list, otherwise naturals joined by `+` -/
def parseList (s : String) : Option (List Nat) :=
  if s == "_" then some [] else (s.splitOn "+").mapM (·.toNat?)

/-- `x` = the rule type has no such part -/
def parseOptList (s : String) : Option (Option (List Nat)) :=
  if s == "x" then some none else (parseList s).map some

def parseOp (s : String) : Option Op :=
  match s.splitOn "." with
  | ["st", r, ns] => do pure (.styleText (← r.toNat?) (← parseList ns))
  | ["so", r, x] => do pure (.styleObj (← r.toNat?) (← x.toNat?))
  | ["rt", r, ts, ns] => do pure (.ruleText (← r.toNat?) (← parseList ts) (← parseList ns))
  | ["bt", b, ns] => do pure (.blockText (← b.toNat?) (← parseList ns))
  | ["pt", b, n] => do pure (.propText (← b.toNat?) (← n.toNat?))
  | ["po", b, p] => do pure (.propObj (← b.toNat?) (← p.toNat?))
  | ["rp", b, n] => do pure (.removeProp (← b.toNat?) (← n.toNat?))
  | ["xt", r, ts] => do pure (.selectorText (← r.toNat?) (← parseList ts))
  | ["lo", r, x] => do pure (.selListObj (← r.toNat?) (← x.toNat?))
  | ["lt", l, ts] => do pure (.selListText (← l.toNat?) (← parseList ts))
  | ["at", l, t] => do pure (.appendSelText (← l.toNat?) (← t.toNat?))
  | ["ao", l, x] => do pure (.appendSelObj (← l.toNat?) (← x.toNat?))
  | ["mt", r] => do pure (.mediaText (← r.toNat?))
  | ["mo", r, x] => do pure (.mediaObj (← r.toNat?) (← x.toNat?))
  | ["me", m] => do pure (.mediaEdit (← m.toNat?))
  | ["nb", ns] => do pure (.mkBlock (← parseList ns))
  | ["np", n] => do pure (.mkProp (← n.toNat?))
  | ["nl", ts] => do pure (.mkSelList (← parseList ts))
  | ["ns", t] => do pure (.mkSel (← t.toNat?))
  | ["nm"] => some .mkMedia
  | ["nr", ss, ds, m] => do pure (.mkRule (← parseOptList ss) (← parseOptList ds) (m == "1"))
  | _ => none

def showOpt : Option Nat → String
  | none => "-"
  | some n => toString n

def showRoot (st : St) (r : Nat) : String :=
  let flag := if consistent st r then "1" else "0"
  " ".intercalate (flag :: (dump st r).map (fun (x, p) => s!"{x}:{showOpt p}"))

/-- `own <roots> <ops>` → after every op, for every root: the check, then `id:owner` of every reachable object -/
def run (roots hist : String) : String :=
  match (roots.splitOn ",").mapM (·.toNat?), (hist.splitOn ",").mapM parseOp with
  | some rs, some ops =>
    let (_, outs) := ops.foldl (fun (acc : St × List String) op =>
      let st := step acc.1 op
      (st, " ; ".intercalate (rs.map (showRoot st)) :: acc.2)) (({} : St), [])
    " | ".intercalate outs.reverse
  | _, _ => "bad-op"

end CssVerif.OwnOps
