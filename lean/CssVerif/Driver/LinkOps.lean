import CssVerif.Driver.Proto
import CssVerif.Model.Links
namespace CssVerif.LinkOps
open CssVerif CssVerif.Links

def parseOp (s : String) : Option Op :=
  match s.splitOn "." with
  | ["t", i, r] => do pure (.insTop (← i.toNat?) (← r.toNat?))
  | ["c", c, i, r] => do pure (.insIn (← c.toNat?) (← i.toNat?) (← r.toNat?))
  | ["dt", i] => do pure (.delTop (← i.toNat?))
  | ["dc", c, i] => do pure (.delIn (← c.toNat?) (← i.toNat?))
  | _ => none

def showOpt : Option Nat → String
  | none => "-"
  | some n => toString n

/-- `tree <fx> <n ids> <ops>` → after every op, for every id 1..n: parentRule and the derived parentStyleSheet -/
def run (fx n hist : String) : String :=
  match n.toNat?, (hist.splitOn ",").mapM parseOp with
  | some n, some ops =>
    let fxb := fx == "1"
    let (_, outs) := ops.foldl (fun (acc : St × List String) op =>
      let st := step acc.1 op
      let line := " ".intercalate ((List.range n).map (fun k =>
        let x := k + 1
        s!"{showOpt (get st x).pr}/{showOpt (parentStyleSheet fxb st (n + 2) x)}"))
      (st, line :: acc.2)) (({} : St), [])
    " | ".intercalate outs.reverse
  | _, _ => "bad-op"

end CssVerif.LinkOps
