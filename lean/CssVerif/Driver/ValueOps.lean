import CssVerif.Driver.Proto
import CssVerif.Model.Value
namespace CssVerif.ValueOps
open CssVerif.Value

def tokOf : Char → Option VT
  | 'i' => some .ident | 's' => some .str | 'u' => some .urange | 'n' => some .num | 'p' => some .pct
  | 'd' => some .dim | 'r' => some .uri | 'c' => some .color | 'f' => some .func | 'g' => some (.colorFunc false)
  | 'G' => some (.colorFunc true) | 'k' => some .calcFunc | ')' => some .rparen | ',' => some .comma
  | '/' => some .slash | '+' => some .plus | '-' => some .minus | '*' => some .star | 'w' => some .ws
  | 'm' => some .comment | 'o' => some .other | _ => none

def charOf : VT → String
  | .ident => "i" | .str => "s" | .urange => "u" | .num => "n" | .pct => "p" | .dim => "d" | .uri => "r"
  | .color => "c" | .func => "f" | .colorFunc false => "g" | .colorFunc true => "G" | .calcFunc => "k"
  | .rparen => ")" | .comma => "," | .slash => "/" | .plus => "+" | .minus => "-" | .star => "*" | .ws => "w"
  | .comment => "m" | .other => "o"

mutual
  def showComp : Comp → String
    | .atom k => charOf k
    | .fn a => "f(" ++ showArgs a ++ ")"
    | .colorFn al l => (if al then "G(" else "g(") ++ String.join (l.map (fun (c, k) => (if c then "," else " ") ++ charOf k)) ++ ")"
    | .calc x l => "k(" ++ charOf x ++ String.join (l.map (fun (o, k) => charOf o ++ charOf k)) ++ ")"
  def showArgs : Args → String
    | .nil => ""
    | .cons c x tl => (if c then "," else " ") ++ showComp x ++ showArgs tl
end

def showValue (v : Value) : String :=
  String.join (v.map (fun (s, c) => (match s with | .none => " " | .comma => "," | .slash => "/") ++ showComp c))

/-- `vparse <token kinds, one letter each>` -/
def opVparse (w : String) : String :=
  match w.toList.mapM tokOf with
  | some ts => match pvalue ts with
    | some v => showValue v
    | none => "bad"
  | none => "bad-op"

/-- `vser <e|s> <token kinds>`: parse, then the kinds of the tokens the serialiser writes (`e`: empty listItemSpacer) -/
def opVser (pref w : String) : String :=
  match w.toList.mapM tokOf with
  | some ts => match pvalue ts with
    | some v => String.join ((serValue { listSpacerEmpty := pref == "e" } v).map charOf)
    | none => "bad"
  | none => "bad-op"

end CssVerif.ValueOps
