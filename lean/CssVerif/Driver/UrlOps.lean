import CssVerif.Driver.Proto
import CssVerif.Model.Urls
import CssVerif.Model.Tokenizer
import CssVerif.Gen.Productions
namespace CssVerif.UrlOps
open CssVerif CssVerif.Urls CssVerif.Proto

/-- `urlrt <url>`: helper.uri → tokenizer → urivalue -/
def opUrlRt (hex : String) : String :=
  match parseText hex with
  | some u =>
    let text := cssUri true u
    let r := tokenize Gen.tables ⟨false, true⟩ text
    match r.toks with
    | [t] => if t.typ == "URI" then showText (uriValue t.val) else "nottoken"
    | _ => "nottoken"
  | none => "bad-op"

/-- parse the tree encoding of harness/props/c12.py; URLs are numbered in document order as planted -/
partial def parseNodes (cs : List Char) (n : Nat) : List Node × Nat × List Char :=
  let rec num (cs : List Char) (acc : Nat) : Nat × List Char :=
    match cs with
    | c :: r => if c.isDigit then num r (acc * 10 + (c.toNat - 48)) else (acc, cs)
    | [] => (acc, [])
  let mk (k n : Nat) : List Url × Nat := ((List.range k).map (fun i => [n + i + 1]), n + k)
  match cs with
  | [] => ([], n, [])
  | ')' :: r => ([], n, r)
  | ',' :: r => parseNodes r n
  | '-' :: r => parseNodes r n
  | 'i' :: r =>
    let (rest, n', r') := parseNodes r (n + 1)
    (.import_ [n + 1] :: rest, n', r')
  | 'x' :: r => let (rest, n', r') := parseNodes r n; (.other :: rest, n', r')
  | 's' :: r =>
    let (k, r1) := num r 0
    let (us, n1) := mk k n
    let (rest, n', r') := parseNodes r1 n1
    (.style us :: rest, n', r')
  | 'p' :: r =>
    let (k, r1) := num r 0
    let (own, n1) := mk k n
    let rec margins (cs : List Char) (n : Nat) (acc : List (List Url)) : List (List Url) × Nat × List Char :=
      match cs with
      | ':' :: r => let (k, r1) := num r 0; let (us, n1) := mk k n; margins r1 n1 (acc ++ [us])
      | _ => (acc, n, cs)
    let (ms, n2, r2) := margins r1 n1 []
    let (rest, n', r') := parseNodes r2 n2
    (.page own ms :: rest, n', r')
  | 'm' :: '(' :: r =>
    let (kids, n1, r1) := parseNodes r n
    let (rest, n', r') := parseNodes r1 n1
    (.media kids :: rest, n', r')
  | _ :: r => parseNodes r n

/-- `urltrav <tree>` → numbers of the URLs in the order getUrls yields them (imports are numbered first by the
generator: it plants them before everything else) -/
def opUrlTrav (enc : String) : String :=
  let (nodes, _, _) := parseNodes enc.toList 0
  ",".intercalate ((getUrls true nodes).map (fun u => toString (u.headD 0)))

end CssVerif.UrlOps
