import CssVerif.Driver.Proto
import CssVerif.Model.Decl
namespace CssVerif.DeclOps
open CssVerif CssVerif.Decl

def nat? (s : String) : Option Nat := s.toNat?

def parseEntry (s : String) : Option Entry :=
  match s.splitOn ":" with
  | [n, l, v, i] => do
    let n ← nat? n; let l ← nat? l; let v ← nat? v; let i ← nat? i
    pure ⟨n, l, v, i == 1⟩
  | _ => none

def parseOp (s : String) : Option Op :=
  match s.splitOn "." with
  | ["s", n, l, v, i, r] => do
    let n ← nat? n; let l ← nat? l; let v ← nat? v; let i ← nat? i; let r ← nat? r
    pure (.set n l v (i == 1) (r == 1))
  | ["r", n] => do let n ← nat? n; pure (.remove n)
  | ["a", es] =>
    if es == "" then some (.assign []) else do
      let l ← (es.splitOn "+").mapM parseEntry
      pure (.assign l)
  | _ => none

def showEntry (e : Entry) : String := s!"{e.name}:{e.lit}:{e.val}:{if e.imp then 1 else 0}"
def showOptEntry : Option Entry → String
  | some e => showEntry e
  | none => "~"
def showOptNat : Option Nat → String
  | some n => toString n
  | none => "~"

/-- everything an accessor can report, for names 0..3 and item indices -3..3 -/
def observe (l : Block) : String :=
  let b := "+".intercalate (l.map showEntry)
  let k := ",".intercalate ((keys l).map toString)
  let g := ",".intercalate ((List.range 4).map (fun n =>
    showOptEntry (getProperty l n) ++ "/" ++ (if contains l n then "1" else "0")))
  let it := ",".intercalate ([(-3 : Int), -2, -1, 0, 1, 2, 3].map (fun i => showOptNat (item l i)))
  let ef := "+".intercalate ((iter l).map showOptEntry)
  s!"B={b};K={k};L={length l};G={g};I={it};E={ef}"

def run (hist : String) : String :=
  match (hist.splitOn ",").mapM parseOp with
  | none => "bad-op"
  | some ops =>
    let (_, outs) := ops.foldl (fun (acc : Block × List String) op =>
      let l' := Decl.step acc.1 op
      (l', observe l' :: acc.2)) (([] : Block), [])
    " | ".intercalate outs.reverse

end CssVerif.DeclOps
