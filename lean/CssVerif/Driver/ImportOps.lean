import CssVerif.Driver.Proto
import CssVerif.Model.Import
namespace CssVerif.ImportOps
open CssVerif CssVerif.Import CssVerif.Proto

def optNat (s : String) : Option (Option Nat) := if s == "-" then some none else s.toNat?.map some

/-- `encsel <override|-> <http|-> <explicit|-> <parent|->` → id of the encoding the imported sheet gets (utf-8 = 1) -/
def opEncSel (o h e p : String) : String :=
  match optNat o, optNat h, optNat e, optNat p with
  | some o, some h, some e, some p => toString (chooseEncoding o h e p 1).1
  | _, _, _, _ => "bad-op"

/-- `encsel2 <override> <http1> <explicit1> <parent1> <http2> <explicit2>` → encoding of the nested imported sheet -/
def opEncSel2 (o h1 e1 p1 h2 e2 : String) : String :=
  match optNat o, optNat h1, optNat e1, optNat p1, optNat h2, optNat e2 with
  | some o, some h1, some e1, some p1, some h2, some e2 => toString (chooseNested o h1 e1 p1 h2 e2 1).1
  | _, _, _, _, _, _ => "bad-op"

def fetchOf : String → Option Fetch
  | "none" => some .none | "notPair" => some .notPair | "noContent" => some .noContent | "text" => some .text
  | "bytesOk" => some .bytesOk | "bytesUndecodable" => some .bytesUndecodable | "unknownEncoding" => some .unknownEncoding
  | "raisesOSError" => some .raisesOSError | "raisesIOError" => some .raisesIOError
  | "raisesValueError" => some .raisesValueError | "cyclic" => some .cyclic | _ => none

def opFetchOut (fx k : String) : String :=
  match fetchOf k with
  | some f => (match setHref (fx == "1") f with
      | none => "escaped" | some .loaded => "loaded" | some .failedEmpty => "failedEmpty")
  | none => "bad-op"

def splitSlash (t : Text) : List String :=
  (String.ofList (t.map Char.ofNat)).splitOn "/"

/-- `urlpath <base path> <relative path>` → path of urljoin -/
def opUrlPath (b r : String) : String :=
  match parseText b, parseText r with
  | some b, some r =>
    showText ((unparsePath (joinPath (splitSlash b) (splitSlash r))).toList.map Char.toNat)
  | _, _ => "bad-op"

/-- `rfcpath <merged absolute path>` → RFC 3986 remove_dot_segments -/
def opRfcPath (m : String) : String :=
  match parseText m with
  | some m => showText ((unparsePath (rfcPath (splitSlash m))).toList.map Char.toNat)
  | none => "bad-op"

end CssVerif.ImportOps
