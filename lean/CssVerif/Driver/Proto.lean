/-
Line protocol helpers shared by all driver ops.
Texts are dotted lower-case hex code points (`61.20.7b`), the empty text is `-`.
-/
import CssVerif.Model.Re
namespace CssVerif.Proto
open CssVerif

def hexDigit (c : Char) : Option Nat :=
  if '0' ≤ c ∧ c ≤ '9' then some (c.toNat - 48)
  else if 'a' ≤ c ∧ c ≤ 'f' then some (c.toNat - 87)
  else none

def parseHex (s : String) : Option Nat :=
  if s.isEmpty then none else
  s.foldl (fun acc c => match acc, hexDigit c with
    | some a, some d => some (16 * a + d)
    | _, _ => none) (some 0)

def parseText (s : String) : Option Text :=
  if s == "-" then some [] else
  (s.splitOn ".").mapM parseHex

def hexOf (n : Nat) : String := String.ofList (Nat.toDigits 16 n)

def showText (t : Text) : String :=
  if t.isEmpty then "-" else ".".intercalate (t.map hexOf)

def showOptText : Option Text → String
  | none => "~"
  | some t => showText t

end CssVerif.Proto
