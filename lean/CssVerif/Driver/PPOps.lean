import CssVerif.Driver.Proto
import CssVerif.Model.MediaQuery
import CssVerif.Model.PPSynth
import CssVerif.Gen.Colors
namespace CssVerif.PP.PPOps
open CssVerif.Proto CssVerif.PP

def kindOf : Char → Option Kind
  | 'i' => some .ident | 'c' => some .char | 'n' => some .number | 'd' => some .dimension | 'p' => some .percentage
  | 's' => some .string | 'u' => some .urange | 'r' => some .ratio | 'h' => some .hash | 'f' => some .function
  | 'l' => some .uri | 'a' => some .atkeyword | 'w' => some .s | 'm' => some .comment | 'e' => some .eof
  | 'x' => some .invalid | 'o' => some .other | _ => none

def charOf : Kind → String
  | .ident => "i" | .char => "c" | .number => "n" | .dimension => "d" | .percentage => "p" | .string => "s"
  | .urange => "u" | .ratio => "r" | .hash => "h" | .function => "f" | .uri => "l" | .atkeyword => "a" | .s => "w"
  | .comment => "m" | .eof => "e" | .invalid => "x" | .other => "o"

/-- a token: kind letter, the value as dotted hex (nothing: empty value), optionally `=` and the normalised value -/
def parseTok (s : String) : Option PP.Tok :=
  match s.toList with
  | [] => none
  | k :: rest => do
    let kd ← kindOf k
    match (String.ofList rest).splitOn "=" with
    | [v] =>
      let v ← if v.isEmpty then some [] else parseText v
      pure { kind := kd, val := v }
    | [v, nv] =>
      let v ← if v.isEmpty then some [] else parseText v
      let nv ← if nv.isEmpty then some [] else parseText nv
      pure { kind := kd, val := v, norm := nv }
    | _ => none

def parseToks (s : String) : Option (List PP.Tok) :=
  if s == "~" then some [] else (s.splitOn ",").mapM parseTok

def showTok (t : PP.Tok) : String :=
  charOf t.kind ++ (if t.val.isEmpty then "" else showText t.val) ++
    (if t.norm == t.val then "" else "=" ++ (if t.norm.isEmpty then "" else showText t.norm))

def showToks (l : List PP.Tok) : String := if l.isEmpty then "~" else ",".intercalate (l.map showTok)

partial def showItem : Item → String
  | .comment => "C"
  | .s => "S"
  | .tok n t => s!"P{n}{charOf t.kind}"
  | .nested n wf sub => s!"N{n}{if wf then "+" else "-"}({".".intercalate (sub.map showItem)})"

def showErr : Err → String
  | .invalid => "I" | .noMatch => "M" | .parseErr => "P" | .endMissing => "E" | .endOther => "O" | .noContent => "Z"
  | .trailing => "T"

def showStatus : Status → String
  | .ok => "ok" | .spin => "spin" | .crash => "crash" | .fuel => "fuel"

def showRes (r : Res) : String :=
  let items := if r.items.isEmpty then "-" else ".".intercalate (r.items.map showItem)
  let errs := if r.errs.isEmpty then "-" else String.join (r.errs.map showErr)
  s!"{showStatus r.status} {if r.wf then 1 else 0} {items} {errs} {showToks r.saved} {showToks r.pushed} {r.rest.length}{if r.empty then " empty" else ""}"

def colors : List Text := Gen.colorRows.map (·.name)

def has (flags : String) (c : Char) : Bool := flags.toList.contains c

/-- `pp <grammar> <flags> <tokens>`:
    grammar `mq` (MediaQuery from a string), `ml` (MediaList; flag `g`: from a string, else from a token list),
    `s1`…`s4` (synthetic; flags `k` keepS, `c` checkS, `e` emptyOk; the tokens are handed over as a list) -/
def opPP (gid flags toks : String) : String :=
  match parseToks toks with
  | none => "bad-op"
  | some ts =>
    let cfg : PP.Cfg := { keepS := has flags 'k', checkS := has flags 'c', emptyOk := has flags 'e' }
    match gid with
    | "mq" => showRes (MQ.mediaQuery colors ts)
    | "ml" => let (v, r) := MQ.mediaList colors (has flags 'g') ts
              s!"{if v then 1 else 0} " ++ showRes r
    | "s1" => showRes (parse noHook cfg Synth.s1 ts [])
    | "s2" => showRes (parse noHook cfg Synth.s2 ts [])
    | "s3" => showRes (parse noHook cfg Synth.s3 ts [])
    | "s4" => showRes (parse noHook cfg Synth.s4 ts [])
    | _ => "bad-op"

def flagStr (f : PF) : String :=
  (if f.optional then "o" else "") ++ (if f.stop then "s" else "") ++ (if f.stopAndKeep then "k" else "") ++
  (if f.simm then "i" else "") ++ (if f.nextSor then "n" else "") ++ (if f.mayEnd then "e" else "") ++
  (if f.toSeq == .drop then "d" else "")

mutual
  def showG (probe : List PP.Tok) : G → String
    | .prod f m => s!"p{f.name}[{flagStr f}]({String.join (probe.map (fun t => if m.eval t then "1" else "0"))})"
    | .seq items mn mx =>
      let mxs := match mx with | none => "*" | some k => toString k
      s!"S{mn},{mxs}[{showGL probe items}]"
    | .choice items opt =>
      s!"C{if (G.choice items opt).optional then "o" else ""}[{showGL probe items}]"
  def showGL (probe : List PP.Tok) : GL → String
    | .nil => ""
    | .cons g .nil => showG probe g
    | .cons g tl => showG probe g ++ " " ++ showGL probe tl
end

/-- `ppshow <grammar> <probe tokens>`: the grammar term, every Prod with its flags and its `match` on the probes -/
def opShow (gid toks : String) : String :=
  match parseToks toks with
  | none => "bad-op"
  | some ts =>
    match gid with
    | "mq" => showG ts (MQ.grammar false colors)
    | "mqp" => showG ts (MQ.grammar true colors)
    | "ml" => showG ts MQ.listGrammar
    | "s1" => showG ts Synth.s1
    | "s2" => showG ts Synth.s2
    | "s3" => showG ts Synth.s3
    | "s4" => showG ts Synth.s4
    | _ => "bad-op"

end CssVerif.PP.PPOps
