import CssVerif.Model.Selector
namespace CssVerif.C16
theorem placeholder : True := trivial
end CssVerif.C16
