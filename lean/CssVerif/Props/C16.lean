/-
C16 — Selector specificity equals the CSS definition.

`Model/Selector.lean` transcribes `Selector._setSelectorText` of /repo: the token pre-pass, the
`append()` bookkeeping (prefix resolution, specificity counters keyed on context and item type), every
production with its `expected` string and context stack, and the post-conditions.
`Model/SelectorAst.lean` is the specification: the level-3 selector grammar as an inductive type, the CSS
definition of specificity on it, and its rendering to the (merged) token stream.

`specificity` is proved by induction over the grammar: every simple selector, `:not(x)` for every simple
kind, functional pseudo-classes with any argument list, attribute selectors with every operator / value /
prefix form, namespaced type and universal selectors, pseudo-elements in both notations, and compound
sequences joined by any combinators with any whitespace layout — no bound on length or nesting.

Tie to the code: the `sel` correspondence runs the real tokenizer + Selector and the tokenizer model +
this state machine on the same selector texts (items, specificity, verdict compared), so the rendering
`Sel.toks` of the grammar is exercised against what the real tokenizer and pre-pass produce.

From the selector TEXT (second half of this file, lemmas in `Proofs/SelectorText.lean`): `Sel.lex` writes a
selector of the grammar as a sequence of C09 lexemes (identifiers, `#name`, `. : [ ] ( ) * |`, `> + ~`, one
blank for the descendant combinator and for each blank of a combinator's `Layout`, FUNCTION lexemes for
functional pseudo-classes and `:not(`, match operators, identifier / string attribute values, numbers /
dimensions / identifiers / strings / `+` / `-` / blanks as arguments); `Sel.text` is the concatenation of
their texts, which is the concatenation of the values of `σ.toks` (`text_is_token_values`).  For every `σ`
with the decidable lexical side condition `σ.NamesOK` (escape-free names spelled as the token values say,
non-empty compounds, argument lexemes that cannot merge, no `u+` / `+.` at a `+` written without blanks, no
byte-order mark):
  * `lexemes_classify`   the lexemes meet the hypotheses of `C09.classify_sequence`;
  * `tokens_from_text`   tokenizer model on `σ.text`, then the pre-pass = `σ.toks`;
  * `specificity_from_text`   tokenizer model on `σ.text`, then `Selector.parse` (pre-pass, state machine,
                         post-conditions): well-formed, no error, specificity = the CSS definition `σ.spec`.
Every extra condition of `NamesOK` has a kernel-checked example below (`u+b` is a UNICODE-RANGE for the
tokenizer and the selector is REJECTED — true of /repo as well; `:not(` as a functional pseudo-class name;
`2n` `-1` without a blank; a leading `þÿ`); `a+.c` shows the one condition that is stronger than necessary
(inherited from the one-character stop condition `C09.ctxStop` of the delimiter `+`).

Layouts (third part of this file, lemmas in `Proofs/SelectorLayout.lean`): at every place where `Sel` has white
space — the descendant combinator, the `before` / `after` blanks of an explicit combinator, `ArgTok.ws` among
the arguments of a functional pseudo-class — `Sel.textWith sp σ` writes an arbitrary non-empty run of the
characters of the S production of `Gen.tables` (space, tab, LF, FF, CR: `C09.gen_S_first`), taken from the
list `sp` in text order (`Spacing`, decidable condition `sp.all wsRunOK`).  `specificity_from_text_layout`
is `specificity_from_text` for every such layout; it rests on `s_value_ignored` (the state machine never
looks at the value of an S token), `prepass_normS` (the pre-pass commutes with forgetting S values) and
`lexemes_classify_layout`.

Partial: white space only where `Sel` has it (the model drops S inside `[…]` and `:not(…)`, but `Sel` has no
place for it) and NO comments: a COMMENT token is an item of its own for the state machine
(`step_comment`), it blocks the merges of the pre-pass, it consumes a pending namespace prefix
(`*|/**/a` is read as `a`, example below) and `a/**/b` is rejected, so comments need a token rendering of
their own, see the note before `step_comment` in `Proofs/SelectorLayout.lean`; names
are escape-free and, as in `Sel.WF`, pseudo names are in normal form (lower case) and the negation is spelled
`:not(`; "unchanged by serialising and re-parsing" and the @page triple are decided by the oracle on the
implementation (`harness/props/c16.py`).
-/
import CssVerif.Proofs.Selector
import CssVerif.Proofs.SelectorText
import CssVerif.Proofs.SelectorLayout
import CssVerif.Gen.Productions
namespace CssVerif.C16
open CssVerif CssVerif.Selector

/-- obligation on the regenerated tables: `:not(` is its own normal form -/
theorem not_norm : NotNorm Gen.tables := by unfold NotNorm; decide +kernel

/-- **C16.**  For every selector `σ` of the level-3 grammar (well-formed: declared prefixes, normalised
pseudo names) the selector state machine of /repo accepts it without an error and reports exactly
(ids, classes + attributes + pseudo-classes, types + pseudo-elements) as the CSS definition gives. -/
theorem specificity (m : NsMap) (σ : Sel) (hw : σ.WF Gen.tables m) :
    (Selector.finish (run Gen.tables m σ.toks)).wellformed = true ∧
    (Selector.finish (run Gen.tables m σ.toks)).firstErr = "" ∧
    (Selector.finish (run Gen.tables m σ.toks)).spec = σ.spec :=
  run_sel Gen.tables m not_norm σ hw

/-- the same for any tokenizer tables that normalise `:not(` to itself -/
theorem specificity_any_tables (T : Tables) (hnn : NotNorm T) (m : NsMap) (σ : Sel) (hw : σ.WF T m) :
    (Selector.finish (run T m σ.toks)).spec = σ.spec := (run_sel T m hnn σ hw).2.2

/-- the universal selector, the negation itself and `:where()` count nothing; the argument of `:not()`
counts as its own kind (the definition side, spelled out) -/
theorem definition_cases (p : Pfx) (n v : Text) (a : ArgTok) (as : List ArgTok) :
    (Head.universal p).spec = (0, 0, 0) ∧ (Part.neg (.type p n)).spec = (0, 0, 1) ∧
    (Part.neg (.universal p)).spec = (0, 0, 0) ∧ (Part.neg (.simple (.id v))).spec = (1, 0, 0) ∧
    (Part.neg (.simple (.cls v))).spec = (0, 1, 0) ∧ (Simple.pfunc (str ":where(") a as).spec = (0, 0, 0) := by
  refine ⟨rfl, rfl, rfl, rfl, rfl, ?_⟩
  simp [Simple.spec]

/-! ### non-vacuity: a concrete selector using every construct meets the hypotheses -/

def exNs : NsMap := [(str "p", str "u1"), (str "q", str "u2")]

/-- `p|a#i.c[q|x~="v"]:hover:nth-child(2n+1):not(.d)::after > *|b:not(|e):before` -/
def exSel : Sel :=
  { first := { head := some (.type (.named (str "p")) (str "a")),
               parts := [.simple (.id (str "#i")), .simple (.cls (str ".c")),
                         .simple (.attrib (some (str "q")) (str "x") (some (.inc, .string (str "\"v\"")))),
                         .simple (.pclass (str ":hover")),
                         .simple (.pfunc (str ":nth-child(") (.dimension (str "2n")) [.number (str "+1")]),
                         .neg (.simple (.cls (str ".d")))],
               pelem := some (.dbl (str "::after")) },
    rest := [(.child, ⟨true, true⟩,
              { head := some (.type .any (str "b")), parts := [.neg (.type .empty (str "e"))],
                pelem := some (.legacy (str ":before")) })] }

theorem exSel_wf : exSel.WF Gen.tables exNs := by
  refine ⟨⟨?_, ?_, ?_, ?_⟩, ?_⟩
  · intro h hh; cases hh; exact ⟨by decide, by decide, by decide, by decide⟩
  · intro p hp
    simp only [exSel, List.mem_cons, List.not_mem_nil, or_false] at hp
    rcases hp with rfl | rfl | rfl | rfl | rfl | rfl
    · trivial
    · trivial
    · exact Or.inr (Or.inr (by decide))
    · exact ⟨by decide +kernel, by decide, by decide⟩
    · exact ⟨by decide +kernel, by decide, by decide, by decide⟩
    · trivial
  · intro e he; cases he; exact ⟨by decide +kernel, by decide, by decide⟩
  · exact Or.inl rfl
  · intro x hx
    simp only [exSel, List.mem_cons, List.not_mem_nil, or_false] at hx
    subst hx
    refine ⟨?_, ?_, ?_, ?_⟩
    · intro h hh; cases hh; trivial
    · intro p hp
      simp only [List.mem_cons, List.not_mem_nil, or_false] at hp
      subst hp; trivial
    · intro e he; cases he; exact ⟨by decide +kernel, by decide⟩
    · exact Or.inl rfl

theorem exSel_spec : exSel.spec = (1, 5, 5) := by decide

/-- … and the executable model, run on it, agrees (a test, labelled as one) -/
theorem exSel_run : (Selector.finish (run Gen.tables exNs exSel.toks)).spec = (1, 5, 5) :=
  (specificity exNs exSel exSel_wf).2.2.trans exSel_spec


/-- the rendering of the grammar is what the tokenizer model and the pre-pass produce from the text
(a kernel-evaluated instance; the `sel` correspondence checks the same on every generated selector) -/
theorem exSel_text :
    prepass Gen.tables ((tokenize Gen.tables ⟨false, true⟩
      (str "p|a#i.c[q|x~=\"v\"]:hover:nth-child(2n+1):not(.d)::after > *|b:not(|e):before")).toks.map
        (fun k => (TT.ofString k.typ, k.val))) = exSel.toks := by decide +kernel

/-! ## from the selector TEXT to the specificity -/

open CssVerif.C09 (Lexeme canFollow chain ratioFree)

/-- **(i)** the lexeme sequence of a selector meets the hypotheses of `C09.classify_sequence`: every lexeme
is generated by the token grammar, adjacent lexemes cannot merge, no RATIO, no byte-order mark -/
theorem lexemes_classify (σ : Sel) (hn : σ.NamesOK = true) :
    (∀ l ∈ σ.lex, l.wf = true) ∧ chain canFollow σ.lex = true ∧ ratioFree none σ.lex = true ∧
      startsWithBom σ.text = false :=
  lex_classify σ hn

/-- the text written for `σ` is the concatenation of the values of its (merged) tokens -/
theorem text_is_token_values (σ : Sel) (hn : σ.NamesOK = true) : σ.text = σ.toks.flatMap (·.2) :=
  lex_text σ hn

/-- **(ii)** the tokenizer model, run on the selector text, followed by the token pre-pass of
`_setSelectorText`, returns exactly the token rendering `σ.toks` that `specificity` starts from -/
theorem tokens_from_text (σ : Sel) (hn : σ.NamesOK = true) :
    prepass Gen.tables ((tokenize Gen.tables ⟨false, true⟩ σ.text).toks.map
      (fun k => (TT.ofString k.typ, k.val))) = σ.toks := by
  obtain ⟨hwf, hch, hr, hb⟩ := lex_classify σ hn
  have h := C09.classify_sequence σ.lex hwf hch hr hb
  have h2 : (tokenize Gen.tables ⟨false, true⟩ σ.text).toks.map (fun k => (TT.ofString k.typ, k.val)) =
      σ.lex.map tokOf := by
    have := congrArg (List.map (fun p : String × Text => (TT.ofString p.1, p.2))) h
    rw [List.map_map, List.map_map] at this
    exact this
  rw [h2]
  exact prepass_lex σ hn

/-- **C16 from the text (iii).**  For every selector `σ` of the level-3 grammar that is well-formed
(`σ.WF`: declared prefixes, normalised pseudo names) and whose names are lexically fine (`σ.NamesOK`), the
tokenizer model run on the selector TEXT followed by the whole of `Selector._setSelectorText` (pre-pass,
state machine, post-conditions) accepts it without an error and reports the specificity of the CSS
definition. -/
theorem specificity_from_text (m : NsMap) (σ : Sel) (hw : σ.WF Gen.tables m) (hn : σ.NamesOK = true) :
    (parse Gen.tables m ((tokenize Gen.tables ⟨false, true⟩ σ.text).toks.map
      (fun k => (TT.ofString k.typ, k.val)))).wellformed = true ∧
    (parse Gen.tables m ((tokenize Gen.tables ⟨false, true⟩ σ.text).toks.map
      (fun k => (TT.ofString k.typ, k.val)))).firstErr = "" ∧
    (parse Gen.tables m ((tokenize Gen.tables ⟨false, true⟩ σ.text).toks.map
      (fun k => (TT.ofString k.typ, k.val)))).spec = σ.spec := by
  unfold parse
  rw [tokens_from_text σ hn]
  exact specificity m σ hw

/-! ### non-vacuity: the example selector, from its text -/

theorem exSel_names : exSel.NamesOK = true := by decide +kernel

theorem exSel_text_eq :
    exSel.text = str "p|a#i.c[q|x~=\"v\"]:hover:nth-child(2n+1):not(.d)::after > *|b:not(|e):before" := by
  decide +kernel

/-- the text of the example goes through tokenizer, pre-pass, state machine and post-conditions to
(1, 5, 5) — by the theorem -/
theorem exSel_from_text :
    (parse Gen.tables exNs ((tokenize Gen.tables ⟨false, true⟩
      (str "p|a#i.c[q|x~=\"v\"]:hover:nth-child(2n+1):not(.d)::after > *|b:not(|e):before")).toks.map
        (fun k => (TT.ofString k.typ, k.val)))).spec = (1, 5, 5) := by
  rw [← exSel_text_eq]
  exact (specificity_from_text exNs exSel exSel_wf exSel_names).2.2.trans exSel_spec

/-- … and by running the executable models (a test, labelled as one) -/
example :
    (parse Gen.tables exNs ((tokenize Gen.tables ⟨false, true⟩
      (str "p|a#i.c[q|x~=\"v\"]:hover:nth-child(2n+1):not(.d)::after > *|b:not(|e):before")).toks.map
        (fun k => (TT.ofString k.typ, k.val)))).spec = (1, 5, 5) := by decide +kernel

/-! ### the conditions of `NamesOK` are needed (kernel-checked) -/

/-- the type selector `n` alone -/
def tp (n : Text) : Compound := { head := some (.type .none n), parts := [], pelem := none }

theorem tp_wf (m : NsMap) (n : Text) : (tp n).WF Gen.tables m :=
  ⟨fun h hh => (by cases hh; trivial), fun p hp => (by cases hp), fun e he => (by cases he), Or.inl rfl⟩

/-- what `_setSelectorText` (model) says about the text of `σ`: verdict, first error, specificity -/
def verdict (m : NsMap) (σ : Sel) : Bool × String × Spec :=
  let r := parse Gen.tables m ((tokenize Gen.tables ⟨false, true⟩ σ.text).toks.map (fun k => (TT.ofString k.typ, k.val)))
  (r.wellformed, r.firstErr, r.spec)

/-- `u+b` (type selector `u`, adjacent sibling `b`, no blanks) -/
def exU : Sel := { first := tp (str "u"), rest := [(.adjacent, ⟨false, false⟩, tp (str "b"))] }
theorem exU_wf : exU.WF Gen.tables [] :=
  ⟨tp_wf _ _, fun x hx => (by
    simp only [exU, List.mem_cons, List.not_mem_nil, or_false] at hx; subst hx; exact tp_wf _ _)⟩
/-- **`u+` at a combinator without blanks.**  `u+b` is a well-formed selector of the grammar with
specificity (0, 0, 2), but the tokenizer reads the text `u+b` as one UNICODE-RANGE token and the selector
is rejected (so does /repo: `Selector('u+b')` raises SyntaxErr) -/
example : exU.NamesOK = false ∧ exU.spec = (0, 0, 2) ∧ verdict [] exU = (false, "SyntaxErr", (0, 0, 0)) := by
  decide +kernel
/-- … with a blank before the `+` (`u +b`) the side condition holds and the theorem applies -/
example : ({ exU with rest := [(.adjacent, ⟨true, false⟩, tp (str "b"))] } : Sel).NamesOK = true := by decide +kernel

/-- `:not(a)` as a *functional pseudo-class* named `not` -/
def exNotF : Sel :=
  { first := { head := none, parts := [.simple (.pfunc (str ":not(") (.ident (str "a")) [])], pelem := none }, rest := [] }
theorem exNotF_wf : exNotF.WF Gen.tables [] := by
  refine ⟨⟨fun h hh => (by cases hh), ?_, fun e he => (by cases he), Or.inr (Or.inl (by decide))⟩,
    fun x hx => (by cases hx)⟩
  intro p hp
  simp only [exNotF, List.mem_cons, List.not_mem_nil, or_false] at hp
  subst hp
  exact ⟨by decide +kernel, by decide, by decide, by decide⟩
/-- **the name of a functional pseudo-class is not `not`.**  The token list `(pclass ":not(") (ident a) )`
satisfies `Sel.WF` and counts (0, 1, 0), but its text `:not(a)` is the negation of a type selector: the
pre-pass does not return these tokens and the specificity is (0, 0, 1) -/
example : exNotF.NamesOK = false ∧ exNotF.spec = (0, 1, 0) ∧ verdict [] exNotF = (true, "", (0, 0, 1)) := by
  decide +kernel

/-- `:nth-child(2n-1)` given as the two argument tokens `2n` and `-1` -/
def exArgs : Sel :=
  { first := { head := none,
               parts := [.simple (.pfunc (str ":nth-child(") (.dimension (str "2n")) [.number (str "-1")])],
               pelem := none }, rest := [] }
/-- **adjacent arguments must not merge.**  `2n` `-1` written without a blank is the one DIMENSION `2n-1`:
the tokens of the text are not the given ones (the specificity is not affected) -/
example : exArgs.NamesOK = false ∧
    prepass Gen.tables ((tokenize Gen.tables ⟨false, true⟩ exArgs.text).toks.map
      (fun k => (TT.ofString k.typ, k.val))) ≠ exArgs.toks := by
  decide +kernel

/-- **no byte-order mark.**  The type selector `þÿ` is an identifier by the grammar, but at the start of
the text the tokenizer takes it as a BOM and the selector is rejected -/
example : ({ first := tp [254, 255], rest := [] } : Sel).NamesOK = false ∧
    verdict [] { first := tp [254, 255], rest := [] } = (false, "SyntaxErr", (0, 0, 0)) := by
  decide +kernel

/-- `a+.c` -/
def exDot : Sel :=
  { first := tp (str "a"),
    rest := [(.adjacent, ⟨false, false⟩, { head := none, parts := [.simple (.cls (str ".c"))], pelem := none })] }
/-- **`+.` is excluded but harmless** (the one condition of `NamesOK` that is stronger than necessary): the
text `a+.c` is outside the hypotheses of `C09.classify_sequence` (`ctxStop` wants no `.` right after the
delimiter `+`), yet the models return the expected specificity; `a+ .c` and `a + .c` are covered -/
example : exDot.NamesOK = false ∧ verdict [] exDot = (true, "", exDot.spec) ∧
    ({ exDot with rest := [(.adjacent, ⟨false, true⟩, { head := none, parts := [.simple (.cls (str ".c"))], pelem := none })] } : Sel).NamesOK = true := by
  decide +kernel

/-! ## any layout: arbitrary non-empty white-space runs where the grammar has white space -/

/-- the state machine of `_setSelectorText` never looks at the VALUE of an S token -/
theorem s_value_ignored (T : Tables) (m : NsMap) (st : Selector.St) (v w : Text) :
    Selector.step T m st (.s, v) = Selector.step T m st (.s, w) :=
  step_s_value T m st v w

/-- with the empty spacing every place keeps its single blank: `textWith` generalises `text` -/
theorem textWith_nil (σ : Sel) : σ.textWith [] = σ.text := by
  have : ∀ ls : List Lexeme, respace [] ls = ls := by
    intro ls
    induction ls with
    | nil => rfl
    | cons l ls ih => cases l <;> simp [respace, isWsLex, ih]
  simp [Sel.textWith, Sel.lexWith, Sel.text, this]

/-- the laid-out lexeme sequence meets the hypotheses of `C09.classify_sequence` -/
theorem lexemes_classify_layout (σ : Sel) (hn : σ.NamesOK = true) (sp : Spacing) (hsp : sp.all wsRunOK = true) :
    (∀ l ∈ σ.lexWith sp, l.wf = true) ∧ chain canFollow (σ.lexWith sp) = true ∧
      ratioFree none (σ.lexWith sp) = true ∧ startsWithBom (σ.textWith sp) = false :=
  lexWith_classify σ hn sp hsp

/-- the tokens of the laid-out text, as the selector parser sees them -/
theorem tokens_of_layout (σ : Sel) (hn : σ.NamesOK = true) (sp : Spacing) (hsp : sp.all wsRunOK = true) :
    (tokenize Gen.tables ⟨false, true⟩ (σ.textWith sp)).toks.map (fun k => (TT.ofString k.typ, k.val)) =
      (σ.lexWith sp).map tokOf := by
  obtain ⟨hwf, hch, hr, hb⟩ := lexWith_classify σ hn sp hsp
  have h := C09.classify_sequence (σ.lexWith sp) hwf hch hr hb
  have := congrArg (List.map (fun p : String × Text => (TT.ofString p.1, p.2))) h
  rw [List.map_map, List.map_map] at this
  exact this

/-- tokenizer model on the laid-out text, then the pre-pass: the token rendering `σ.toks` of the grammar,
up to the values of the S tokens (`normS` gives every S token the value of one blank) -/
theorem tokens_from_text_layout (σ : Sel) (hn : σ.NamesOK = true) (sp : Spacing) (hsp : sp.all wsRunOK = true) :
    (prepass Gen.tables ((tokenize Gen.tables ⟨false, true⟩ (σ.textWith sp)).toks.map
      (fun k => (TT.ofString k.typ, k.val)))).map normS = σ.toks.map normS := by
  rw [tokens_of_layout σ hn sp hsp]
  exact prepass_lexWith σ hn sp hsp

/-- **C16 from the text, any layout.**  Let `σ` be a well-formed selector of the level-3 grammar whose names
are lexically fine, and let `sp` choose a non-empty run of white-space characters (space, tab, LF, FF, CR)
for the white-space places of `σ` (descendant combinators, the blanks around explicit combinators that the
`Layout` flags ask for, the blanks among the arguments of functional pseudo-classes), in text order.  The
tokenizer model run on the laid-out text followed by the whole of `Selector._setSelectorText` accepts it
without an error and reports the specificity of the CSS definition. -/
theorem specificity_from_text_layout (m : NsMap) (σ : Sel) (hw : σ.WF Gen.tables m) (hn : σ.NamesOK = true)
    (sp : Spacing) (hsp : sp.all wsRunOK = true) :
    (parse Gen.tables m ((tokenize Gen.tables ⟨false, true⟩ (σ.textWith sp)).toks.map
      (fun k => (TT.ofString k.typ, k.val)))).wellformed = true ∧
    (parse Gen.tables m ((tokenize Gen.tables ⟨false, true⟩ (σ.textWith sp)).toks.map
      (fun k => (TT.ofString k.typ, k.val)))).firstErr = "" ∧
    (parse Gen.tables m ((tokenize Gen.tables ⟨false, true⟩ (σ.textWith sp)).toks.map
      (fun k => (TT.ofString k.typ, k.val)))).spec = σ.spec := by
  unfold parse
  rw [tokens_of_layout σ hn sp hsp, run_lexWith m σ hn sp hsp]
  exact specificity m σ hw

/-! ### non-vacuity: tabs, newlines, form feeds -/

/-- `a b:nth-child(2n + 1)`: a descendant combinator and two blanks among the arguments -/
def exLay : Sel :=
  { first := tp (str "a"),
    rest := [(.descendant, ⟨false, false⟩,
              { head := some (.type .none (str "b")),
                parts := [.simple (.pfunc (str ":nth-child(") (.dimension (str "2n"))
                            [.ws, .plus, .ws, .number (str "1")])],
                pelem := none })] }

theorem exLay_wf : exLay.WF Gen.tables [] := by
  refine ⟨tp_wf _ _, fun x hx => ?_⟩
  simp only [exLay, List.mem_cons, List.not_mem_nil, or_false] at hx
  subst hx
  refine ⟨fun h hh => (by cases hh; trivial), ?_, fun e he => (by cases he), Or.inl rfl⟩
  intro p hp
  simp only [List.mem_cons, List.not_mem_nil, or_false] at hp
  subst hp
  exact ⟨by decide +kernel, by decide, by decide, by decide⟩

theorem exLay_names : exLay.NamesOK = true := by decide +kernel

/-- tab tab / LF / blank CR LF for the three white-space places -/
def exSp : Spacing := [(9, [9]), (10, []), (32, [13, 10])]

theorem exLay_text : exLay.textWith exSp = str "a\t\tb:nth-child(2n\n+ \r\n1)" := by decide +kernel

/-- by the theorem … -/
theorem exLay_from_text :
    (parse Gen.tables [] ((tokenize Gen.tables ⟨false, true⟩ (str "a\t\tb:nth-child(2n\n+ \r\n1)")).toks.map
      (fun k => (TT.ofString k.typ, k.val)))).spec = (0, 1, 2) := by
  rw [← exLay_text]
  exact (specificity_from_text_layout [] exLay exLay_wf exLay_names exSp (by decide)).2.2.trans (by decide)

/-- … and by running the executable models (a test, labelled as one) -/
example :
    (parse Gen.tables [] ((tokenize Gen.tables ⟨false, true⟩ (str "a\t\tb:nth-child(2n\n+ \r\n1)")).toks.map
      (fun k => (TT.ofString k.typ, k.val)))).spec = (0, 1, 2) := by decide +kernel

/-- the example selector of this file with `TAB LF blank` before and `CR FF` after the `>` -/
example :
    exSel.textWith [(9, [10, 32]), (13, [12])] =
      str "p|a#i.c[q|x~=\"v\"]:hover:nth-child(2n+1):not(.d)::after\t\n >\r\x0c*|b:not(|e):before" ∧
    (parse Gen.tables exNs ((tokenize Gen.tables ⟨false, true⟩
      (exSel.textWith [(9, [10, 32]), (13, [12])])).toks.map (fun k => (TT.ofString k.typ, k.val)))).spec = (1, 5, 5) :=
  ⟨by decide +kernel,
   (specificity_from_text_layout exNs exSel exSel_wf exSel_names _ (by decide)).2.2.trans exSel_spec⟩

/-! ### the condition on the spacing is needed; comments are a different matter (kernel-checked) -/

/-- `a b` -/
def exDesc : Sel := { first := tp (str "a"), rest := [(.descendant, ⟨false, false⟩, tp (str "b"))] }

/-- **the runs consist of white-space characters.**  With `x` for the blank the text is `axb`: one type
selector, specificity (0, 0, 1) instead of (0, 0, 2) -/
example : exDesc.NamesOK = true ∧ [((120, []) : Nat × Text)].all wsRunOK = false ∧ exDesc.spec = (0, 0, 2) ∧
    exDesc.textWith [(120, [])] = str "axb" ∧
    (parse Gen.tables [] ((tokenize Gen.tables ⟨false, true⟩ (exDesc.textWith [(120, [])])).toks.map
      (fun k => (TT.ofString k.typ, k.val)))).spec = (0, 0, 1) := by
  decide +kernel

/-- what `_setSelectorText` (model) says about a text -/
def verdictOf (m : NsMap) (t : String) : Bool × String × Spec :=
  let r := parse Gen.tables m ((tokenize Gen.tables ⟨false, true⟩ (str t)).toks.map (fun k => (TT.ofString k.typ, k.val)))
  (r.wellformed, r.firstErr, r.spec)

/-- **comments are not white space**: next to white space a comment is harmless (`a /**/ b`), alone it is
not a descendant combinator (`a/**/b` is rejected), and right after a namespace prefix it consumes the
prefix (`*|/**/a` is accepted as the type selector `a`; /repo re-serialises it as `/**/a`) -/
example : verdictOf [] "a /**/ b" = (true, "", (0, 0, 2)) ∧ verdictOf [] "a/**/b" = (false, "SyntaxErr", (0, 0, 1)) ∧
    verdictOf [] "*|/**/a" = (true, "", (0, 0, 1)) := by
  decide +kernel

end CssVerif.C16
