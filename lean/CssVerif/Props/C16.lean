/-
C16 — Selector specificity equals the CSS definition.

`Model/Selector.lean` transcribes `Selector._setSelectorText` of /repo: the token pre-pass, the
`append()` bookkeeping (prefix resolution, specificity counters keyed on context and item type), every
production with its `expected` string and context stack, and the post-conditions.
`Model/SelectorAst.lean` is the specification: the level-3 selector grammar as an inductive type, the CSS
definition of specificity on it, and its rendering to the (merged) token stream.

`specificity` is proved by induction over the grammar: every simple selector, `:not(x)` for every simple
kind, functional pseudo-classes with any argument list, attribute selectors with every operator / value /
prefix form, namespaced type and universal selectors, pseudo-elements in both notations, and compound
sequences joined by any combinators with any whitespace layout — no bound on length or nesting.

Tie to the code: the `sel` correspondence runs the real tokenizer + Selector and the tokenizer model +
this state machine on the same selector texts (items, specificity, verdict compared), so the rendering
`Sel.toks` of the grammar is exercised against what the real tokenizer and pre-pass produce.

Partial: the theorem starts at the merged token stream (after the pre-pass); "unchanged by serialising
and re-parsing" and the @page triple are decided by the oracle on the implementation (`harness/props/c16.py`).
-/
import CssVerif.Proofs.Selector
import CssVerif.Gen.Productions
namespace CssVerif.C16
open CssVerif CssVerif.Selector

/-- obligation on the regenerated tables: `:not(` is its own normal form -/
theorem not_norm : NotNorm Gen.tables := by unfold NotNorm; decide +kernel

/-- **C16.**  For every selector `σ` of the level-3 grammar (well-formed: declared prefixes, normalised
pseudo names) the selector state machine of /repo accepts it without an error and reports exactly
(ids, classes + attributes + pseudo-classes, types + pseudo-elements) as the CSS definition gives. -/
theorem specificity (m : NsMap) (σ : Sel) (hw : σ.WF Gen.tables m) :
    (Selector.finish (run Gen.tables m σ.toks)).wellformed = true ∧
    (Selector.finish (run Gen.tables m σ.toks)).firstErr = "" ∧
    (Selector.finish (run Gen.tables m σ.toks)).spec = σ.spec :=
  run_sel Gen.tables m not_norm σ hw

/-- the same for any tokenizer tables that normalise `:not(` to itself -/
theorem specificity_any_tables (T : Tables) (hnn : NotNorm T) (m : NsMap) (σ : Sel) (hw : σ.WF T m) :
    (Selector.finish (run T m σ.toks)).spec = σ.spec := (run_sel T m hnn σ hw).2.2

/-- the universal selector, the negation itself and `:where()` count nothing; the argument of `:not()`
counts as its own kind (the definition side, spelled out) -/
theorem definition_cases (p : Pfx) (n v : Text) (a : ArgTok) (as : List ArgTok) :
    (Head.universal p).spec = (0, 0, 0) ∧ (Part.neg (.type p n)).spec = (0, 0, 1) ∧
    (Part.neg (.universal p)).spec = (0, 0, 0) ∧ (Part.neg (.simple (.id v))).spec = (1, 0, 0) ∧
    (Part.neg (.simple (.cls v))).spec = (0, 1, 0) ∧ (Simple.pfunc (str ":where(") a as).spec = (0, 0, 0) := by
  refine ⟨rfl, rfl, rfl, rfl, rfl, ?_⟩
  simp [Simple.spec]

/-! ### non-vacuity: a concrete selector using every construct meets the hypotheses -/

def exNs : NsMap := [(str "p", str "u1"), (str "q", str "u2")]

/-- `p|a#i.c[q|x~="v"]:hover:nth-child(2n+1):not(.d)::after > *|b:not(|e):before` -/
def exSel : Sel :=
  { first := { head := some (.type (.named (str "p")) (str "a")),
               parts := [.simple (.id (str "#i")), .simple (.cls (str ".c")),
                         .simple (.attrib (some (str "q")) (str "x") (some (.inc, .string (str "\"v\"")))),
                         .simple (.pclass (str ":hover")),
                         .simple (.pfunc (str ":nth-child(") (.dimension (str "2n")) [.number (str "+1")]),
                         .neg (.simple (.cls (str ".d")))],
               pelem := some (.dbl (str "::after")) },
    rest := [(.child, ⟨true, true⟩,
              { head := some (.type .any (str "b")), parts := [.neg (.type .empty (str "e"))],
                pelem := some (.legacy (str ":before")) })] }

theorem exSel_wf : exSel.WF Gen.tables exNs := by
  refine ⟨⟨?_, ?_, ?_, ?_⟩, ?_⟩
  · intro h hh; cases hh; exact ⟨by decide, by decide, by decide, by decide⟩
  · intro p hp
    simp only [exSel, List.mem_cons, List.not_mem_nil, or_false] at hp
    rcases hp with rfl | rfl | rfl | rfl | rfl | rfl
    · trivial
    · trivial
    · exact Or.inr (Or.inr (by decide))
    · exact ⟨by decide +kernel, by decide, by decide⟩
    · exact ⟨by decide +kernel, by decide, by decide, by decide⟩
    · trivial
  · intro e he; cases he; exact ⟨by decide +kernel, by decide, by decide⟩
  · exact Or.inl rfl
  · intro x hx
    simp only [exSel, List.mem_cons, List.not_mem_nil, or_false] at hx
    subst hx
    refine ⟨?_, ?_, ?_, ?_⟩
    · intro h hh; cases hh; trivial
    · intro p hp
      simp only [List.mem_cons, List.not_mem_nil, or_false] at hp
      subst hp; trivial
    · intro e he; cases he; exact ⟨by decide +kernel, by decide⟩
    · exact Or.inl rfl

theorem exSel_spec : exSel.spec = (1, 5, 5) := by decide

/-- … and the executable model, run on it, agrees (a test, labelled as one) -/
theorem exSel_run : (Selector.finish (run Gen.tables exNs exSel.toks)).spec = (1, 5, 5) :=
  (specificity exNs exSel exSel_wf).2.2.trans exSel_spec


/-- the rendering of the grammar is what the tokenizer model and the pre-pass produce from the text
(a kernel-evaluated instance; the `sel` correspondence checks the same on every generated selector) -/
theorem exSel_text :
    prepass Gen.tables ((tokenize Gen.tables ⟨false, true⟩
      (str "p|a#i.c[q|x~=\"v\"]:hover:nth-child(2n+1):not(.d)::after > *|b:not(|e):before")).toks.map
        (fun k => (TT.ofString k.typ, k.val))) = exSel.toks := by decide +kernel

end CssVerif.C16
