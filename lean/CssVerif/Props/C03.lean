/-
C03 — Serialising and re-parsing preserves the model; output is a fixpoint.

Statement (given): for every sheet, rule, selector, declaration block, media list or value obtained by parsing
supported-grammar input, its serialised text re-parses to an equal object (same rule sequence and types, same
namespace-expanded selector components and specificity, same declarations in order, same media queries, URLs,
strings and validity verdicts); serialising the re-parsed object gives identical text.  Numbers may be
normalised only within documented limits (6 decimal places; a zero length may lose its unit).

Model: the serialiser of values (`do_css_PropertyValue`, `do_css_CSSFunction`, `do_css_CSSCalc` through
`Out.append`) as the kinds of the tokens it writes (`Value.serValue`), next to the value parser of C02.

Proved, for every well-formed value of any size and nesting depth and every setting of the preferences:
* `written_is_a_writing` — what the serialiser writes is one of the writings of the value (white space where
  two terms meet, after calc operators on both sides, none lost before `)`, `,` or `/`);
* `reparse_value` — so re-parsing the written tokens gives the value back;
* `fixpoint_value` — and serialising the re-parsed value gives the same tokens again.
The other parts of the statement are theorems of the properties that own them, cited here so that the audit of
this property covers them: numbers to 6 places (`C17.fmt_reparse_partial`, `round6_close`), hash colours
(`C17.hash_shorten`), strings and URLs (`C12.string_survives`, `url_survives`), namespace pairs
(`C15.reparse_keeps_pair`), the rule sequence (`C07.reparse_same_partial`).

Tie: `vser` — parse the token kinds of a value text, serialise, against the kinds of the tokens of the real
`PropertyValue(text).cssText`.
Partial: sheets, rules, selectors, declaration blocks, media lists as wholes — and every sub-object taken alone —
are decided by the oracle on the implementation (re-parse equality through the independent model extractor,
byte equality of the second serialisation, validity verdicts).
-/
import CssVerif.Proofs.Value
import CssVerif.Props.C17
import CssVerif.Props.C12
import CssVerif.Props.C15
import CssVerif.Props.C07
namespace CssVerif.C03
open CssVerif.Value

theorem written_is_a_writing (p : SerPrefs) (v : Value) (h : wfValue v = true) : RValue v (serValue p v) :=
  ser_value p v h

theorem reparse_value (p : SerPrefs) (v : Value) (h : wfValue v = true) : pvalue (serValue p v) = some v :=
  pvalue_ok v _ (ser_value p v h)

theorem fixpoint_value (p : SerPrefs) (v : Value) (h : wfValue v = true) :
    (pvalue (serValue p v)).map (serValue p) = some (serValue p v) := by
  rw [reparse_value p v h]; rfl

/-- cited (C17): the number written is the value rounded to 6 places, within half a unit of the 6th place -/
theorem number_cited (q : Number.Q) (hd : 0 < q.den) :
    2 * (Number.round6 q * q.den - q.num * 1000000) ≤ q.den ∧ 2 * (q.num * 1000000 - Number.round6 q * q.den) ≤ q.den :=
  C17.round6_close q hd

/-- cited (C17): a shortened hash colour is the same colour -/
theorem hash_cited (minimize : Bool) (v : Text) : Color.hexColor (Color.shortenHash minimize v) = Color.hexColor v :=
  C17.hash_shorten minimize v

/-- cited (C12): strings and URLs survive quoting -/
theorem string_cited (v : Urls.Url) (h : Urls.Safe v) : Urls.stringValue (Urls.cssString v) = v := C12.string_survives v h
theorem url_cited (u : Urls.Url) (h : Urls.Safe u) : Urls.uriValue (Urls.cssUri true u) = u := C12.url_survives u h

/-- cited (C15): a namespace pair written with the sheet's prefixes resolves to the same pair -/
theorem namespace_cited (s : Sheet.Sheet) (attr : Bool) (ns : Sheet.NsV) (h : Sheet.Expressible (Sheet.view s) attr ns) :
    Sheet.resolveForm (Sheet.view s) attr (Sheet.serForm (Sheet.view s) ns) = some ns := C15.reparse_keeps_pair s attr ns h

/-- cited (C07): a valid rule sequence re-parses to itself -/
theorem rule_order_cited (s : Sheet.Sheet) (hv : Sheet.Valid s) (hp : Sheet.plain s) : Sheet.parseSheet true s = s :=
  C07.reparse_same_partial s hv hp

/-- non-vacuity: `a, f(1px rgb(1, 2, 3))/calc(1px + 2% * 3)` is written as 26 tokens and reads back -/
example : wfValue [(.none, .atom .ident),
      (.comma, .fn (.cons false (.atom .dim) (.cons false (.colorFn false [(false, .num), (true, .num), (true, .num)]) .nil))),
      (.slash, .calc .dim [(.plus, .pct), (.star, .num)])] = true ∧
    serValue {} [(.none, .atom .ident),
      (.comma, .fn (.cons false (.atom .dim) (.cons false (.colorFn false [(false, .num), (true, .num), (true, .num)]) .nil))),
      (.slash, .calc .dim [(.plus, .pct), (.star, .num)])] =
    [.ident, .comma, .ws, .func, .dim, .ws, .colorFunc false, .num, .comma, .ws, .num, .comma, .ws, .num, .rparen, .rparen,
     .slash, .calcFunc, .dim, .ws, .plus, .ws, .pct, .ws, .star, .ws, .num, .rparen] := ⟨rfl, rfl⟩

end CssVerif.C03
