/-
C05 — Serializer preferences change layout, never meaning.

Statement (given): for every combination of serializer preferences, including useMinified(), serialising a
sheet succeeds and the text re-parses to the same object model as the default serialisation, except precisely
for what a preference is documented to omit or rewrite (comments, empty rules, unknown at-rules, unused
@namespace rules, overridden duplicate declarations, resolved variables, literal versus normalised spellings).

Models: `Model/Out.lean` — `serialize.Out`, the one place where every spacing preference (spacer,
listItemSpacer, propertyNameSpacer, paranthesisSpacer, selectorCombinatorSpacer, lineSeparator, indent,
indentClosingBrace, keepComments) takes effect: `append` with its PRE / APPEND / POST steps and `value`,
transcribed; `Model/Value.lean` — the value serialiser as token kinds.

Proved, for all preferences (the spacer strings are arbitrary texts, not a sample):
* `words_never_touch` — two words appended one after the other are written with the spacer between them, or
  with a blank when the spacer is empty; the text between them is never empty and is white space whenever the
  spacer is (`gap_nonempty`, `gap_is_white_space`): the one way in which a spacing preference could change the
  meaning - two tokens running together - cannot happen;
* `value_same_under_all_preferences` — a value written under any preference re-parses to the same value, hence
  two preference settings always give texts with the same meaning;
* cited: omitLeadingZero does not change the number written (`C17.fmt_reparse_partial`, both settings),
  minimizeColorHash not the colour (`C17.hash_shorten`).

Tie: `out` — the transcription against the real `Out` class on random sequences of appends (8 token types x 40
values x the four flags) under random spacer strings, line separators, indents and levels, comparing the list
of pieces and `value()`; `vser` (C03).
Partial: the omission preferences (keep*, validOnly), the default* spellings, importHrefFormat and the assembly
of whole sheets are decided by the oracle on the implementation: a pairwise-covering array plus random points
of the preference space x sheets from G and the repository's samples, re-parsed and compared with the model
transformed by exactly the documented omissions.
-/
import CssVerif.Proofs.Out
import CssVerif.Proofs.Value
import CssVerif.Props.C17
namespace CssVerif.C05
open CssVerif.Out CssVerif.Value

theorem words_never_touch (p : Prefs) (out : List Out.Text) (w1 w2 : Out.Text) (h1 : Word p w1) (h2 : Word p w2) :
    append p (append p out w1 .other true false false false) w2 .other true false false false =
      out ++ [w1] ++ gapAfter p ++ [w2] ++ gapAfter p := words_separated p out w1 w2 h1 h2

theorem gap_nonempty (p : Prefs) : (gapAfter p).flatten ≠ [] := gap_not_empty p

theorem gap_is_white_space (p : Prefs) (hsp : ∀ c ∈ p.spacer, isSpaceC c = true) :
    ∀ c ∈ (gapAfter p).flatten, isSpaceC c = true := gap_is_space p hsp

theorem value_same_under_all_preferences (p q : SerPrefs) (v : Value) (h : wfValue v = true) :
    pvalue (serValue p v) = some v ∧ pvalue (serValue p v) = pvalue (serValue q v) := by
  have hp := pvalue_ok v _ (ser_value p v h)
  have hq := pvalue_ok v _ (ser_value q v h)
  exact ⟨hp, by rw [hp, hq]⟩

/-- cited (C17): a shortened hash colour is the same colour, for both settings of minimizeColorHash -/
theorem hash_cited (minimize : Bool) (v : Text) : Color.hexColor (Color.shortenHash minimize v) = Color.hexColor v :=
  C17.hash_shorten minimize v

/-- non-vacuity: `a` and `b1` are words under the default and the minified preferences; with an empty spacer a
blank is written, and a `,` really removes the blank before it -/
example : Word {} (str "a") ∧ Word { spacer := [], lineSeparator := [] } (str "b1") :=
  ⟨⟨rfl, rfl, rfl, rfl, rfl, rfl, rfl, rfl, rfl, rfl, rfl, rfl⟩, ⟨rfl, rfl, rfl, rfl, rfl, rfl, rfl, rfl, rfl, rfl, rfl, rfl⟩⟩

example : value (append { spacer := [] } (append { spacer := [] } [] (str "a") .other true false false false)
      (str "b") .other true false false false) false = str "a b" ∧
    value (append { listItemSpacer := [] } (append { listItemSpacer := [] } (append { listItemSpacer := [] } []
      (str "a") .other true false false false) (str ",") .other true false false false)
      (str "b") .other true false false false) false = str "a,b" := by decide

end CssVerif.C05
