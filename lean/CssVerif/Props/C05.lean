/-
C05 — Serializer preferences change layout, never meaning.

Statement (given): for every combination of serializer preferences, including useMinified(), serialising a
sheet succeeds and the text re-parses to the same object model as the default serialisation, except precisely
for what a preference is documented to omit or rewrite (comments, empty rules, unknown at-rules, unused
@namespace rules, overridden duplicate declarations, resolved variables, literal versus normalised spellings).

Models: `Model/Out.lean` — `serialize.Out`, the one place where every spacing preference (spacer,
listItemSpacer, propertyNameSpacer, paranthesisSpacer, selectorCombinatorSpacer, lineSeparator, indent,
indentClosingBrace, keepComments) takes effect: `append` with its PRE / APPEND / POST steps and `value`,
transcribed; `Model/Value.lean` — the value serialiser as token kinds.

Proved, for all preferences (the spacer strings are arbitrary texts, not a sample):
* `words_never_touch` — two words appended one after the other are written with the spacer between them, or
  with a blank when the spacer is empty; the text between them is never empty and is white space whenever the
  spacer is (`gap_nonempty`, `gap_is_white_space`): the one way in which a spacing preference could change the
  meaning - two tokens running together - cannot happen;
* `value_same_under_all_preferences` — a value written under any preference re-parses to the same value, hence
  two preference settings always give texts with the same meaning;
* cited: omitLeadingZero does not change the number written (`C17.fmt_reparse_partial`, both settings),
  minimizeColorHash not the colour (`C17.hash_shorten`).

Tie: `out` — the transcription against the real `Out` class on random sequences of appends (8 token types x 40
values x the four flags) under random spacer strings, line separators, indents and levels, comparing the list
of pieces and `value()`; `vser` (C03).

The omission preferences (second part of this file): `Model/Omit.lean` transcribes which
rules and which items of a declaration block are WRITTEN under keepComments, keepEmptyRules, keepUnknownAtRules,
keepUsedNamespaceRulesOnly, keepAllProperties, validOnly (and whether lineSeparator is empty; useMinified as the
documented combination) on an abstract sheet of any size and @media depth: `written : Prefs → Sheet → Sheet`.
Proved for all sheets and all preference settings:
* `written_sub`, `written_default_sub` — the sheet written is the sheet (and, keepEmptyRules being off, the sheet
  written by default) with items deleted: nothing added, nothing reordered, at every level of the tree;
* `omitted_is_documented` — every deletion carries a reason: a comment with keepComments off, an unknown at-rule
  with keepUnknownAtRules off, an @namespace rule whose uri no style rule uses with keepUsedNamespaceRulesOnly, a
  style / @media rule of which nothing is written with keepEmptyRules off, a declaration that is not the effective
  one of its name with keepAllProperties off, an invalid one with validOnly - and two reasons NO preference names:
  an @page (margin box) / @font-face of which nothing is written goes whatever keepEmptyRules says
  (`empty_page_is_never_written`);  `item_omitted_iff` is the exact statement for the items of a block,
  `written_keep_everything` (`_id`) for the sheet: with every keep-preference at "keep" only those are deleted;
  `written_two_steps`: `written` = delete what a preference names, then delete the rules left without content;
  `only_comments`, `only_nested_atrules`, `only_invalid`, `one_declaration_per_name`: what one preference removes;
  `empty_means`: the code's notion of an empty block (with its separator quirk);
* `written_idempotent` under two hypotheses, each with the counterexample that makes it necessary
  (`not_idempotent_namespace`, `not_idempotent_separator`), `written_idempotent_keepEmpty`;
* `used_namespaces_survive` — every uri used by a written style rule (at any @media depth) keeps its @namespace
  rule; the converse fails (`unused_namespace_survives`).
Tie: driver op `omit` against the real serialiser and parser (harness/props/c05o.py).
Partial: the default* spellings, importHrefFormat and the assembly of whole sheets are decided by the oracle on
the implementation: a pairwise-covering array plus random points of the preference space x sheets from G and the
repository's samples, re-parsed and compared with the model transformed by exactly the documented omissions.
-/
import CssVerif.Proofs.Out
import CssVerif.Proofs.Value
import CssVerif.Proofs.Omit
import CssVerif.Props.C17
namespace CssVerif.C05
open CssVerif.Out CssVerif.Value

theorem words_never_touch (p : Prefs) (out : List Out.Text) (w1 w2 : Out.Text) (h1 : Word p w1) (h2 : Word p w2) :
    append p (append p out w1 .other true false false false) w2 .other true false false false =
      out ++ [w1] ++ gapAfter p ++ [w2] ++ gapAfter p := words_separated p out w1 w2 h1 h2

theorem gap_nonempty (p : Prefs) : (gapAfter p).flatten ≠ [] := gap_not_empty p

theorem gap_is_white_space (p : Prefs) (hsp : ∀ c ∈ p.spacer, isSpaceC c = true) :
    ∀ c ∈ (gapAfter p).flatten, isSpaceC c = true := gap_is_space p hsp

theorem value_same_under_all_preferences (p q : SerPrefs) (v : Value) (h : wfValue v = true) :
    pvalue (serValue p v) = some v ∧ pvalue (serValue p v) = pvalue (serValue q v) := by
  have hp := pvalue_ok v _ (ser_value p v h)
  have hq := pvalue_ok v _ (ser_value q v h)
  exact ⟨hp, by rw [hp, hq]⟩

/-- cited (C17): a shortened hash colour is the same colour, for both settings of minimizeColorHash -/
theorem hash_cited (minimize : Bool) (v : Text) : Color.hexColor (Color.shortenHash minimize v) = Color.hexColor v :=
  C17.hash_shorten minimize v

/-- non-vacuity: `a` and `b1` are words under the default and the minified preferences; with an empty spacer a
blank is written, and a `,` really removes the blank before it -/
example : Word {} (str "a") ∧ Word { spacer := [], lineSeparator := [] } (str "b1") :=
  ⟨⟨rfl, rfl, rfl, rfl, rfl, rfl, rfl, rfl, rfl, rfl, rfl, rfl⟩, ⟨rfl, rfl, rfl, rfl, rfl, rfl, rfl, rfl, rfl, rfl, rfl, rfl⟩⟩

example : value (append { spacer := [] } (append { spacer := [] } [] (str "a") .other true false false false)
      (str "b") .other true false false false) false = str "a b" ∧
    value (append { listItemSpacer := [] } (append { listItemSpacer := [] } (append { listItemSpacer := [] } []
      (str "a") .other true false false false) (str ",") .other true false false false)
      (str "b") .other true false false false) false = str "a,b" := by decide

end CssVerif.C05

/-! ## which rules and declarations are written -/
namespace CssVerif.C05
open CssVerif.Omit

/-- (a) under every preference setting the sheet written is the sheet with items deleted, at every level -/
theorem written_sub (p : Prefs) (s : Sheet) : RulesSub (written p s) s := wRules_sub p _ true s

/-- (a) ... and, keepEmptyRules being off, the default serialisation with items deleted -/
theorem written_default_sub (p : Prefs) (s : Sheet) (h : p.keepEmptyRules = false) :
    RulesSub (written p s) (written {} s) := wRules_default_sub p h _ _ true s

/-- the hypothesis is needed: keepEmptyRules writes `a {}`, which the default serialisation leaves out -/
example : ¬ RulesSub (written { keepEmptyRules := true } [.style [] []]) (written {} [.style [] []]) := by
  show ¬ RulesSub [.style [] []] []
  intro h; cases h

/-- (b) every deletion carries a reason (see `RuleReason`, `ItemReason`, `MarginsDoc`) -/
theorem omitted_is_documented (p : Prefs) (s : Sheet) : RulesDoc p (usedRules s) true s (written p s) :=
  wRules_doc p _ true s

/-- (b) an item of a block is left out exactly when a switched-off preference names it -/
theorem item_omitted_iff (p : Prefs) (pre post : List Item) (x : Item) :
    kept p pre post x = false ↔ ItemReason p pre post x := kept_false_iff p pre post x

/-- (b) with every keep-preference at its "keep" value nothing is deleted but @page rules, margin boxes and
@font-face rules without any item (whatever lineSeparator is) -/
theorem written_keep_everything (p : Prefs) (h1 : p.keepComments = true) (h2 : p.keepEmptyRules = true)
    (h3 : p.keepUnknownAtRules = true) (h4 : p.keepUsedNamespaceRulesOnly = false) (h5 : p.keepAllProperties = true)
    (h6 : p.validOnly = false) (s : Sheet) : written p s = pruneRules true s := by
  unfold written
  rw [wRules_eq p _ (Or.inl h3), h2, stripRules_keep p _ h5 h1 h3 h6 h4]

theorem written_keep_everything_id (p : Prefs) (h1 : p.keepComments = true) (h2 : p.keepEmptyRules = true)
    (h3 : p.keepUnknownAtRules = true) (h4 : p.keepUsedNamespaceRulesOnly = false) (h5 : p.keepAllProperties = true)
    (h6 : p.validOnly = false) (s : Sheet) (hs : hollowFreeRules s = true) : written p s = s := by
  rw [written_keep_everything p h1 h2 h3 h4 h5 h6, pruneRules_keep s hs]

/-- FINDING: keepEmptyRules does not keep an empty @page, margin box or @font-face -/
theorem empty_page_is_never_written (p : Prefs) :
    written p [.page [] []] = [] ∧ written p [.page [] [[]]] = [] ∧ written p [.fontface []] = [] := by
  refine ⟨?_, ?_, ?_⟩ <;> simp [written, wRules, wRule, wMargins, blockText_nil]

/-- (b) `written` = delete what a preference names, then the rules left without content (style and @media rules
unless keepEmptyRules; @page, margin box, @font-face always) - when nested at-rules are kept or lineSeparator is empty -/
theorem written_two_steps (p : Prefs) (hA : NoSepQuirk p) (s : Sheet) :
    written p s = pruneRules p.keepEmptyRules (stripRules p (usedRules s) true s) := wRules_eq p _ hA true s

/-- the code's notion of a block that is not empty; the second disjunct is the separator quirk -/
theorem empty_means (p : Prefs) (b : Block) :
    blockText p b = true ↔ wBlock p b ≠ [] ∨ (p.lineSep = true ∧ 2 ≤ nAt b) := blockText_iff p b

/-- FINDING (the hypothesis of `written_two_steps` is needed): two nested at-rules that are not written leave a
separator, the rule counts as not empty and is written with an empty block; one does not, nor two when
lineSeparator is empty -/
example : written { keepUnknownAtRules := false } [.style [] [.atrule, .atrule]] = [.style [] []] ∧
    written { keepUnknownAtRules := false } [.style [] [.atrule]] = [] ∧
    written { keepUnknownAtRules := false, lineSep := false } [.style [] [.atrule, .atrule]] = [] := ⟨rfl, rfl, rfl⟩

/-- (b) single preferences on a block: keepComments removes exactly the comments, -/
theorem only_comments (b : Block) : wBlock { keepEverything with keepComments := false } b = b.filter (· != .comment) := by
  unfold wBlock
  rw [wItems_keepAll _ rfl]
  congr 1
  funext x
  cases x <;> rfl

/-- keepUnknownAtRules exactly the nested at-rules, -/
theorem only_nested_atrules (b : Block) :
    wBlock { keepEverything with keepUnknownAtRules := false } b = b.filter (· != .atrule) := by
  unfold wBlock
  rw [wItems_keepAll _ rfl]
  congr 1
  funext x
  cases x <;> rfl

/-- validOnly exactly the invalid declarations, -/
theorem only_invalid (b : Block) :
    wBlock { keepEverything with validOnly := true } b =
      b.filter (fun x => match x with | .decl _ _ v => v | _ => true) := by
  unfold wBlock
  rw [wItems_keepAll _ rfl]
  congr 1
  funext x
  cases x <;> simp [writes, keepEverything]

/-- keepAllProperties leaves at most one declaration of every name, exactly one when invalid ones are written; which
one: `effective` (with a priority: none with a priority after it; without: none of the name after it, none with a
priority before it) - it stays where it stands (`written_sub`) -/
theorem one_declaration_per_name (p : Prefs) (hk : p.keepAllProperties = false) (n : Nat) (b : Block) :
    ((wBlock p b).filter (isNamed n)).length ≤ 1 ∧
    (p.validOnly = false → b.any (isNamed n) = true → (wBlock p b).any (isNamed n) = true) := by
  refine ⟨at_most_one_per_name p hk n b [], fun hv hb => at_least_one_per_name p hk hv n b [] (Or.inl ⟨rfl, hb⟩)⟩

/-- with validOnly the name may lose all its declarations: the effective one is chosen before validity is asked -/
example : wBlock { keepAllProperties := false, validOnly := true } [.decl 1 false true, .decl 1 false false] = [] := rfl

/-- (c) writing what was written changes nothing - when (hA) nested at-rules are kept or lineSeparator is empty and
(hB) unused @namespace rules are kept or every uri used in the sheet is still used in the sheet written -/
theorem written_idempotent (p : Prefs) (s : Sheet) (hA : NoSepQuirk p)
    (hB : p.keepUsedNamespaceRulesOnly = false ∨ ∀ u, u ∈ usedRules s → u ∈ usedRules (written p s)) :
    written p (written p s) = written p s := wRules_stable p _ _ hA hB true s

/-- (hB) holds with keepEmptyRules: every style rule is written -/
theorem written_idempotent_keepEmpty (p : Prefs) (s : Sheet) (hA : NoSepQuirk p) (hE : p.keepEmptyRules = true) :
    written p (written p s) = written p s :=
  written_idempotent p s hA (Or.inr (used_wRules_keepEmpty p _ hE true s))

/-- FINDING, (hB) is needed: `@namespace p "u"; p|a {}` under useMinified is written `@namespace p"u";` - the uri
is used, by a rule that is not written - and that text is written as the empty sheet -/
theorem not_idempotent_namespace :
    written (useMinified {}) [.ns 1 false, .style [1] []] = [.ns 1 false] ∧
    written (useMinified {}) (written (useMinified {}) [.ns 1 false, .style [1] []]) = [] ∧
    NoSepQuirk (useMinified {}) := ⟨rfl, rfl, Or.inr rfl⟩

/-- FINDING, (hA) is needed: `a { @x {} @y {} }` with keepUnknownAtRules off is written `a {}`-with-a-blank-line,
which is not written -/
theorem not_idempotent_separator :
    written { keepUnknownAtRules := false } [.style [] [.atrule, .atrule]] = [.style [] []] ∧
    written { keepUnknownAtRules := false } (written { keepUnknownAtRules := false } [.style [] [.atrule, .atrule]]) = [] :=
  ⟨rfl, rfl⟩

example : written (useMinified {}) (written (useMinified {}) [.ns 1 false, .style [1] []]) ≠
    written (useMinified {}) [.ns 1 false, .style [1] []] := ne_of_beqRules_false (by decide)

/-- non-vacuity of the hypotheses: the default preferences and useMinified satisfy (hA), the default ones (hB); a
sheet with a used and an unused namespace satisfies (hB) under useMinified -/
example : NoSepQuirk {} ∧ NoSepQuirk (useMinified {}) ∧ ({} : Prefs).keepUsedNamespaceRulesOnly = false :=
  ⟨Or.inl rfl, Or.inr rfl, rfl⟩

example : ∀ u, u ∈ usedRules [.ns 1 false, .ns 2 false, .media [.style [1] [.decl 1 false true]]] →
    u ∈ usedRules (written (useMinified {}) [.ns 1 false, .ns 2 false, .media [.style [1] [.decl 1 false true]]]) := by
  decide

/-- (d) under every preference setting a uri used by a written style rule - at any @media depth - keeps every
@namespace rule the sheet has for it -/
theorem used_namespaces_survive (p : Prefs) (s : Sheet) (u : Nat) (d : Bool)
    (hu : u ∈ usedRules (written p s)) (hn : Rule.ns u d ∈ s) : Rule.ns u d ∈ written p s := by
  have hin : u ∈ usedRules s := used_wRules p _ true s u hu
  refine mem_wRules p _ true _ _ ?_ s hn
  have h0 : nsOmitted p (usedRules s) true u d = false := by
    simp only [nsOmitted, Bool.and_eq_false_iff, Bool.not_eq_false', List.contains_iff_mem]
    exact Or.inl (Or.inr hin)
  simp [wRule, h0]

/-- the converse fails (FINDING): a namespace no WRITTEN style rule uses survives keepUsedNamespaceRulesOnly -/
theorem unused_namespace_survives :
    Rule.ns 1 false ∈ written (useMinified {}) [.ns 1 false, .style [1] []] ∧
    usedRules (written (useMinified {}) [.ns 1 false, .style [1] []]) = [] := by
  refine ⟨?_, rfl⟩
  show Rule.ns 1 false ∈ [Rule.ns 1 false]
  exact List.mem_singleton.mpr rfl

/-- and an unused one goes, a used one (three @media levels down) stays -/
example : written (useMinified {}) [.ns 1 false, .ns 2 false, .media [.media [.media [.style [2] [.decl 1 false true]]]]] =
    [.ns 2 false, .media [.media [.media [.style [2] [.decl 1 false true]]]]] := rfl

end CssVerif.C05

