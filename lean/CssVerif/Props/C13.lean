/-
C13 — Encoded output always decodes and re-parses to the same sheet.

`Model/Escape.lean` transcribes `serialize._escapecss` (what the serialiser writes for a character the sheet's
encoding does not have) and specifies the reading of hex escapes by the tokenizer (`unicodesub`).

Proved, for texts of any length and any set of encodable characters: the written text contains only
characters the encoding has (if it has backslash, space and the hex digits — every ASCII-transparent
encoding), and reading it back gives exactly the original text: the terminating space is neither taken for
part of the text nor does it let a following hex digit glue to the escape, code points up to U+10FFFF need at
most six hex digits.

Tie: `escall` (model against `str.encode(enc, 'escapecss')` for ascii and latin-1) and `unesc` (the reading
specification against the real tokenizer's `unicodesub` on random strings of escapes).
Partial: that the serialised sheet starts with `@charset`, that the bytes decode under every supported
codec, that parsing them with no hint detects the encoding (detection itself is C14) and gives the same
object model — non-ASCII planted at every position that can hold it — are decided by the oracle on the
implementation.  One defect repaired: escapes in unknown at-keywords were not read back.
-/
import CssVerif.Proofs.Escape
import CssVerif.Gen.Productions
namespace CssVerif.C13
open CssVerif.Escape
open CssVerif CssVerif.Re

/-! ### obligation on the regenerated table: the tokenizer's escape pattern is the one the reading
specification `cssUnescape` stands for -/

def isHexC (c : Nat) : Bool := (48 ≤ c && c ≤ 57) || (97 ≤ c && c ≤ 102) || (65 ≤ c && c ≤ 70)
def isCssWs (c : Nat) : Bool := c = 9 || c = 10 || c = 12 || c = 13 || c = 32

/-- `Tokenizer.unicodesub` as regenerated from /repo is: a backslash, one to six characters of a class that
holds exactly the hex digits, and optionally CR LF or one character of a class that holds exactly the five
CSS white-space characters (not Python's `\s`: no NBSP, no U+3000, no vertical tab) -/
theorem gen_unicodesub_shape : ∃ hex ws,
    Gen.unicodesub = .seq (.cls false [(92, 92)]) (.seq (.cls false hex)
      (.seq (.opt (.seq (.cls false hex) (.opt (.seq (.cls false hex) (.opt (.seq (.cls false hex)
        (.opt (.seq (.cls false hex) (.opt (.cls false hex))))))))))
      (.opt (.alt (.seq (.cls false [(13, 13)]) (.cls false [(10, 10)])) (.cls false ws))))) ∧
    (∀ c, clsMatch false hex c = isHexC c) ∧ (∀ c, clsMatch false ws c = isCssWs c) := by
  refine ⟨[(48, 57), (97, 102), (65, 70)], [(9, 9), (13, 13), (10, 10), (12, 12), (32, 32)], rfl, ?_, ?_⟩
  · intro c
    simp only [clsMatch, inRanges, isHexC, Bool.false_eq_true, if_false, Bool.or_false, Bool.or_assoc]
  · intro c
    simp only [clsMatch, inRanges, isCssWs, Bool.false_eq_true, if_false, Bool.or_false]
    by_cases h9 : c = 9 <;> by_cases h10 : c = 10 <;> by_cases h12 : c = 12 <;> by_cases h13 : c = 13 <;>
      by_cases h32 : c = 32 <;> simp_all <;> omega

theorem written_is_encodable (can : Nat → Bool) (t : Text) (h92 : can 92 = true) (h32 : can 32 = true)
    (hhex : ∀ d, d < 16 → can (hexDigit d) = true) (hu : ∀ c ∈ t, c ≤ 0x10FFFF) :
    ∀ x ∈ escapeAll can t, can x = true := escape_encodable can t h92 h32 hhex hu

theorem read_back (can : Nat → Bool) (t : Text) (hb : ∀ c ∈ t, c ≠ 92) (hu : ∀ c ∈ t, c ≤ 0x10FFFF) :
    cssUnescape (escapeAll can t) = t :=
  escape_roundtrip can t hb hu _ (by have := escapeAll_length_ge can t; omega)

/-- non-vacuity and the two delicate followers: a hex digit and a space right after an escaped character -/
example : escapeAll (· < 128) [233, 97, 233, 32, 0x10FFFF] =
    [92, 69, 57, 32, 97, 92, 69, 57, 32, 32, 92, 49, 48, 70, 70, 70, 70, 32] ∧
    cssUnescape (escapeAll (· < 128) [233, 97, 233, 32, 0x10FFFF]) = [233, 97, 233, 32, 0x10FFFF] := by decide

end CssVerif.C13
