import CssVerif.Model.Tokenizer
import CssVerif.Gen.Productions
namespace CssVerif.C08
theorem placeholder : True := trivial
end CssVerif.C08
