/-
C08 — Tokenizing is total, lossless and reports true source positions.

Property theorems only.  They are stated for the production table that
`harness/gen_tables.py` regenerates from /repo on every run (`Gen.tables`); the
four side conditions are decided by the kernel on that table.
-/
import CssVerif.Proofs.Tokenizer
import CssVerif.Gen.Productions
namespace CssVerif.C08
open CssVerif Re

/-! ### obligations on the regenerated tables -/

/-- no production can match the empty string (so the loop always advances) -/
theorem gen_nonNullable : allNonNullable Gen.tables = true := by decide
/-- the fall-back productions cover every code point -/
theorem gen_coversAll : coversAll Gen.tables = true := by decide
/-- the single-character fast path never sees a newline (column bookkeeping) -/
theorem gen_fastNoNl : fastNoNl Gen.tables = true := by decide
/-- un-escaping only ever touches text that contains a backslash -/
theorem gen_backslashOnly : backslashOnly Gen.tables = true := by decide

/-! ### prelude (BOM, leading `@charset `) -/

section
variable (T : Tables)

theorem bom_found_prefix (s rem : Text) : consumed s rem ++ s.drop (consumed s rem).length = s :=
  prefix_drop_eq (consumed_prefix s rem)

theorem hasAt_prefix {s pat : Text} (h : hasAt s pat = true) : pat ++ s.drop pat.length = s := by
  unfold hasAt at h
  exact prefix_drop_eq (List.isPrefixOf_iff_prefix.mp h)

/-- the prelude's raw matches followed by the loop's start text are the whole text -/
theorem prelude_partition (s : Text) :
    (prelude T s).1.flatMap (·.2) ++ (prelude T s).2.rest = s := by
  unfold prelude
  split
  · rename_i rem _
    simp only
    split
    · rename_i hcs
      simp only [List.flatMap_append, List.flatMap_cons, List.flatMap_nil, List.append_nil, List.append_assoc]
      rw [hasAt_prefix hcs]
      exact bom_found_prefix s rem
    · simp only [List.flatMap_cons, List.flatMap_nil, List.append_nil]
      exact bom_found_prefix s rem
  · simp only
    split
    · rename_i hcs
      simp only [List.nil_append, List.flatMap_cons, List.flatMap_nil, List.append_nil]
      exact hasAt_prefix hcs
    · simp

theorem lineCol_nil : lineCol [] = (1, 1) := by simp [lineCol, countNl]
theorem lineCol_charset : lineCol charsetLit = (1, 10) := by decide

/-- positions reported by the prelude tokens and handed to the loop, BOM counting as zero width -/
theorem prelude_position (s : Text) :
    ((prelude T s).2.line, (prelude T s).2.col)
        = lineCol (((prelude T s).1.flatMap (·.2)).drop (bomLen T s)) ∧
    bomLen T s ≤ ((prelude T s).1.flatMap (·.2)).length ∧
    ∀ (i : Nat) (p : Tok × Text), (prelude T s).1[i]? = some p →
      (p.1.line, p.1.col) = lineCol ((((prelude T s).1.take i).flatMap (·.2)).drop (bomLen T s)) ∧
      p.1.val = p.2 := by
  unfold prelude bomLen
  split
  · rename_i rem hrem
    simp only
    split
    · simp only [List.flatMap_append, List.flatMap_cons, List.flatMap_nil, List.append_nil,
        List.drop_left, List.length_append]
      refine ⟨by rw [lineCol_charset]; rfl, by omega, ?_⟩
      intro i p hp
      match i with
      | 0 => simp at hp; subst hp; simp [lineCol_nil]
      | 1 => simp at hp; subst hp; simp [lineCol_nil]
      | (k+2) => simp at hp
    · simp only [List.flatMap_cons, List.flatMap_nil, List.append_nil, List.drop_length]
      refine ⟨by rw [lineCol_nil], by omega, ?_⟩
      intro i p hp
      match i with
      | 0 => simp at hp; subst hp; simp [lineCol_nil]
      | (k+1) => simp at hp
  · simp only
    split
    · simp only [List.nil_append, List.flatMap_cons, List.flatMap_nil, List.append_nil, List.drop_zero]
      refine ⟨by rw [lineCol_charset]; rfl, by omega, ?_⟩
      intro i p hp
      match i with
      | 0 => simp at hp; subst hp; simp [lineCol_nil]
      | (k+1) => simp at hp
    · simp only [List.flatMap_nil, List.drop_nil]
      exact ⟨by rw [lineCol_nil], by simp, by intro i p hp; simp at hp⟩

theorem prelude_rest_suffix (s : Text) : (prelude T s).2.rest <:+ s :=
  ⟨_, prelude_partition T s⟩

end

/-! ### the property, for an arbitrary table satisfying the side conditions -/

section
variable (T : Tables) (hnn : allNonNullable T = true) (hcov : coversAll T = true)
  (hfast : fastNoNl T = true) (hbs : backslashOnly T = true)
include hnn hfast

/-- **total**: the loop ends because the text is used up — never out of fuel, never stuck -/
theorem tokenize_total_of (hcov : coversAll T = true) (cfg : Cfg) (s : Text) :
    (tokenize T cfg s).endKind = .done := by
  simp only [tokenize]
  exact loop_done T hnn hfast hcov cfg _ _ (by omega)

theorem items_flatMap (cfg : Cfg) (s : Text) :
    (tokenize T cfg s).items.flatMap (·.2) =
      (prelude T s).1.flatMap (·.2) ++
        (loop T cfg ((prelude T s).2.rest.length + 1) (prelude T s).2).1.flatMap (·.2) := by
  simp only [tokenize, List.flatMap_append]
  congr 1
  induction (prelude T s).1 with
  | nil => rfl
  | cons x xs ih => simp [List.flatMap_cons, ih]

/-- **lossless**: the raw matches concatenate to the text, followed by a completion of at most two
characters that is empty outside full-sheet mode -/
theorem partition_of (hcov : coversAll T = true) (cfg : Cfg) (s : Text) :
    ∃ c, (tokenize T cfg s).items.flatMap (·.2) = s ++ c ∧ c.length ≤ 2 ∧
      (cfg.fullsheet = false → c = []) := by
  obtain ⟨c, hc, _, hcl, hcf⟩ :=
    loop_partition T hnn hfast cfg ((prelude T s).2.rest.length + 1) (prelude T s).2
  have hdone := loop_done T hnn hfast hcov cfg ((prelude T s).2.rest.length + 1) (prelude T s).2 (by omega)
  have hnil := loop_rest_nil T cfg _ _ hdone
  rw [hnil, List.append_nil] at hc
  refine ⟨c, ?_, hcl, hcf⟩
  rw [items_flatMap T hnn hfast cfg s, hc, ← List.append_assoc, prelude_partition T s]

/-- **escape-free values**: if the text contains no backslash, every emitted token's value is its
raw match — so the token values themselves concatenate to the text (plus completion) -/
theorem value_eq_raw_of (hbs : backslashOnly T = true) (cfg : Cfg) (s : Text) (hs : ∀ c ∈ s, c ≠ 92) :
    ∀ it ∈ (tokenize T cfg s).items, ∀ t, it.1 = some t → t.val = it.2 := by
  intro it hit t ht
  simp only [tokenize, List.mem_append, List.mem_map] at hit
  rcases hit with ⟨p, hp, rfl⟩ | hit
  · obtain ⟨i, hi⟩ := List.getElem?_of_mem hp
    simp only [Option.some.injEq] at ht
    subst ht
    exact ((prelude_position T s).2.2 i p hi).2
  · have hrest : NoBs (prelude T s).2.rest := fun c hc => hs c ((prelude_rest_suffix T s).subset hc)
    exact loop_values T hnn hfast hbs cfg _ _ hrest it hit t ht

/-- **positions**: the i-th match, if it emitted a token, reports the 1-based line and column of
the place where it starts: the position reached by all earlier raw matches, the byte-order mark
counting as zero width -/
theorem position_of (cfg : Cfg) (s : Text) (i : Nat) (t : Tok) (raw : Text)
    (h : (tokenize T cfg s).items[i]? = some (some t, raw)) :
    (t.line, t.col) = lineCol ((((tokenize T cfg s).items.take i).flatMap (·.2)).drop (bomLen T s)) := by
  obtain ⟨hst, hbl, hpre⟩ := prelude_position T s
  simp only [tokenize] at h ⊢
  by_cases hi : i < (prelude T s).1.length
  · have hi' : i < ((prelude T s).1.map (fun p => (some p.1, p.2))).length := by simpa using hi
    rw [List.getElem?_append_left hi'] at h
    simp only [List.getElem?_map, Option.map_eq_some_iff] at h
    obtain ⟨p, hp, hpe⟩ := h
    have := (hpre i p hp).1
    have hpt : p.1 = t := Option.some.inj (congrArg Prod.fst hpe)
    rw [← hpt, this]
    congr 2
    rw [List.take_append_of_le_length (by simpa using Nat.le_of_lt hi), ← List.map_take]
    generalize (prelude T s).1.take i = l
    induction l with
    | nil => rfl
    | cons x xs ih => simp [List.flatMap_cons, ih]
  · have hge : ((prelude T s).1.map (fun p => ((some p.1 : Option Tok), p.2))).length ≤ i := by
      simpa using Nat.le_of_not_lt hi
    have hmap : ((prelude T s).1.map (fun p => ((some p.1 : Option Tok), p.2))).flatMap (·.2)
        = (prelude T s).1.flatMap (·.2) := by
      generalize (prelude T s).1 = l
      induction l with
      | nil => rfl
      | cons x xs ih => simp [List.flatMap_cons, ih]
    rw [List.getElem?_append_right hge] at h
    have hpos := loop_position T hnn hfast cfg _ _ _ t raw h
    rw [hst, lineCol_eq_adv, adv_append, ← lineCol_eq_adv] at hpos
    rw [hpos]
    congr 1
    rw [List.take_append, List.take_of_length_le hge, List.flatMap_append, hmap,
      List.drop_append_of_le_length hbl]

end
end CssVerif.C08

/-! ### the property for the table in /repo today -/
namespace CssVerif.C08
open CssVerif

theorem tokenize_total (cfg : Cfg) (s : Text) : (tokenize Gen.tables cfg s).endKind = .done :=
  tokenize_total_of Gen.tables gen_nonNullable gen_fastNoNl gen_coversAll cfg s

theorem partition (cfg : Cfg) (s : Text) :
    ∃ c, (tokenize Gen.tables cfg s).items.flatMap (·.2) = s ++ c ∧ c.length ≤ 2 ∧
      (cfg.fullsheet = false → c = []) :=
  partition_of Gen.tables gen_nonNullable gen_fastNoNl gen_coversAll cfg s

theorem value_eq_raw (cfg : Cfg) (s : Text) (hs : ∀ c ∈ s, c ≠ 92) :
    ∀ it ∈ (tokenize Gen.tables cfg s).items, ∀ t, it.1 = some t → t.val = it.2 :=
  value_eq_raw_of Gen.tables gen_nonNullable gen_fastNoNl gen_backslashOnly cfg s hs

theorem position (cfg : Cfg) (s : Text) (i : Nat) (t : Tok) (raw : Text)
    (h : (tokenize Gen.tables cfg s).items[i]? = some (some t, raw)) :
    (t.line, t.col) =
      lineCol ((((tokenize Gen.tables cfg s).items.take i).flatMap (·.2)).drop (bomLen Gen.tables s)) :=
  position_of Gen.tables gen_nonNullable gen_fastNoNl cfg s i t raw h

/-- with comments kept, every match emits its token: nothing is dropped from the stream -/
theorem all_emitted (s : Text) (full : Bool) :
    ∀ it ∈ (tokenize Gen.tables ⟨full, true⟩ s).items, it.1.isSome := by
  intro it hit
  simp only [tokenize, List.mem_append, List.mem_map] at hit
  rcases hit with ⟨p, _, rfl⟩ | hit
  · rfl
  · exact loop_emits Gen.tables ⟨full, true⟩ rfl _ _ it hit

/-- non-vacuity: a concrete text with a BOM, `@charset `, a newline and an unterminated string -/
example : (tokenize Gen.tables ⟨true, true⟩ [239, 187, 191, 97, 10, 34, 120]).toks.map (fun t => (t.typ, t.line, t.col))
    = [("BOM", 1, 1), ("IDENT", 1, 1), ("S", 1, 2), ("STRING", 2, 1), ("EOF", 2, 4)] := by decide

end CssVerif.C08
