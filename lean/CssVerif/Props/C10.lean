/-
C10 — Equivalent spellings (case, escapes, quoting) give the same model.

Statement (given): rewriting a well-formed sheet with spellings CSS defines as equivalent produces the same
object model: any letter case for at-keywords, property names, units, function names, pseudo-class and
pseudo-element names, '!important' and 'url('; any name character written as a backslash escape (hex with
optional terminating white space, or a literal escape); single versus double quotes; quoted versus bare URLs.

Model: `Model/Respell.lean` — the reading the library applies wherever it looks a name up: the tokenizer's
`unicodesub` (the specification `Escape.cssUnescape`, tied to the real regular expression by the `unesc`
correspondence of C13 and again here on respelled names) followed by `helper.normalize` (`stripLit`, `lowerC`;
tied by the `norm` correspondence).  A spelling of a name chooses per character: plain, the other letter case, a
hex escape (0-4 leading zeros, digits in either case, no terminator or one of the five white-space characters)
or a literal escape.

Proved for names of any length and every combination of choices (`spelling_reads_as_name`): the spelling reads
as the name, under exactly the side conditions CSS itself imposes — a literal escape must not be a hex digit,
an unterminated short hex escape must not be followed by a hex digit or white space, a CR terminator not by LF.
Hence any two spellings of a name are looked up alike (`spellings_agree`).  Quote kind: a string without its
own quote character and backslash has the same value in either quotes (`quote_kind`).

Partial: the theorem is about the reading of one name.  That every class which holds a name (property names,
priorities, units, function names, pseudo names, at-keywords, `url(`) does apply this reading, and that the
object model of a whole sheet is unchanged by respelling every eligible token, is decided by the oracle on the
implementation (sheets from the grammar G x random respellings, compared through the independent model
extractor).  Names are ASCII in the theorem (`str.lower` on other letters is Python's).  Two recorded findings
(pinned by the existing tests): a literal escape of a name character in an element, class, id or attribute name
of a selector, and in an identifier of a value, is kept in the model.  Defects repaired: see DESIGN.md §6.
-/
import CssVerif.Proofs.Respell
import CssVerif.Proofs.Urls
namespace CssVerif.C10
open CssVerif.Escape CssVerif.Respell

theorem spelling_reads_as_name (l : List (Nat × Sp)) (h : ok l = true) : decode (render l) = l.map (·.1) :=
  decode_render l h

theorem spellings_agree (a b : List (Nat × Sp)) (ha : ok a = true) (hb : ok b = true)
    (hn : a.map (·.1) = b.map (·.1)) : decode (render a) = decode (render b) := by
  rw [decode_render a ha, decode_render b hb, hn]

theorem unescape_id (q : Nat) : ∀ s : Urls.Url, (∀ c ∈ s, c ≠ 92) → Urls.unescape q s = s := by
  intro s
  induction s with
  | nil => intro _; simp [Urls.unescape]
  | cons c s ih =>
    intro h
    have hc : c ≠ 92 := h c (List.mem_cons_self ..)
    have := ih (fun x hx => h x (List.mem_cons_of_mem _ hx))
    conv => lhs; unfold Urls.unescape
    split
    · rename_i heq; simp only [List.cons.injEq] at heq; exact absurd heq.1 hc
    · rename_i heq; simp only [List.cons.injEq] at heq; obtain ⟨rfl, rfl⟩ := heq; rw [this]
    · rename_i heq; simp at heq

/-- a string without backslash has the value between its quotes, whichever quote character is used -/
theorem quote_kind (q : Nat) (v : Urls.Url) (hb : ∀ c ∈ v, c ≠ 92) (hq : q ≠ 92) :
    Urls.stringValue (q :: v ++ [q]) = v := by
  have : ∀ c ∈ q :: v ++ [q], c ≠ 92 := by
    intro c hc
    simp only [List.cons_append, List.mem_cons, List.mem_append, List.mem_nil_iff, or_false] at hc
    rcases hc with rfl | hc | rfl
    · exact hq
    · exact hb c hc
    · exact hq
  simp only [Urls.stringValue, List.cons_append]
  rw [show q :: (v ++ [q]) = q :: v ++ [q] by simp, unescape_id q _ this]
  simp

/-- non-vacuity: `@m\65 DI\a`-style spellings of "media" — upper case, a short hex escape ended by a space
before a hex digit, six digits with upper-case hex before a letter, a literal escape -/
example :
    ok [(109, .upper), (101, .hex 0 54 53 (some 32)), (100, .plain), (105, .hex 4 54 57 none), (97, .plain)] = true ∧
    render [(109, .upper), (101, .hex 0 54 53 (some 32)), (100, .plain), (105, .hex 4 54 57 none), (97, .plain)] =
      [77, 92, 54, 53, 32, 100, 92, 48, 48, 48, 48, 54, 57, 97] ∧
    decode [77, 92, 54, 53, 32, 100, 92, 48, 48, 48, 48, 54, 57, 97] = [109, 101, 100, 105, 97] ∧
    ok [(109, .lit true), (120, .lit false)] = true ∧
    -- what the side conditions exclude really reads differently: `\65d` is U+65D, `\a` is U+000A
    decode [92, 54, 53, 100] ≠ [101, 100] ∧ ok [(101, .hex 0 54 53 none), (100, .plain)] = false ∧
    ok [(97, .lit false)] = false := by decide

end CssVerif.C10
