/-
C07 — Rule order and containment stay valid under any edit history.

The sheet model (`Model/Sheet.lean`) transcribes insertRule / add / deleteRule / encoding /
namespaces[...] / cssText= as coded (variant `fx = true` = /repo today, after the repairs recorded
in known_findings.json; `fx = false` = the in-order placement of the pinned snapshot).
`Valid` is the statement's ordering condition.  The proof first needed the hypothesis that an in-order
insertion carries no index (`OpWF`); running the real code at the excluded point showed a defect
(`insertRule('@namespace …', 0, inOrder=True)` in front of an @import), repaired in /repo (df1e9ff): the
theorems now hold for every operation, `snapshot_inorder_index` keeps the old behaviour as a witness.
-/
import CssVerif.Proofs.Sheet
namespace CssVerif.C07
open CssVerif CssVerif.Sheet

theorem valid_init : Valid [] := valid_nil

/-- every operation keeps the rule list valid, whether it succeeds or is rejected -/
theorem valid_step (s : Sheet) (hv : Valid s) (op : Op) : Valid (step true s op).1 :=
  step_valid s hv op

/-- a rejected call leaves the list unchanged -/
theorem reject_unchanged (s : Sheet) (op : Op) (e : Err) (h : (step true s op).2 = .raised e) :
    (step true s op).1 = s := step_reject true s op e h

/-- every sheet reachable from the empty sheet by any finite history is valid -/
theorem reachable_valid (ops : List Op) :
    Valid (ops.foldl (fun s op => (step true s op).1) []) := Sheet.reachable_valid ops

/-- whatever text is assigned or parsed, the parse-time ordering machine only ever builds valid lists -/
theorem parse_valid (rs : List Rule) : Valid (parseSheet true rs) := parseSheet_valid rs

/-- **re-parse** (partial: sheets without @namespace and @variables rules — the namespace clean-up and
the legacy @variables level are not covered by this theorem; they are covered by the re-parse
oracle of harness/props/c07.py): a valid list goes through the parser's ordering machine unchanged -/
theorem reparse_same_partial (s : Sheet) (hv : Valid s) (hp : plain s) : parseSheet true s = s :=
  (reparse_same_plain s hv hp).1

/-- corollary: every reachable plain sheet re-parses to itself -/
theorem reachable_reparse (ops : List Op)
    (hp : plain (ops.foldl (fun s op => (step true s op).1) [])) :
    parseSheet true (ops.foldl (fun s op => (step true s op).1) []) =
      ops.foldl (fun s op => (step true s op).1) [] :=
  reparse_same_partial _ (reachable_valid ops) hp

/-! ### containers: @media / @page only ever hold kinds they allow -/

theorem container_insert_allowed (forbid kids : List Kind) (k : Kind) (i : Option Nat)
    (h : ∀ x ∈ kids, x ∉ forbid) : ∀ x ∈ (containerInsert forbid kids k i).1, x ∉ forbid := by
  unfold containerInsert
  simp only
  split
  · exact h
  · split
    · exact h
    · rename_i _ hk
      intro x hx
      rcases List.mem_append.mp hx with h1 | h1
      · exact h x (List.mem_of_mem_take h1)
      · rcases List.mem_cons.mp h1 with rfl | h2
        · simpa using hk
        · exact h x (List.mem_of_mem_drop h2)

theorem container_delete_allowed (forbid kids : List Kind) (i : Int)
    (h : ∀ x ∈ kids, x ∉ forbid) : ∀ x ∈ (containerDelete kids i).1, x ∉ forbid := by
  unfold containerDelete
  split
  · exact h
  · intro x hx
    exact h x ((List.eraseIdx_sublist _ _).subset hx)

theorem container_reject_unchanged (forbid kids : List Kind) (k : Kind) (i : Option Nat) (e : Err)
    (h : (containerInsert forbid kids k i).2 = .raised e) : (containerInsert forbid kids k i).1 = kids := by
  unfold containerInsert at h ⊢
  simp only at h ⊢
  split
  · rfl
  · split
    · rfl
    · rename_i h1 h2
      have h2' : ¬ k ∈ forbid := by simpa using h2
      simp [h1, h2'] at h

/-! ### the defect of the pinned snapshot, as a kernel-checked witness on the old placement -/

/-- comment, @import, then `add('@namespace …')` with the snapshot's placement: not valid -/
theorem snapshot_counterexample :
    ¬ Valid (step false [⟨.comment, 0, 0, []⟩, ⟨.import, 0, 0, []⟩]
      (.insert ⟨.namespace, 1, 1, []⟩ none true)).1 := by decide

/-- an in-order insertion with an explicit index, before repair df1e9ff: the @namespace rule lands in
front of the @import -/
theorem snapshot_inorder_index :
    ¬ Valid (step false [⟨.import, 0, 0, []⟩] (.insert ⟨.namespace, 1, 1, []⟩ (some 0) true)).1 ∧
    Valid (step true [⟨.import, 0, 0, []⟩] (.insert ⟨.namespace, 1, 1, []⟩ (some 0) true)).1 := by decide

/-- the same history with the repaired placement -/
example : (step true [⟨.comment, 0, 0, []⟩, ⟨.import, 0, 0, []⟩]
      (.insert ⟨.namespace, 1, 1, []⟩ none true)).1.map (·.kind) = [.comment, .import, .namespace] := by decide

/-! non-vacuity: a non-trivial reachable valid sheet -/
example : Valid [⟨.charset, 1, 0, []⟩, ⟨.comment, 0, 0, []⟩, ⟨.import, 0, 0, []⟩, ⟨.namespace, 1, 1, []⟩,
    ⟨.style, 0, 0, [1]⟩, ⟨.unknown, 0, 0, []⟩, ⟨.media, 0, 0, []⟩] := by decide

end CssVerif.C07
