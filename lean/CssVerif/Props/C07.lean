import CssVerif.Model.Sheet
namespace CssVerif.C07
theorem placeholder : True := trivial
end CssVerif.C07
