/-
C07 — Rule order and containment stay valid under any edit history.

The sheet model (`Model/Sheet.lean`) transcribes insertRule / add / deleteRule / encoding /
namespaces[...] / cssText= as coded (variant `fx = true` = /repo today, after the repairs recorded
in known_findings.json; `fx = false` = the in-order placement of the pinned snapshot).
`Valid` is the statement's ordering condition.  The proof first needed the hypothesis that an in-order
insertion carries no index (`OpWF`); running the real code at the excluded point showed a defect
(`insertRule('@namespace …', 0, inOrder=True)` in front of an @import), repaired in /repo (df1e9ff): the
theorems now hold for every operation, `snapshot_inorder_index` keeps the old behaviour as a witness.
-/
import CssVerif.Proofs.Sheet
import CssVerif.Proofs.SheetReparse
namespace CssVerif.C07
open CssVerif CssVerif.Sheet

theorem valid_init : Valid [] := valid_nil

/-- every operation keeps the rule list valid, whether it succeeds or is rejected -/
theorem valid_step (s : Sheet) (hv : Valid s) (op : Op) : Valid (step true s op).1 :=
  step_valid s hv op

/-- a rejected call leaves the list unchanged -/
theorem reject_unchanged (s : Sheet) (op : Op) (e : Err) (h : (step true s op).2 = .raised e) :
    (step true s op).1 = s := step_reject true s op e h

/-- every sheet reachable from the empty sheet by any finite history is valid -/
theorem reachable_valid (ops : List Op) :
    Valid (ops.foldl (fun s op => (step true s op).1) []) := Sheet.reachable_valid ops

/-- whatever text is assigned or parsed, the parse-time ordering machine only ever builds valid lists -/
theorem parse_valid (rs : List Rule) : Valid (parseSheet true rs) := parseSheet_valid rs

/-- **re-parse** (partial: sheets without @namespace and @variables rules — the namespace clean-up and
the legacy @variables level are not covered by this theorem; they are covered by the re-parse
oracle of harness/props/c07.py): a valid list goes through the parser's ordering machine unchanged -/
theorem reparse_same_partial (s : Sheet) (hv : Valid s) (hp : plain s) : parseSheet true s = s :=
  (reparse_same_plain s hv hp).1

/-- corollary: every reachable plain sheet re-parses to itself -/
theorem reachable_reparse (ops : List Op)
    (hp : plain (ops.foldl (fun s op => (step true s op).1) [])) :
    parseSheet true (ops.foldl (fun s op => (step true s op).1) []) =
      ops.foldl (fun s op => (step true s op).1) [] :=
  reparse_same_partial _ (reachable_valid ops) hp

/-! ### containers: @media / @page only ever hold kinds they allow -/

theorem container_insert_allowed (forbid kids : List Kind) (k : Kind) (i : Option Nat)
    (h : ∀ x ∈ kids, x ∉ forbid) : ∀ x ∈ (containerInsert forbid kids k i).1, x ∉ forbid := by
  unfold containerInsert
  simp only
  split
  · exact h
  · split
    · exact h
    · rename_i _ hk
      intro x hx
      rcases List.mem_append.mp hx with h1 | h1
      · exact h x (List.mem_of_mem_take h1)
      · rcases List.mem_cons.mp h1 with rfl | h2
        · simpa using hk
        · exact h x (List.mem_of_mem_drop h2)

theorem container_delete_allowed (forbid kids : List Kind) (i : Int)
    (h : ∀ x ∈ kids, x ∉ forbid) : ∀ x ∈ (containerDelete kids i).1, x ∉ forbid := by
  unfold containerDelete
  split
  · exact h
  · intro x hx
    exact h x ((List.eraseIdx_sublist _ _).subset hx)

theorem container_reject_unchanged (forbid kids : List Kind) (k : Kind) (i : Option Nat) (e : Err)
    (h : (containerInsert forbid kids k i).2 = .raised e) : (containerInsert forbid kids k i).1 = kids := by
  unfold containerInsert at h ⊢
  simp only at h ⊢
  split
  · rfl
  · split
    · rfl
    · rename_i h1 h2
      have h2' : ¬ k ∈ forbid := by simpa using h2
      simp [h1, h2'] at h

/-! ### the defect of the pinned snapshot, as a kernel-checked witness on the old placement -/

/-- comment, @import, then `add('@namespace …')` with the snapshot's placement: not valid -/
theorem snapshot_counterexample :
    ¬ Valid (step false [⟨.comment, 0, 0, []⟩, ⟨.import, 0, 0, []⟩]
      (.insert ⟨.namespace, 1, 1, []⟩ none true)).1 := by decide

/-- an in-order insertion with an explicit index, before repair df1e9ff: the @namespace rule lands in
front of the @import -/
theorem snapshot_inorder_index :
    ¬ Valid (step false [⟨.import, 0, 0, []⟩] (.insert ⟨.namespace, 1, 1, []⟩ (some 0) true)).1 ∧
    Valid (step true [⟨.import, 0, 0, []⟩] (.insert ⟨.namespace, 1, 1, []⟩ (some 0) true)).1 := by decide

/-- the same history with the repaired placement -/
example : (step true [⟨.comment, 0, 0, []⟩, ⟨.import, 0, 0, []⟩]
      (.insert ⟨.namespace, 1, 1, []⟩ none true)).1.map (·.kind) = [.comment, .import, .namespace] := by decide

/-! non-vacuity: a non-trivial reachable valid sheet -/
example : Valid [⟨.charset, 1, 0, []⟩, ⟨.comment, 0, 0, []⟩, ⟨.import, 0, 0, []⟩, ⟨.namespace, 1, 1, []⟩,
    ⟨.style, 0, 0, [1]⟩, ⟨.unknown, 0, 0, []⟩, ⟨.media, 0, 0, []⟩] := by decide

/-! ### re-parse of sheets with @namespace (and @variables) rules

`NsDistinct s`: no two @namespace rules of `s` have the same prefix and no two have the same URI.  It is the
state `_cleanNamespaces` establishes: it holds for the empty sheet, after every operation (whatever the
operation, accepted or refused, and without assuming `Valid`) and after every parse; on such a sheet
every @namespace rule is effective and `_cleanNamespaces` does nothing.  A valid `NsDistinct` list goes through
the parse-time ordering machine unchanged — provided its @variables rules stand where the parser takes them
(`VarOrd`: no @media/@page/style/@font-face rule in front of an @variables rule, no @import/@namespace behind
it).  `Valid` says nothing about @variables, and `VarOrd` is *not* an invariant of the editing operations
(`variables_reachable_counterexample`), so the corollary for reachable sheets keeps it as a hypothesis on the
final sheet; it holds in particular for histories that never bring in an @variables rule. -/

theorem nsdistinct_init : NsDistinct [] := nsdistinct_nil

/-- every operation (all six, accepted or refused) keeps the @namespace rules clean -/
theorem nsdistinct_step (s : Sheet) (hc : NsDistinct s) (op : Op) : NsDistinct (step true s op).1 :=
  step_nsdistinct s hc op

/-- every sheet reachable from the empty sheet by any finite history is clean -/
theorem reachable_nsdistinct (ops : List Op) :
    NsDistinct (ops.foldl (fun s op => (step true s op).1) []) := reachable_nsdistinct' ops

/-- whatever text is parsed or assigned, the resulting rule list is clean -/
theorem parse_nsdistinct (rs : List Rule) : NsDistinct (parseSheet true rs) := parseSheet_nsdistinct rs

/-- on a clean sheet every @namespace rule is effective and `_cleanNamespaces` changes nothing -/
theorem nsdistinct_effective_all (s : Sheet) (hc : NsDistinct s) :
    (∀ r ∈ s, r.kind = .namespace → dictGet (view s) r.p = some r.u) ∧ cleanNamespaces s = (s, none) :=
  ⟨fun _ hr hk => RV.dictGet_of_mem_rp _ _ _ (RV.view_ok_rp s).1 (nsdistinct_effective hc hr hk), cleanNamespaces_fix hc⟩

/-- **re-parse**: a valid, clean list whose @variables rules are in parser order goes through the parser's
ordering machine unchanged -/
theorem reparse_same (s : Sheet) (hv : Valid s) (hc : NsDistinct s) (ho : VarOrd s) : parseSheet true s = s :=
  (reparse_same_full s hv hc ho).1

/-- … and no statement is refused (so `cssText = …` with a raising log accepts it too) -/
theorem reparse_nothing_refused (s : Sheet) (hv : Valid s) (hc : NsDistinct s) (ho : VarOrd s) (s0 : Sheet) :
    assignSheet true s0 s = (s, .none) := by
  have h := reparse_same_full s hv hc ho
  have h1 : parseSheet true s = s := h.1
  unfold assignSheet
  unfold parseSheet at h1
  simp only [h.2, if_true, h1]

/-- the form asked for: no @variables rule in the list -/
theorem reparse_same_novariables (s : Sheet) (hv : Valid s) (hc : NsDistinct s) (hn : noVariables s) :
    parseSheet true s = s := reparse_same s hv hc (varOrd_of_noVariables hn)

/-- `reparse_same_partial` is the special case without @namespace rules -/
example (s : Sheet) (hv : Valid s) (hp : plain s) : parseSheet true s = s :=
  reparse_same_novariables s hv
    (by
      have : nsRules s = [] := by
        apply List.filter_eq_nil_iff.mpr
        intro x hx
        simpa [isKind] using (hp x hx).1
      unfold NsDistinct; rw [this]; exact List.Pairwise.nil)
    (fun x hx => (hp x hx).2)

/-- the hypothesis on @variables is needed: `Valid` and `NsDistinct` do not constrain them, the parser does
(an @variables rule behind a style rule is refused; behind an @variables rule @namespace and @import are) -/
theorem reparse_variables_counterexamples :
    (Valid [⟨.style, 0, 0, []⟩, ⟨.variables, 0, 0, []⟩] ∧ NsDistinct [⟨.style, 0, 0, []⟩, ⟨.variables, 0, 0, []⟩] ∧
      parseSheet true [⟨.style, 0, 0, []⟩, ⟨.variables, 0, 0, []⟩] = [⟨.style, 0, 0, []⟩]) ∧
    (Valid [⟨.variables, 0, 0, []⟩, ⟨.namespace, 1, 1, []⟩] ∧
      NsDistinct [⟨.variables, 0, 0, []⟩, ⟨.namespace, 1, 1, []⟩] ∧
      parseSheet true [⟨.variables, 0, 0, []⟩, ⟨.namespace, 1, 1, []⟩] = [⟨.variables, 0, 0, []⟩]) ∧
    (Valid [⟨.variables, 0, 0, []⟩, ⟨.import, 0, 0, []⟩] ∧
      parseSheet true [⟨.variables, 0, 0, []⟩, ⟨.import, 0, 0, []⟩] = [⟨.variables, 0, 0, []⟩]) := by decide

/-- the hypothesis `NsDistinct` is needed: a repeated prefix is merged, a repeated URI is cleaned away -/
theorem reparse_nsdistinct_counterexamples :
    (Valid [⟨.namespace, 1, 1, []⟩, ⟨.namespace, 1, 2, []⟩] ∧
      parseSheet true [⟨.namespace, 1, 1, []⟩, ⟨.namespace, 1, 2, []⟩] = [⟨.namespace, 1, 2, []⟩]) ∧
    (Valid [⟨.namespace, 1, 1, []⟩, ⟨.namespace, 2, 1, []⟩] ∧
      parseSheet true [⟨.namespace, 1, 1, []⟩, ⟨.namespace, 2, 1, []⟩] = [⟨.namespace, 2, 1, []⟩]) ∧
    (Valid [⟨.namespace, 1, 1, []⟩, ⟨.namespace, 1, 1, []⟩] ∧
      parseSheet true [⟨.namespace, 1, 1, []⟩, ⟨.namespace, 1, 1, []⟩] = [⟨.namespace, 1, 1, []⟩]) := by decide

/-- **every reachable sheet re-parses to itself** when its @variables rules (if any) are in parser order -/
theorem reachable_reparse_all (ops : List Op)
    (ho : VarOrd (ops.foldl (fun s op => (step true s op).1) [])) :
    parseSheet true (ops.foldl (fun s op => (step true s op).1) []) =
      ops.foldl (fun s op => (step true s op).1) [] :=
  reparse_same _ (reachable_valid ops) (reachable_nsdistinct ops) ho

/-- in particular for every history that never inserts or assigns an @variables rule -/
theorem reachable_reparse_novariables (ops : List Op) (ho : ∀ op ∈ ops, OpNoVar op) :
    parseSheet true (ops.foldl (fun s op => (step true s op).1) []) =
      ops.foldl (fun s op => (step true s op).1) [] :=
  reachable_reparse_all ops (varOrd_of_noVariables (reachable_noVariables ops ho))

/-- without that hypothesis the corollary is false of the modelled code: `add('@variables …')` and then
`insertRule(<style rule>, 0)` is accepted (the non-@variables branch of insertRule only looks for
@charset/@import/@namespace behind the index), the list is valid and clean, and its re-parse loses the
@variables rule (the parser refuses @variables after a style rule) -/
theorem variables_reachable_counterexample :
    [Op.insert ⟨.variables, 0, 0, []⟩ none true, Op.insert ⟨.style, 0, 0, []⟩ (some 0) false].foldl
        (fun s op => (step true s op).1) [] = [⟨.style, 0, 0, []⟩, ⟨.variables, 0, 0, []⟩] ∧
    parseSheet true [⟨.style, 0, 0, []⟩, ⟨.variables, 0, 0, []⟩] ≠ [⟨.style, 0, 0, []⟩, ⟨.variables, 0, 0, []⟩] := by
  decide

/-! non-vacuity: a sheet with a charset, a comment, an import, two namespace rules, an @variables rule,
style rules using both URIs; it is reachable, satisfies the hypotheses and re-parses to itself -/
def demoSheet : Sheet := [⟨.charset, 7, 0, []⟩, ⟨.comment, 0, 0, []⟩, ⟨.import, 0, 0, []⟩,
  ⟨.namespace, 0, 1, []⟩, ⟨.namespace, 2, 3, []⟩, ⟨.variables, 0, 0, []⟩, ⟨.style, 0, 0, [1, 3]⟩,
  ⟨.unknown, 0, 0, []⟩, ⟨.media, 0, 0, [3]⟩, ⟨.style, 0, 0, []⟩]

example : Valid demoSheet ∧ NsDistinct demoSheet ∧ VarOrd demoSheet := by decide
example : parseSheet true demoSheet = demoSheet := by decide
example : view demoSheet = [(2, 3), (0, 1)] := by decide

/-- a history with all six operations that ends in a sheet with two namespace rules, an import, a charset and
style rules using the URIs: `cssText` assignments (the first with two prefixes for one URI), `add`,
`namespaces[p] = u`, an `insertRule` at an index of a second prefix for a declared URI (cleaned away again),
a refused `del namespaces[p]` (URI in use), a `deleteRule`, an `encoding` assignment -/
def demoOps : List Op := [
  .assign [⟨.namespace, 5, 5, []⟩, ⟨.namespace, 6, 5, []⟩, ⟨.style, 0, 0, [5]⟩],
  .assign [⟨.import, 0, 0, []⟩, ⟨.style, 0, 0, []⟩],
  .insert ⟨.namespace, 0, 1, []⟩ none true,
  .nsSet 2 3,
  .insert ⟨.namespace, 4, 1, []⟩ (some 1) false,
  .insert ⟨.style, 0, 0, [1, 3]⟩ none true,
  .nsDel 2,
  .nsSet 9 9,
  .delete 3,
  .encoding (some 7),
  .insert ⟨.media, 0, 0, [3]⟩ none false]

example : demoOps.foldl (fun s op => (step true s op).1) [] =
    [⟨.charset, 7, 0, []⟩, ⟨.import, 0, 0, []⟩, ⟨.namespace, 0, 1, []⟩, ⟨.namespace, 2, 3, []⟩,
     ⟨.style, 0, 0, []⟩, ⟨.style, 0, 0, [1, 3]⟩, ⟨.media, 0, 0, [3]⟩] := by decide
example : ∀ op ∈ demoOps, OpNoVar op := by
  intro op hop
  simp only [demoOps, List.mem_cons, List.not_mem_nil, or_false] at hop
  rcases hop with h | h | h | h | h | h | h | h | h | h | h <;> subst h <;> simp [OpNoVar]

end CssVerif.C07
