/-
C06 — Results do not depend on what was parsed or called before.

Two obligations are decided on tables **regenerated from the Python AST of /repo on every run**
(`harness/gen_globals.py` → `Gen/Globals.lean`):

* `no_other_state`: the process-wide mutable cells that library code changes (module-level names rebound or
  changed in place, attributes of css_parser.log / css_parser.ser stored from library functions, class-level
  containers changed through instances, mutable default arguments) are exactly the documented ones.  A new
  one — a module-level cache, a class-level list, a buffer like the pushed-back token list — changes the
  table and flips the `decide`.
* `temporaries_clean`: every library function that changes a process-wide setting for the duration of a call
  (the parse entry points: log.raiseExceptions; csscombine: the global serializer) leaves it exactly as it was
  however the call ends — normal return or any exception at any point.  The programs are in the IR of C19;
  `clean_however_it_ends` is its soundness theorem for all three outcome kinds.

Tie / search: sequences of public-API calls (valid, malformed, raising) followed by canary operations whose
results are compared with those of a fresh process, and after every call the observable settings
(log.raiseExceptions, the global serializer and its preferences, the pushed-back token list, the tokenizer
productions) are compared with what the caller last set (harness/props/c06.py).
-/
import CssVerif.Proofs.SetterIR
import CssVerif.Proofs.SaveStack
import CssVerif.Gen.Globals
namespace CssVerif.C06
open CssVerif.SetterIR

/-- the documented process-wide cells:
* the ErrorHandler singleton (created once);
* log.raiseExceptions (switched for the duration of a parse and put back — see `temporaries_clean`);
* the global serializer: replaced on the caller's request (setSerializer) and for the duration of csscombine;
* the pushed-back token list of the production parser (empty between top-level calls: checked dynamically);
* the tokenizer cache (pure function of the productions it is keyed by). -/
def knownCells : List (String × String) := [
  ("class", "css_parser.errorhandler.ErrorHandler.instance"),
  ("global-object", "css_parser.log.raiseExceptions"),
  ("global-object", "css_parser.ser"),
  ("global-object", "css_parser.ser.prefs.resolveVariables"),
  ("module", "css_parser.prodparser.savedTokens"),
  ("module", "css_parser.ser"),
  ("module", "css_parser.tokenize2._TOKENIZER_CACHE")]

theorem no_other_state : Gen.mutatedCells = knownCells := by decide

theorem temporaries_clean : ∀ p ∈ Gen.temporaries, Clean p.2 := by decide +kernel

theorem clean_however_it_ends (p : IR) (hp : Clean p) (σ σ' : State) (r : Res) (h : Exec σ p σ r σ') : σ' = σ :=
  clean_unchanged p hp σ σ' r h

/-- so: after parseString / parseStyle / parseFile / parseUrl / csscombine return or raise, the settings they
touch are what the caller had set -/
theorem settings_restored (name : String) (p : IR) (hmem : (name, p) ∈ Gen.temporaries) (σ σ' : State) (r : Res)
    (h : Exec σ p σ r σ') : σ' = σ := clean_however_it_ends p (temporaries_clean (name, p) hmem) σ σ' r h

/-- the shapes of the pinned snapshot (set, work, put back — no finally; and: put back a value saved when the
object was made rather than at entry, which the translator does not recognise as a restore) are not clean -/
theorem snapshot_shapes :
    ¬ Clean (.seq (.store 0) (.seq .raise_ (.restore [0]))) ∧ ¬ Clean (.seq (.store 0) (.seq .raise_ (.store 0))) ∧
    Clean (.seq (.store 0) (.tryFinally .raise_ (.restore [0]))) := by decide

end CssVerif.C06

/-!
### Re-entrant parses: the caller's value is kept per call (Model/SaveStack.lean)

`temporaries_clean` looks at one call: set, work, put back in a `finally`.  What is put back is what the parser
remembered at entry, and a parse can be re-entered — the fetcher called for an @import may call
parseString/parseStyle of the very same parser object, or of other parser objects, to any depth.  The theorems
below are about ALL well-nested histories of `enter p` / `exit p` events (any length, any depth, any number of
parser objects, any parse-time values `pv`), from any state of the flag and of the parsers' memories.

Exceptions need no separate treatment: the exit code stands in a `finally`, so `exit p` has happened by the time
control is back at the caller whether the body returned or raised; a call that raised and a call that returned
are the same history.

Well-nestedness is the decidable `WellNested` (checker `openAfter`: every exit closes the innermost open call,
which must be of the same parser; calls of different parsers, or of the same parser, may nest in each other;
`set v` — the caller assigns the flag — at top level only), equivalently the grammar `History` / `Calls`
(`nested_checker_iff_grammar`).
-/
namespace CssVerif.C06
open CssVerif.SaveStack

/-- the checker and the grammar describe the same histories -/
theorem nested_checker_iff_grammar (h : List Ev) :
    (WellNested h ↔ History h) ∧ (Calls h ↔ WellNested h ∧ ∀ v, Ev.set v ∉ h) :=
  ⟨wellNested_iff_history h,
   fun hc => ⟨history_wellNested (calls_history hc), calls_no_set hc⟩,
   fun hw => history_calls ((wellNested_iff_history h).1 hw.1) hw.2⟩

/-- (a) Stack discipline: a complete well-nested sequence of calls, run from ANY state, leaves the flag and every
parser's memory exactly as they were.  (Because the start state is arbitrary the statement composes: it is its
own induction hypothesis for the calls nested inside a call and for the calls that follow it.) -/
theorem stack_restores (pv : Nat → Bool) (s : StackState) (h : List Ev) (hc : Calls h) :
    (runStack pv s h).flag = s.flag ∧ (runStack pv s h).mem = s.mem := by
  rw [calls_run pv hc s]; exact ⟨rfl, rfl⟩

/-- (a), with the caller's assignments between the calls: after the history the flag is exactly what the caller
last set (the initial value if the caller set nothing), and every parser's memory is as it was. -/
theorem stack_caller_last_set (pv : Nat → Bool) (s : StackState) (h : List Ev) (hw : WellNested h) :
    (runStack pv s h).flag = lastSet s.flag h ∧ (runStack pv s h).mem = s.mem := by
  have := stack_master pv s h [] s.flag [] hw
  rw [opened_nil_self] at this
  rw [this]; exact ⟨rfl, rfl⟩

/-- the whole state at every moment of a well-nested history: if the calls `stk` (innermost first) are open after
`h`, the state is the one reached from the start state, with the flag the caller last set, by entering `stk` -/
theorem stack_state_at (pv : Nat → Bool) (s : StackState) (h : List Ev) (stk : List Nat) (ho : OpenAfter h stk) :
    runStack pv s h = opened pv s (lastSet s.flag h) stk := by
  have := stack_master pv s h [] s.flag stk ho
  rwa [opened_nil_self] at this

/-- (b) during a call of p — after `enter p` and any complete calls nested in it, whatever happened before — the
flag is p's parse-time value -/
theorem stack_inside (pv : Nat → Bool) (s : StackState) (pre inner : List Ev) (p : Nat) (hc : Calls inner) :
    (runStack pv s (pre ++ .enter p :: inner)).flag = pv p := by
  rw [runStack_append]
  show (runStack pv (stepStack pv _ (.enter p)) inner).flag = pv p
  rw [calls_run pv hc]; rfl

/-- (b), at every moment of a well-nested history: the flag is the parse-time value of the innermost active
parser; what the caller last set if no call is active -/
theorem stack_flag_at (pv : Nat → Bool) (s : StackState) (h : List Ev) (stk : List Nat) (ho : OpenAfter h stk) :
    (runStack pv s h).flag = match stk with
      | [] => lastSet s.flag h
      | p :: _ => pv p := by
  rw [stack_state_at pv s h stk ho, opened_flag]
  cases stk <;> rfl

/-- (c) the Slot discipline (one remembered value per parser, the code before the repair) is wrong under
re-entry: the caller has set True, the parser's parse-time value is False, the fetcher parses with the same
parser; afterwards the flag is False.  The Stack discipline gives True on the same history. -/
theorem slot_wrong :
    WellNested [.enter 0, .enter 0, .exit 0, .exit 0] ∧
    (runSlot (fun _ => false) ⟨true, fun _ => true⟩ [.enter 0, .enter 0, .exit 0, .exit 0]).flag = false ∧
    (runStack (fun _ => false) ⟨true, fun _ => []⟩ [.enter 0, .enter 0, .exit 0, .exit 0]).flag = true := by
  decide

/-- … for every parser, state and parse-time value: after a re-entered call the Slot discipline leaves the
parse-time value in the flag, whatever the caller had set -/
theorem slot_wrong_always (pv : Nat → Bool) (s : SlotState) (p : Nat) :
    (runSlot pv s [.enter p, .enter p, .exit p, .exit p]).flag = pv p := by
  simp [runSlot, stepSlot]

/-- (c) what the old code got right: over a well-nested history in which no parser is entered while it is active
(calls of DIFFERENT parsers may nest in each other to any depth) the Slot discipline, too, leaves the flag at what
the caller last set — whatever the slots held at the start.  `slot_wrong` shows that the no-re-entry hypothesis
cannot be dropped. -/
theorem slot_restores_without_reentry (pv : Nat → Bool) (s : SlotState) (h : List Ev)
    (hw : WellNestedNoReentry h) : (runSlot pv s h).flag = lastSet s.flag h :=
  (slot_master pv h [] s.flag [] s hw rfl trivial).1

/-- … and during the calls of such a history the flag is the innermost active parser's parse-time value -/
theorem slot_flag_at_without_reentry (pv : Nat → Bool) (s : SlotState) (h : List Ev) (stk : List Nat)
    (ho : openAfter true [] h = some stk) :
    (runSlot pv s h).flag = match stk with
      | [] => lastSet s.flag h
      | p :: _ => pv p := by
  rw [(slot_master pv h [] s.flag stk s ho rfl trivial).1]
  cases stk <;> rfl

/-- no re-entry is a restriction of well-nestedness -/
theorem noReentry_wellNested (h : List Ev) (hw : WellNestedNoReentry h) : WellNested h :=
  strict_open h [] [] hw

/-! non-vacuity and necessity of the hypotheses -/

/-- depth 4, two parsers, re-entrant (0 in 1 in 0, then 1 again inside), with assignments by the caller between
the calls -/
example : WellNested [.set true, .enter 0, .enter 1, .enter 0, .exit 0, .enter 0, .enter 1, .exit 1, .exit 0,
    .exit 1, .exit 0, .set false, .enter 1, .exit 1] := by decide
example : Calls [.enter 0, .enter 1, .enter 0, .exit 0, .enter 1, .exit 1, .exit 1, .exit 0, .enter 1, .exit 1] :=
  (nested_checker_iff_grammar _).2.2 (by decide)
/-- a moment inside: 0, 1, 0 open -/
example : OpenAfter [.set true, .enter 0, .enter 1, .enter 0, .exit 0, .enter 0] [0, 1, 0] := by decide
/-- depth 3 without re-entry (needs three parsers: with two, depth 3 means a re-entry) -/
example : WellNestedNoReentry [.set true, .enter 0, .enter 1, .enter 2, .exit 2, .exit 1, .enter 2, .exit 2,
    .exit 0, .set false, .enter 2, .enter 0, .exit 0, .exit 2] := by decide
example : ¬ WellNestedNoReentry [.enter 0, .enter 1, .enter 0, .exit 0, .exit 1, .exit 0] := by decide
/-- completeness is needed: an open call leaves the parse-time value … -/
example : (runStack (fun _ => false) ⟨true, fun _ => []⟩ [.enter 0]).flag = false := by decide
/-- … and nesting is needed: exits in the wrong order hand each parser the other's value -/
example : (runStack (fun p => p == 1) ⟨true, fun _ => []⟩ [.enter 0, .enter 1, .exit 0, .exit 1]).flag = false ∧
    ¬ WellNested [.enter 0, .enter 1, .exit 0, .exit 1] := by decide

end CssVerif.C06
