/-
C06 — Results do not depend on what was parsed or called before.

Two obligations are decided on tables **regenerated from the Python AST of /repo on every run**
(`harness/gen_globals.py` → `Gen/Globals.lean`):

* `no_other_state`: the process-wide mutable cells that library code changes (module-level names rebound or
  changed in place, attributes of css_parser.log / css_parser.ser stored from library functions, class-level
  containers changed through instances, mutable default arguments) are exactly the documented ones.  A new
  one — a module-level cache, a class-level list, a buffer like the pushed-back token list — changes the
  table and flips the `decide`.
* `temporaries_clean`: every library function that changes a process-wide setting for the duration of a call
  (the parse entry points: log.raiseExceptions; csscombine: the global serializer) leaves it exactly as it was
  however the call ends — normal return or any exception at any point.  The programs are in the IR of C19;
  `clean_however_it_ends` is its soundness theorem for all three outcome kinds.

Tie / search: sequences of public-API calls (valid, malformed, raising) followed by canary operations whose
results are compared with those of a fresh process, and after every call the observable settings
(log.raiseExceptions, the global serializer and its preferences, the pushed-back token list, the tokenizer
productions) are compared with what the caller last set (harness/props/c06.py).
-/
import CssVerif.Proofs.SetterIR
import CssVerif.Gen.Globals
namespace CssVerif.C06
open CssVerif.SetterIR

/-- the documented process-wide cells:
* the ErrorHandler singleton (created once);
* log.raiseExceptions (switched for the duration of a parse and put back — see `temporaries_clean`);
* the global serializer: replaced on the caller's request (setSerializer) and for the duration of csscombine;
* the pushed-back token list of the production parser (empty between top-level calls: checked dynamically);
* the tokenizer cache (pure function of the productions it is keyed by). -/
def knownCells : List (String × String) := [
  ("class", "css_parser.errorhandler.ErrorHandler.instance"),
  ("global-object", "css_parser.log.raiseExceptions"),
  ("global-object", "css_parser.ser"),
  ("global-object", "css_parser.ser.prefs.resolveVariables"),
  ("module", "css_parser.prodparser.savedTokens"),
  ("module", "css_parser.ser"),
  ("module", "css_parser.tokenize2._TOKENIZER_CACHE")]

theorem no_other_state : Gen.mutatedCells = knownCells := by decide

theorem temporaries_clean : ∀ p ∈ Gen.temporaries, Clean p.2 := by decide +kernel

theorem clean_however_it_ends (p : IR) (hp : Clean p) (σ σ' : State) (r : Res) (h : Exec σ p σ r σ') : σ' = σ :=
  clean_unchanged p hp σ σ' r h

/-- so: after parseString / parseStyle / parseFile / parseUrl / csscombine return or raise, the settings they
touch are what the caller had set -/
theorem settings_restored (name : String) (p : IR) (hmem : (name, p) ∈ Gen.temporaries) (σ σ' : State) (r : Res)
    (h : Exec σ p σ r σ') : σ' = σ := clean_however_it_ends p (temporaries_clean (name, p) hmem) σ σ' r h

/-- the shapes of the pinned snapshot (set, work, put back — no finally; and: put back a value saved when the
object was made rather than at entry, which the translator does not recognise as a restore) are not clean -/
theorem snapshot_shapes :
    ¬ Clean (.seq (.store 0) (.seq .raise_ (.restore [0]))) ∧ ¬ Clean (.seq (.store 0) (.seq .raise_ (.store 0))) ∧
    Clean (.seq (.store 0) (.tryFinally .raise_ (.restore [0]))) := by decide

end CssVerif.C06
