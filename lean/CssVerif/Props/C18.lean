/-
C18 — Parent/owner links always mirror containment.

`Model/Links.lean` keeps, per rule object, the raw link fields of css/cssrule.py (`_parentRule`,
`_parentStyleSheet`) and the child lists, transcribes the link updates of insertRule / deleteRule of the sheet
and of container rules, and the derived `parentStyleSheet` getter.

Proved, for containment chains of any depth: along a chain whose link fields are as the operations set them
the getter finds the sheet (`sheet_found`); inserting a rule into a container hanging on such a chain links the
rule below it and keeps every chain that does not go through the moved rule (`insert_links`, `insert_keeps`);
a rule removed with deleteRule reports no parent (`deleted_detached`).  The getter of the pinned snapshot,
which looked one level up only, is kept as a kernel-checked counterexample.

Tie: `tree` correspondence (construction / edit histories with nested containers; after every operation the
parentRule and parentStyleSheet of every object are compared).  The links of selector lists, selectors,
media lists, declaration blocks, properties, values and imported sheets are decided by walking the real
object graph after every operation of random histories (harness/props/c18.py).
-/
import CssVerif.Proofs.Links
namespace CssVerif.C18
open CssVerif.Links

theorem sheet_found (st : St) (l : List Nat) (h : Chain st l) (x : Nat) (hx : l.getLast? = some x)
    (fuel : Nat) (hf : l.length ≤ fuel) : parentStyleSheet true st fuel x = some 0 :=
  getter_chain st l h x hx fuel hf

theorem insert_links (st : St) (l : List Nat) (c i r : Nat) (h : Chain st (l ++ [c])) (hr : r ∉ l ++ [c]) :
    Chain (insertIn st c i r) (l ++ [c, r]) ∧
    ∀ fuel, l.length + 2 ≤ fuel → parentStyleSheet true (insertIn st c i r) fuel r = some 0 :=
  ⟨insertIn_chain st l c i r h hr, fun fuel hf => insertIn_getter st l c i r h hr fuel hf⟩

theorem insert_top_links (st : St) (i r : Nat) (hpr : (get st r).pr = none) : Chain (insertTop st i r) [r] :=
  insertTop_chain st i r hpr

theorem insert_keeps (st : St) (l : List Nat) (c i r : Nat) (h : Chain st l) (hr : r ∉ l) (hrc : r ≠ c) :
    Chain (insertIn st c i r) l := insertIn_keeps st l c i r h hr hrc

theorem deleted_detached (st : St) (c i r : Nat) (hi : (get st c).kids[i]? = some r) (hrc : r ≠ c)
    (hraw : (get st r).raw = none) (fuel : Nat) :
    parentStyleSheet true (deleteIn st c i) (fuel + 1) r = none ∧ (get (deleteIn st c i) r).pr = none :=
  deleteIn_detached st c i r hi hrc hraw fuel

theorem deleted_top_detached (st : St) (i r : Nat) (hi : st.top[i]? = some r) (hp : (get st r).pr = none)
    (fuel : Nat) : parentStyleSheet true (deleteTop st i) (fuel + 1) r = none ∧ (get (deleteTop st i) r).pr = none :=
  deleteTop_detached st i r hi hp fuel

/-- the pinned snapshot: a rule two @media levels deep reported no sheet -/
theorem snapshot_getter :
    let st : St := step (step (step {} (.insTop 0 1)) (.insIn 1 0 2)) (.insIn 2 0 3)
    parentStyleSheet false st 5 3 = none ∧ parentStyleSheet true st 5 3 = some 0 ∧
    parentStyleSheet false st 5 2 = some 0 := snapshot_counterexample

/-- non-vacuity: the chain sheet → 1 → 2 → 3 built by the operations -/
example : Chain (step (step (step {} (.insTop 0 1)) (.insIn 1 0 2)) (.insIn 2 0 3)) ([1] ++ [2, 3]) :=
  insertIn_chain _ [1] 2 0 3
    (insertIn_chain _ [] 1 0 2 (insertTop_chain {} 0 1 rfl) (by decide)) (by decide)

end CssVerif.C18
