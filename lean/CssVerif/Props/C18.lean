/-
C18 — Parent/owner links always mirror containment.

`Model/Links.lean` keeps, per rule object, the raw link fields of css/cssrule.py (`_parentRule`,
`_parentStyleSheet`) and the child lists, transcribes the link updates of insertRule / deleteRule of the sheet
and of container rules, and the derived `parentStyleSheet` getter.

Proved, for containment chains of any depth: along a chain whose link fields are as the operations set them
the getter finds the sheet (`sheet_found`); inserting a rule into a container hanging on such a chain links the
rule below it and keeps every chain that does not go through the moved rule (`insert_links`, `insert_keeps`);
a rule removed with deleteRule reports no parent (`deleted_detached`).  The getter of the pinned snapshot,
which looked one level up only, is kept as a kernel-checked counterexample.

Tie: `tree` correspondence (construction / edit histories with nested containers; after every operation the
parentRule and parentStyleSheet of every object are compared).  The links of selector lists, selectors,
media lists, declaration blocks, properties, values and imported sheets are decided by walking the real
object graph after every operation of random histories (harness/props/c18.py).
-/
import CssVerif.Proofs.Links
import CssVerif.Proofs.Owners
namespace CssVerif.C18
open CssVerif.Links

theorem sheet_found (st : St) (l : List Nat) (h : Chain st l) (x : Nat) (hx : l.getLast? = some x)
    (fuel : Nat) (hf : l.length ≤ fuel) : parentStyleSheet true st fuel x = some 0 :=
  getter_chain st l h x hx fuel hf

theorem insert_links (st : St) (l : List Nat) (c i r : Nat) (h : Chain st (l ++ [c])) (hr : r ∉ l ++ [c]) :
    Chain (insertIn st c i r) (l ++ [c, r]) ∧
    ∀ fuel, l.length + 2 ≤ fuel → parentStyleSheet true (insertIn st c i r) fuel r = some 0 :=
  ⟨insertIn_chain st l c i r h hr, fun fuel hf => insertIn_getter st l c i r h hr fuel hf⟩

theorem insert_top_links (st : St) (i r : Nat) (hpr : (get st r).pr = none) : Chain (insertTop st i r) [r] :=
  insertTop_chain st i r hpr

theorem insert_keeps (st : St) (l : List Nat) (c i r : Nat) (h : Chain st l) (hr : r ∉ l) (hrc : r ≠ c) :
    Chain (insertIn st c i r) l := insertIn_keeps st l c i r h hr hrc

theorem deleted_detached (st : St) (c i r : Nat) (hi : (get st c).kids[i]? = some r) (hrc : r ≠ c)
    (hraw : (get st r).raw = none) (fuel : Nat) :
    parentStyleSheet true (deleteIn st c i) (fuel + 1) r = none ∧ (get (deleteIn st c i) r).pr = none :=
  deleteIn_detached st c i r hi hrc hraw fuel

theorem deleted_top_detached (st : St) (i r : Nat) (hi : st.top[i]? = some r) (hp : (get st r).pr = none)
    (fuel : Nat) : parentStyleSheet true (deleteTop st i) (fuel + 1) r = none ∧ (get (deleteTop st i) r).pr = none :=
  deleteTop_detached st i r hi hp fuel

/-- the pinned snapshot: a rule two @media levels deep reported no sheet -/
theorem snapshot_getter :
    let st : St := step (step (step {} (.insTop 0 1)) (.insIn 1 0 2)) (.insIn 2 0 3)
    parentStyleSheet false st 5 3 = none ∧ parentStyleSheet true st 5 3 = some 0 ∧
    parentStyleSheet false st 5 2 = some 0 := snapshot_counterexample

/-- non-vacuity: the chain sheet → 1 → 2 → 3 built by the operations -/
example : Chain (step (step (step {} (.insTop 0 1)) (.insIn 1 0 2)) (.insIn 2 0 3)) ([1] ++ [2, 3]) :=
  insertIn_chain _ [1] 2 0 3
    (insertIn_chain _ [] 1 0 2 (insertTop_chain {} 0 1 rfl) (by decide)) (by decide)

/-! ## owner links of the sub-objects (Model/Owners.lean)

A second store keeps, for every rule, its declaration block, properties, property values, selector list,
selectors and media list, each with the raw link field the code keeps, and transcribes the text and object
assignments of css/cssstylerule.py, cssstyledeclaration.py, property.py, selectorlist.py, cssmediarule.py
(and the identical `_setStyle` of @page, margin and @font-face rules).  `Consistent st r` is the executable
check `consistent st r = true`: the block, every property, every value, the selector list, every selector and
the media list reached from rule `r` name the container they were reached through.

* `owners_init`: a freshly parsed rule is consistent.
* `owners_parent`: the check is the property as worded — every child of every object reachable from the rule
  names that object.
* `owners_step`: every operation keeps every consistent rule consistent (the rule operated on and all
  others).  TEXT assignments need no hypothesis.  Adopting an existing OBJECT writes only the object's link and
  the new owner's field, so it needs `Adopt st r c x`: no container reachable from `r` other than the adopting
  container `c` lists `x`, and (when `c` belongs to `r`) the children of `x` name `x`.
* `owners_alias`: without it the statement is false — `rule2.style = rule1.style` leaves rule1 listing a block
  whose `parentRule` is rule2 (the library does exactly this: the former owner is not told; the same for
  `setProperty(propertyOfAnotherBlock)`, `appendSelector(selectorOfAnotherList)`, `rule2.selectorList =
  rule1.selectorList`, `media2.media = media1.media`; kernel-checked instances below).
* `owners_reachable`, `owners_reachable_text`: any finite history.
-/
open CssVerif.Owners in
/-- a freshly parsed rule (any combination of selector list, declaration block, media list) is consistent -/
theorem owners_init (st : Owners.St) (sels decls : Option (List Nat)) (media : Bool) (hf : Fresh st) :
    Consistent (newRule st sels decls media).1 (newRule st sels decls media).2 := by
  have := newRule_spec st sels decls media hf
  rw [this.2.1]; exact this.2.2

open CssVerif.Owners in
/-- the empty store is fresh, and every operation keeps the id counter ahead of the allocated ids -/
theorem owners_fresh : Fresh {} ∧ ∀ (st : Owners.St) (op : Owners.Op), Fresh st → Fresh (Owners.step st op) :=
  ⟨fun _ _ => rfl, fun _ op hf => step_fresh hf op⟩

open CssVerif.Owners in
/-- the check is the property: every child of every object reachable from a consistent rule names it -/
theorem owners_parent (st : Owners.St) (r c x : Nat) (hc : Consistent st r) (h : c ∈ reach st 3 r)
    (hx : x ∈ kids (st.objs c)) : parent (st.objs x) = some c := parent_of_reach hc h hx

open CssVerif.Owners in
/-- every operation keeps every consistent rule consistent; object adoption under `Adopt` (see `Safe`) -/
theorem owners_step (st : Owners.St) (r : Nat) (op : Owners.Op) (hf : Fresh st) (hc : Consistent st r)
    (hs : Safe st r op) : Consistent (Owners.step st op) r := step_ok hf hc op hs

open CssVerif.Owners in
/-- any finite history, the adoption hypothesis holding at each adoption -/
theorem owners_reachable (st : Owners.St) (r : Nat) (ops : List Owners.Op) (hf : Fresh st)
    (hc : Consistent st r) (hs : SafeAll st r ops) : Consistent (run st ops) r := (run_ok r ops st hf hc hs).1

open CssVerif.Owners in
/-- any finite history of text assignments, removals and constructions: no hypothesis -/
theorem owners_reachable_text (st : Owners.St) (r : Nat) (ops : List Owners.Op) (hf : Fresh st)
    (hc : Consistent st r) (h : ∀ op ∈ ops, op.adopts = false) : Consistent (run st ops) r :=
  (run_ok r ops st hf hc (safeAll_of_not_adopts r ops h st)).1

open CssVerif.Owners in
/-- why `Adopt` is needed: rule `r0` takes the block `x` that rule `r` lists.  Afterwards BOTH rules list `x`,
`x` names `r0`, and `r` — which still reaches `x` — is inconsistent. -/
theorem owners_alias (st : Owners.St) (r r0 x y : Nat) (l m l0 m0 pr : Option Nat) (ps : List Nat) (hne : r ≠ r0)
    (hr : st.objs r = .rule (some x) l m) (hr0 : st.objs r0 = .rule (some y) l0 m0)
    (hx : st.objs x = .block pr ps) :
    (setStyleObj st r0 x).objs r = .rule (some x) l m ∧ (setStyleObj st r0 x).objs r0 = .rule (some x) l0 m0 ∧
    (setStyleObj st r0 x).objs x = .block (some r0) ps ∧ ¬ Consistent (setStyleObj st r0 x) r :=
  steal_breaks hne hr hr0 hx

namespace OwnersExamples
open CssVerif.Owners

/-- two parsed style rules: rule 0 (list 1, selectors 2 3, block 4, properties 5 7, values 6 8) and
rule 9 (list 10, selector 11, block 12, property 13, value 14) -/
def two : List Owners.Op := [.mkRule (some [10, 11]) (some [20, 21]) false, .mkRule (some [12]) (some [22]) false]
/-- two @media rules: rule 0 (media list 1), rule 2 (media list 3) -/
def twoMedia : List Owners.Op := [.mkRule none none true, .mkRule none none true]

example : consistent (run {} two) 0 = true ∧ consistent (run {} two) 9 = true := by decide

/-! the five adoptions, each taking an object that rule 0 still lists: rule 0 breaks, the adopter is fine -/
example : consistent (run {} (two ++ [.styleObj 9 4])) 0 = false ∧
    consistent (run {} (two ++ [.styleObj 9 4])) 9 = true := by decide
example : consistent (run {} (two ++ [.propObj 12 5])) 0 = false ∧
    consistent (run {} (two ++ [.propObj 12 5])) 9 = true := by decide
example : consistent (run {} (two ++ [.appendSelObj 10 2])) 0 = false ∧
    consistent (run {} (two ++ [.appendSelObj 10 2])) 9 = true := by decide
example : consistent (run {} (two ++ [.selListObj 9 1])) 0 = false ∧
    consistent (run {} (two ++ [.selListObj 9 1])) 9 = true := by decide
example : consistent (run {} (twoMedia ++ [.mediaObj 2 1])) 0 = false ∧
    consistent (run {} (twoMedia ++ [.mediaObj 2 1])) 2 = true := by decide
/-- … and what the old owner then reports: block 4 is still rule 0's style, its owner link says 9 -/
example : dump (run {} (two ++ [.styleObj 9 4])) 0 =
    [(0, none), (4, some 9), (5, some 4), (6, some 5), (7, some 4), (8, some 7), (1, some 0), (2, some 1), (3, some 1)] := by
  decide

/-- non-vacuity of `Adopt`: detached objects (24 block, 27 property, 29 selector, 30 selector list)
are adopted by rule 9 after text edits; the hypothesis holds at every step, for both rules -/
def hist : List Owners.Op := two ++
  [.propText 4 23, .removeProp 4 20, .appendSelText 1 10, .blockText 12 [24, 25], .selectorText 9 [13],
   .mkBlock [26], .styleObj 9 24, .mkProp 27, .propObj 24 27, .mkSel 14, .appendSelObj 22 29,
   .mkSelList [15], .selListObj 9 30, .styleObj 9 24]

instance (st : Owners.St) (r c x : Nat) : Decidable (Adopt st r c x) := inferInstanceAs (Decidable (_ ∧ _))
instance (st : Owners.St) (r : Nat) (op : Owners.Op) : Decidable (Safe st r op) := by
  cases op <;> simp only [Safe] <;> infer_instance
instance decSafeAll (r : Nat) : (ops : List Owners.Op) → (st : Owners.St) → Decidable (SafeAll st r ops)
  | [], _ => isTrue trivial
  | op :: ops, st => have := decSafeAll r ops (Owners.step st op); inferInstanceAs (Decidable (_ ∧ _))

example : SafeAll {} 9 hist ∧ SafeAll {} 0 hist := by decide
example : dump (run {} hist) 9 =
    [(9, none), (24, some 9), (25, some 24), (26, some 25), (27, some 24), (28, some 27), (30, some 9), (31, some 30)] := by
  decide
/-- the second half of `Adopt` (the children of the adopted object name it) is needed as well: block 4 has lost
property 5 to block 12 (an aliasing adoption) and is then given to a third rule 15, which lists it nowhere -/
example :
    let st := run {} (two ++ [.mkRule none (some []) false, .propObj 12 5])
    (∀ c' ∈ reach st 3 15, 4 ∈ kids (st.objs c') → c' = 15) ∧ inner st 4 = false ∧
    consistent st 15 = true ∧ consistent (Owners.step st (.styleObj 15 4)) 15 = false := by decide
/-- stealing is unsafe for the robbed rule only -/
example : ¬ Safe (run {} two) 0 (.styleObj 9 4) ∧ Safe (run {} two) 9 (.styleObj 9 4) := by decide

end OwnersExamples

end CssVerif.C18
