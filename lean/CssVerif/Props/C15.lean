/-
C15 — Selectors are bound to namespace URIs, not prefixes.

Selector side (`Model/Selector.lean`, the transcription of `append()` in selector.py): a namespaced item
stores the URI its prefix denotes in the mapping in force at parse time; an undeclared prefix rejects the
selector for good.  Sheet side (`Model/Sheet.lean`, the transcription of `util._Namespaces`,
`CSSStyleSheet.insertRule/deleteRule/_cleanNamespaces` and of `do_css_Selector`'s prefix choice):
the `namespaces` view is a bijection between prefixes and URIs made of entries of @namespace rules in which
later rules win and every rule is accounted for; the prefix chosen at serialisation time denotes the same
URI at parse time; namespace operations never touch a rule that carries selectors; the only @namespace
rule of a URI in use cannot be deleted.

Tie: `sheet` correspondence (operation histories: result, rule list with prefix/URI payload, view), `sel`
correspondence (items with their namespace for every prefix form, declared or not), `nsform`
correspondence (written form of every stored pair under the mapping after every operation).

Partial: that every *reachable* sheet keeps all used URIs declared (so that `Expressible` holds for every
stored URI pair) is decided by the history oracle, not proved; `del namespaces[p]` is covered by the
correspondence and the oracle only.  Two recorded findings: `none_pair_finding`, `attr_default_finding`.
-/
import CssVerif.Proofs.Namespaces
import CssVerif.Gen.Productions
namespace CssVerif.C15
open CssVerif

section selector
open CssVerif.Selector

/-- an undeclared prefix rejects the selector, whatever tokens follow -/
theorem undeclared_rejected (T : Tables) (m : NsMap) (st : Selector.St) (p name : Text) (typ : IT) (rest : List T2)
    (hp : st.pfx = some p) (h1 : p ≠ str "*") (h2 : p ≠ []) (hm : nsGet m p = none)
    (ht : typ = .typesel ∨ typ = .negtypesel) :
    (Selector.finish (rest.foldl (Selector.step T m) (append m st name typ))).wellformed = false := by
  have h := append_type m st name typ (some p) hp ht
  have hr : resolveO m (some p) = none := by simp [resolveO, h1, h2, hm]
  rw [hr] at h
  cases hw : (Selector.finish (rest.foldl (Selector.step T m) (append m st name typ))).wellformed with
  | false => rfl
  | true => have := run_wf T m rest _ (finish_wf _ hw); rw [h.1] at this; cases this

/-- … and the error reported first is NamespaceErr if nothing was wrong before -/
theorem undeclared_error (m : NsMap) (st : Selector.St) (p name : Text)
    (hp : st.pfx = some p) (h1 : p ≠ str "*") (h2 : p ≠ []) (hm : nsGet m p = none) (he : st.firstErr = "") :
    (append m st name .typesel).firstErr = "NamespaceErr" := by
  have h := append_type m st name .typesel (some p) hp (Or.inl rfl)
  have hr : resolveO m (some p) = none := by simp [resolveO, h1, h2, hm]
  rw [hr] at h
  simpa [he] using h.2.2

/-- an accepted type selector stores the URI its prefix denotes (the default namespace without a prefix,
`*|` any, `|` none) -/
theorem stored_uri (m : NsMap) (st : Selector.St) (name : Text) (q : Option Text) (ns : Ns)
    (hq : st.pfx = q) (hr : resolveO m q = some ns) :
    (append m st name .typesel).items = ⟨.typesel, name, some ns⟩ :: st.items := by
  have h := append_type m st name .typesel q hq (Or.inl rfl)
  rw [hr] at h; exact h.1

theorem stored_uri_cases (m : NsMap) (p u : Text) (h1 : p ≠ str "*") (h2 : p ≠ []) (hm : nsGet m p = some u) :
    resolveO m (some p) = some (.uri u) ∧ resolveO m (some (str "*")) = some .any ∧
    resolveO m (some []) = some .empty ∧ resolveO m none = some (defaultNs m) := by
  refine ⟨by simp [resolveO, h1, h2, hm], by simp [resolveO], ?_, rfl⟩
  simp [resolveO, show ¬ str "*" = ([] : Text) by decide]

/-- attribute names are namespaced only with a non-empty prefix -/
theorem attr_unprefixed (m : NsMap) (st : Selector.St) (name : Text) (hq : st.pfx = none) :
    (append m st name .attrsel).items = ⟨.attrsel, name, none⟩ :: st.items := by
  simpa using append_attr m st name none hq

/-- end to end on the regenerated tables (tests, labelled as such) -/
theorem example_undeclared :
    (Selector.parse Gen.tables [(str "p", str "u1")] [(.ident, str "z"), (.char, str "|"), (.ident, str "a")]).firstErr
      = "NamespaceErr" := by decide +kernel

theorem example_declared :
    (Selector.parse Gen.tables [(str "p", str "u1")] [(.ident, str "p"), (.char, str "|"), (.ident, str "a")]).items
      = [⟨.typesel, str "a", some (.uri (str "u1"))⟩] := by decide +kernel

end selector

section sheet
open CssVerif.Sheet

/-- `sheet.namespaces` binds no prefix twice and gives no URI two prefixes -/
theorem view_bijective (s : Sheet) : DictOK (view s) := view_ok s

/-- every entry of it is the (prefix, URI) of an @namespace rule of the sheet -/
theorem view_from_rules (s : Sheet) (p u : Nat) (h : (p, u) ∈ view s) :
    ∃ r ∈ s, r.kind = .namespace ∧ r.p = p ∧ r.u = u := view_sound s p u h

/-- later rules win -/
theorem view_later_wins (s : Sheet) (r : Rule) (pre : List Rule)
    (h : s.filter (isKind .namespace) = pre ++ [r]) : (r.p, r.u) ∈ view s := view_last s r pre h

/-- no @namespace rule is lost: its prefix is bound or its URI has a prefix -/
theorem view_accounts_for (s : Sheet) (r : Rule) (hr : r ∈ s) (hk : r.kind = .namespace) :
    dictHasKey (view s) r.p = true ∨ dictHasVal (view s) r.u = true := view_covers s r hr hk

/-- the prefix written for a declared URI denotes that URI when the text is parsed again -/
theorem prefix_round_trip (s : Sheet) (u : Nat) (hu : dictHasVal (view s) u = true) :
    ∃ p, prefixFor (view s) u = some p ∧ dictGet (view s) p = some u :=
  prefix_roundtrip (view s) (view_ok s) u hu

/-- serialise → re-parse keeps every expressible pair, under the mapping of any sheet -/
theorem reparse_keeps_pair (s : Sheet) (attr : Bool) (ns : NsV) (he : Expressible (view s) attr ns) :
    resolveForm (view s) attr (serForm (view s) ns) = some ns := reparse_pair (view s) (view_ok s) attr ns he

/-- the recorded finding (see known_findings.json): `None` pairs once a default namespace exists -/
theorem none_pair_finding :
    resolveForm [(0, 1)] false (serForm [(0, 1)] .none) = some .empty ∧ ¬ Expressible [(0, 1)] false .none :=
  none_pair_counterexample

/-- the second recorded finding: an attribute bound to the URI of the default namespace -/
theorem attr_default_finding :
    resolveForm [(0, 1)] true (serForm [(0, 1)] (.uri 1)) = some .none ∧ ¬ Expressible [(0, 1)] true (.uri 1) :=
  attr_default_counterexample

/-- `namespaces[p] = u` and inserting an @namespace rule (any index, in order or not, accepted or refused)
leave every rule that carries selectors as it was -/
theorem ns_ops_keep_pairs (fx : Bool) (s : Sheet) :
    (∀ p u, styles (nsSet fx s p u).1 = styles s) ∧
    (∀ r idx io, r.kind = .namespace → styles (insertRule fx s r idx io).1 = styles s) :=
  ⟨styles_nsSet fx s, fun r idx io hk => styles_insert_ns fx s r idx io hk⟩

/-- the only @namespace rule of a URI in use cannot be deleted -/
theorem in_use_cannot_be_deleted (s : Sheet) (i : Nat) (r : Rule) (hi : s[i]? = some r)
    (hk : r.kind = .namespace) (hu : (usedURIs s).contains r.u = true)
    (h1 : ((s.filter (isKind .namespace)).map (·.u)).count r.u = 1) :
    deleteRule s i = (s, .raised .noModification) := in_use_protected s i r hi hk hu h1

/-- non-vacuity: a sheet with two prefixes, a default namespace and a used URI -/
def exSheet : Sheet :=
  [{ kind := .namespace, p := 0, u := 3 }, { kind := .namespace, p := 1, u := 1 },
   { kind := .namespace, p := 2, u := 1 }, { kind := .style, used := [1, 3] }]

example : view exSheet = [(2, 1), (0, 3)] ∧ dictHasVal (view exSheet) 1 = true ∧
    deleteRule exSheet 0 = (exSheet, .raised .noModification) ∧
    serForm (view exSheet) (.uri 1) = .named 2 ∧ serForm (view exSheet) (.uri 3) = .bare := by decide

end sheet
end CssVerif.C15
