/-
C15 — Selectors are bound to namespace URIs, not prefixes.

Selector side (`Model/Selector.lean`, the transcription of `append()` in selector.py): a namespaced item
stores the URI its prefix denotes in the mapping in force at parse time; an undeclared prefix rejects the
selector for good.  Sheet side (`Model/Sheet.lean`, the transcription of `util._Namespaces`,
`CSSStyleSheet.insertRule/deleteRule/_cleanNamespaces` and of `do_css_Selector`'s prefix choice):
the `namespaces` view is a bijection between prefixes and URIs made of entries of @namespace rules in which
later rules win and every rule is accounted for; the prefix chosen at serialisation time denotes the same
URI at parse time; namespace operations never touch a rule that carries selectors; the only @namespace
rule of a URI in use cannot be deleted.

Tie: `sheet` correspondence (operation histories: result, rule list with prefix/URI payload, view), `sel`
correspondence (items with their namespace for every prefix form, declared or not), `nsform`
correspondence (written form of every stored pair under the mapping after every operation).

Reachable states (section `reachable`, lemmas in `Proofs/UsedDeclared.lean`): every sheet reachable by any
history of operations whose payloads use declared URIs only (`OpDeclared`, the caller's side of the API)
has only effective @namespace rules (`NsClean`) and keeps every used URI declared (`UsedDeclared`), so
`Expressible` holds for every type selector bound to a URI; `del namespaces[p]` is specified by `nsDel_spec`
(on sheets whose @namespace rules lead the list; `nsDel_wrong_rule` records what the code does otherwise).
Two recorded findings: `none_pair_finding`, `attr_default_finding`.
-/
import CssVerif.Proofs.Namespaces
import CssVerif.Proofs.UsedDeclared
import CssVerif.Gen.Productions
namespace CssVerif.C15
open CssVerif

section selector
open CssVerif.Selector

/-- an undeclared prefix rejects the selector, whatever tokens follow -/
theorem undeclared_rejected (T : Tables) (m : NsMap) (st : Selector.St) (p name : Text) (typ : IT) (rest : List T2)
    (hp : st.pfx = some p) (h1 : p ≠ str "*") (h2 : p ≠ []) (hm : nsGet m p = none)
    (ht : typ = .typesel ∨ typ = .negtypesel) :
    (Selector.finish (rest.foldl (Selector.step T m) (append m st name typ))).wellformed = false := by
  have h := append_type m st name typ (some p) hp ht
  have hr : resolveO m (some p) = none := by simp [resolveO, h1, h2, hm]
  rw [hr] at h
  cases hw : (Selector.finish (rest.foldl (Selector.step T m) (append m st name typ))).wellformed with
  | false => rfl
  | true => have := run_wf T m rest _ (finish_wf _ hw); rw [h.1] at this; cases this

/-- … and the error reported first is NamespaceErr if nothing was wrong before -/
theorem undeclared_error (m : NsMap) (st : Selector.St) (p name : Text)
    (hp : st.pfx = some p) (h1 : p ≠ str "*") (h2 : p ≠ []) (hm : nsGet m p = none) (he : st.firstErr = "") :
    (append m st name .typesel).firstErr = "NamespaceErr" := by
  have h := append_type m st name .typesel (some p) hp (Or.inl rfl)
  have hr : resolveO m (some p) = none := by simp [resolveO, h1, h2, hm]
  rw [hr] at h
  simpa [he] using h.2.2

/-- an accepted type selector stores the URI its prefix denotes (the default namespace without a prefix,
`*|` any, `|` none) -/
theorem stored_uri (m : NsMap) (st : Selector.St) (name : Text) (q : Option Text) (ns : Ns)
    (hq : st.pfx = q) (hr : resolveO m q = some ns) :
    (append m st name .typesel).items = ⟨.typesel, name, some ns⟩ :: st.items := by
  have h := append_type m st name .typesel q hq (Or.inl rfl)
  rw [hr] at h; exact h.1

theorem stored_uri_cases (m : NsMap) (p u : Text) (h1 : p ≠ str "*") (h2 : p ≠ []) (hm : nsGet m p = some u) :
    resolveO m (some p) = some (.uri u) ∧ resolveO m (some (str "*")) = some .any ∧
    resolveO m (some []) = some .empty ∧ resolveO m none = some (defaultNs m) := by
  refine ⟨by simp [resolveO, h1, h2, hm], by simp [resolveO], ?_, rfl⟩
  simp [resolveO, show ¬ str "*" = ([] : Text) by decide]

/-- attribute names are namespaced only with a non-empty prefix -/
theorem attr_unprefixed (m : NsMap) (st : Selector.St) (name : Text) (hq : st.pfx = none) :
    (append m st name .attrsel).items = ⟨.attrsel, name, none⟩ :: st.items := by
  simpa using append_attr m st name none hq

/-- end to end on the regenerated tables (tests, labelled as such) -/
theorem example_undeclared :
    (Selector.parse Gen.tables [(str "p", str "u1")] [(.ident, str "z"), (.char, str "|"), (.ident, str "a")]).firstErr
      = "NamespaceErr" := by decide +kernel

theorem example_declared :
    (Selector.parse Gen.tables [(str "p", str "u1")] [(.ident, str "p"), (.char, str "|"), (.ident, str "a")]).items
      = [⟨.typesel, str "a", some (.uri (str "u1"))⟩] := by decide +kernel

end selector

section sheet
open CssVerif.Sheet

/-- `sheet.namespaces` binds no prefix twice and gives no URI two prefixes -/
theorem view_bijective (s : Sheet) : DictOK (view s) := view_ok s

/-- every entry of it is the (prefix, URI) of an @namespace rule of the sheet -/
theorem view_from_rules (s : Sheet) (p u : Nat) (h : (p, u) ∈ view s) :
    ∃ r ∈ s, r.kind = .namespace ∧ r.p = p ∧ r.u = u := view_sound s p u h

/-- later rules win -/
theorem view_later_wins (s : Sheet) (r : Rule) (pre : List Rule)
    (h : s.filter (isKind .namespace) = pre ++ [r]) : (r.p, r.u) ∈ view s := view_last s r pre h

/-- no @namespace rule is lost: its prefix is bound or its URI has a prefix -/
theorem view_accounts_for (s : Sheet) (r : Rule) (hr : r ∈ s) (hk : r.kind = .namespace) :
    dictHasKey (view s) r.p = true ∨ dictHasVal (view s) r.u = true := view_covers s r hr hk

/-- the prefix written for a declared URI denotes that URI when the text is parsed again -/
theorem prefix_round_trip (s : Sheet) (u : Nat) (hu : dictHasVal (view s) u = true) :
    ∃ p, prefixFor (view s) u = some p ∧ dictGet (view s) p = some u :=
  prefix_roundtrip (view s) (view_ok s) u hu

/-- serialise → re-parse keeps every expressible pair, under the mapping of any sheet -/
theorem reparse_keeps_pair (s : Sheet) (attr : Bool) (ns : NsV) (he : Expressible (view s) attr ns) :
    resolveForm (view s) attr (serForm (view s) ns) = some ns := reparse_pair (view s) (view_ok s) attr ns he

/-- the recorded finding (see known_findings.json): `None` pairs once a default namespace exists -/
theorem none_pair_finding :
    resolveForm [(0, 1)] false (serForm [(0, 1)] .none) = some .empty ∧ ¬ Expressible [(0, 1)] false .none :=
  none_pair_counterexample

/-- the second recorded finding: an attribute bound to the URI of the default namespace -/
theorem attr_default_finding :
    resolveForm [(0, 1)] true (serForm [(0, 1)] (.uri 1)) = some .none ∧ ¬ Expressible [(0, 1)] true (.uri 1) :=
  attr_default_counterexample

/-- `namespaces[p] = u` and inserting an @namespace rule (any index, in order or not, accepted or refused)
leave every rule that carries selectors as it was -/
theorem ns_ops_keep_pairs (fx : Bool) (s : Sheet) :
    (∀ p u, styles (nsSet fx s p u).1 = styles s) ∧
    (∀ r idx io, r.kind = .namespace → styles (insertRule fx s r idx io).1 = styles s) :=
  ⟨styles_nsSet fx s, fun r idx io hk => styles_insert_ns fx s r idx io hk⟩

/-- the only @namespace rule of a URI in use cannot be deleted -/
theorem in_use_cannot_be_deleted (s : Sheet) (i : Nat) (r : Rule) (hi : s[i]? = some r)
    (hk : r.kind = .namespace) (hu : (usedURIs s).contains r.u = true)
    (h1 : ((s.filter (isKind .namespace)).map (·.u)).count r.u = 1) :
    deleteRule s i = (s, .raised .noModification) := in_use_protected s i r hi hk hu h1

/-- non-vacuity: a sheet with two prefixes, a default namespace and a used URI -/
def exSheet : Sheet :=
  [{ kind := .namespace, p := 0, u := 3 }, { kind := .namespace, p := 1, u := 1 },
   { kind := .namespace, p := 2, u := 1 }, { kind := .style, used := [1, 3] }]

example : view exSheet = [(2, 1), (0, 3)] ∧ dictHasVal (view exSheet) 1 = true ∧
    deleteRule exSheet 0 = (exSheet, .raised .noModification) ∧
    serForm (view exSheet) (.uri 1) = .named 2 ∧ serForm (view exSheet) (.uri 3) = .bare := by decide

end sheet

section reachable
open CssVerif.Sheet

/-! ### every reachable sheet keeps its used URIs declared

`UsedDeclared s`: every URI a selector of a style / @media rule of `s` is bound to is a value of
`sheet.namespaces`.  The model fills `Rule.used` with real URIs only (`|a`, `*|a` and unprefixed names
without a default namespace contribute nothing), so no URI stands for "no namespace".
`NsClean s`: every @namespace rule of `s` is effective.  `NsInv s` is the conjunction. -/

/-- the rule-by-rule reading of `UsedDeclared` -/
theorem used_declared_iff (s : Sheet) :
    UsedDeclared s ↔ ∀ r ∈ s, isStyled r = true → ∀ u ∈ r.used, dictHasVal (view s) u = true := by
  constructor
  · intro h r hr hs u hu; exact h u (mem_usedURIs.2 ⟨r, hr, hs, hu⟩)
  · intro h u hu
    obtain ⟨r, hr, hs, hru⟩ := mem_usedURIs.1 hu
    exact h r hr hs u hru

/-- (a) the empty sheet -/
theorem ns_inv_init : NsInv [] := nsInv_nil

/-- (a) every operation — insertRule with any index / in order, deleteRule with any (also negative) index,
encoding, `namespaces[p] = u`, `del namespaces[p]`, `cssText = …` — keeps the invariant, accepted or refused,
provided the caller's payload uses declared URIs only (`OpDeclared`) -/
theorem ns_inv_step (s : Sheet) (op : Op) (h : NsInv s) (hd : OpDeclared true s op) :
    NsInv (Sheet.step true s op).1 := step_inv true s op h hd

/-- the operations that carry no selectors need no hypothesis at all -/
theorem ns_inv_step_free (s : Sheet) (h : NsInv s) :
    (∀ i, NsInv (Sheet.step true s (.delete i)).1) ∧ (∀ e, NsInv (Sheet.step true s (.encoding e)).1) ∧
    (∀ p u, NsInv (Sheet.step true s (.nsSet p u)).1) ∧ (∀ p, NsInv (Sheet.step true s (.nsDel p)).1) ∧
    (∀ r i o, isStyled r = false → NsInv (Sheet.step true s (.insert r i o)).1) :=
  ⟨fun i => step_inv true s (.delete i) h trivial, fun e => step_inv true s (.encoding e) h trivial,
   fun p u => step_inv true s (.nsSet p u) h trivial, fun p => step_inv true s (.nsDel p) h trivial,
   fun r i o hr => step_inv true s (.insert r i o) h (fun hs => by rw [hr] at hs; cases hs)⟩

/-- `OpDeclared` is about the caller, not a defect: the model (like `insertRule` with a ready-made rule
object) stores whatever selectors it is handed; a style rule bound to an undeclared URI breaks the
invariant at once, and so does an assigned text whose style rule uses a URI its @namespace rules do not
declare -/
theorem op_declared_needed :
    (¬ OpDeclared true [] (.insert { kind := .style, used := [1] } none false) ∧
      ¬ UsedDeclared (Sheet.step true [] (.insert { kind := .style, used := [1] } none false)).1) ∧
    (¬ OpDeclared true [] (.assign [{ kind := .namespace, p := 1, u := 2 }, { kind := .style, used := [1] }]) ∧
      ¬ UsedDeclared (Sheet.step true []
        (.assign [{ kind := .namespace, p := 1, u := 2 }, { kind := .style, used := [1] }])).1) := by decide

/-- a text-only sufficient form of the hypothesis for `cssText = …`: every URI used by a style / @media
statement of the text is declared by the @namespace rules the parse keeps -/
theorem assign_declared_of_text (s : Sheet) (rs : List Rule)
    (h : ∀ u ∈ usedURIs rs, dictHasVal (view (parseLoop true rs 0 [] true).1) u = true) :
    OpDeclared true s (.assign rs) := Sheet.assign_declared_of_text true rs h

/-- (b) `UsedDeclared` alone is not inductive: on a sheet holding an ineffective @namespace rule
(`@namespace p "u1"` shadowed by `@namespace p "u2"`, URI u1 kept alive by `@namespace q "u1"`)
`deleteRule(2)` is allowed (u1 has two rules) and leaves u1 in use but without a prefix.  Such a sheet is
not reachable (`reachable_ns_clean`): every accepted @namespace insertion and every parse end with a
complete `_cleanNamespaces` -/
theorem used_declared_not_inductive :
    let s : Sheet := [{ kind := .namespace, p := 1, u := 1 }, { kind := .namespace, p := 1, u := 2 },
      { kind := .namespace, p := 2, u := 1 }, { kind := .style, used := [1] }]
    UsedDeclared s ∧ ¬ NsClean s ∧ (Sheet.step true s (.delete 2)).2 = .none ∧
      ¬ UsedDeclared (Sheet.step true s (.delete 2)).1 := by decide

/-- (b) the candidates, on the smallest sheet with a namespace in use: re-declaring the prefix with
another URI, shadowing it by an in-order or indexed @namespace insertion, `del namespaces[p]` and
`deleteRule(-2)` are all refused and leave the sheet as it was -/
theorem in_use_candidates_refused :
    let s : Sheet := [{ kind := .namespace, p := 1, u := 1 }, { kind := .style, used := [1] }]
    Sheet.step true s (.nsSet 1 2) = (s, .raised .noModification) ∧
    Sheet.step true s (.insert { kind := .namespace, p := 1, u := 2 } none true) = (s, .raised .noModification) ∧
    Sheet.step true s (.insert { kind := .namespace, p := 1, u := 2 } (some 1) false) = (s, .raised .noModification) ∧
    Sheet.step true s (.nsDel 1) = (s, .raised .noModification) ∧
    Sheet.step true s (.delete (-2)) = (s, .raised .noModification) := by decide

/-- (c) every sheet reachable by a history whose payloads use declared URIs only has only effective
@namespace rules … -/
theorem reachable_ns_clean (ops : List Op) (hd : HistDeclared true [] ops) :
    NsClean (ops.foldl (fun s op => (Sheet.step true s op).1) []) := (run_inv true ops [] nsInv_nil hd).1

/-- … and keeps every URI a selector is bound to declared -/
theorem reachable_used_declared (ops : List Op) (hd : HistDeclared true [] ops) :
    UsedDeclared (ops.foldl (fun s op => (Sheet.step true s op).1) []) := (run_inv true ops [] nsInv_nil hd).2

/-- so in every such sheet each used URI has a prefix that denotes it, the serialiser picks such a prefix,
the pair is `Expressible` for a type selector, and serialise → re-parse gives the same pair back -/
theorem reachable_expressible (ops : List Op) (hd : HistDeclared true [] ops) :
    let s := ops.foldl (fun s op => (Sheet.step true s op).1) []
    ∀ u ∈ usedURIs s,
      (∃ p, dictGet (view s) p = some u ∧ prefixFor (view s) u = some p) ∧
      Expressible (view s) false (.uri u) ∧
      resolveForm (view s) false (serForm (view s) (.uri u)) = some (.uri u) := by
  intro s u hu
  have hval := reachable_used_declared ops hd u hu
  obtain ⟨p, hp, hg⟩ := prefix_roundtrip (view s) (view_ok s) u hval
  have he : Expressible (view s) false (.uri u) := ⟨hval, fun h => by cases h⟩
  exact ⟨⟨p, hg, hp⟩, he, reparse_pair (view s) (view_ok s) false (.uri u) he⟩

/-- non-vacuity: a history through every kind of operation, accepted and refused ones (a namespace in use
re-declared, shadowed, deleted; a text assigned), meets the hypothesis; its last sheet holds two used URIs -/
def exHistory : List Op :=
  [.nsSet 1 1, .nsSet 0 2, .insert { kind := .style, used := [1, 2] } none false, .nsSet 2 1, .nsDel 0,
   .insert { kind := .namespace, p := 2, u := 2 } none true,
   .insert { kind := .namespace, p := 2, u := 2 } (some 0) false, .delete (-1), .nsDel 0,
   .insert { kind := .import } none true, .encoding (some 7),
   .insert { kind := .media, used := [1] } none true, .delete 2,
   .assign [{ kind := .namespace, p := 1, u := 1 }, { kind := .namespace, p := 2, u := 1 },
     { kind := .namespace, p := 0, u := 3 }, { kind := .style, used := [1, 3] }],
   .nsSet 0 1, .nsSet 5 3]

example : HistDeclared true [] exHistory ∧
    exHistory.foldl (fun s op => (Sheet.step true s op).1) [] =
      [{ kind := .namespace, p := 2, u := 1 }, { kind := .namespace, p := 5, u := 3 },
       { kind := .style, used := [1, 3] }] := by decide

/-! ### `del namespaces[p]` -/

/-- what the model does for `del namespaces[p]` on a sheet with only effective @namespace rules (every
reachable sheet) whose @namespace rules lead the list: an undeclared prefix raises NamespaceErr; a prefix
whose URI is in use (and has this one rule) raises NoModificationAllowedErr and nothing changes; otherwise
exactly the @namespace rule of `p` goes, `p` is no longer bound (unless a duplicate rule remains) and every
other prefix keeps its URI -/
theorem nsDel_spec (s : Sheet) (p : Nat) (hc : NsClean s) (hl : nsLead s = true) :
    (dictGet (view s) p = none → nsDel s p = (s, .raised .namespaceErr)) ∧
    (∀ u, dictGet (view s) p = some u →
      if u ∈ usedURIs s ∧ nsCount s u = 1 then nsDel s p = (s, .raised .noModification)
      else (∃ i r, s[i]? = some r ∧ r.kind = .namespace ∧ r.p = p ∧ r.u = u ∧
              nsDel s p = (s.eraseIdx i, .none)) ∧
           (nsCount s u = 1 → dictGet (view (nsDel s p).1) p = none) ∧
           (∀ q, q ≠ p → dictGet (view (nsDel s p).1) q = dictGet (view s) q)) :=
  ⟨fun h => nsDel_undeclared s p hc h, fun u h => nsDel_declared s p u hc hl h⟩

/-- wherever the @namespace rules stand, `del namespaces[p]` keeps the invariant (it is a `deleteRule`) -/
theorem nsDel_keeps_inv (s : Sheet) (p : Nat) (h : NsInv s) : NsInv (nsDel s p).1 := nsDel_inv s p h.1 h.2

/-- why `nsLead` is there: `__delitem__` passes the position *among the @namespace rules* to `deleteRule`.
Behind an @import, `del namespaces['q']` removes `@namespace p` instead (although `p`'s URI could be
protected and `q`'s is not looked at); behind an @charset it removes the @charset rule.  (Noted in DESIGN
as an observation outside the properties; the used-URI invariant survives, see `nsDel_keeps_inv`.) -/
theorem nsDel_wrong_rule :
    nsDel [{ kind := .import }, { kind := .namespace, p := 1, u := 1 }, { kind := .namespace, p := 2, u := 2 },
        { kind := .style, used := [2] }] 2 =
      ([{ kind := .import }, { kind := .namespace, p := 2, u := 2 }, { kind := .style, used := [2] }], .none) ∧
    nsDel [{ kind := .import }, { kind := .namespace, p := 1, u := 1 }, { kind := .namespace, p := 2, u := 2 },
        { kind := .style, used := [1] }] 2 =
      ([{ kind := .import }, { kind := .namespace, p := 1, u := 1 }, { kind := .namespace, p := 2, u := 2 },
        { kind := .style, used := [1] }], .raised .noModification) ∧
    nsDel [{ kind := .charset, p := 7 }, { kind := .namespace, p := 2, u := 1 }, { kind := .media, used := [1] }] 2 =
      ([{ kind := .namespace, p := 2, u := 1 }, { kind := .media, used := [1] }], .none) := by decide

/-- non-vacuity of `nsDel_spec`: the three outcomes on a clean, @namespace-first sheet -/
example :
    let s : Sheet := [{ kind := .namespace, p := 0, u := 3 }, { kind := .namespace, p := 2, u := 1 },
      { kind := .style, used := [1] }]
    NsClean s ∧ nsLead s = true ∧
    nsDel s 1 = (s, .raised .namespaceErr) ∧ nsDel s 2 = (s, .raised .noModification) ∧
    nsDel s 0 = ([{ kind := .namespace, p := 2, u := 1 }, { kind := .style, used := [1] }], .none) ∧
    view (nsDel s 0).1 = [(2, 1)] := by decide

end reachable
end CssVerif.C15
