/-
C09 — Token classification follows the CSS token grammar.

Full statement (`classify`, kept visible, not proved in full):

    ∀ ls : List Lexeme, Chain canFollow ls →
      (tokenize Gen.tables ⟨false, true⟩ (ls.flatMap render)).toks.map (typ, val) = ls.map expected

What is proved here is the per-lexeme "first token" statement — for a lexeme of ANY length, in ANY
tokenizer state outside full-sheet mode, followed by ANY continuation text that satisfies the stated
"cannot merge" side condition, `step` returns exactly one token with that type, that value and that raw
text — for the following lexeme classes:

  * S            whitespace runs                                            `classify_ws`
  * CHAR         the fast-path characters `,:;{}>[]` and the solo delimiters  `classify_fast`, `classify_solo`,
                                                                            `gen_solo_delims`
  * INCLUDES, DASHMATCH, PREFIXMATCH, SUFFIXMATCH, SUBSTRINGMATCH, CDO, CDC
                 fixed spellings, any continuation                          `classify_includes` … `classify_cdo`,
                                                                            `classify_cdc`
  * NUMBER       `[+-]?[0-9]+` and `[+-]?[0-9]*\.[0-9]+`                     `classify_number`, `classify_number_signed`
  * PERCENTAGE   number `%`, any continuation                               `classify_percentage(_signed)`
  * DIMENSION    number + escape-free unit `-?{nmstart}{nmchar}*`            `classify_dimension(_signed)`
  * IDENT        escape-free `-?{nmstart}{nmchar}*` (ASCII and non-ASCII)    `classify_ident`
  * FUNCTION     escape-free identifier `(`, except `url(` and `and(`        `classify_function`
  * HASH         `#` + escape-free name characters                          `classify_hash`
  * ATKEYWORD and the keyword symbols (IMPORT_SYM, MEDIA_SYM, …)
                 `@` + escape-free identifier, except `@charset␠`           `classify_atkeyword`
  * COMMENT      `/*` body-without-`*/` `*/`, any continuation               `classify_comment(_plain)`
  * STRING       quote, body without newline/backslash/that quote, quote    `classify_string`

plus one universal statement for all lexemes (`first_char_sound`: whatever token is produced comes from
a production that can start with the first character).

Every theorem about a production rests on an *obligation on the regenerated table* (`gen_S_first`,
`gen_number_layout`, `gen_ident_layout`, `gen_hash_at`, `gen_cdc_layout`, `gen_signed_layout`,
`gen_comment`, `gen_string`, …): it states the shape and position of the productions involved and is
re-checked by `rfl`/`decide` whenever `Gen/Productions.lean` is regenerated.  The side conditions of the
theorems are exact enough to have kernel-checked counterexamples next to them (`1/2)` is a RATIO,
`1.5`, `1e3`, `u+1` is a UNICODE-RANGE, `and(` stays an IDENT, `url()` is a URI, `@charset␠` is
CHARSET_SYM, the value of a COMMENT goes through the `\hex` rewrite).

NOT proved here (decided by the derivation oracle + correspondence in harness/props/c09.py, listed
there under `partial_theorems`): names, units, hashes and at-keywords *with escapes*; strings with
escapes or line continuations and INVALID (unterminated strings); URI; UNICODE-RANGE; RATIO as a lexeme;
full-sheet mode (`fullsheet = true`: the EOF completions); and the composition of the per-lexeme
statements into the list statement `classify` above.
-/
import CssVerif.Proofs.Classify
import CssVerif.Proofs.ClassifyMore
import CssVerif.Gen.Productions
namespace CssVerif.C09
open CssVerif Re

theorem consumed_append_right (pre rest : Text) : consumed (pre ++ rest) rest = pre := by
  simp [consumed]

def isWs (c : Nat) : Bool := c = 9 || c = 10 || c = 12 || c = 13 || c = 32

/-! ### obligations on the regenerated table -/

/-- S is the first production and has the shape `{s}+` over exactly the five CSS whitespace characters -/
theorem gen_S_first : ∃ rs post,
    Gen.prods = { name := "S", notAfter := none, re := .seq (.cls false rs) (.star (.cls false rs)) } :: post ∧
    (∀ c, clsMatch false rs c = isWs c) := by
  refine ⟨[(9, 9), (13, 13), (10, 10), (12, 12), (32, 32)], Gen.prods.tail, rfl, ?_⟩
  intro c
  simp only [clsMatch, inRanges, isWs, Bool.false_eq_true, if_false, Bool.or_false]
  by_cases h9 : c = 9 <;> by_cases h10 : c = 10 <;> by_cases h12 : c = 12 <;> by_cases h13 : c = 13 <;>
    by_cases h32 : c = 32 <;> simp_all <;> omega

theorem gen_S_not_escaped : Gen.tables.escTypes.contains "S" = false := by decide
theorem gen_CHAR_not_escaped : Gen.tables.escTypes.contains "CHAR" = false := by decide

/-! ### generic: what `finish` does outside full-sheet mode for a plain (non-escaped, non-@) type -/

theorem finish_plain (T : Tables) (cfg : Cfg) (hfs : cfg.fullsheet = false) (hdc : cfg.doComments = true)
    (st : St) (n : String) (found rem : Text)
    (h1 : T.escTypes.contains n = false) (h2 : (n == "ATKEYWORD") = false) :
    finish T cfg st n found rem =
      { emit := some ⟨n, found, st.line, st.col⟩, raw := found, st := advance st found } := by
  have h1' : ¬ n ∈ T.escTypes := by simpa using h1
  have h2' : n ≠ "ATKEYWORD" := by simpa using h2
  simp [finish, finishName, finishVal, hfs, hdc, h1', h2']

/-! ### whitespace -/

/-- a maximal run of whitespace is one S token whose value is the run, whatever follows -/
theorem classify_ws (cfg : Cfg) (hfs : cfg.fullsheet = false) (hdc : cfg.doComments = true) (st : St)
    (c : Nat) (run rest : Text) (hc : isWs c = true) (hrun : ∀ x ∈ run, isWs x = true)
    (hrest : ∀ d ∈ rest.head?, isWs d = false) (hr : st.rest = c :: run ++ rest) :
    step Gen.tables cfg st =
      some { emit := some ⟨"S", c :: run, st.line, st.col⟩, raw := c :: run,
             st := advance st (c :: run) } := by
  obtain ⟨rs, post, hS, hcls⟩ := gen_S_first
  have hfast : Gen.tables.fastChars.contains c = false := by
    simp only [isWs, Bool.or_eq_true, decide_eq_true_eq] at hc
    rcases hc with (((h | h) | h) | h) | h <;> subst h <;> decide
  have hm : matchProd { name := "S", notAfter := none, re := .seq (.cls false rs) (.star (.cls false rs)) }
      st.prev (c :: (run ++ rest)) = some rest := by
    simp only [matchProd]
    rw [exec_eq_head]
    simp only [ms, hcls, hc, if_true, List.flatMap_cons, List.flatMap_nil, List.append_nil]
    exact starIter_cls_run false rs run rest _ (fun x hx => by rw [hcls]; exact hrun x hx)
      (fun d hd => by rw [hcls]; exact hrest d hd) (by simp)
  have := step_classify Gen.tables cfg hfs st c (run ++ rest) (by simpa using hr) hfast [] post _ hS
    (by simp) rest hm rfl
  rw [this, finish_plain Gen.tables cfg hfs hdc st "S" _ _ gen_S_not_escaped (by decide)]
  have hcons : consumed (c :: (run ++ rest)) rest = c :: run :=
    consumed_append_right (c :: run) rest
  rw [hcons]

/-! ### delimiters -/

/-- the single-character fast path -/
theorem classify_fast (cfg : Cfg) (st : St) (c : Nat) (s : Text) (hr : st.rest = c :: s)
    (hc : Gen.tables.fastChars.contains c = true) :
    step Gen.tables cfg st =
      some { emit := some ⟨"CHAR", [c], st.line, st.col⟩, raw := [c],
             st := { prev := some c, rest := s, line := st.line, col := st.col + 1 } } := by
  have hc' : c ∈ Gen.tables.fastChars := by simpa using hc
  unfold step
  rw [hr]
  simp [hc']

/-- a character is *solo* when no production before CHAR can start with it and CHAR accepts it -/
def solo (T : Tables) (c : Nat) : Bool :=
  !T.fastChars.contains c && earlierCannotStart T "CHAR" c &&
    (match findProd T.prods "CHAR" with
     | some p => p.notAfter.isNone && (match p.re with | .cls neg rs => clsMatch neg rs c | _ => false)
     | none => false)

/-- every solo character is a CHAR token of its own, whatever follows -/
theorem classify_solo (T : Tables) (hesc : T.escTypes.contains "CHAR" = false)
    (cfg : Cfg) (hfs : cfg.fullsheet = false) (hdc : cfg.doComments = true)
    (st : St) (c : Nat) (s : Text) (hr : st.rest = c :: s) (hc : solo T c = true) :
    step T cfg st =
      some { emit := some ⟨"CHAR", [c], st.line, st.col⟩, raw := [c], st := advance st [c] } := by
  simp only [solo, Bool.and_eq_true, Bool.not_eq_true'] at hc
  obtain ⟨⟨hfast, he⟩, hp⟩ := hc
  split at hp
  · rename_i p hfind
    simp only [Bool.and_eq_true, Option.isNone_iff_eq_none] at hp
    obtain ⟨hna, hre⟩ := hp
    split at hre
    · rename_i neg rs hpre
      have hname : p.name = "CHAR" := by
        have := List.find?_some hfind
        simpa using this
      have hm : matchProd p st.prev (c :: s) = some s := by
        simp only [matchProd, hna]
        rw [hpre, exec_eq_head]
        simp [ms, hre]
      have := step_classify' T cfg hfs st c s hr hfast "CHAR" (by decide) he p hfind s hm
      rw [this, hname, finish_plain T cfg hfs hdc st "CHAR" _ _ hesc (by decide)]
      have : consumed (c :: s) s = [c] := consumed_append_right [c] s
      rw [this]
    · cases hre
  · cases hp

/-- the solo delimiters of today's table: `( ) = & ? % !` backtick, DEL and every C0 control that is
not whitespace (decided by the kernel on the regenerated table) -/
theorem gen_solo_delims :
    ∀ c ∈ [40, 41, 61, 38, 63, 37, 33, 96, 0, 1, 2, 3, 4, 5, 6, 7, 8, 11, 14, 15, 16, 17, 18, 19, 20, 21, 22,
      23, 24, 25, 26, 27, 28, 29, 30, 31, 127], solo Gen.tables c = true := by
  decide

/-! ### fixed-spelling tokens: attribute-match operators and CDO -/

/-- a two-character operator `a =`: nothing earlier can start with `a`, and its own production is the
literal -/
theorem classify_op (n : String) (a : Nat) (cfg : Cfg) (hfs : cfg.fullsheet = false)
    (hdc : cfg.doComments = true) (st : St) (s : Text) (hr : st.rest = a :: 61 :: s)
    (hfast : Gen.tables.fastChars.contains a = false)
    (hn1 : (n == "IDENT") = false) (hn2 : (n == "ATKEYWORD") = false)
    (hesc : Gen.tables.escTypes.contains n = false)
    (he : earlierCannotStart Gen.tables n a = true)
    (hp : findProd Gen.prods n = some { name := n, notAfter := none, re := .seq (.cls false [(a, a)]) (.cls false [(61, 61)]) }) :
    step Gen.tables cfg st =
      some { emit := some ⟨n, [a, 61], st.line, st.col⟩, raw := [a, 61], st := advance st [a, 61] } := by
  have hm : matchProd { name := n, notAfter := none, re := .seq (.cls false [(a, a)]) (.cls false [(61, 61)]) }
      st.prev (a :: 61 :: s) = some s := by
    simp only [matchProd]
    rw [exec_eq_head]
    simp [ms, clsMatch, inRanges]
  have := step_classify' Gen.tables cfg hfs st a (61 :: s) hr hfast n hn1 he _ hp s hm
  rw [this, finish_plain Gen.tables cfg hfs hdc st n _ _ hesc hn2]
  have : consumed (a :: 61 :: s) s = [a, 61] := consumed_append_right [a, 61] s
  rw [this]

section
variable (cfg : Cfg) (hfs : cfg.fullsheet = false) (hdc : cfg.doComments = true) (st : St) (s : Text)
include hfs hdc

theorem classify_includes (hr : st.rest = 126 :: 61 :: s) :
    step Gen.tables cfg st = some { emit := some ⟨"INCLUDES", [126, 61], st.line, st.col⟩, raw := [126, 61], st := advance st [126, 61] } :=
  classify_op "INCLUDES" 126 cfg hfs hdc st s hr (by decide) (by decide) (by decide) (by decide) (by decide) (by decide)

theorem classify_dashmatch (hr : st.rest = 124 :: 61 :: s) :
    step Gen.tables cfg st = some { emit := some ⟨"DASHMATCH", [124, 61], st.line, st.col⟩, raw := [124, 61], st := advance st [124, 61] } :=
  classify_op "DASHMATCH" 124 cfg hfs hdc st s hr (by decide) (by decide) (by decide) (by decide) (by decide) (by decide)

theorem classify_prefixmatch (hr : st.rest = 94 :: 61 :: s) :
    step Gen.tables cfg st = some { emit := some ⟨"PREFIXMATCH", [94, 61], st.line, st.col⟩, raw := [94, 61], st := advance st [94, 61] } :=
  classify_op "PREFIXMATCH" 94 cfg hfs hdc st s hr (by decide) (by decide) (by decide) (by decide) (by decide) (by decide)

theorem classify_suffixmatch (hr : st.rest = 36 :: 61 :: s) :
    step Gen.tables cfg st = some { emit := some ⟨"SUFFIXMATCH", [36, 61], st.line, st.col⟩, raw := [36, 61], st := advance st [36, 61] } :=
  classify_op "SUFFIXMATCH" 36 cfg hfs hdc st s hr (by decide) (by decide) (by decide) (by decide) (by decide) (by decide)

theorem classify_substringmatch (hr : st.rest = 42 :: 61 :: s) :
    step Gen.tables cfg st = some { emit := some ⟨"SUBSTRINGMATCH", [42, 61], st.line, st.col⟩, raw := [42, 61], st := advance st [42, 61] } :=
  classify_op "SUBSTRINGMATCH" 42 cfg hfs hdc st s hr (by decide) (by decide) (by decide) (by decide) (by decide) (by decide)

end

/-! ### universal: classification is consistent with the first character -/

/-- for every text and every state outside full-sheet mode, the token produced at `c :: s` (off the
fast path) comes from a production of the table that can start with `c` -/
theorem first_char_sound (cfg : Cfg) (hfs : cfg.fullsheet = false) (st : St) (c : Nat) (s : Text)
    (hr : st.rest = c :: s) (hfast : Gen.tables.fastChars.contains c = false) (r : Res)
    (h : step Gen.tables cfg st = some r) :
    ∃ p ∈ Gen.prods, canStart p.re c = true ∧
      ∃ rem, r = finish Gen.tables cfg st p.name (consumed (c :: s) rem) rem := by
  unfold step at h
  rw [hr] at h
  simp only [hfast, Bool.false_eq_true, if_false] at h
  exact tryProds_first_char Gen.tables cfg hfs st c s hr Gen.prods r h

/-- which token types a text starting with a digit can get: only the numeric ones (and RATIO) -/
theorem digit_types : ∀ c ∈ [48, 49, 50, 51, 52, 53, 54, 55, 56, 57],
    (Gen.prods.filter (fun p => canStart p.re c)).map (·.name)
      = ["RATIO", "DIMENSION", "PERCENTAGE", "NUMBER", "CHAR"] := by decide

/-- an ASCII letter other than u/U can only start IDENT, FUNCTION or CHAR -/
theorem letter_types : ∀ c ∈ [97, 98, 120, 122, 65, 90, 95],
    (Gen.prods.filter (fun p => canStart p.re c)).map (·.name) = ["IDENT", "FUNCTION", "CHAR"] := by decide

/-- `u`/`U` additionally URI and UNICODE-RANGE; `@` only ATKEYWORD; `#` only HASH; quotes only STRING/INVALID -/
theorem special_types :
    (Gen.prods.filter (fun p => canStart p.re 117)).map (·.name) = ["URI", "UNICODE-RANGE", "IDENT", "FUNCTION", "CHAR"] ∧
    (Gen.prods.filter (fun p => canStart p.re 64)).map (·.name) = ["ATKEYWORD", "CHAR"] ∧
    (Gen.prods.filter (fun p => canStart p.re 35)).map (·.name) = ["HASH", "CHAR"] ∧
    (Gen.prods.filter (fun p => canStart p.re 34)).map (·.name) = ["STRING", "INVALID"] ∧
    (Gen.prods.filter (fun p => canStart p.re 39)).map (·.name) = ["STRING", "INVALID"] := by decide

/-! non-vacuity: the hypotheses are met by concrete states -/
example : step Gen.tables ⟨false, true⟩ ⟨none, [32, 10, 97], 1, 1⟩ =
    some { emit := some ⟨"S", [32, 10], 1, 1⟩, raw := [32, 10], st := advance ⟨none, [32, 10, 97], 1, 1⟩ [32, 10] } :=
  classify_ws ⟨false, true⟩ rfl rfl _ 32 [10] [97] (by decide) (by decide) (by decide) rfl

/-! ## numbers, percentages, dimensions (lexemes of any length) -/

/-- obligation on the regenerated table: the first nine productions are two that cannot start with a
digit or a dot, RATIO `(?<!\()\s*[0-9]+\s*/…`, three more that cannot start with a digit or a dot, then
DIMENSION = number ident, PERCENTAGE = number `%`, NUMBER = `[+-]?[0-9]*\.[0-9]+|[+-]?[0-9]+` -/
theorem gen_number_layout : ∃ kR X,
    Gen.prods = (Gen.prods.take 2 ++ ⟨"RATIO", some 40, ratioRe kR⟩ :: (Gen.prods.drop 3).take 3) ++
      ⟨"DIMENSION", none, .seq numRe (identRe X)⟩ :: ⟨"PERCENTAGE", none, .seq numRe pctR⟩ ::
      ⟨"NUMBER", none, numRe⟩ :: Gen.prods.drop 9 ∧
    (∀ c ∈ numStarts, (Gen.prods.take 2 ++ (Gen.prods.drop 3).take 3).all (fun q => !canStart q.re c) = true) :=
  ⟨_, _, rfl, by decide⟩

theorem gen_numStarts_not_fast : ∀ c ∈ numStarts, Gen.tables.fastChars.contains c = false := by decide
theorem gen_num_escaped : Gen.tables.escTypes.contains "NUMBER" = false ∧
    Gen.tables.escTypes.contains "PERCENTAGE" = false ∧ Gen.tables.escTypes.contains "DIMENSION" = true := by decide
/-- both value rewrites (`\hex` and `\newline`) only fire at a backslash -/
theorem gen_backslashOnly : backslashOnly Gen.tables = true := by decide

theorem all_cannot_start (pre : List Prod) (c : Nat) (h : pre.all (fun q => !canStart q.re c) = true)
    (prev : Option Nat) (s : Text) : ∀ q ∈ pre, matchProd q prev (c :: s) = none := by
  intro q hq
  have := List.all_eq_true.mp h q hq
  exact matchProd_none_of_canStart q prev c s (by simpa using this)

theorem numeric_prefix_none (kR : Re) (c : Nat) (s : Text) (prev : Option Nat)
    (hall : (Gen.prods.take 2 ++ (Gen.prods.drop 3).take 3).all (fun q => !canStart q.re c) = true)
    (hratio : NoRatio prev (c :: s)) :
    ∀ q ∈ Gen.prods.take 2 ++ ⟨"RATIO", some 40, ratioRe kR⟩ :: (Gen.prods.drop 3).take 3,
      matchProd q prev (c :: s) = none := by
  intro q hq
  have hcs := all_cannot_start _ c hall prev s
  rcases List.mem_append.mp hq with h | h
  · exact hcs q (List.mem_append_left _ h)
  · rcases List.mem_cons.mp h with rfl | h
    · rcases hratio with hp | hk
      · simp [matchProd, hp]
      · exact matchProd_none_of_ms_nil _ _ _ (hk kR)
    · exact hcs q (List.mem_append_right _ h)

/-- the productions before DIMENSION do not match an unsigned numeric text on which RATIO is off -/
theorem unsigned_prefix (c : Nat) (s : Text) (prev : Option Nat) (hc : c ∈ numStarts)
    (hratio : NoRatio prev (c :: s)) :
    ∀ kR, ∀ q ∈ Gen.prods.take 2 ++ ⟨"RATIO", some 40, ratioRe kR⟩ :: (Gen.prods.drop 3).take 3,
      matchProd q prev (c :: s) = none := by
  obtain ⟨_, _, _, hall⟩ := gen_number_layout
  exact fun kR => numeric_prefix_none kR c s prev (hall c hc) hratio

/-- what `finish` does outside full-sheet mode for an escaped type (other than strings) on an
escape-free match: the value is the match -/
theorem finish_escfree (T : Tables) (hb : backslashOnly T = true) (cfg : Cfg) (hfs : cfg.fullsheet = false)
    (hdc : cfg.doComments = true) (st : St) (n : String) (found rem : Text)
    (h1 : T.escTypes.contains n = true) (h2 : (n == "STRING" || n == "INVALID") = false) (hnb : NoBs found) :
    finish T cfg st n found rem =
      { emit := some ⟨n, found, st.line, st.col⟩, raw := found, st := advance st found } := by
  have h1' : n ∈ T.escTypes := by simpa using h1
  have h2' : n ≠ "STRING" ∧ n ≠ "INVALID" := by simpa using h2
  simp [finish, finishName, finishVal, hfs, hdc, h1', h2'.1, h2'.2, unicodeSub_id T hb found hnb]

/-- the text after a number cannot continue it: it does not start with a digit, with `%` (PERCENTAGE)
or like an identifier — `-`? then a name-start character (ASCII letter, `_`, non-ASCII; this includes the
`e`/`E` of an exponent, which this tokenizer reads as a unit) or a backslash (DIMENSION) -/
def numStop (rest : Text) : Bool :=
  !identStart rest && (match rest with | d :: _ => !isDigit d && d != 37 | [] => true)

/-- after optional whitespace the text does not continue with `/` -/
def noSlash (rest : Text) : Bool := (rest.dropWhile isWs).head? != some 47

theorem numStop_spec {rest : Text} (h : numStop rest = true) :
    identStart rest = false ∧ (∀ d ∈ rest.head?, isDigit d = false) ∧ (∀ d ∈ rest.head?, (d == 37) = false) := by
  simp only [numStop, Bool.and_eq_true, Bool.not_eq_true'] at h
  refine ⟨h.1, ?_, ?_⟩ <;>
  · intro d hd
    cases rest with
    | nil => cases hd
    | cons x r =>
      simp at hd; subst hd
      have := h.2
      simp only [Bool.and_eq_true, Bool.not_eq_true', bne_iff_ne, ne_eq] at this
      simp [this.1, this.2]

theorem noSlash_spec {rest : Text} (h : noSlash rest = true) :
    ∀ d ∈ (rest.dropWhile isWsC).head?, (d == 47) = false := by
  intro d hd
  have heq : isWs = isWsC := rfl
  have : (rest.dropWhile isWs).head? = some d := by rw [heq]; simpa using hd
  simp only [noSlash, this, bne_iff_ne, ne_eq, Option.some.injEq] at h
  simpa using h

section
variable (cfg : Cfg) (hfs : cfg.fullsheet = false) (hdc : cfg.doComments = true) (st : St)
include hfs hdc

/-- NUMBER, from the shape of the successes of the number expression -/
theorem number_core (lex rest : Text) (c : Nat) (s : Text) (hcs : lex ++ rest = c :: s)
    (hfast : Gen.tables.fastChars.contains c = false) (hr : st.rest = lex ++ rest)
    (hres : NumRes (ms numRe (lex ++ rest)) rest)
    (hpre : ∀ kR, ∀ q ∈ Gen.prods.take 2 ++ ⟨"RATIO", some 40, ratioRe kR⟩ :: (Gen.prods.drop 3).take 3,
      matchProd q st.prev (c :: s) = none) (hid : identStart rest = false)
    (hpct : ∀ d ∈ rest.head?, (d == 37) = false) :
    step Gen.tables cfg st =
      some { emit := some ⟨"NUMBER", lex, st.line, st.col⟩, raw := lex, st := advance st lex } := by
  obtain ⟨kR, X, hlay, -⟩ := gen_number_layout
  rw [hcs] at hres
  have hpre0 := hpre kR
  have hdim : matchProd ⟨"DIMENSION", none, .seq numRe (identRe X)⟩ st.prev (c :: s) = none :=
    matchProd_none_of_ms_nil _ _ _ (num_then_nil (c :: s) rest hres (identRe X) (ident_nil X rest hid)
      (fun x post hx => ident_nil X _ (identStart_digit_dot x post hx)))
  have hpc : matchProd ⟨"PERCENTAGE", none, .seq numRe pctR⟩ st.prev (c :: s) = none :=
    matchProd_none_of_ms_nil _ _ _ (num_then_nil (c :: s) rest hres pctR (test_pct.stop rest hpct)
      (fun x post hx => test_pct.neg (by
        simp only [isDigit, Bool.and_eq_true, decide_eq_true_eq] at hx
        simp; omega) post))
  have hm : matchProd ⟨"NUMBER", none, numRe⟩ st.prev (c :: s) = some rest :=
    matchProd_some_of_head _ rfl _ _ _ hres.1
  have hT : Gen.tables.prods = ((Gen.prods.take 2 ++ ⟨"RATIO", some 40, ratioRe kR⟩ :: (Gen.prods.drop 3).take 3) ++
      [⟨"DIMENSION", none, .seq numRe (identRe X)⟩, ⟨"PERCENTAGE", none, .seq numRe pctR⟩]) ++
      ⟨"NUMBER", none, numRe⟩ :: Gen.prods.drop 9 := by
    show Gen.prods = _
    rw [List.append_assoc]; exact hlay
  have := step_of_prefix_none Gen.tables cfg hfs st c s (hr.trans hcs) hfast _ _ _ hT
    (by
      intro q hq
      rcases List.mem_append.mp hq with h | h
      · exact hpre0 q h
      · simp only [List.mem_cons, List.not_mem_nil, or_false] at h
        rcases h with rfl | rfl
        · exact hdim
        · exact hpc)
    rest hm (Or.inl rfl)
  rw [this, finish_plain Gen.tables cfg hfs hdc st "NUMBER" _ _ gen_num_escaped.1 (by decide)]
  rw [← hcs, consumed_append_right]

/-- PERCENTAGE -/
theorem percentage_core (num rest : Text) (c : Nat) (s : Text) (hcs : num ++ 37 :: rest = c :: s)
    (hfast : Gen.tables.fastChars.contains c = false) (hr : st.rest = num ++ 37 :: rest)
    (hres : NumRes (ms numRe (num ++ 37 :: rest)) (37 :: rest))
    (hpre : ∀ kR, ∀ q ∈ Gen.prods.take 2 ++ ⟨"RATIO", some 40, ratioRe kR⟩ :: (Gen.prods.drop 3).take 3,
      matchProd q st.prev (c :: s) = none) :
    step Gen.tables cfg st =
      some { emit := some ⟨"PERCENTAGE", num ++ [37], st.line, st.col⟩, raw := num ++ [37],
             st := advance st (num ++ [37]) } := by
  obtain ⟨kR, X, hlay, -⟩ := gen_number_layout
  rw [hcs] at hres
  have hpre0 := hpre kR
  have hdim : matchProd ⟨"DIMENSION", none, .seq numRe (identRe X)⟩ st.prev (c :: s) = none :=
    matchProd_none_of_ms_nil _ _ _ (num_then_nil (c :: s) _ hres (identRe X)
      (ident_nil X _ (by simp [identStart, nameStart, isNmStart]))
      (fun x post hx => ident_nil X _ (identStart_digit_dot x post hx)))
  have hm : matchProd ⟨"PERCENTAGE", none, .seq numRe pctR⟩ st.prev (c :: s) = some rest :=
    matchProd_some_of_head _ rfl _ _ _ (num_then_head (c :: s) _ rest hres pctR (by
      rw [test_pct.pos (by rfl)]; rfl))
  have hT : Gen.tables.prods = ((Gen.prods.take 2 ++ ⟨"RATIO", some 40, ratioRe kR⟩ :: (Gen.prods.drop 3).take 3) ++
      [⟨"DIMENSION", none, .seq numRe (identRe X)⟩]) ++ ⟨"PERCENTAGE", none, .seq numRe pctR⟩ ::
      (⟨"NUMBER", none, numRe⟩ :: Gen.prods.drop 9) := by
    show Gen.prods = _
    rw [List.append_assoc]; exact hlay
  have := step_of_prefix_none Gen.tables cfg hfs st c s (hr.trans hcs) hfast _ _ _ hT
    (by
      intro q hq
      rcases List.mem_append.mp hq with h | h
      · exact hpre0 q h
      · simp only [List.mem_cons, List.not_mem_nil, or_false] at h
        subst h
        exact hdim)
    rest hm (Or.inl rfl)
  rw [this, finish_plain Gen.tables cfg hfs hdc st "PERCENTAGE" _ _ gen_num_escaped.2.1 (by decide)]
  have : c :: s = (num ++ [37]) ++ rest := by rw [← hcs]; simp
  rw [this, consumed_append_right]

/-- DIMENSION with an escape-free unit -/
theorem dimension_core (num : Text) (m : Bool) (u : Nat) (us rest : Text) (c : Nat) (s : Text)
    (hnb : NoBs num) (hu : isNmStart u = true) (hus : ∀ x ∈ us, isNmChar x = true) (hrest : NameStop rest)
    (hcs : num ++ (identLex m u us ++ rest) = c :: s)
    (hfast : Gen.tables.fastChars.contains c = false) (hr : st.rest = num ++ (identLex m u us ++ rest))
    (hres : NumRes (ms numRe (num ++ (identLex m u us ++ rest))) (identLex m u us ++ rest))
    (hpre : ∀ kR, ∀ q ∈ Gen.prods.take 2 ++ ⟨"RATIO", some 40, ratioRe kR⟩ :: (Gen.prods.drop 3).take 3,
      matchProd q st.prev (c :: s) = none) :
    step Gen.tables cfg st =
      some { emit := some ⟨"DIMENSION", num ++ identLex m u us, st.line, st.col⟩,
             raw := num ++ identLex m u us, st := advance st (num ++ identLex m u us) } := by
  obtain ⟨kR, X, hlay, -⟩ := gen_number_layout
  rw [hcs] at hres
  have hpre0 := hpre kR
  have hm : matchProd ⟨"DIMENSION", none, .seq numRe (identRe X)⟩ st.prev (c :: s) = some rest :=
    matchProd_some_of_head _ rfl _ _ _ (num_then_head (c :: s) _ rest hres (identRe X) (by
      rw [ms_ident X m u us rest hu hus hrest]; exact backoffs_head us rest))
  have := step_of_prefix_none Gen.tables cfg hfs st c s (hr.trans hcs) hfast _ _ _ hlay
    hpre0 rest hm (Or.inl rfl)
  have hfound : consumed (c :: s) rest = num ++ identLex m u us := by
    have : c :: s = (num ++ identLex m u us) ++ rest := by rw [← hcs]; simp
    rw [this, consumed_append_right]
  rw [this, hfound, finish_escfree Gen.tables gen_backslashOnly cfg hfs hdc st "DIMENSION" _ _ gen_num_escaped.2.2
    (by decide) (NoBs_append hnb (identLex_nobs m u us hu hus))]

/-- **NUMBER.** An unsigned numeric lexeme `[0-9]+` or `[0-9]*\.[0-9]+` of any length, followed by any
text that cannot continue it (`numStop`), is one NUMBER token whose value is the lexeme.  After an
*integer* two more side conditions are needed, both read off the table: the text must not continue
with `.digit` (the decimal alternative of the number expression is tried first and would match
more), and RATIO `(?<!\()\s*[0-9]+\s*/\s*[0-9]+(?=\))`, which precedes NUMBER, must not apply — here:
the previous character is `(` or the text after optional whitespace does not continue with `/`. -/
theorem classify_number (num rest : Text) (hnum : NumLex num) (hstop : numStop rest = true)
    (hint : 46 ∈ num ∨ (dotDigit rest = false ∧ (st.prev = some 40 ∨ noSlash rest = true)))
    (hr : st.rest = num ++ rest) :
    step Gen.tables cfg st =
      some { emit := some ⟨"NUMBER", num, st.line, st.col⟩, raw := num, st := advance st num } := by
  obtain ⟨hid, hdig, hpct⟩ := numStop_spec hstop
  obtain ⟨c, s, hcs, hc⟩ := hnum.start rest
  refine number_core cfg hfs hdc st num rest c s hcs (gen_numStarts_not_fast c hc) hr
    (hnum.res rest hdig (hint.imp id And.left))
    (unsigned_prefix c s st.prev hc (hcs ▸ hnum.noRatio rest st.prev hdig ?_)) hid hpct
  rcases hint with h | ⟨_, h | h⟩
  · exact Or.inl h
  · exact Or.inr (Or.inl h)
  · exact Or.inr (Or.inr (noSlash_spec h))

/-- **PERCENTAGE.** A numeric lexeme followed by `%` is one PERCENTAGE token, whatever follows. -/
theorem classify_percentage (num rest : Text) (hnum : NumLex num) (hr : st.rest = num ++ 37 :: rest) :
    step Gen.tables cfg st =
      some { emit := some ⟨"PERCENTAGE", num ++ [37], st.line, st.col⟩, raw := num ++ [37],
             st := advance st (num ++ [37]) } := by
  obtain ⟨c, s, hcs, hc⟩ := hnum.start (37 :: rest)
  obtain ⟨hres, hratio⟩ := hnum.facts_of_head st.prev 37 rest (by decide) (by decide) (by decide) (by decide)
  exact percentage_core cfg hfs hdc st num rest c s hcs (gen_numStarts_not_fast c hc) hr hres
    (unsigned_prefix c s st.prev hc (hcs ▸ hratio))

/-- **DIMENSION.** A numeric lexeme followed by an escape-free unit `-?{nmstart}{nmchar}*` and then any
text that does not start with a name character or a backslash is one DIMENSION token. -/
theorem classify_dimension (num : Text) (m : Bool) (u : Nat) (us rest : Text) (hnum : NumLex num)
    (hu : isNmStart u = true) (hus : ∀ x ∈ us, isNmChar x = true) (hrest : NameStop rest)
    (hr : st.rest = num ++ (identLex m u us ++ rest)) :
    step Gen.tables cfg st =
      some { emit := some ⟨"DIMENSION", num ++ identLex m u us, st.line, st.col⟩,
             raw := num ++ identLex m u us, st := advance st (num ++ identLex m u us) } := by
  obtain ⟨c, s, hcs, hc⟩ := hnum.start (identLex m u us ++ rest)
  obtain ⟨x, post, hxp, h1, h2, h3, h4, _⟩ := identLex_head m u us rest hu
  have := hnum.facts_of_head st.prev x post h1 h2 h3 h4
  rw [← hxp] at this
  exact dimension_core cfg hfs hdc st num m u us rest c s hnum.nobs hu hus hrest hcs
    (gen_numStarts_not_fast c hc) hr this.1 (unsigned_prefix c s st.prev hc (hcs ▸ this.2))

end

/-- projection used in the examples: type and value of the token of one step -/
def tokOf (r : Option Res) : Option (String × Text) := r.bind (fun r => r.emit.map (fun t => (t.typ, t.val)))

/-! the side conditions of `classify_number` are needed (kernel-checked on the regenerated table) -/
/-- `1` followed by `/2)` is not a NUMBER: RATIO takes `1/2` -/
example : tokOf (step Gen.tables ⟨false, true⟩ ⟨none, [49, 47, 50, 41], 1, 1⟩) = some ("RATIO", [49, 47, 50]) := by decide
/-- … unless the previous character is `(` -/
example : tokOf (step Gen.tables ⟨false, true⟩ ⟨some 40, [49, 47, 50, 41], 1, 1⟩) = some ("NUMBER", [49]) := by decide
/-- `1` followed by `.5` is the NUMBER `1.5` -/
example : tokOf (step Gen.tables ⟨false, true⟩ ⟨none, [49, 46, 53], 1, 1⟩) = some ("NUMBER", [49, 46, 53]) := by decide
/-- `1` followed by `e3` is a DIMENSION (no exponents in this grammar), `1` followed by `-x` too -/
example : tokOf (step Gen.tables ⟨false, true⟩ ⟨none, [49, 101, 51], 1, 1⟩) = some ("DIMENSION", [49, 101, 51]) := by decide
example : tokOf (step Gen.tables ⟨false, true⟩ ⟨none, [49, 45, 120], 1, 1⟩) = some ("DIMENSION", [49, 45, 120]) := by decide

/-! non-vacuity: `12.5px;`, `12.5;`, `12 ;`, `.5%x`, `007` at the end of the text -/
example : step Gen.tables ⟨false, true⟩ ⟨none, [49, 50, 46, 53, 112, 120, 59], 1, 1⟩ =
    some { emit := some ⟨"DIMENSION", [49, 50, 46, 53, 112, 120], 1, 1⟩, raw := [49, 50, 46, 53, 112, 120],
           st := advance ⟨none, [49, 50, 46, 53, 112, 120, 59], 1, 1⟩ [49, 50, 46, 53, 112, 120] } :=
  classify_dimension ⟨false, true⟩ rfl rfl _ [49, 50, 46, 53] false 112 [120] [59]
    (.dec [49, 50] 53 [] (by decide) (by decide) (by decide)) (by decide) (by decide) (by decide) rfl
example : tokOf (step Gen.tables ⟨false, true⟩ ⟨none, [49, 50, 46, 53, 112, 120, 59], 1, 1⟩)
    = some ("DIMENSION", [49, 50, 46, 53, 112, 120]) := by decide
example : step Gen.tables ⟨false, true⟩ ⟨none, [49, 50, 46, 53, 59], 1, 1⟩ =
    some { emit := some ⟨"NUMBER", [49, 50, 46, 53], 1, 1⟩, raw := [49, 50, 46, 53],
           st := advance ⟨none, [49, 50, 46, 53, 59], 1, 1⟩ [49, 50, 46, 53] } :=
  classify_number ⟨false, true⟩ rfl rfl _ [49, 50, 46, 53] [59]
    (.dec [49, 50] 53 [] (by decide) (by decide) (by decide)) (by decide) (Or.inl (by decide)) rfl
example : step Gen.tables ⟨false, true⟩ ⟨none, [49, 50, 32, 59], 1, 1⟩ =
    some { emit := some ⟨"NUMBER", [49, 50], 1, 1⟩, raw := [49, 50],
           st := advance ⟨none, [49, 50, 32, 59], 1, 1⟩ [49, 50] } :=
  classify_number ⟨false, true⟩ rfl rfl _ [49, 50] [32, 59]
    (.int 49 [50] (by decide) (by decide)) (by decide) (Or.inr ⟨by decide, Or.inr (by decide)⟩) rfl
example : step Gen.tables ⟨false, true⟩ ⟨some 58, [48, 48, 55], 3, 9⟩ =
    some { emit := some ⟨"NUMBER", [48, 48, 55], 3, 9⟩, raw := [48, 48, 55],
           st := advance ⟨some 58, [48, 48, 55], 3, 9⟩ [48, 48, 55] } :=
  classify_number ⟨false, true⟩ rfl rfl _ [48, 48, 55] []
    (.int 48 [48, 55] (by decide) (by decide)) (by decide) (Or.inr ⟨by decide, Or.inr (by decide)⟩) rfl
example : step Gen.tables ⟨false, true⟩ ⟨none, [46, 53, 37, 120], 1, 1⟩ =
    some { emit := some ⟨"PERCENTAGE", [46, 53, 37], 1, 1⟩, raw := [46, 53, 37],
           st := advance ⟨none, [46, 53, 37, 120], 1, 1⟩ [46, 53, 37] } :=
  classify_percentage ⟨false, true⟩ rfl rfl _ [46, 53] [120]
    (.dec [] 53 [] (by decide) (by decide) (by decide)) rfl

/-! ## escape-free names: IDENT, FUNCTION, HASH, ATKEYWORD (lexemes of any length) -/

/-- obligation on the regenerated table: the first six productions are S `{s}+`, URI `U R L \( …`
(each letter an alternation of the two cases and backslash escapes), RATIO, UNICODE-RANGE `U \+ …`,
IDENT `-?{nmstart}{nmchar}*` and FUNCTION `-?{nmstart}{nmchar}*\(` -/
theorem gen_ident_layout : ∃ a b c kU kR a' kUR X,
    Gen.prods = ⟨"S", none, sRe⟩ :: ⟨"URI", none, .seq a (.seq b (.seq c (.seq lparR kU)))⟩ ::
      ⟨"RATIO", some 40, ratioRe kR⟩ :: ⟨"UNICODE-RANGE", none, .seq a' (.seq plusR kUR)⟩ ::
      ⟨"IDENT", none, identRe X⟩ :: ⟨"FUNCTION", none, funcRe X⟩ :: Gen.prods.drop 6 ∧
    letterOK a 85 117 = true ∧ letterOK b 82 114 = true ∧ letterOK c 76 108 = true ∧
    letterOK a' 85 117 = true :=
  ⟨_, _, _, _, _, _, _, _, rfl, by decide, by decide, by decide, by decide⟩

theorem gen_fast_not_name : Gen.tables.fastChars.all (fun f => !isNmChar f) = true := by decide
theorem gen_name_escaped : Gen.tables.escTypes.contains "IDENT" = true ∧
    Gen.tables.escTypes.contains "FUNCTION" = true ∧ Gen.tables.escTypes.contains "HASH" = true ∧
    Gen.tables.escTypes.contains "ATKEYWORD" = false := by decide

theorem not_fast_of_nmchar {x : Nat} (h : isNmChar x = true) : Gen.tables.fastChars.contains x = false := by
  cases hc : Gen.tables.fastChars.contains x with
  | false => rfl
  | true =>
    have hm : x ∈ Gen.tables.fastChars := by simpa using hc
    have := List.all_eq_true.mp gen_fast_not_name x hm
    simp [h] at this

/-- S, URI, RATIO and UNICODE-RANGE do not match an escape-free identifier followed by a non-name
character, except `url(` and `u+` -/
theorem name_prefix_none (a b c kU kR a' kUR : Re) (ha : letterOK a 85 117 = true)
    (hb : letterOK b 82 114 = true) (hc : letterOK c 76 108 = true) (ha' : letterOK a' 85 117 = true)
    (prev : Option Nat) (m : Bool) (u : Nat) (us rest : Text) (hu : isNmStart u = true)
    (hus : ∀ x ∈ us, isNmChar x = true) (hrest : NameStop rest)
    (hurl : lowerT (identLex m u us) = [117, 114, 108] → ∀ d ∈ rest.head?, (d == 40) = false)
    (hplus : lowerT (identLex m u us) = [117] → ∀ d ∈ rest.head?, (d == 43) = false) :
    ∀ q ∈ [(⟨"S", none, sRe⟩ : Prod), ⟨"URI", none, .seq a (.seq b (.seq c (.seq lparR kU)))⟩,
        ⟨"RATIO", some 40, ratioRe kR⟩, ⟨"UNICODE-RANGE", none, .seq a' (.seq plusR kUR)⟩],
      matchProd q prev (identLex m u us ++ rest) = none := by
  obtain ⟨x, post, hxp, h1, _, _, h4, _⟩ := identLex_head m u us rest hu
  have hrun := identLex_nmchars m u us hu hus
  intro q hq
  simp only [List.mem_cons, List.not_mem_nil, or_false] at hq
  rcases hq with rfl | rfl | rfl | rfl
  · apply matchProd_none_of_ms_nil
    rw [hxp]
    exact test_ws.seq_stop _ _ (by intro d hd; simp at hd; subst hd; exact h4)
  · exact matchProd_none_of_ms_nil _ _ _ (uri_nil a b c kU ha hb hc _ rest hrun hrest hurl)
  · apply matchProd_none_of_ms_nil
    rw [hxp]
    exact ratio_nil_of_not_digit kR _ (by intro d hd; simp at hd; subst hd; exact ⟨h1, h4⟩)
  · exact matchProd_none_of_ms_nil _ _ _ (urange_nil a' kUR ha' _ rest hrun hrest hplus)

/-- the text after an identifier cannot continue it and does not make it a FUNCTION: not a name
character, not a backslash, not `(` -/
def identStop : Text → Bool
  | d :: _ => !isNmChar d && d != 92 && d != 40
  | [] => true

theorem identStop_spec {rest : Text} (h : identStop rest = true) :
    NameStop rest ∧ (rest.head? == some 40) = false := by
  cases rest with
  | nil => exact ⟨(by intro d hd; cases hd), rfl⟩
  | cons x r =>
    simp only [identStop, Bool.and_eq_true, Bool.not_eq_true', bne_iff_ne, ne_eq] at h
    refine ⟨?_, by simpa using h.2⟩
    intro d hd
    simp at hd; subst hd
    exact ⟨h.1.1, h.1.2⟩

/-- obligation on the regenerated table: HASH is `#{nmchar}+`, ATKEYWORD is `@-?{nmstart}{nmchar}*`, and
no earlier production can start with `#` resp. `@` -/
theorem gen_hash_at : ∃ X,
    findProd Gen.tables.prods "HASH" = some ⟨"HASH", none, hashRe X⟩ ∧
    findProd Gen.tables.prods "ATKEYWORD" = some ⟨"ATKEYWORD", none, atRe X⟩ ∧
    earlierCannotStart Gen.tables "HASH" 35 = true ∧ earlierCannotStart Gen.tables "ATKEYWORD" 64 = true :=
  ⟨_, rfl, rfl, by decide, by decide⟩

theorem gen_simpleescapes_bs : startsWithBackslash Gen.tables.simpleescapes = true := by decide

theorem normalize_nobs (T : Tables) (h : startsWithBackslash T.simpleescapes = true) (t : Text)
    (hnb : NoBs t) : normalize T t = lowerT t := by
  simp only [normalize, reSub_id _ h _ _ _ hnb]

/-- what `finish` does for an escape-free at-keyword: known keywords get their own token type -/
theorem finish_at (cfg : Cfg) (hfs : cfg.fullsheet = false) (hdc : cfg.doComments = true) (st : St)
    (found rem : Text) (hnb : NoBs found)
    (hcs : ¬ (found = atCharset ∧ hasAt (st.rest.drop found.length) [32] = true)) :
    finish Gen.tables cfg st "ATKEYWORD" found rem =
      { emit := some ⟨(lookupKw Gen.atkeywords (lowerT found)).getD "ATKEYWORD", found, st.line, st.col⟩,
        raw := found, st := advance st found } := by
  have hesc : ¬ "ATKEYWORD" ∈ Gen.tables.escTypes := by decide
  have hnorm := normalize_nobs Gen.tables gen_simpleescapes_bs found hnb
  have hT : Gen.tables.atkeywords = Gen.atkeywords := rfl
  simp only [finish, finishName, hfs, Bool.false_eq_true, if_false, finishVal, List.contains_iff_mem, hesc,
    beq_self_eq_true, if_true, unicodeSub_id Gen.tables gen_backslashOnly found hnb, hnorm, hT, hdc, Bool.true_or]
  cases hl : lookupKw Gen.atkeywords (lowerT found) with
  | some sym => simp
  | none =>
    have : (found == atCharset && hasAt (List.drop found.length st.rest) [32]) = false := by
      cases h1 : (found == atCharset) with
      | false => rfl
      | true =>
        cases h2 : hasAt (List.drop found.length st.rest) [32] with
        | false => rfl
        | true => exact absurd ⟨by simpa using h1, h2⟩ hcs
    simp [this]

section
variable (cfg : Cfg) (hfs : cfg.fullsheet = false) (hdc : cfg.doComments = true) (st : St)
include hfs hdc

/-- **IDENT.** An escape-free identifier `-?{nmstart}{nmchar}*` of any length (name characters are
ASCII letters, digits, `_`, `-` and every non-ASCII code point), followed by any text that does not
start with a name character, a backslash or `(`, is one IDENT token whose value is the lexeme.  One
more side condition is read off the table: the identifier `u`/`U` must not be followed by `+`
(UNICODE-RANGE precedes IDENT). -/
theorem classify_ident (m : Bool) (u : Nat) (us rest : Text) (hu : isNmStart u = true)
    (hus : ∀ x ∈ us, isNmChar x = true) (hstop : identStop rest = true)
    (hplus : lowerT (identLex m u us) = [117] → rest.head? ≠ some 43)
    (hr : st.rest = identLex m u us ++ rest) :
    step Gen.tables cfg st =
      some { emit := some ⟨"IDENT", identLex m u us, st.line, st.col⟩, raw := identLex m u us,
             st := advance st (identLex m u us) } := by
  obtain ⟨a, b, c, kU, kR, a', kUR, X, hlay, ha, hb, hc, ha'⟩ := gen_ident_layout
  obtain ⟨hrest, hpar⟩ := identStop_spec hstop
  obtain ⟨x, post, hxp, -⟩ := identLex_head m u us rest hu
  have hx : isNmChar x = true := identLex_nmchars m u us hu hus x (by
    have : x ∈ identLex m u us ++ rest := by rw [hxp]; simp
    rcases List.mem_append.mp this with h | h
    · exact h
    · cases m <;> simp [identLex] at hxp <;> simp [hxp.1, identLex])
  have hpre := name_prefix_none a b c kU kR a' kUR ha hb hc ha' st.prev m u us rest hu hus hrest
    (fun _ d hd => by
      have : rest.head? = some d := by simpa using hd
      rw [this] at hpar; simpa using hpar)
    (fun h d hd => by
      have : rest.head? = some d := by simpa using hd
      have := hplus h
      simp_all)
  have hm : matchProd ⟨"IDENT", none, identRe X⟩ st.prev (identLex m u us ++ rest) = some rest :=
    matchProd_some_of_head _ rfl _ _ _ (by rw [ms_ident X m u us rest hu hus hrest]; exact backoffs_head us rest)
  rw [hxp] at hpre hm
  have := step_of_prefix_none Gen.tables cfg hfs st x post (hr.trans hxp) (not_fast_of_nmchar hx)
    [_, _, _, _] _ _ hlay hpre rest hm (Or.inr hpar)
  rw [this, ← hxp, consumed_append_right,
    finish_escfree Gen.tables gen_backslashOnly cfg hfs hdc st "IDENT" _ _ gen_name_escaped.1 (by decide)
      (identLex_nobs m u us hu hus)]

/-- **FUNCTION.** An escape-free identifier followed by `(` is one FUNCTION token (value: identifier
and parenthesis), whatever follows — except for two names, both read off the tokenizer: `url` (any
case; URI precedes FUNCTION and `url(` may start a URI) and `and` (any case; the tokenizer keeps
`and` as an IDENT when `(` follows). -/
theorem classify_function (m : Bool) (u : Nat) (us rest : Text) (hu : isNmStart u = true)
    (hus : ∀ x ∈ us, isNmChar x = true)
    (hurl : lowerT (identLex m u us) ≠ [117, 114, 108]) (hand : lowerT (identLex m u us) ≠ [97, 110, 100])
    (hr : st.rest = identLex m u us ++ 40 :: rest) :
    step Gen.tables cfg st =
      some { emit := some ⟨"FUNCTION", identLex m u us ++ [40], st.line, st.col⟩,
             raw := identLex m u us ++ [40], st := advance st (identLex m u us ++ [40]) } := by
  obtain ⟨a, b, c, kU, kR, a', kUR, X, hlay, ha, hb, hc, ha'⟩ := gen_ident_layout
  have hrest : NameStop (40 :: rest) := by intro d hd; simp at hd; subst hd; decide
  obtain ⟨x, post, hxp, -⟩ := identLex_head m u us (40 :: rest) hu
  have hx : isNmChar x = true := identLex_nmchars m u us hu hus x (by
    cases m <;> simp [identLex] at hxp <;> simp [hxp.1, identLex])
  have hpre := name_prefix_none a b c kU kR a' kUR ha hb hc ha' st.prev m u us (40 :: rest) hu hus hrest
    (fun h => absurd h hurl) (fun _ d hd => by simp at hd; subst hd; rfl)
  have hmi : matchProd ⟨"IDENT", none, identRe X⟩ st.prev (identLex m u us ++ 40 :: rest) = some (40 :: rest) :=
    matchProd_some_of_head _ rfl _ _ _ (by
      rw [ms_ident X m u us (40 :: rest) hu hus hrest]; exact backoffs_head us _)
  have hm : matchProd ⟨"FUNCTION", none, funcRe X⟩ st.prev (identLex m u us ++ 40 :: rest) = some rest :=
    matchProd_some_of_head _ rfl _ _ _ (by rw [ms_func X m u us rest hu hus]; rfl)
  have hT : Gen.tables.prods = [⟨"S", none, sRe⟩, ⟨"URI", none, .seq a (.seq b (.seq c (.seq lparR kU)))⟩,
      ⟨"RATIO", some 40, ratioRe kR⟩, ⟨"UNICODE-RANGE", none, .seq a' (.seq plusR kUR)⟩,
      ⟨"IDENT", none, identRe X⟩] ++ ⟨"FUNCTION", none, funcRe X⟩ :: Gen.prods.drop 6 := hlay
  have hskip : ∀ q ∈ [(⟨"S", none, sRe⟩ : Prod), ⟨"URI", none, .seq a (.seq b (.seq c (.seq lparR kU)))⟩,
      ⟨"RATIO", some 40, ratioRe kR⟩, ⟨"UNICODE-RANGE", none, .seq a' (.seq plusR kUR)⟩,
      ⟨"IDENT", none, identRe X⟩], Skipped st q := by
    intro q hq
    rw [show [(⟨"S", none, sRe⟩ : Prod), ⟨"URI", none, .seq a (.seq b (.seq c (.seq lparR kU)))⟩,
      ⟨"RATIO", some 40, ratioRe kR⟩, ⟨"UNICODE-RANGE", none, .seq a' (.seq plusR kUR)⟩,
      ⟨"IDENT", none, identRe X⟩] = [(⟨"S", none, sRe⟩ : Prod), ⟨"URI", none, .seq a (.seq b (.seq c (.seq lparR kU)))⟩,
      ⟨"RATIO", some 40, ratioRe kR⟩, ⟨"UNICODE-RANGE", none, .seq a' (.seq plusR kUR)⟩] ++
      [⟨"IDENT", none, identRe X⟩] from rfl] at hq
    rcases List.mem_append.mp hq with h | h
    · left; rw [hr]; exact hpre q h
    · simp only [List.mem_cons, List.not_mem_nil, or_false] at h
      subst h
      right
      refine ⟨40 :: rest, by rw [hr]; exact hmi, ?_⟩
      rw [hr, consumed_append_right]
      simp [hand]
  rw [hxp] at hm
  have := step_of_prefix_skip Gen.tables cfg hfs st x post (hr.trans hxp) (not_fast_of_nmchar hx)
    _ _ _ hT hskip rest hm (Or.inl rfl)
  have hfound : consumed (x :: post) rest = identLex m u us ++ [40] := by
    have : x :: post = (identLex m u us ++ [40]) ++ rest := by rw [← hxp]; simp
    rw [this, consumed_append_right]
  rw [this, hfound,
    finish_escfree Gen.tables gen_backslashOnly cfg hfs hdc st "FUNCTION" _ _ gen_name_escaped.2.1 (by decide)
      (NoBs_append (identLex_nobs m u us hu hus) (by intro c hc; simp at hc; omega))]

/-- **HASH.** `#` and a run of name characters (of any length, escape-free), followed by any text that
does not start with a name character or a backslash, is one HASH token. -/
theorem classify_hash (n : Nat) (ns rest : Text) (hn : isNmChar n = true)
    (hns : ∀ x ∈ ns, isNmChar x = true) (hrest : NameStop rest)
    (hr : st.rest = 35 :: n :: (ns ++ rest)) :
    step Gen.tables cfg st =
      some { emit := some ⟨"HASH", 35 :: n :: ns, st.line, st.col⟩, raw := 35 :: n :: ns,
             st := advance st (35 :: n :: ns) } := by
  obtain ⟨X, hfind, -, he, -⟩ := gen_hash_at
  have hm : matchProd ⟨"HASH", none, hashRe X⟩ st.prev (35 :: n :: (ns ++ rest)) = some rest :=
    matchProd_some_of_head _ rfl _ _ _ (by rw [ms_hash X n ns rest hn hns hrest]; exact backoffs_head ns rest)
  have := step_classify' Gen.tables cfg hfs st 35 (n :: (ns ++ rest)) hr (by decide) "HASH" (by decide) he _ hfind
    rest hm
  have hfound : consumed (35 :: n :: (ns ++ rest)) rest = 35 :: n :: ns :=
    consumed_append_right (35 :: n :: ns) rest
  rw [this, hfound,
    finish_escfree Gen.tables gen_backslashOnly cfg hfs hdc st "HASH" _ _ gen_name_escaped.2.2.1 (by decide)
      (by
        intro c hc
        rcases List.mem_cons.mp hc with rfl | hc
        · decide
        · rcases List.mem_cons.mp hc with rfl | hc
          · exact (nmchar_facts hn).1
          · exact (nmchar_facts (hns c hc)).1)]

/-- **ATKEYWORD.** `@` and an escape-free identifier, followed by any text that does not start with a
name character or a backslash, is one token whose value is the lexeme and whose type is the keyword's
own symbol (`IMPORT_SYM`, `MEDIA_SYM`, …, looked up case-insensitively in the regenerated keyword
table) or `ATKEYWORD` for an unknown keyword.  Side condition read off the tokenizer: `@charset`
(this exact spelling) followed by a space is the CHARSET_SYM token `@charset ` instead. -/
theorem classify_atkeyword (m : Bool) (u : Nat) (us rest : Text) (hu : isNmStart u = true)
    (hus : ∀ x ∈ us, isNmChar x = true) (hrest : NameStop rest)
    (hcs : 64 :: identLex m u us = atCharset → rest.head? ≠ some 32)
    (hr : st.rest = 64 :: (identLex m u us ++ rest)) :
    step Gen.tables cfg st =
      some { emit := some ⟨(lookupKw Gen.atkeywords (lowerT (64 :: identLex m u us))).getD "ATKEYWORD",
                           64 :: identLex m u us, st.line, st.col⟩,
             raw := 64 :: identLex m u us, st := advance st (64 :: identLex m u us) } := by
  obtain ⟨X, -, hfind, -, he⟩ := gen_hash_at
  have hm : matchProd ⟨"ATKEYWORD", none, atRe X⟩ st.prev (64 :: (identLex m u us ++ rest)) = some rest :=
    matchProd_some_of_head _ rfl _ _ _ (by rw [ms_at X m u us rest hu hus hrest]; exact backoffs_head us rest)
  have := step_classify' Gen.tables cfg hfs st 64 (identLex m u us ++ rest) hr (by decide) "ATKEYWORD" (by decide)
    he _ hfind rest hm
  have hfound : consumed (64 :: (identLex m u us ++ rest)) rest = 64 :: identLex m u us :=
    consumed_append_right (64 :: identLex m u us) rest
  rw [this, hfound]
  apply congrArg some
  apply finish_at cfg hfs hdc st
  · intro c hc
    rcases List.mem_cons.mp hc with rfl | hc
    · decide
    · exact identLex_nobs m u us hu hus c hc
  · rintro ⟨h1, h2⟩
    apply hcs h1
    have : List.drop (64 :: identLex m u us).length st.rest = rest := by
      rw [hr]
      show List.drop ((64 :: identLex m u us).length) ((64 :: identLex m u us) ++ rest) = rest
      simp
    rw [this] at h2
    cases rest with
    | nil => simp [hasAt] at h2
    | cons d r =>
      have : 32 = d := by simpa [hasAt] using h2
      simp [this]

end

/-! the side conditions of the name theorems are needed (kernel-checked on the regenerated table) -/
/-- `u` followed by `+1` is a UNICODE-RANGE -/
example : tokOf (step Gen.tables ⟨false, true⟩ ⟨none, [117, 43, 49], 1, 1⟩) = some ("UNICODE-RANGE", [117, 43, 49]) := by decide
/-- an identifier followed by `(` is a FUNCTION, not an IDENT -/
example : tokOf (step Gen.tables ⟨false, true⟩ ⟨none, [97, 40], 1, 1⟩) = some ("FUNCTION", [97, 40]) := by decide
/-- … but `and(` is the IDENT `and`, and `url()` is a URI -/
example : tokOf (step Gen.tables ⟨false, true⟩ ⟨none, [65, 110, 100, 40], 1, 1⟩) = some ("IDENT", [65, 110, 100]) := by decide
example : tokOf (step Gen.tables ⟨false, true⟩ ⟨none, [117, 82, 108, 40, 41], 1, 1⟩) = some ("URI", [117, 82, 108, 40, 41]) := by decide
/-- `@charset` followed by a space is CHARSET_SYM including the space -/
example : tokOf (step Gen.tables ⟨false, true⟩ ⟨none, [64, 99, 104, 97, 114, 115, 101, 116, 32], 1, 1⟩)
    = some ("CHARSET_SYM", [64, 99, 104, 97, 114, 115, 101, 116, 32]) := by decide

/-! non-vacuity: `-moz-box;`, `été ` (non-ASCII), `u+` excluded but `u ` fine, `rgb(0`, `#fff;`, `@media `, `@foo{` -/
example : step Gen.tables ⟨false, true⟩ ⟨none, [45, 109, 111, 122, 45, 98, 111, 120, 59], 1, 1⟩ =
    some { emit := some ⟨"IDENT", [45, 109, 111, 122, 45, 98, 111, 120], 1, 1⟩, raw := [45, 109, 111, 122, 45, 98, 111, 120],
           st := advance ⟨none, [45, 109, 111, 122, 45, 98, 111, 120, 59], 1, 1⟩ [45, 109, 111, 122, 45, 98, 111, 120] } :=
  classify_ident ⟨false, true⟩ rfl rfl _ true 109 [111, 122, 45, 98, 111, 120] [59] (by decide) (by decide)
    (by decide) (by decide) rfl
example : step Gen.tables ⟨false, true⟩ ⟨some 32, [233, 116, 233, 32], 2, 5⟩ =
    some { emit := some ⟨"IDENT", [233, 116, 233], 2, 5⟩, raw := [233, 116, 233],
           st := advance ⟨some 32, [233, 116, 233, 32], 2, 5⟩ [233, 116, 233] } :=
  classify_ident ⟨false, true⟩ rfl rfl _ false 233 [116, 233] [32] (by decide) (by decide)
    (by decide) (by decide) rfl
example : step Gen.tables ⟨false, true⟩ ⟨none, [117, 32], 1, 1⟩ =
    some { emit := some ⟨"IDENT", [117], 1, 1⟩, raw := [117], st := advance ⟨none, [117, 32], 1, 1⟩ [117] } :=
  classify_ident ⟨false, true⟩ rfl rfl _ false 117 [] [32] (by decide) (by decide) (by decide) (by decide) rfl
example : step Gen.tables ⟨false, true⟩ ⟨none, [114, 103, 98, 40, 48], 1, 1⟩ =
    some { emit := some ⟨"FUNCTION", [114, 103, 98, 40], 1, 1⟩, raw := [114, 103, 98, 40],
           st := advance ⟨none, [114, 103, 98, 40, 48], 1, 1⟩ [114, 103, 98, 40] } :=
  classify_function ⟨false, true⟩ rfl rfl _ false 114 [103, 98] [48] (by decide) (by decide) (by decide)
    (by decide) rfl
example : step Gen.tables ⟨false, true⟩ ⟨none, [35, 102, 102, 102, 59], 1, 1⟩ =
    some { emit := some ⟨"HASH", [35, 102, 102, 102], 1, 1⟩, raw := [35, 102, 102, 102],
           st := advance ⟨none, [35, 102, 102, 102, 59], 1, 1⟩ [35, 102, 102, 102] } :=
  classify_hash ⟨false, true⟩ rfl rfl _ 102 [102, 102] [59] (by decide) (by decide) (by decide) rfl
example : step Gen.tables ⟨false, true⟩ ⟨none, [64, 77, 101, 100, 105, 97, 32], 1, 1⟩ =
    some { emit := some ⟨"MEDIA_SYM", [64, 77, 101, 100, 105, 97], 1, 1⟩, raw := [64, 77, 101, 100, 105, 97],
           st := advance ⟨none, [64, 77, 101, 100, 105, 97, 32], 1, 1⟩ [64, 77, 101, 100, 105, 97] } :=
  classify_atkeyword ⟨false, true⟩ rfl rfl _ false 77 [101, 100, 105, 97] [32] (by decide) (by decide)
    (by decide) (by decide) rfl
example : step Gen.tables ⟨false, true⟩ ⟨none, [64, 102, 111, 111, 123], 1, 1⟩ =
    some { emit := some ⟨"ATKEYWORD", [64, 102, 111, 111], 1, 1⟩, raw := [64, 102, 111, 111],
           st := advance ⟨none, [64, 102, 111, 111, 123], 1, 1⟩ [64, 102, 111, 111] } :=
  classify_atkeyword ⟨false, true⟩ rfl rfl _ false 102 [111, 111] [123] (by decide) (by decide)
    (by decide) (by decide) rfl

/-! ## CDC -/

/-- obligation on the regenerated table: before CDC `-->` there are four productions that cannot start
with `-`, then IDENT and FUNCTION `-?{nmstart}…`, DIMENSION, PERCENTAGE, NUMBER (number expression
first), then eleven productions that cannot start with `-` -/
theorem gen_cdc_layout : ∃ X K1 K2 K3 K4,
    Gen.prods = (Gen.prods.take 4 ++
      [⟨"IDENT", none, .seq (.opt minusR) (.seq (nmstartRe X) K1)⟩,
       ⟨"FUNCTION", none, .seq (.opt minusR) (.seq (nmstartRe X) K2)⟩,
       ⟨"DIMENSION", none, .seq numRe K3⟩, ⟨"PERCENTAGE", none, .seq numRe K4⟩, ⟨"NUMBER", none, numRe⟩] ++
      (Gen.prods.drop 9).take 11) ++
      ⟨"CDC", none, .seq minusR (.seq minusR (.cls false [(62, 62)]))⟩ :: Gen.prods.drop 21 ∧
    (Gen.prods.take 4 ++ (Gen.prods.drop 9).take 11).all (fun q => !canStart q.re 45) = true :=
  ⟨_, _, _, _, _, rfl, by decide⟩

theorem gen_CDC_not_escaped : Gen.tables.escTypes.contains "CDC" = false := by decide

/-- **CDC.** `-->` is one CDC token, whatever follows. -/
theorem classify_cdc (cfg : Cfg) (hfs : cfg.fullsheet = false) (hdc : cfg.doComments = true) (st : St)
    (rest : Text) (hr : st.rest = 45 :: 45 :: 62 :: rest) :
    step Gen.tables cfg st =
      some { emit := some ⟨"CDC", [45, 45, 62], st.line, st.col⟩, raw := [45, 45, 62],
             st := advance st [45, 45, 62] } := by
  obtain ⟨X, K1, K2, K3, K4, hlay, hall⟩ := gen_cdc_layout
  have hcs := all_cannot_start _ 45 hall st.prev (45 :: 62 :: rest)
  have hid : identStart (45 :: 45 :: 62 :: rest) = false := by simp [identStart, nameStart, isNmStart]
  have hnum : ms numRe (45 :: 45 :: 62 :: rest) = [] :=
    num_nil_sign 45 _ (by decide) (by intro d hd; simp at hd; subst hd; exact ⟨rfl, rfl⟩)
  have hm : matchProd ⟨"CDC", none, .seq minusR (.seq minusR (.cls false [(62, 62)]))⟩ st.prev
      (45 :: 45 :: 62 :: rest) = some rest :=
    matchProd_some_of_head _ rfl _ _ _ (by
      rw [ms_seq_single _ _ _ _ (test_minus.pos (by rfl) _), ms_seq_single _ _ _ _ (test_minus.pos (by rfl) _),
        (isTest_cls false [(62, 62)]).pos (by decide)]
      rfl)
  have := step_of_prefix_none Gen.tables cfg hfs st 45 (45 :: 62 :: rest) hr (by decide) _ _ _ hlay
    (by
      intro q hq
      rcases List.mem_append.mp hq with h | h
      · rcases List.mem_append.mp h with h | h
        · exact hcs q (List.mem_append_left _ h)
        · simp only [List.mem_cons, List.not_mem_nil, or_false] at h
          rcases h with rfl | rfl | rfl | rfl | rfl
          · exact matchProd_none_of_ms_nil _ _ _ (minus_nmstart_nil X K1 _ hid)
          · exact matchProd_none_of_ms_nil _ _ _ (minus_nmstart_nil X K2 _ hid)
          · exact matchProd_none_of_ms_nil _ _ _ (ms_seq_nil_left _ _ _ hnum)
          · exact matchProd_none_of_ms_nil _ _ _ (ms_seq_nil_left _ _ _ hnum)
          · exact matchProd_none_of_ms_nil _ _ _ hnum
      · exact hcs q (List.mem_append_right _ h))
    rest hm (Or.inl rfl)
  rw [this, finish_plain Gen.tables cfg hfs hdc st "CDC" _ _ gen_CDC_not_escaped (by decide)]
  have : consumed (45 :: 45 :: 62 :: rest) rest = [45, 45, 62] := consumed_append_right [45, 45, 62] rest
  rw [this]

example : step Gen.tables ⟨false, true⟩ ⟨none, [45, 45, 62, 45], 1, 1⟩ =
    some { emit := some ⟨"CDC", [45, 45, 62], 1, 1⟩, raw := [45, 45, 62],
           st := advance ⟨none, [45, 45, 62, 45], 1, 1⟩ [45, 45, 62] } :=
  classify_cdc ⟨false, true⟩ rfl rfl _ [45] rfl

/-! ## comments -/

/-- obligation on the regenerated table: COMMENT is `\/\*[^*]*\*+([^/*][^*]*\*+)*\/`, no earlier
production can start with `/`, and comment values go through the `\hex` rewrite like names -/
theorem gen_comment :
    findProd Gen.tables.prods "COMMENT" = some ⟨"COMMENT", none, commentRe⟩ ∧
    earlierCannotStart Gen.tables "COMMENT" 47 = true ∧ Gen.tables.escTypes.contains "COMMENT" = true :=
  ⟨rfl, by decide, by decide⟩

/-- the comment lexeme with the given body -/
def commentLex (body : Text) : Text := 47 :: 42 :: (body ++ [42, 47])

/-- **COMMENT.** `/*`, a body of any length that does not contain `*/`, and `*/` is one COMMENT token,
whatever follows.  Its raw text is the lexeme; its *value* is the lexeme after the tokenizer's `\hex`
rewrite (COMMENT is among the escaped token types of the table), so it equals the lexeme when the
body has no backslash (`classify_comment_plain`). -/
theorem classify_comment (cfg : Cfg) (hfs : cfg.fullsheet = false) (hdc : cfg.doComments = true) (st : St)
    (body rest : Text) (hbody : noClose body = true) (hr : st.rest = commentLex body ++ rest) :
    step Gen.tables cfg st =
      some { emit := some ⟨"COMMENT", unicodeSub Gen.tables (commentLex body), st.line, st.col⟩,
             raw := commentLex body, st := advance st (commentLex body) } := by
  obtain ⟨hfind, he, hesc⟩ := gen_comment
  have hs : commentLex body ++ rest = 47 :: 42 :: (body ++ 42 :: 47 :: rest) := by simp [commentLex]
  have hm : matchProd ⟨"COMMENT", none, commentRe⟩ st.prev (47 :: 42 :: (body ++ 42 :: 47 :: rest)) = some rest :=
    matchProd_some_of_head _ rfl _ _ _ (by rw [ms_comment body rest hbody]; rfl)
  have := step_classify' Gen.tables cfg hfs st 47 (42 :: (body ++ 42 :: 47 :: rest)) (hr.trans hs) (by decide)
    "COMMENT" (by decide) he _ hfind rest hm
  rw [this, ← hs, consumed_append_right]
  have hesc' : "COMMENT" ∈ Gen.tables.escTypes := by simpa using hesc
  simp [finish, finishName, finishVal, hfs, hdc, hesc']

theorem classify_comment_plain (cfg : Cfg) (hfs : cfg.fullsheet = false) (hdc : cfg.doComments = true)
    (st : St) (body rest : Text) (hbody : noClose body = true) (hnb : NoBs body)
    (hr : st.rest = commentLex body ++ rest) :
    step Gen.tables cfg st =
      some { emit := some ⟨"COMMENT", commentLex body, st.line, st.col⟩,
             raw := commentLex body, st := advance st (commentLex body) } := by
  rw [classify_comment cfg hfs hdc st body rest hbody hr, unicodeSub_id Gen.tables gen_backslashOnly]
  intro c hc
  simp only [commentLex, List.mem_cons, List.mem_append, List.not_mem_nil, or_false] at hc
  rcases hc with rfl | rfl | h | rfl | rfl
  · decide
  · decide
  · exact hnb c h
  · decide
  · decide

/-- the value of a comment is rewritten: `/*\41 */` has value `/*A*/` -/
example : tokOf (step Gen.tables ⟨false, true⟩ ⟨none, [47, 42, 92, 52, 49, 32, 42, 47], 1, 1⟩)
    = some ("COMMENT", [47, 42, 65, 42, 47]) := by decide
/-- a body containing `*/` ends the comment early -/
example : tokOf (step Gen.tables ⟨false, true⟩ ⟨none, [47, 42, 42, 47, 42, 47], 1, 1⟩)
    = some ("COMMENT", [47, 42, 42, 47]) := by decide

/-! non-vacuity: `/* a**b/ **/x` and the empty comment `/**/` -/
example : step Gen.tables ⟨false, true⟩ ⟨none, [47, 42, 32, 97, 42, 42, 98, 47, 32, 42, 42, 47, 120], 1, 1⟩ =
    some { emit := some ⟨"COMMENT", [47, 42, 32, 97, 42, 42, 98, 47, 32, 42, 42, 47], 1, 1⟩,
           raw := [47, 42, 32, 97, 42, 42, 98, 47, 32, 42, 42, 47],
           st := advance ⟨none, [47, 42, 32, 97, 42, 42, 98, 47, 32, 42, 42, 47, 120], 1, 1⟩
             [47, 42, 32, 97, 42, 42, 98, 47, 32, 42, 42, 47] } :=
  classify_comment_plain ⟨false, true⟩ rfl rfl _ [32, 97, 42, 42, 98, 47, 32, 42] [120] (by decide) (by decide) rfl
example : step Gen.tables ⟨false, true⟩ ⟨none, [47, 42, 42, 47], 1, 1⟩ =
    some { emit := some ⟨"COMMENT", [47, 42, 42, 47], 1, 1⟩, raw := [47, 42, 42, 47],
           st := advance ⟨none, [47, 42, 42, 47], 1, 1⟩ [47, 42, 42, 47] } :=
  classify_comment_plain ⟨false, true⟩ rfl rfl _ [] [] (by decide) (by decide) rfl

/-! ## escape-free strings -/

/-- obligation on the regenerated table: STRING is `"([^\n\r\f\\"]|\…)*"|'([^\n\r\f\\']|\…)*'`, it is the
first production that can start with a quote, and string values are rewritten only at backslashes -/
theorem gen_string : ∃ A B,
    findProd Gen.tables.prods "STRING" = some ⟨"STRING", none, stringRe A B⟩ ∧
    earlierCannotStart Gen.tables "STRING" 34 = true ∧ earlierCannotStart Gen.tables "STRING" 39 = true ∧
    Gen.tables.escTypes.contains "STRING" = true :=
  ⟨_, _, rfl, by decide, by decide, by decide⟩

/-- **STRING.** A quote (`"` or `'`), a body of any length without newline characters (`\n`, `\r`,
`\f`), backslash or that quote, and the same quote again, is one STRING token whose value is the
lexeme, whatever follows. -/
theorem classify_string (cfg : Cfg) (hfs : cfg.fullsheet = false) (hdc : cfg.doComments = true) (st : St)
    (q : Nat) (hq : q = 34 ∨ q = 39) (body rest : Text) (hbody : ∀ c ∈ body, isStrChar q c = true)
    (hr : st.rest = q :: (body ++ q :: rest)) :
    step Gen.tables cfg st =
      some { emit := some ⟨"STRING", q :: (body ++ [q]), st.line, st.col⟩, raw := q :: (body ++ [q]),
             st := advance st (q :: (body ++ [q])) } := by
  obtain ⟨A, B, hfind, he34, he39, hesc⟩ := gen_string
  have hm : matchProd ⟨"STRING", none, stringRe A B⟩ st.prev (q :: (body ++ q :: rest)) = some rest := by
    apply matchProd_some_of_head _ rfl
    rcases hq with rfl | rfl
    · rw [ms_string_dq A B body rest hbody]; rfl
    · rw [ms_string_sq A B body rest hbody]; rfl
  have hfast : Gen.tables.fastChars.contains q = false := by rcases hq with rfl | rfl <;> decide
  have he : earlierCannotStart Gen.tables "STRING" q = true := by rcases hq with rfl | rfl <;> assumption
  have := step_classify' Gen.tables cfg hfs st q (body ++ q :: rest) hr hfast "STRING" (by decide) he _ hfind
    rest hm
  have hfound : consumed (q :: (body ++ q :: rest)) rest = q :: (body ++ [q]) := by
    have : q :: (body ++ q :: rest) = (q :: (body ++ [q])) ++ rest := by simp
    rw [this, consumed_append_right]
  have hnb : NoBs (q :: (body ++ [q])) := by
    have hq92 : q ≠ 92 := by rcases hq with rfl | rfl <;> decide
    intro c hc
    simp only [List.mem_cons, List.mem_append, List.not_mem_nil, or_false] at hc
    rcases hc with rfl | h | rfl
    · exact hq92
    · have := hbody c h
      simp only [isStrChar, Bool.and_eq_true, bne_iff_ne, ne_eq] at this
      exact this.1.2
    · exact hq92
  have hesc' : "STRING" ∈ Gen.tables.escTypes := by simpa using hesc
  rw [this, hfound]
  simp [finish, finishName, finishVal, hfs, hdc, hesc', unicodeSub_id Gen.tables gen_backslashOnly _ hnb,
    cleanString_id Gen.tables gen_backslashOnly _ hnb]

/-! non-vacuity: `"a 'b'";` and the empty string `''` -/
example : step Gen.tables ⟨false, true⟩ ⟨none, [34, 97, 32, 39, 98, 39, 34, 59], 1, 1⟩ =
    some { emit := some ⟨"STRING", [34, 97, 32, 39, 98, 39, 34], 1, 1⟩, raw := [34, 97, 32, 39, 98, 39, 34],
           st := advance ⟨none, [34, 97, 32, 39, 98, 39, 34, 59], 1, 1⟩ [34, 97, 32, 39, 98, 39, 34] } :=
  classify_string ⟨false, true⟩ rfl rfl _ 34 (Or.inl rfl) [97, 32, 39, 98, 39] [59] (by decide) rfl
example : step Gen.tables ⟨false, true⟩ ⟨none, [39, 39], 1, 1⟩ =
    some { emit := some ⟨"STRING", [39, 39], 1, 1⟩, raw := [39, 39],
           st := advance ⟨none, [39, 39], 1, 1⟩ [39, 39] } :=
  classify_string ⟨false, true⟩ rfl rfl _ 39 (Or.inr rfl) [] [] (by decide) rfl
/-- a newline in the body makes it an INVALID token instead -/
example : tokOf (step Gen.tables ⟨false, true⟩ ⟨none, [34, 97, 10, 34], 1, 1⟩) = some ("INVALID", [34, 97]) := by decide

/-! ## CDO -/

/-- **CDO.** `<!--` is one CDO token, whatever follows (the production is the four-character literal and
nothing earlier can start with `<`: both re-checked on the regenerated table). -/
theorem classify_cdo (cfg : Cfg) (hfs : cfg.fullsheet = false) (hdc : cfg.doComments = true) (st : St)
    (rest : Text) (hr : st.rest = 60 :: 33 :: 45 :: 45 :: rest) :
    step Gen.tables cfg st =
      some { emit := some ⟨"CDO", [60, 33, 45, 45], st.line, st.col⟩, raw := [60, 33, 45, 45],
             st := advance st [60, 33, 45, 45] } := by
  have hfind : findProd Gen.tables.prods "CDO" = some ⟨"CDO", none,
      .seq (.cls false [(60, 60)]) (.seq (.cls false [(33, 33)]) (.seq (.cls false [(45, 45)]) (.cls false [(45, 45)])))⟩ := rfl
  have hm : matchProd ⟨"CDO", none,
      .seq (.cls false [(60, 60)]) (.seq (.cls false [(33, 33)]) (.seq (.cls false [(45, 45)]) (.cls false [(45, 45)])))⟩
      st.prev (60 :: 33 :: 45 :: 45 :: rest) = some rest :=
    matchProd_some_of_head _ rfl _ _ _ (by simp [ms, clsMatch, inRanges])
  have := step_classify' Gen.tables cfg hfs st 60 (33 :: 45 :: 45 :: rest) hr (by decide) "CDO" (by decide)
    (by decide) _ hfind rest hm
  rw [this, finish_plain Gen.tables cfg hfs hdc st "CDO" _ _ (by decide) (by decide)]
  have : consumed (60 :: 33 :: 45 :: 45 :: rest) rest = [60, 33, 45, 45] :=
    consumed_append_right [60, 33, 45, 45] rest
  rw [this]

/-! ## signed numbers, percentages, dimensions -/

/-- obligation on the regenerated table: productions 4–6 are one that cannot start with a sign, then
IDENT and FUNCTION `-?{nmstart}…`; the first two productions cannot start with a sign either; signs are
not on the fast path -/
theorem gen_signed_layout : ∃ ur X K1 K2,
    (Gen.prods.drop 3).take 3 = [ur, ⟨"IDENT", none, .seq (.opt minusR) (.seq (nmstartRe X) K1)⟩,
      ⟨"FUNCTION", none, .seq (.opt minusR) (.seq (nmstartRe X) K2)⟩] ∧
    (∀ x ∈ [43, 45], (ur :: Gen.prods.take 2).all (fun q => !canStart q.re x) = true) ∧
    (∀ x ∈ [43, 45], Gen.tables.fastChars.contains x = false) :=
  ⟨_, _, _, _, rfl, by decide, by decide⟩

theorem sign_mem {x : Nat} (hx : isSign x = true) : x ∈ [43, 45] := by
  simp only [isSign, Bool.or_eq_true, decide_eq_true_eq] at hx
  simp; omega

/-- the productions before DIMENSION do not match a signed numeric text -/
theorem signed_prefix (x : Nat) (hx : isSign x = true) (num t : Text) (hnum : NumLex num)
    (prev : Option Nat) :
    ∀ kR, ∀ q ∈ Gen.prods.take 2 ++ ⟨"RATIO", some 40, ratioRe kR⟩ :: (Gen.prods.drop 3).take 3,
      matchProd q prev (x :: (num ++ t)) = none := by
  obtain ⟨ur, X, K1, K2, hmid, hall, -⟩ := gen_signed_layout
  have hcs := all_cannot_start _ x (hall x (sign_mem hx)) prev (num ++ t)
  have hid := identStart_sign_num hnum x hx t
  intro kR q hq
  rw [hmid] at hq
  rcases List.mem_append.mp hq with h | h
  · exact hcs q (List.mem_cons_of_mem _ h)
  · simp only [List.mem_cons, List.not_mem_nil, or_false] at h
    rcases h with rfl | rfl | rfl | rfl
    · apply matchProd_none_of_ms_nil
      apply ratio_nil_of_not_digit
      intro d hd
      simp at hd; subst hd
      simp only [isSign, Bool.or_eq_true, decide_eq_true_eq] at hx
      simp [isDigit, isWsC]; omega
    · exact hcs _ List.mem_cons_self
    · exact matchProd_none_of_ms_nil _ _ _ (minus_nmstart_nil X K1 _ hid)
    · exact matchProd_none_of_ms_nil _ _ _ (minus_nmstart_nil X K2 _ hid)

section
variable (cfg : Cfg) (hfs : cfg.fullsheet = false) (hdc : cfg.doComments = true) (st : St)
include hfs hdc

/-- **NUMBER with a sign.** `+` or `-`, then an unsigned numeric lexeme, followed by a text that cannot
continue it, is one NUMBER token.  RATIO cannot start at a sign, so after an integer only the
`.digit` condition remains. -/
theorem classify_number_signed (x : Nat) (hx : isSign x = true) (num rest : Text) (hnum : NumLex num)
    (hstop : numStop rest = true) (hint : 46 ∈ num ∨ dotDigit rest = false)
    (hr : st.rest = x :: (num ++ rest)) :
    step Gen.tables cfg st =
      some { emit := some ⟨"NUMBER", x :: num, st.line, st.col⟩, raw := x :: num,
             st := advance st (x :: num) } := by
  obtain ⟨hid, hdig, hpct⟩ := numStop_spec hstop
  obtain ⟨_, _, _, _, _, _, hfast⟩ := gen_signed_layout
  exact number_core cfg hfs hdc st (x :: num) rest x (num ++ rest) rfl (hfast x (sign_mem hx)) hr
    (hnum.res_signed x hx rest hdig hint) (signed_prefix x hx num rest hnum st.prev) hid hpct

/-- **PERCENTAGE with a sign.** -/
theorem classify_percentage_signed (x : Nat) (hx : isSign x = true) (num rest : Text) (hnum : NumLex num)
    (hr : st.rest = x :: (num ++ 37 :: rest)) :
    step Gen.tables cfg st =
      some { emit := some ⟨"PERCENTAGE", x :: (num ++ [37]), st.line, st.col⟩, raw := x :: (num ++ [37]),
             st := advance st (x :: (num ++ [37])) } := by
  obtain ⟨_, _, _, _, _, _, hfast⟩ := gen_signed_layout
  exact percentage_core cfg hfs hdc st (x :: num) rest x (num ++ 37 :: rest) rfl (hfast x (sign_mem hx)) hr
    (hnum.res_signed_of_head x hx 37 rest (by decide) (by decide))
    (signed_prefix x hx num (37 :: rest) hnum st.prev)

/-- **DIMENSION with a sign.** -/
theorem classify_dimension_signed (x : Nat) (hx : isSign x = true) (num : Text) (m : Bool) (u : Nat)
    (us rest : Text) (hnum : NumLex num) (hu : isNmStart u = true) (hus : ∀ y ∈ us, isNmChar y = true)
    (hrest : NameStop rest) (hr : st.rest = x :: (num ++ (identLex m u us ++ rest))) :
    step Gen.tables cfg st =
      some { emit := some ⟨"DIMENSION", x :: (num ++ identLex m u us), st.line, st.col⟩,
             raw := x :: (num ++ identLex m u us), st := advance st (x :: (num ++ identLex m u us)) } := by
  obtain ⟨_, _, _, _, _, _, hfast⟩ := gen_signed_layout
  obtain ⟨y, post, hyp, h1, h2, -⟩ := identLex_head m u us rest hu
  have hres := hnum.res_signed_of_head x hx y post h1 h2
  rw [← hyp] at hres
  have hnb : NoBs (x :: num) := by
    intro c hc
    rcases List.mem_cons.mp hc with rfl | hc
    · simp only [isSign, Bool.or_eq_true, decide_eq_true_eq] at hx; omega
    · exact hnum.nobs c hc
  exact dimension_core cfg hfs hdc st (x :: num) m u us rest x (num ++ (identLex m u us ++ rest)) hnb hu hus
    hrest rfl (hfast x (sign_mem hx)) hr hres (signed_prefix x hx num _ hnum st.prev)

end

/-! non-vacuity: `-0.5em}`, `+10%`, `-3 ` -/
example : step Gen.tables ⟨false, true⟩ ⟨some 58, [45, 48, 46, 53, 101, 109, 125], 1, 1⟩ =
    some { emit := some ⟨"DIMENSION", [45, 48, 46, 53, 101, 109], 1, 1⟩, raw := [45, 48, 46, 53, 101, 109],
           st := advance ⟨some 58, [45, 48, 46, 53, 101, 109, 125], 1, 1⟩ [45, 48, 46, 53, 101, 109] } :=
  classify_dimension_signed ⟨false, true⟩ rfl rfl _ 45 (by decide) [48, 46, 53] false 101 [109] [125]
    (.dec [48] 53 [] (by decide) (by decide) (by decide)) (by decide) (by decide) (by decide) rfl
example : step Gen.tables ⟨false, true⟩ ⟨none, [43, 49, 48, 37], 1, 1⟩ =
    some { emit := some ⟨"PERCENTAGE", [43, 49, 48, 37], 1, 1⟩, raw := [43, 49, 48, 37],
           st := advance ⟨none, [43, 49, 48, 37], 1, 1⟩ [43, 49, 48, 37] } :=
  classify_percentage_signed ⟨false, true⟩ rfl rfl _ 43 (by decide) [49, 48] []
    (.int 49 [48] (by decide) (by decide)) rfl
example : step Gen.tables ⟨false, true⟩ ⟨none, [45, 51, 32], 1, 1⟩ =
    some { emit := some ⟨"NUMBER", [45, 51], 1, 1⟩, raw := [45, 51],
           st := advance ⟨none, [45, 51, 32], 1, 1⟩ [45, 51] } :=
  classify_number_signed ⟨false, true⟩ rfl rfl _ 45 (by decide) [51] [32]
    (.int 51 [] (by decide) (by decide)) (by decide) (Or.inr (by decide)) rfl
/-- a signed integer before `/2)` is a NUMBER (RATIO has no sign) -/
example : tokOf (step Gen.tables ⟨false, true⟩ ⟨none, [45, 49, 47, 50, 41], 1, 1⟩) = some ("NUMBER", [45, 49]) := by decide

end CssVerif.C09
