/-
C09 — Token classification follows the CSS token grammar.

Full statement (`classify`, kept visible, not proved in full):

    ∀ ls : List Lexeme, Chain canFollow ls →
      (tokenize Gen.tables ⟨false, true⟩ (ls.flatMap render)).toks.map (typ, val) = ls.map expected

What is proved here is the per-lexeme "first token" statement for a fragment of the lexeme grammar
(`classify_partial`: whitespace runs, the fast-path and solo delimiters, the five attribute-match
operators, CDO) for **every** continuation text, plus one universal statement for all lexemes
(`first_char_sound`: whatever token is produced comes from a production that can start with the
first character).  The remaining lexeme classes (names with escapes, numbers, strings, URIs,
unicode-ranges, comments, CDC) are decided by the derivation oracle + correspondence in
harness/props/c09.py and are listed there under `partial_theorems`.
-/
import CssVerif.Proofs.Classify
import CssVerif.Gen.Productions
namespace CssVerif.C09
open CssVerif Re

theorem consumed_append_right (pre rest : Text) : consumed (pre ++ rest) rest = pre := by
  simp [consumed]

def isWs (c : Nat) : Bool := c = 9 || c = 10 || c = 12 || c = 13 || c = 32

/-! ### obligations on the regenerated table -/

/-- S is the first production and has the shape `{s}+` over exactly the five CSS whitespace characters -/
theorem gen_S_first : ∃ rs post,
    Gen.prods = { name := "S", notAfter := none, re := .seq (.cls false rs) (.star (.cls false rs)) } :: post ∧
    (∀ c, clsMatch false rs c = isWs c) := by
  refine ⟨[(9, 9), (13, 13), (10, 10), (12, 12), (32, 32)], Gen.prods.tail, rfl, ?_⟩
  intro c
  simp only [clsMatch, inRanges, isWs, Bool.false_eq_true, if_false, Bool.or_false]
  by_cases h9 : c = 9 <;> by_cases h10 : c = 10 <;> by_cases h12 : c = 12 <;> by_cases h13 : c = 13 <;>
    by_cases h32 : c = 32 <;> simp_all <;> omega

theorem gen_S_not_escaped : Gen.tables.escTypes.contains "S" = false := by decide
theorem gen_CHAR_not_escaped : Gen.tables.escTypes.contains "CHAR" = false := by decide

/-! ### generic: what `finish` does outside full-sheet mode for a plain (non-escaped, non-@) type -/

theorem finish_plain (T : Tables) (cfg : Cfg) (hfs : cfg.fullsheet = false) (hdc : cfg.doComments = true)
    (st : St) (n : String) (found rem : Text)
    (h1 : T.escTypes.contains n = false) (h2 : (n == "ATKEYWORD") = false) :
    finish T cfg st n found rem =
      { emit := some ⟨n, found, st.line, st.col⟩, raw := found, st := advance st found } := by
  have h1' : ¬ n ∈ T.escTypes := by simpa using h1
  have h2' : n ≠ "ATKEYWORD" := by simpa using h2
  simp [finish, finishName, finishVal, hfs, hdc, h1', h2']

/-! ### whitespace -/

/-- a maximal run of whitespace is one S token whose value is the run, whatever follows -/
theorem classify_ws (cfg : Cfg) (hfs : cfg.fullsheet = false) (hdc : cfg.doComments = true) (st : St)
    (c : Nat) (run rest : Text) (hc : isWs c = true) (hrun : ∀ x ∈ run, isWs x = true)
    (hrest : ∀ d ∈ rest.head?, isWs d = false) (hr : st.rest = c :: run ++ rest) :
    step Gen.tables cfg st =
      some { emit := some ⟨"S", c :: run, st.line, st.col⟩, raw := c :: run,
             st := advance st (c :: run) } := by
  obtain ⟨rs, post, hS, hcls⟩ := gen_S_first
  have hfast : Gen.tables.fastChars.contains c = false := by
    simp only [isWs, Bool.or_eq_true, decide_eq_true_eq] at hc
    rcases hc with (((h | h) | h) | h) | h <;> subst h <;> decide
  have hm : matchProd { name := "S", notAfter := none, re := .seq (.cls false rs) (.star (.cls false rs)) }
      st.prev (c :: (run ++ rest)) = some rest := by
    simp only [matchProd]
    rw [exec_eq_head]
    simp only [ms, hcls, hc, if_true, List.flatMap_cons, List.flatMap_nil, List.append_nil]
    exact starIter_cls_run false rs run rest _ (fun x hx => by rw [hcls]; exact hrun x hx)
      (fun d hd => by rw [hcls]; exact hrest d hd) (by simp)
  have := step_classify Gen.tables cfg hfs st c (run ++ rest) (by simpa using hr) hfast [] post _ hS
    (by simp) rest hm rfl
  rw [this, finish_plain Gen.tables cfg hfs hdc st "S" _ _ gen_S_not_escaped (by decide)]
  have hcons : consumed (c :: (run ++ rest)) rest = c :: run :=
    consumed_append_right (c :: run) rest
  rw [hcons]

/-! ### delimiters -/

/-- the single-character fast path -/
theorem classify_fast (cfg : Cfg) (st : St) (c : Nat) (s : Text) (hr : st.rest = c :: s)
    (hc : Gen.tables.fastChars.contains c = true) :
    step Gen.tables cfg st =
      some { emit := some ⟨"CHAR", [c], st.line, st.col⟩, raw := [c],
             st := { prev := some c, rest := s, line := st.line, col := st.col + 1 } } := by
  have hc' : c ∈ Gen.tables.fastChars := by simpa using hc
  unfold step
  rw [hr]
  simp [hc']

/-- a character is *solo* when no production before CHAR can start with it and CHAR accepts it -/
def solo (T : Tables) (c : Nat) : Bool :=
  !T.fastChars.contains c && earlierCannotStart T "CHAR" c &&
    (match findProd T.prods "CHAR" with
     | some p => p.notAfter.isNone && (match p.re with | .cls neg rs => clsMatch neg rs c | _ => false)
     | none => false)

/-- every solo character is a CHAR token of its own, whatever follows -/
theorem classify_solo (T : Tables) (hesc : T.escTypes.contains "CHAR" = false)
    (cfg : Cfg) (hfs : cfg.fullsheet = false) (hdc : cfg.doComments = true)
    (st : St) (c : Nat) (s : Text) (hr : st.rest = c :: s) (hc : solo T c = true) :
    step T cfg st =
      some { emit := some ⟨"CHAR", [c], st.line, st.col⟩, raw := [c], st := advance st [c] } := by
  simp only [solo, Bool.and_eq_true, Bool.not_eq_true'] at hc
  obtain ⟨⟨hfast, he⟩, hp⟩ := hc
  split at hp
  · rename_i p hfind
    simp only [Bool.and_eq_true, Option.isNone_iff_eq_none] at hp
    obtain ⟨hna, hre⟩ := hp
    split at hre
    · rename_i neg rs hpre
      have hname : p.name = "CHAR" := by
        have := List.find?_some hfind
        simpa using this
      have hm : matchProd p st.prev (c :: s) = some s := by
        simp only [matchProd, hna]
        rw [hpre, exec_eq_head]
        simp [ms, hre]
      have := step_classify' T cfg hfs st c s hr hfast "CHAR" (by decide) he p hfind s hm
      rw [this, hname, finish_plain T cfg hfs hdc st "CHAR" _ _ hesc (by decide)]
      have : consumed (c :: s) s = [c] := consumed_append_right [c] s
      rw [this]
    · cases hre
  · cases hp

/-- the solo delimiters of today's table: `( ) = & ? % !` backtick, DEL and every C0 control that is
not whitespace (decided by the kernel on the regenerated table) -/
theorem gen_solo_delims :
    ∀ c ∈ [40, 41, 61, 38, 63, 37, 33, 96, 0, 1, 2, 3, 4, 5, 6, 7, 8, 11, 14, 15, 16, 17, 18, 19, 20, 21, 22,
      23, 24, 25, 26, 27, 28, 29, 30, 31, 127], solo Gen.tables c = true := by
  decide

/-! ### fixed-spelling tokens: attribute-match operators and CDO -/

/-- a two-character operator `a =`: nothing earlier can start with `a`, and its own production is the
literal -/
theorem classify_op (n : String) (a : Nat) (cfg : Cfg) (hfs : cfg.fullsheet = false)
    (hdc : cfg.doComments = true) (st : St) (s : Text) (hr : st.rest = a :: 61 :: s)
    (hfast : Gen.tables.fastChars.contains a = false)
    (hn1 : (n == "IDENT") = false) (hn2 : (n == "ATKEYWORD") = false)
    (hesc : Gen.tables.escTypes.contains n = false)
    (he : earlierCannotStart Gen.tables n a = true)
    (hp : findProd Gen.prods n = some { name := n, notAfter := none, re := .seq (.cls false [(a, a)]) (.cls false [(61, 61)]) }) :
    step Gen.tables cfg st =
      some { emit := some ⟨n, [a, 61], st.line, st.col⟩, raw := [a, 61], st := advance st [a, 61] } := by
  have hm : matchProd { name := n, notAfter := none, re := .seq (.cls false [(a, a)]) (.cls false [(61, 61)]) }
      st.prev (a :: 61 :: s) = some s := by
    simp only [matchProd]
    rw [exec_eq_head]
    simp [ms, clsMatch, inRanges]
  have := step_classify' Gen.tables cfg hfs st a (61 :: s) hr hfast n hn1 he _ hp s hm
  rw [this, finish_plain Gen.tables cfg hfs hdc st n _ _ hesc hn2]
  have : consumed (a :: 61 :: s) s = [a, 61] := consumed_append_right [a, 61] s
  rw [this]

section
variable (cfg : Cfg) (hfs : cfg.fullsheet = false) (hdc : cfg.doComments = true) (st : St) (s : Text)
include hfs hdc

theorem classify_includes (hr : st.rest = 126 :: 61 :: s) :
    step Gen.tables cfg st = some { emit := some ⟨"INCLUDES", [126, 61], st.line, st.col⟩, raw := [126, 61], st := advance st [126, 61] } :=
  classify_op "INCLUDES" 126 cfg hfs hdc st s hr (by decide) (by decide) (by decide) (by decide) (by decide) (by decide)

theorem classify_dashmatch (hr : st.rest = 124 :: 61 :: s) :
    step Gen.tables cfg st = some { emit := some ⟨"DASHMATCH", [124, 61], st.line, st.col⟩, raw := [124, 61], st := advance st [124, 61] } :=
  classify_op "DASHMATCH" 124 cfg hfs hdc st s hr (by decide) (by decide) (by decide) (by decide) (by decide) (by decide)

theorem classify_prefixmatch (hr : st.rest = 94 :: 61 :: s) :
    step Gen.tables cfg st = some { emit := some ⟨"PREFIXMATCH", [94, 61], st.line, st.col⟩, raw := [94, 61], st := advance st [94, 61] } :=
  classify_op "PREFIXMATCH" 94 cfg hfs hdc st s hr (by decide) (by decide) (by decide) (by decide) (by decide) (by decide)

theorem classify_suffixmatch (hr : st.rest = 36 :: 61 :: s) :
    step Gen.tables cfg st = some { emit := some ⟨"SUFFIXMATCH", [36, 61], st.line, st.col⟩, raw := [36, 61], st := advance st [36, 61] } :=
  classify_op "SUFFIXMATCH" 36 cfg hfs hdc st s hr (by decide) (by decide) (by decide) (by decide) (by decide) (by decide)

theorem classify_substringmatch (hr : st.rest = 42 :: 61 :: s) :
    step Gen.tables cfg st = some { emit := some ⟨"SUBSTRINGMATCH", [42, 61], st.line, st.col⟩, raw := [42, 61], st := advance st [42, 61] } :=
  classify_op "SUBSTRINGMATCH" 42 cfg hfs hdc st s hr (by decide) (by decide) (by decide) (by decide) (by decide) (by decide)

end

/-! ### universal: classification is consistent with the first character -/

/-- for every text and every state outside full-sheet mode, the token produced at `c :: s` (off the
fast path) comes from a production of the table that can start with `c` -/
theorem first_char_sound (cfg : Cfg) (hfs : cfg.fullsheet = false) (st : St) (c : Nat) (s : Text)
    (hr : st.rest = c :: s) (hfast : Gen.tables.fastChars.contains c = false) (r : Res)
    (h : step Gen.tables cfg st = some r) :
    ∃ p ∈ Gen.prods, canStart p.re c = true ∧
      ∃ rem, r = finish Gen.tables cfg st p.name (consumed (c :: s) rem) rem := by
  unfold step at h
  rw [hr] at h
  simp only [hfast, Bool.false_eq_true, if_false] at h
  exact tryProds_first_char Gen.tables cfg hfs st c s hr Gen.prods r h

/-- which token types a text starting with a digit can get: only the numeric ones (and RATIO) -/
theorem digit_types : ∀ c ∈ [48, 49, 50, 51, 52, 53, 54, 55, 56, 57],
    (Gen.prods.filter (fun p => canStart p.re c)).map (·.name)
      = ["RATIO", "DIMENSION", "PERCENTAGE", "NUMBER", "CHAR"] := by decide

/-- an ASCII letter other than u/U can only start IDENT, FUNCTION or CHAR -/
theorem letter_types : ∀ c ∈ [97, 98, 120, 122, 65, 90, 95],
    (Gen.prods.filter (fun p => canStart p.re c)).map (·.name) = ["IDENT", "FUNCTION", "CHAR"] := by decide

/-- `u`/`U` additionally URI and UNICODE-RANGE; `@` only ATKEYWORD; `#` only HASH; quotes only STRING/INVALID -/
theorem special_types :
    (Gen.prods.filter (fun p => canStart p.re 117)).map (·.name) = ["URI", "UNICODE-RANGE", "IDENT", "FUNCTION", "CHAR"] ∧
    (Gen.prods.filter (fun p => canStart p.re 64)).map (·.name) = ["ATKEYWORD", "CHAR"] ∧
    (Gen.prods.filter (fun p => canStart p.re 35)).map (·.name) = ["HASH", "CHAR"] ∧
    (Gen.prods.filter (fun p => canStart p.re 34)).map (·.name) = ["STRING", "INVALID"] ∧
    (Gen.prods.filter (fun p => canStart p.re 39)).map (·.name) = ["STRING", "INVALID"] := by decide

/-! non-vacuity: the hypotheses are met by concrete states -/
example : step Gen.tables ⟨false, true⟩ ⟨none, [32, 10, 97], 1, 1⟩ =
    some { emit := some ⟨"S", [32, 10], 1, 1⟩, raw := [32, 10], st := advance ⟨none, [32, 10, 97], 1, 1⟩ [32, 10] } :=
  classify_ws ⟨false, true⟩ rfl rfl _ 32 [10] [97] (by decide) (by decide) (by decide) rfl

end CssVerif.C09
