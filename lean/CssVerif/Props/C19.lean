/-
C19 — A rejected assignment leaves the object unchanged.

`Model/SetterIR.lean` is a small exception-aware IR (stores to fields of the object, points that may raise,
calls of reject-or-commit operations, if/else, loops, returns, function scopes, `try/except: restore; raise`,
`try/finally`) with an abstract semantics `run` that bounds, per outcome kind, the set of fields that may
differ from their value at setter entry.  `Proofs/SetterIR.lean` proves it sound for the concrete
(nondeterministic, state-changing) semantics `Exec`: for programs of any size, loops of any length.

One IR program per text setter of the object model is **regenerated from the Python AST of /repo on every
run** (`harness/gen_setters.py` → `Gen/Setters.lean`), and `Disciplined` — whenever the program raises, no field
differs from its entry value — is decided on each of them by the kernel (`per_setter`).  Moving a commit in
front of a check, dropping a restore from a handler, or adding a raise point after a store changes the IR and
flips the `decide`.

Tie / validation: the classification tables of the translator (which calls are pure, which may raise, which
attribute stores run a parsing setter, which commit-phase stores cannot reject) are the trusted part; they
are printed into the evidence and validated by running every setter on invalid texts on the real objects
(raised ⇒ deep fingerprint of the object and of its owning sheet unchanged).  The same runs are the search
for a failing input when an obligation breaks.
-/
import CssVerif.Proofs.SetterIR
import CssVerif.Gen.Setters
namespace CssVerif.C19
open CssVerif.SetterIR

/-- soundness of the abstract semantics, for every program and every execution -/
theorem ir_sound {σe : State} {p : IR} {σ σ' : State} {r : Res} (h : Exec σe p σ r σ') (D : List Nat)
    (hw : Within σe σ D) : ∃ U, (run p D).get r = some U ∧ Within σe σ' U := sound h D hw

/-- a disciplined setter that raises leaves every field of the object as it was -/
theorem rejected_unchanged (p : IR) (hp : Disciplined p) (σ σ' : State) (h : Exec σ p σ .rais σ') : σ' = σ :=
  disciplined_unchanged p hp σ σ' h

/-- **every text setter of /repo is disciplined** (decided on the regenerated programs) -/
theorem per_setter : ∀ s ∈ Gen.setters, Disciplined s.2 := by decide +kernel

/-- … so whenever one of them raises, the object is unchanged -/
theorem C19 (name : String) (p : IR) (hmem : (name, p) ∈ Gen.setters) (σ σ' : State)
    (h : Exec σ p σ .rais σ') : σ' = σ :=
  rejected_unchanged p (per_setter (name, p) hmem) σ σ' h

/-- the translator covers the setters the property names -/
theorem coverage : Gen.setters.length = 26 := by decide

/-! ### the shapes of the defects repaired in the pinned snapshot are not disciplined (kernel-checked) -/

/-- commit, then a check that may raise (`Property.priority = '!foo'`, `CSSNamespaceRule.cssText`) -/
theorem snapshot_commit_then_check : ¬ Disciplined (.seq (.store 0) .raise_) := by decide

/-- fields replaced while the rest of the text is still being parsed, no restoring handler
(`CSSMediaRule.cssText`, `MarginRule.cssText`) -/
theorem snapshot_replace_then_parse :
    ¬ Disciplined (.seq (.store 0) (.seq (.loop (.alt .raise_ (.call [1]))) (.store 2))) := by decide

/-- several setters called in a row (`Property.cssText`: name, value, priority) -/
theorem snapshot_setters_in_a_row : ¬ Disciplined (.seq (.call [0]) (.call [1])) := by decide

/-- … and the repaired shapes are -/
theorem repaired_shapes :
    Disciplined (.seq .raise_ (.store 0)) ∧
    Disciplined (.tryRestore [0, 1] (.seq (.store 0) (.seq (.loop (.alt .raise_ (.call [1]))) (.store 2)))) ∧
    Disciplined (.tryRestore [0, 1] (.seq (.call [0]) (.call [1]))) := by decide

/-- non-vacuity: a concrete raising execution of a disciplined program with a restoring handler -/
example : Exec (fun _ => 0) (.tryRestore [0] (.seq (.store 0) .raise_)) (fun _ => 0) .rais
    (restore [0] (fun _ => 0) (fun g => if g = 0 then 7 else 0)) :=
  .tryR _ _ _ _ (.seqN _ _ _ (fun g => if g = 0 then 7 else 0) _ _
    (.store 0 _ _ (fun g hg => by simp at hg; simp [hg])) (.raiseR _))

end CssVerif.C19
