/-
C20 — @import loading is confined to the fetcher and tolerates its failures.

`Model/Import.lean` transcribes the decisions of `util._readUrl` (which encoding, from which source),
`CSSImportRule._setHref` (what becomes of each thing a fetcher can do) and the path algorithm of
`util.urljoin`, and states RFC 3986 5.2.4 on path segments.

Proved: the encoding is the first available of override ≻ HTTP ≻ BOM/@charset ≻ importing sheet ≻ UTF-8;
for every fetcher behaviour of the property's table (plus an unknown encoding label and a circular
import) loading ends with the rule kept and the sheet loaded or empty, never with an exception; and the
path of `urljoin(base, ref)` is the RFC's `remove_dot_segments(merge(base, ref))` for references of any
length that do not climb above the root.  The two escapes of the pinned snapshot are kept as witnesses.

Tie: `encsel` (full 3x4x3x4 table against the encoding the real imported sheet gets), `fetchout` (each behaviour
against the real parser), `urlpath` / `rfcpath` (model and RFC side against util.urljoin and a string-level
transcription of the RFC's pseudo-code).
Partial: that the fetcher is the only I/O, that nested imports resolve against the imported sheet, and
resolveImports' flattening are decided by the oracle on the implementation.
-/
import CssVerif.Proofs.Import
namespace CssVerif.C20
open CssVerif.Import

/-- documented priority of the encoding sources -/
theorem enc_priority (o h e p : Option Nat) (u : Nat) :
    (chooseEncoding o h e p u).1 = ((o.or h).or (e.or p)).getD u := choose_first o h e p u

theorem enc_source (o h e p u : Nat) :
    (chooseEncoding (some o) (some h) (some e) (some p) u).2 = .override ∧
    (chooseEncoding none (some h) (some e) (some p) u).2 = .http ∧
    (chooseEncoding none none (some e) (some p) u).2 = .content ∧
    (chooseEncoding none none none (some p) u).2 = .parent ∧
    (chooseEncoding none none none none u).2 = .default := ⟨rfl, rfl, rfl, rfl, rfl⟩

/-- an override stays an override for nested imports; the default is not handed on -/
theorem hand_on (e : Nat) :
    handOn (e, .override) = (some e, none) ∧ handOn (e, .http) = (none, some e) ∧
    handOn (e, .content) = (none, some e) ∧ handOn (e, .parent) = (none, some e) ∧ handOn (e, .default) = (none, none) :=
  ⟨rfl, rfl, rfl, rfl, rfl⟩

/-- nested imports: an override is sticky, otherwise own sources first, then the importing sheet's encoding -/
theorem enc_nested (o : Nat) (h1 e1 p1 h2 e2 : Option Nat) (u : Nat) :
    chooseNested (some o) h1 e1 p1 h2 e2 u = (o, .override) ∧
    (chooseNested none h1 e1 p1 h2 e2 u).1 = ((h2.or e2).or ((h1.or e1).or p1)).getD u :=
  ⟨nested_override o h1 e1 p1 h2 e2 u, nested_first h1 e1 p1 h2 e2 u⟩

/-- whatever the fetcher does, loading ends: loaded for text / decodable bytes, an empty sheet otherwise -/
theorem fetch_contained (f : Fetch) : setHref true f = some (if loads f then .loaded else .failedEmpty) := contained f

/-- the pinned snapshot let LookupError and RecursionError escape -/
theorem snapshot_counterexample : setHref false .unknownEncoding = none ∧ setHref false .cyclic = none := snapshot_escapes

/-- `urljoin` is RFC 3986 below the root -/
theorem urljoin_rfc (base rel : Path) (hrel : rel.head? ≠ some "")
    (segs : List String) (hsegs : (if base.getLast? == some "" then base else base.dropLast) ++ rel = "" :: segs)
    (hne : dropInnerEmpty ("" :: segs) = "" :: segs) (hclimb : noClimb 0 segs = true) :
    joinPath base rel = rfcPath ("" :: segs) := joinPath_rfc base rel hrel segs hsegs hne hclimb

/-- non-vacuity: `/d/e/s.css` + `../x/./a.css` -/
example : joinPath ["", "d", "e", "s.css"] ["..", "x", ".", "a.css"] = ["", "d", "x", "a.css"] ∧
    noClimb 0 ["d", "e", "..", "x", ".", "a.css"] = true ∧
    rfcPath ["", "d", "e", "..", "x", ".", "a.css"] = ["", "d", "x", "a.css"] := by decide

/-- where css_parser deliberately leaves the RFC: a reference climbing above the root keeps its `..` -/
theorem above_root_differs :
    joinPath ["", "s.css"] ["..", "..", "a.css"] = ["..", "a.css"] ∧ rfcPath ["", "..", "..", "a.css"] = ["", "a.css"] := by decide

end CssVerif.C20
