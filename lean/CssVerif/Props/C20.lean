/-
C20 — @import loading is confined to the fetcher and tolerates its failures.

`Model/Import.lean` transcribes the decisions of `util._readUrl` (which encoding, from which source),
`CSSImportRule._setHref` (what becomes of each thing a fetcher can do) and the path algorithm of
`util.urljoin`, and states RFC 3986 5.2.4 on path segments.

Proved: the encoding is the first available of override ≻ HTTP ≻ BOM/@charset ≻ importing sheet ≻ UTF-8;
for every fetcher behaviour of the property's table (plus an unknown encoding label and a circular
import) loading ends with the rule kept and the sheet loaded or empty, never with an exception; and the
path of `urljoin(base, ref)` is the RFC's `remove_dot_segments(merge(base, ref))` for references of any
length that do not climb above the root.  The two escapes of the pinned snapshot are kept as witnesses.

Tie: `encsel` (full 3x4x3x4 table against the encoding the real imported sheet gets), `fetchout` (each behaviour
against the real parser), `urlpath` / `rfcpath` (model and RFC side against util.urljoin and a string-level
transcription of the RFC's pseudo-code).
Partial: that the fetcher is the only I/O and that nested imports resolve against the imported sheet are
decided by the oracle on the implementation.

resolveImports (second half of this file): `Model/Resolve.lean` transcribes `css_parser.resolveImports` with
the in-order `CSSStyleSheet.add`, `_cleanNamespaces` and `CSSMediaRule.add` it runs through (tie: driver op
`resolve`, harness/props/c20r.py, random import trees against the real call).  Proved for import trees of any
depth and width: the body rules of the flat sheet are the document-order traversal of the tree
(`resolve_order`), its @import rules are exactly the unloaded ones that can bubble up plus the loaded ones
that are kept (`resolve_imports`, `resolve_unloaded_kept`), a media-restricted import ends in ONE @media
block with its query (`resolve_media_wrapped`), no loaded import is left when every restricted import
imports a plain sheet (`resolve_no_loaded_import_left`; otherwise the import is KEPT, as the docstring says),
the flat sheet is arranged [one comment] @imports, @namespaces, the rest (`resolve_arrangement`) and is a
fixed point when no loaded import is left (`resolve_idempotent`).  A media-restricted import of a sheet
whose flat sheet still holds an @import (one that could not be loaded, or a kept one) is kept as well
(`restricted_nested_unloaded_kept`; before the repair cdf8fa7 of the library this made `CSSMediaRule.add`
raise HierarchyRequestErr out of resolveImports), and HierarchyRequestErr never leaves resolveImports
(`resolve_never_hierarchy`): the only outcomes are a flat sheet or NoModificationAllowedErr
(`resolve_outcomes`).  What the property text does not say and the code does is kept as kernel-checked
witnesses: NoModificationAllowedErr when namespace prefixes clash (`namespace_clash_raises`), a second run
repeats the START comment of a kept import (`not_idempotent_when_kept`).
-/
import CssVerif.Proofs.Import
import CssVerif.Proofs.ResolveNF
namespace CssVerif.C20
open CssVerif.Import

/-- documented priority of the encoding sources -/
theorem enc_priority (o h e p : Option Nat) (u : Nat) :
    (chooseEncoding o h e p u).1 = ((o.or h).or (e.or p)).getD u := choose_first o h e p u

theorem enc_source (o h e p u : Nat) :
    (chooseEncoding (some o) (some h) (some e) (some p) u).2 = .override ∧
    (chooseEncoding none (some h) (some e) (some p) u).2 = .http ∧
    (chooseEncoding none none (some e) (some p) u).2 = .content ∧
    (chooseEncoding none none none (some p) u).2 = .parent ∧
    (chooseEncoding none none none none u).2 = .default := ⟨rfl, rfl, rfl, rfl, rfl⟩

/-- an override stays an override for nested imports; the default is not handed on -/
theorem hand_on (e : Nat) :
    handOn (e, .override) = (some e, none) ∧ handOn (e, .http) = (none, some e) ∧
    handOn (e, .content) = (none, some e) ∧ handOn (e, .parent) = (none, some e) ∧ handOn (e, .default) = (none, none) :=
  ⟨rfl, rfl, rfl, rfl, rfl⟩

/-- nested imports: an override is sticky, otherwise own sources first, then the importing sheet's encoding -/
theorem enc_nested (o : Nat) (h1 e1 p1 h2 e2 : Option Nat) (u : Nat) :
    chooseNested (some o) h1 e1 p1 h2 e2 u = (o, .override) ∧
    (chooseNested none h1 e1 p1 h2 e2 u).1 = ((h2.or e2).or ((h1.or e1).or p1)).getD u :=
  ⟨nested_override o h1 e1 p1 h2 e2 u, nested_first h1 e1 p1 h2 e2 u⟩

/-- whatever the fetcher does, loading ends: loaded for text / decodable bytes, an empty sheet otherwise -/
theorem fetch_contained (f : Fetch) : setHref true f = some (if loads f then .loaded else .failedEmpty) := contained f

/-- the pinned snapshot let LookupError and RecursionError escape -/
theorem snapshot_counterexample : setHref false .unknownEncoding = none ∧ setHref false .cyclic = none := snapshot_escapes

/-- `urljoin` is RFC 3986 below the root -/
theorem urljoin_rfc (base rel : Path) (hrel : rel.head? ≠ some "")
    (segs : List String) (hsegs : (if base.getLast? == some "" then base else base.dropLast) ++ rel = "" :: segs)
    (hne : dropInnerEmpty ("" :: segs) = "" :: segs) (hclimb : noClimb 0 segs = true) :
    joinPath base rel = rfcPath ("" :: segs) := joinPath_rfc base rel hrel segs hsegs hne hclimb

/-- non-vacuity: `/d/e/s.css` + `../x/./a.css` -/
example : joinPath ["", "d", "e", "s.css"] ["..", "x", ".", "a.css"] = ["", "d", "x", "a.css"] ∧
    noClimb 0 ["d", "e", "..", "x", ".", "a.css"] = true ∧
    rfcPath ["", "d", "e", "..", "x", ".", "a.css"] = ["", "d", "x", "a.css"] := by decide

/-- where css_parser deliberately leaves the RFC: a reference climbing above the root keeps its `..` -/
theorem above_root_differs :
    joinPath ["", "s.css"] ["..", "..", "a.css"] = ["..", "a.css"] ∧ rfcPath ["", "..", "..", "a.css"] = ["", "a.css"] := by decide


/-! ## resolveImports -/

open CssVerif.Resolve

/-- **fuel**: the nesting depth of the loaded imports is enough, more changes nothing, and the model
never runs out of it -/
theorem resolve_fuel_enough (s : Sheet) (fuel : Nat) (h : heightL s ≤ fuel) :
    resolve fuel s = resolveImports s ∧ resolveImports s ≠ .raised .fuel :=
  ⟨resolve_fuel s fuel h, resolve_fuel_never s⟩

/-- **(a) order**: the body rules (everything but @charset, @import, @namespace) of the flat sheet are,
in order, the traversal `flatBody` of the import tree: nothing lost, nothing duplicated, nothing moved -/
theorem resolve_order (s t : Sheet) (h : resolveImports s = .ok t) : t.filter Rule.isBody = flatBody s :=
  (resolve_ok s t h).2.1

/-- what `flatBody` is: document order; a loaded @import is replaced by its START comment followed by —
nothing if it is kept as a rule, else the body of its own flat sheet, in ONE @media block if restricted -/
theorem flatBody_def (r : Rule) (rs : Sheet) : flatBody [] = [] ∧ flatBody (r :: rs) =
    (match r with
     | .charset _ => [] | .ns _ _ => [] | .imp _ _ none => []
     | .imp i q (some sub) => .start i ::
        (if kept q sub then [] else if q = 0 then flatBody sub else [.media q (flatBody sub)])
     | r => [r]) ++ flatBody rs := ⟨flatBody_nil, flatBody_cons r rs⟩

/-- when a loaded @import stays a rule: it is media-restricted and the flat sheet of the imported sheet
holds something else than comments and style rules — an @namespace rule, an @import rule (an unloaded or
a kept one), or another body rule -/
theorem kept_def (q : Nat) (sub : Sheet) :
    kept q sub = (q != 0 && flatHard sub) ∧
    flatHard sub = ((sumL sub).ns || !(flatImports sub).isEmpty || (flatBody sub).any (fun x => !x.canWrap)) :=
  ⟨rfl, rfl⟩

/-- what cannot live in the @media block of a restricted import keeps the import: @namespace, @font-face,
@page, an unknown at-rule, an @media block, an @import that could not be loaded (directly or handed up by
an unrestricted import); the imported sheet's @charset is dropped and does not count; with media `all`
nothing is kept -/
example : kept 5 [.ns 0 1] = true ∧ kept 5 [.block .fontface 1] = true ∧ kept 5 [.block .page 1] = true ∧
    kept 5 [.block .unknown 1] = true ∧ kept 5 [.media 2 []] = true ∧
    kept 5 [.imp 2 0 none, .style 1 []] = true ∧ kept 5 [.imp 2 0 (some [.imp 3 0 none, .style 1 []])] = true ∧
    kept 5 [.charset 1, .comment 1, .style 1 []] = false ∧ kept 0 [.ns 0 1, .block .page 1, .media 2 []] = false ∧
    kept 0 [.imp 2 0 none] = false ∧
    resolveImports [.imp 1 0 (some [.charset 1, .ns 0 1, .block .page 1]), .style 9 []] =
      .ok [.ns 0 1, .start 1, .block .page 1, .style 9 []] := ⟨rfl, rfl, rfl, rfl, rfl, rfl, rfl, rfl, rfl, rfl, rfl⟩

/-- (a) for trees in which every import can be inlined: the naive traversal (every loaded import expanded
in place, restricted ones inside @media) -/
theorem resolve_order_inlinable (s t : Sheet) (h : resolveImports s = .ok t) (hi : inlinableL s = true) :
    t.filter Rule.isBody = expandL s := by
  rw [resolve_order s t h]; exact (inlinableL_sum s hi).1

/-- non-vacuity of `inlinableL`: a restricted import of a sheet that imports a plain sheet -/
example : inlinableL [.imp 1 5 (some [.charset 1, .imp 2 0 (some [.style 1 []]), .comment 3]), .imp 4 0 none, .style 9 []] = true ∧
    resolveImports [.imp 1 5 (some [.charset 1, .imp 2 0 (some [.style 1 []]), .comment 3]), .imp 4 0 none, .style 9 []] =
      .ok [.start 1, .imp 4 0 none, .media 5 [.start 2, .style 1 [], .comment 3], .style 9 []] := ⟨rfl, rfl⟩

/-- **(b) the @import rules of the flat sheet** are exactly `flatImports`: -/
theorem resolve_imports (s t : Sheet) (h : resolveImports s = .ok t) : t.filter Rule.isImport = flatImports s :=
  (resolve_ok s t h).1

/-- an unloaded @import stays; a loaded one stays if kept, hands up the @imports of its own flat sheet if
its media is `all` (an unloaded import inside a loaded sheet thus becomes an @import of the flat sheet, its
href unchanged), and has none to hand up if it is restricted (with one, it is kept): -/
theorem flatImports_def (r : Rule) (rs : Sheet) : flatImports (r :: rs) =
    (match r with
     | .imp i q none => [.imp i q none]
     | .imp i q (some sub) =>
        if kept q sub then [.imp i q (some sub)] else if q = 0 then flatImports sub else []
     | _ => []) ++ flatImports rs := flatImports_cons r rs

/-- **(b) every unloaded @import of the sheet is still an @import rule of the flat sheet**, in the same order -/
theorem resolve_unloaded_kept (s t : Sheet) (h : resolveImports s = .ok t) :
    (s.filter Rule.isUnloaded).Sublist t :=
  (unloaded_sublist_flatImports s).trans (by rw [← resolve_imports s t h]; exact List.filter_sublist)

/-- … and they are moved to the front: the flat sheet is at most one comment, the @imports, the
@namespace rules (no two with the same prefix or the same URI), then everything else; no @charset -/
theorem resolve_arrangement (s t : Sheet) (h : resolveImports s = .ok t) :
    (∃ c I P B, t = c ++ I ++ nsRules P ++ B ∧ (c = [] ∨ ∃ x, c = [x] ∧ x.isComment = true ∧ I ≠ []) ∧
      (∀ x ∈ I, x.isImport = true) ∧ Inj P ∧ (∀ x ∈ B, x.isBody = true)) ∧
    (∀ x ∈ t, x.isCharset = false) :=
  ⟨resolve_NF _ s t h, NF_noCharset t (resolve_NF _ s t h)⟩

/-- the real sheet `/*c0*/ @import "a"; @import "u" (not loaded); x{}`: the unloaded import is moved in
front of the START comment, behind the leading comment -/
theorem unloaded_moves_to_front :
    resolveImports [.comment 0, .imp 1 0 (some [.style 1 []]), .imp 2 0 none, .style 9 []] =
      .ok [.comment 0, .imp 2 0 none, .start 1, .style 1 [], .style 9 []] := rfl

/-- a kept import stays an @import rule of the flat sheet -/
theorem kept_mem_flatImports : ∀ (s : Sheet) (i q : Nat) (sub : Sheet), Rule.imp i q (some sub) ∈ s →
    kept q sub = true → Rule.imp i q (some sub) ∈ flatImports s
  | [], _, _, _, h, _ => by simp at h
  | r :: rs, i, q, sub, h, hk => by
    rw [flatImports_cons]
    rcases List.mem_cons.1 h with h | h
    · subst h; simp [hk]
    · exact List.mem_append_right _ (kept_mem_flatImports rs i q sub h hk)

theorem resolve_kept_stays (s t : Sheet) (i q : Nat) (sub : Sheet) (h : resolveImports s = .ok t)
    (hm : Rule.imp i q (some sub) ∈ s) (hk : kept q sub = true) : Rule.imp i q (some sub) ∈ t := by
  have := kept_mem_flatImports s i q sub hm hk
  rw [← resolve_imports s t h] at this
  exact (List.mem_filter.1 this).1

/-- **HierarchyRequestErr never leaves `resolveImports`** (the `except HierarchyRequestErr` around the
nested call and the raising `CSSMediaRule.add` are transcribed in the model; neither is reached) -/
theorem resolve_never_hierarchy (s : Sheet) : resolveImports s ≠ .raised .hierarchy := resolve_hierarchy_never s

/-- the outcomes of `resolveImports`: a flat sheet, or NoModificationAllowedErr (`namespace_clash_raises`) -/
theorem resolve_outcomes (s : Sheet) : (∃ t, resolveImports s = .ok t) ∨ resolveImports s = .raised .noModification := by
  cases h : resolveImports s with
  | ok t => exact Or.inl ⟨t, rfl⟩
  | raised e =>
    cases e with
    | hierarchy => exact absurd h (resolve_never_hierarchy s)
    | noModification => exact Or.inr rfl
    | fuel => exact absurd h (resolve_fuel_never s)

/-- **what happens to an unloaded @import inside a media-restricted loaded import**: whenever the flat
sheet of the imported sheet holds an @import rule, the restricted import is kept — it is an @import rule
of the result, with its media and its sheet, and contributes only its START comment to the body ("In
these cases the @import rule is kept as in the original sheet", docstring) -/
theorem restricted_nested_unloaded_kept (s t : Sheet) (i q : Nat) (sub : Sheet)
    (h : resolveImports s = .ok t) (hm : Rule.imp i q (some sub) ∈ s) (hq : q ≠ 0) (hu : flatImports sub ≠ []) :
    kept q sub = true ∧ Rule.imp i q (some sub) ∈ t := by
  have hk : kept q sub = true := by
    have hq' : (q != 0) = true := by simpa using hq
    have : (flatImports sub).isEmpty = false := by cases hf : flatImports sub <;> simp_all
    rw [kept_iff, flatHard_eq, hq', this]; simp
  exact ⟨hk, resolve_kept_stays s t i q sub h hm hk⟩

/-- … in particular when the imported sheet has an @import that was not loaded -/
theorem restricted_unloaded_kept (s t : Sheet) (i q : Nat) (sub : Sheet) (j p : Nat)
    (h : resolveImports s = .ok t) (hm : Rule.imp i q (some sub) ∈ s) (hq : q ≠ 0) (hu : Rule.imp j p none ∈ sub) :
    Rule.imp i q (some sub) ∈ t := by
  refine (restricted_nested_unloaded_kept s t i q sub h hm hq ?_).2
  intro he
  have := (unloaded_sublist_flatImports sub).subset (List.mem_filter.2 ⟨hu, rfl⟩)
  rw [he] at this; simp at this

/-- non-vacuity of `restricted_nested_unloaded_kept`; it needs both hypotheses: with media `all` the
unloaded import is handed up and the import dissolved, and a restricted import of a sheet without an
@import left is wrapped -/
example : Rule.imp 1 5 (some [.imp 2 0 none, .style 2 []]) ∈ [Rule.imp 1 5 (some [.imp 2 0 none, .style 2 []]), .style 9 []] ∧
    flatImports [.imp 2 0 none, .style 2 []] ≠ [] ∧
    resolveImports [.imp 1 0 (some [.imp 2 0 none, .style 2 []]), .style 9 []] =
      .ok [.start 1, .imp 2 0 none, .style 2 [], .style 9 []] ∧
    resolveImports [.imp 1 5 (some [.imp 2 0 (some [.style 3 []]), .style 2 []]), .style 9 []] =
      .ok [.start 1, .media 5 [.start 2, .style 3 [], .style 2 []], .style 9 []] := by
  refine ⟨by simp, by decide, rfl, rfl⟩

/-- the real sheet `@import "b.css" print; x{}` with b.css = `@import "n.css" (not loaded); b{}`: the
import is kept behind its START comment (HierarchyRequestErr before the repair of the library) -/
theorem restricted_nested_unloaded_witness :
    resolveImports [.imp 1 5 (some [.imp 2 0 none, .style 2 []]), .style 9 []] =
      .ok [.start 1, .imp 1 5 (some [.imp 2 0 none, .style 2 []]), .style 9 []] ∧
    -- one level down: the kept import is handed up by the unrestricted import around it
    resolveImports [.imp 0 0 (some [.imp 1 5 (some [.imp 2 0 none, .style 2 []]), .style 1 []]), .style 9 []] =
      .ok [.start 0, .imp 1 5 (some [.imp 2 0 none, .style 2 []]), .start 1, .style 1 [], .style 9 []] ∧
    -- … and makes a restricted import around it a kept one
    resolveImports [.imp 0 5 (some [.imp 1 5 (some [.imp 2 0 none, .style 2 []]), .style 1 []]), .style 9 []] =
      .ok [.start 0, .imp 0 5 (some [.imp 1 5 (some [.imp 2 0 none, .style 2 []]), .style 1 []]), .style 9 []] :=
  ⟨rfl, rfl, rfl⟩

/-- **(c) media**: a loaded import that is not kept contributes, at its place, its START comment and then
— if it is media-restricted — ONE @media block with its query holding the whole body of its flat sheet
(only comments and style rules, and that flat sheet has no @import: both are what "not kept" means); if its media is `all`, the body of
its flat sheet unwrapped, and its @imports join the @imports of the flat sheet -/
theorem resolve_media_wrapped (pre post sub t : Sheet) (i q : Nat)
    (h : resolveImports (pre ++ .imp i q (some sub) :: post) = .ok t) (hk : kept q sub = false) :
    (q ≠ 0 → t.filter Rule.isBody = flatBody pre ++ .start i :: .media q (flatBody sub) :: flatBody post ∧
      flatImports sub = [] ∧ (flatBody sub).any (fun x => !x.canWrap) = false ∧
      t.filter Rule.isImport = flatImports pre ++ flatImports post) ∧
    (q = 0 → t.filter Rule.isBody = flatBody pre ++ .start i :: (flatBody sub ++ flatBody post) ∧
      t.filter Rule.isImport = flatImports pre ++ (flatImports sub ++ flatImports post)) := by
  obtain ⟨hi, hb, _, _⟩ := resolve_ok _ t h
  have hb' : t.filter Rule.isBody = flatBody (pre ++ .imp i q (some sub) :: post) := hb
  have hi' : t.filter Rule.isImport = flatImports (pre ++ .imp i q (some sub) :: post) := hi
  rw [flatBody_append, flatBody_cons] at hb'
  rw [flatImports_append, flatImports_cons] at hi'
  simp only [hk, Bool.false_eq_true, if_false] at hb' hi'
  constructor
  · intro hq
    have hq' : (q != 0) = true := by simpa using hq
    have hhard : flatHard sub = false := by
      have := hk
      rw [kept_iff, hq', Bool.true_and] at this
      exact this
    rw [flatHard_eq, Bool.or_eq_false_iff, Bool.or_eq_false_iff] at hhard
    have hemp : flatImports sub = [] := by
      cases hf : flatImports sub with
      | nil => rfl
      | cons a l => have := hhard.1.2; rw [hf] at this; simp at this
    simp only [hq, if_false] at hb' hi'
    exact ⟨by rw [hb']; simp, hemp, hhard.2, by rw [hi']; simp⟩
  · intro hq
    simp only [hq, if_true] at hb' hi'
    exact ⟨by rw [hb']; simp, by rw [hi']⟩

/-- the block of a restricted import is the whole flat sheet of the imported sheet -/
theorem wrapped_is_flat_sheet (sub t' : Sheet) (q : Nat) (hq : q ≠ 0) (hk : kept q sub = false)
    (h : resolveImports sub = .ok t') : t' = flatBody sub := by
  obtain ⟨hi, hb, hn, hc⟩ := resolve_ok sub t' h
  have hq' : (q != 0) = true := by simpa using hq
  rw [kept_iff, hq', Bool.true_and, flatHard_eq, Bool.or_eq_false_iff, Bool.or_eq_false_iff] at hk
  have hu : flatImports sub = [] := by
    cases hf : flatImports sub with
    | nil => rfl
    | cons a l => have := hk.1.2; rw [hf] at this; simp at this
  rw [← hb]
  symm
  unfold body
  rw [List.filter_eq_self]
  intro x hx
  have h1 : x.isImport = false := by
    cases hxi : x.isImport with
    | false => rfl
    | true =>
      have : x ∈ imports t' := List.mem_filter.2 ⟨hx, hxi⟩
      rw [hi, hu] at this; simp at this
  have h2 : x.isNs = false := by
    have := hk.1.1 ▸ hn
    simp only [hasNs, List.any_eq_false] at this
    simpa using this x hx
  have h3 : x.isCharset = false := by
    simp only [hasCharset, List.any_eq_false] at hc
    simpa using hc x hx
  simp [Rule.isBody, h1, h2, h3]

example : kept 5 [.comment 1, .style 1 []] = false ∧ flatImports [.comment 1, .style 1 []] = [] ∧
    resolveImports [.comment 1, .style 1 []] = .ok (flatBody [.comment 1, .style 1 []]) := ⟨rfl, rfl, rfl⟩

/-- non-vacuity of (c), and nested restricted imports: the inner import becomes an @media block, which
makes the outer one a kept import -/
example : kept 5 [.imp 2 0 (some [.style 1 []]), .comment 3] = false ∧
    kept 5 [.imp 2 6 (some [.style 1 []])] = true ∧
    resolveImports [.imp 1 5 (some [.imp 2 6 (some [.style 1 []])]), .style 9 []] =
      .ok [.start 1, .imp 1 5 (some [.imp 2 6 (some [.style 1 []])]), .style 9 []] := ⟨rfl, rfl, rfl⟩

/-- **(d) no loaded import is left** when every media-restricted loaded import (at any depth) imports a
plain sheet: @charset, comments, style rules and loaded unrestricted imports of plain sheets -/
theorem resolve_no_loaded_import_left (s t : Sheet) (h : resolveImports s = .ok t) (hi : inlinableL s = true) :
    ∀ r ∈ t, r.isLoaded = false := by
  intro r hr
  cases hl : r.isLoaded with
  | false => rfl
  | true =>
    have himp : r.isImport = true := by cases r <;> simp [Rule.isLoaded] at hl <;> rfl
    have : r ∈ flatImports s := by
      rw [← resolve_imports s t h]; exact List.mem_filter.2 ⟨hr, himp⟩
    have hu := List.all_eq_true.1 (inlinableL_sum s hi).2 r this
    cases r <;> simp [Rule.isLoaded] at hl
    rename_i i q tg
    cases tg <;> simp [Rule.isUnloaded] at hu hl

/-- (d) needs the hypothesis: a restricted import of a sheet with @page is kept ("In these cases the
@import rule is kept as in the original sheet", docstring) -/
theorem loaded_import_left_witness :
    inlinableL [.imp 1 5 (some [.style 2 [], .block .page 1]), .style 9 []] = false ∧
    resolveImports [.imp 1 5 (some [.style 2 [], .block .page 1]), .style 9 []] =
      .ok [.start 1, .imp 1 5 (some [.style 2 [], .block .page 1]), .style 9 []] := ⟨rfl, rfl⟩

/-- **(e) idempotence**: a flat sheet without a loaded import is a fixed point -/
theorem resolve_idempotent (s t : Sheet) (h : resolveImports s = .ok t) (hl : ∀ r ∈ t, r.isLoaded = false) :
    resolveImports t = .ok t := Resolve.resolve_idempotent s t h hl

/-- non-vacuity of (e): a flat sheet with an unloaded import, a namespace and a wrapped import -/
example : resolveImports [.comment 0, .imp 1 5 (some [.style 1 []]), .imp 2 0 none, .ns 1 1, .style 9 [1]] =
      .ok [.comment 0, .imp 2 0 none, .ns 1 1, .start 1, .media 5 [.style 1 []], .style 9 [1]] ∧
    resolveImports [.comment 0, .imp 2 0 none, .ns 1 1, .start 1, .media 5 [.style 1 []], .style 9 [1]] =
      .ok [.comment 0, .imp 2 0 none, .ns 1 1, .start 1, .media 5 [.style 1 []], .style 9 [1]] := ⟨rfl, rfl⟩

theorem resolve_idempotent_inlinable (s t : Sheet) (h : resolveImports s = .ok t) (hi : inlinableL s = true) :
    resolveImports t = .ok t := Resolve.resolve_idempotent s t h (resolve_no_loaded_import_left s t h hi)

/-- (e) fails with a kept import: the second run writes its START comment again -/
theorem not_idempotent_when_kept :
    resolveImports [.imp 1 5 (some [.style 2 [], .block .page 1]), .style 9 []] =
      .ok [.start 1, .imp 1 5 (some [.style 2 [], .block .page 1]), .style 9 []] ∧
    resolveImports [.start 1, .imp 1 5 (some [.style 2 [], .block .page 1]), .style 9 []] =
      .ok [.start 1, .imp 1 5 (some [.style 2 [], .block .page 1]), .start 1, .style 9 []] := ⟨rfl, rfl⟩

/-- @namespace rules of an imported sheet (media `all`) join the target's; a declaration that clashes with
an earlier one (same prefix or same URI) displaces it, and if the displaced one is in use
NoModificationAllowedErr leaves resolveImports: `@import "a"; @namespace p "u2"; p|x{}` with
a = `@namespace p "u1"; p|y{}`; unused, the imported declaration is dropped silently -/
theorem namespace_clash_raises :
    resolveImports [.imp 1 0 (some [.ns 1 1, .style 1 [1]]), .ns 1 2, .style 2 [2]] = .raised .noModification ∧
    resolveImports [.imp 1 0 (some [.ns 1 1, .style 1 []]), .ns 1 2, .style 2 [2]] =
      .ok [.ns 1 2, .start 1, .style 1 [], .style 2 [2]] := ⟨rfl, rfl⟩

end CssVerif.C20
