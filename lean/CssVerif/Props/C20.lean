import CssVerif.Model.Import
namespace CssVerif.C20
theorem placeholder : True := trivial
end CssVerif.C20
