/-
C12 — getUrls/replaceUrls see every URL exactly once; URLs survive output.

`Model/Urls.lean` transcribes the traversal of `css_parser.getUrls` / `replaceUrls` over the rule tree (import
hrefs first, then the declaration blocks reached through `cssRules` / `style`, in document order, at any
nesting) and the quoting / un-quoting helpers (`helper.uri`, `string`, `urivalue`, `stringvalue`).

Proved: replace-then-get = map (with and without the imports) for trees of any shape and depth; the own
declarations of an @page rule are seen at any nesting depth; and `urivalue(uri(u)) = u` for **every** string
without a backslash — quotes, brackets, separators, white space of any kind, control characters and any
non-ASCII character included.  The two defects of the pinned snapshot are kept as witnesses.

Tie: `urltrav` (generated trees against getUrls on the real sheets built from them) and `urlrt` (the model's
helper.uri → tokenizer model → urivalue pipeline against the real one, over a wide character set).
Partial: that the text written by `helper.uri` is one URI token is covered by the `urlrt` correspondence with
the tokenizer model (C08/C09), not by a theorem.
-/
import CssVerif.Proofs.Urls
namespace CssVerif.C12
open CssVerif.Urls

theorem replace_then_get (f : Url → Url) (sheet : List Node) :
    getUrls true (replaceUrls true f false sheet) = (getUrls true sheet).map f ∧
    getUrls true (replaceUrls true f true sheet) = importHrefs sheet ++ (declsOfList true sheet).map f :=
  Urls.replace_then_get f sheet

theorem page_declarations_seen (d : Nat) (own : List Url) (ms : List (List Url)) (pre post : List Node) (u : Url)
    (hu : u ∈ own) : u ∈ getUrls true (pre ++ nest d (.page own ms) :: post) := page_seen d own ms pre post u hu

theorem url_survives (u : Url) (hs : Safe u) : uriValue (cssUri true u) = u := uri_roundtrip u hs

theorem string_survives (v : Url) (hs : Safe v) : stringValue (cssString v) = v := stringValue_cssString v hs

/-- the pinned snapshot: @page declarations skipped; a control character left unquoted (the written text is
then `url(a\x01b)`, which is not a URI token) -/
theorem snapshot_counterexamples :
    getUrls false [.page [[1]] [[[2]]]] = [[2]] ∧
    cssUri false [97, 1, 98] = [117, 114, 108, 40, 97, 1, 98, 41] ∧
    cssUri true [97, 1, 98] = [117, 114, 108, 40, 34, 97, 1, 98, 34, 41] := by decide

/-- non-vacuity: a URL with a quote, a bracket, a space and a non-ASCII character -/
example : Safe [97, 34, 40, 32, 252] ∧ uriValue (cssUri true [97, 34, 40, 32, 252]) = [97, 34, 40, 32, 252] := by
  refine ⟨by intro c hc; simp at hc; rcases hc with h | h | h | h | h <;> subst h <;> decide, by decide⟩

end CssVerif.C12
