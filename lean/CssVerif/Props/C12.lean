/-
C12 — getUrls/replaceUrls see every URL exactly once; URLs survive output.

`Model/Urls.lean` transcribes the traversal of `css_parser.getUrls` / `replaceUrls` over the rule tree (import
hrefs first, then the declaration blocks reached through `cssRules` / `style`, in document order, at any
nesting) and the quoting / un-quoting helpers (`helper.uri`, `string`, `urivalue`, `stringvalue`).

Proved: replace-then-get = map (with and without the imports) for trees of any shape and depth; the own
declarations of an @page rule are seen at any nesting depth; and `urivalue(uri(u)) = u` for **every** string
without a backslash — quotes, brackets, separators, white space of any kind, control characters and any
non-ASCII character included.  The two defects of the pinned snapshot are kept as witnesses.

Also proved (second half of the file): the text written by `helper.uri` **is one URI token**.  For every URL
without backslash, newline, form feed or carriage return (`UrlOK`), in both forms the writer uses (bare
`url(…)`; quoted `url("…")` with `"` written `\"`), followed by any text whatsoever, one step of the
tokenizer model on the regenerated production table (outside full-sheet mode) yields exactly one token of
type URI whose raw text and value are the written text and leaves exactly the text that followed
(`uri_one_token`); that value, given to `urivalue`, is the URL (`url_single_token_roundtrip`); on its own the
written text tokenizes to a one-token stream (`uri_tokenize_alone`).  This rests on `gen_uri_layout`, an
obligation on the regenerated table (shape of the URI production, nothing earlier starts with `u`, the class
of `{urlchar}`, what `\"` is inside a string, how URI values are un-escaped) discharged by `rfl`/`decide`;
lemmas in `Proofs/UriToken.lean`.  Both hypotheses of `UrlOK` have kernel-checked counterexamples below.

Tie: `urltrav` (generated trees against getUrls on the real sheets built from them) and `urlrt` (the model's
helper.uri → tokenizer model → urivalue pipeline against the real one, over a wide character set).
Not covered by a theorem: full-sheet mode (`fullsheet = true`, where an unterminated `url(` is completed);
URLs with a newline, form feed or carriage return (the model's `cssString` is stated for values without them;
the real `helper.string` writes `\a `, `\c `, `\d `).
-/
import CssVerif.Proofs.Urls
import CssVerif.Proofs.UriToken
import CssVerif.Gen.Productions
namespace CssVerif.C12
open CssVerif CssVerif.Re CssVerif.Urls

theorem replace_then_get (f : Url → Url) (sheet : List Node) :
    getUrls true (replaceUrls true f false sheet) = (getUrls true sheet).map f ∧
    getUrls true (replaceUrls true f true sheet) = importHrefs sheet ++ (declsOfList true sheet).map f :=
  Urls.replace_then_get f sheet

theorem page_declarations_seen (d : Nat) (own : List Url) (ms : List (List Url)) (pre post : List Node) (u : Url)
    (hu : u ∈ own) : u ∈ getUrls true (pre ++ nest d (.page own ms) :: post) := page_seen d own ms pre post u hu

theorem url_survives (u : Url) (hs : Safe u) : uriValue (cssUri true u) = u := uri_roundtrip u hs

theorem string_survives (v : Url) (hs : Safe v) : stringValue (cssString v) = v := stringValue_cssString v hs

/-- the pinned snapshot: @page declarations skipped; a control character left unquoted (the written text is
then `url(a\x01b)`, which is not a URI token) -/
theorem snapshot_counterexamples :
    getUrls false [.page [[1]] [[[2]]]] = [[2]] ∧
    cssUri false [97, 1, 98] = [117, 114, 108, 40, 97, 1, 98, 41] ∧
    cssUri true [97, 1, 98] = [117, 114, 108, 40, 34, 97, 1, 98, 34, 41] := by decide

/-- non-vacuity: a URL with a quote, a bracket, a space and a non-ASCII character -/
example : Safe [97, 34, 40, 32, 252] ∧ uriValue (cssUri true [97, 34, 40, 32, 252]) = [97, 34, 40, 32, 252] := by
  refine ⟨by intro c hc; simp at hc; rcases hc with h | h | h | h | h <;> subst h <;> decide, by decide⟩

/-! ## the written text is one URI token -/

/-- obligation on the regenerated table: the URI production is `{U}{R}{L}\({w}({string}|{urlchar}*){w}\)`
(`uriRe`); no earlier production can start with `u` and `u` is not on the single-character fast path;
the three letter expressions are `U|u|\…`, `R|r|\…`, `L|l|\…` and accept the lower-case letter; the class
of `{urlchar}` lies in ASCII, has every ASCII character that `helper.uri` leaves unquoted and does not
have `)`; in a string, `\"` is not a line continuation (`A`) nor a `\hex` escape (`B1`) but is the
`\`*other character* escape (`[^…]` with class `rsB`); URI values are un-escaped, and the un-escaping
expression is `\` followed by something that cannot start with `"`. -/
theorem gen_uri_layout : ∃ a b c rsU A B1 rsB X,
    findProd Gen.tables.prods "URI" = some ⟨"URI", none, uriRe a b c rsU A (.alt B1 (.cls true rsB))⟩ ∧
    earlierCannotStart Gen.tables "URI" 117 = true ∧ Gen.tables.fastChars.contains 117 = false ∧
    UrlLetters a b c ∧ urlClsOK rsU = true ∧
    canStart A 34 = false ∧ canStart B1 34 = false ∧ clsMatch true rsB 34 = true ∧
    Gen.tables.escTypes.contains "URI" = true ∧
    Gen.tables.unicodesub = .seq (.cls false [(92, 92)]) X ∧ canStart X 34 = false :=
  ⟨_, _, _, _, _, _, _, _, rfl, by decide, by decide,
    ⟨by decide, by decide, by decide, by decide, by decide, by decide⟩, by decide,
    by decide, by decide, by decide, by decide, rfl, by decide⟩

/-- **the text written by `helper.uri` is exactly one URI token.**  For every URL string without
backslash, newline, form feed or carriage return (`UrlOK`; everything else — quotes, brackets, commas,
semicolons, white space of any kind, control characters, any non-ASCII character — is allowed), in any
tokenizer state outside full-sheet mode, followed by *any* text `rest` (no side condition: the token ends
with `)`, and nothing extends it), one step of the tokenizer on the regenerated table yields one token of
type URI whose raw text and whose value are the written text, and leaves exactly `rest`.  Both forms of
the writer are covered: `url(`*chars*`)` when no character forces quotes, `url("`*chars, `"` as `\"`*`")`
otherwise. -/
theorem uri_one_token (cfg : Cfg) (hfs : cfg.fullsheet = false) (hdc : cfg.doComments = true) (st : St)
    (u : Url) (rest : Text) (hu : UrlOK u) (hr : st.rest = cssUri true u ++ rest) :
    step Gen.tables cfg st =
      some { emit := some ⟨"URI", cssUri true u, st.line, st.col⟩, raw := cssUri true u,
             st := advance st (cssUri true u) } := by
  obtain ⟨a, b, c, rsU, A, B1, rsB, X, hfind, he, hfast, hl, hok, hA, hB1, hB, hesc, hsub, hX⟩ := gen_uri_layout
  have hm : matchProd ⟨"URI", none, uriRe a b c rsU A (.alt B1 (.cls true rsB))⟩ st.prev
      (cssUri true u ++ rest) = some rest :=
    matchProd_some_of_head _ rfl _ _ _ (cssUri_head a b c rsU A B1 rsB hl hok hA hB1 hB u rest hu)
  obtain ⟨s, hs⟩ : ∃ s, cssUri true u ++ rest = 117 :: s := ⟨(cssUri true u ++ rest).tail, by simp [cssUri]⟩
  rw [hs] at hm
  have := step_classify' Gen.tables cfg hfs st 117 s (hr.trans hs) hfast "URI" (by decide) he _ hfind rest hm
  have hfound : consumed (117 :: s) rest = cssUri true u := by rw [← hs]; simp [consumed]
  rw [this, hfound]
  exact congrArg some (finish_uri Gen.tables X hsub hX hesc cfg hfs hdc st _ _ (EscQuote_cssUri u hu.safe))

/-- the state after the token: exactly the continuation is left -/
theorem uri_one_token_rest (st : St) (u : Url) (rest : Text) (hr : st.rest = cssUri true u ++ rest) :
    (advance st (cssUri true u)).rest = rest := by
  simp [advance, hr]

/-- **write, tokenize, read back.**  The text written by `replaceUrls` (through `helper.uri`) for a URL
`u`, followed by any text, is read by the tokenizer as a single URI token; that token's value, given to
`helper.urivalue`, is `u` again; and the tokenizer continues exactly at the text that followed. -/
theorem url_single_token_roundtrip (cfg : Cfg) (hfs : cfg.fullsheet = false) (hdc : cfg.doComments = true)
    (st : St) (u : Url) (rest : Text) (hu : UrlOK u) (hr : st.rest = cssUri true u ++ rest) :
    ∃ tok st', step Gen.tables cfg st = some { emit := some tok, raw := cssUri true u, st := st' } ∧
      tok.typ = "URI" ∧ tok.val = cssUri true u ∧ uriValue tok.val = u ∧ st'.rest = rest :=
  ⟨_, _, uri_one_token cfg hfs hdc st u rest hu hr, rfl, rfl, url_survives u hu.safe,
    uri_one_token_rest st u rest hr⟩

/-- the written text on its own is a token stream of length one -/
theorem uri_tokenize_alone (cfg : Cfg) (hfs : cfg.fullsheet = false) (hdc : cfg.doComments = true)
    (u : Url) (hu : UrlOK u) :
    (tokenize Gen.tables cfg (cssUri true u)).toks = [⟨"URI", cssUri true u, 1, 1⟩] ∧
    (tokenize Gen.tables cfg (cssUri true u)).endKind = .done := by
  have hbom : exec Gen.tables.bom (cssUri true u) = none := by
    have : cssUri true u = 117 :: (cssUri true u).tail := by simp [cssUri]
    rw [this]
    exact exec_none_of_canStart_false _ 117 _ (by decide)
  have hcs : hasAt (cssUri true u) charsetLit = false := by
    simp only [hasAt, cssUri, charsetLit, List.cons_append, List.nil_append]
    rfl
  have hstep := uri_one_token cfg hfs hdc ⟨none, cssUri true u, 1, 1⟩ u [] hu (by simp)
  have hne : ∃ x xs, cssUri true u = x :: xs := ⟨117, (cssUri true u).tail, by simp [cssUri]⟩
  obtain ⟨x, xs, hx⟩ := hne
  have hloop : loop Gen.tables cfg ((cssUri true u).length + 1) ⟨none, cssUri true u, 1, 1⟩ =
      ([(some ⟨"URI", cssUri true u, 1, 1⟩, cssUri true u)],
        advance ⟨none, cssUri true u, 1, 1⟩ (cssUri true u), .done) := by
    have hrest : (advance ⟨none, cssUri true u, 1, 1⟩ (cssUri true u)).rest = [] :=
      uri_one_token_rest _ u [] (by simp)
    have hl2 : ∀ n, loop Gen.tables cfg n (advance ⟨none, cssUri true u, 1, 1⟩ (cssUri true u)) =
        ([], advance ⟨none, cssUri true u, 1, 1⟩ (cssUri true u), .done) := by
      intro n
      cases n with
      | zero => simp [loop, hrest]
      | succ n => simp [loop, hrest]
    rw [loop]
    simp only [hx]
    rw [← hx, hstep]
    simp only [hl2]
  simp only [tokenize, prelude, hbom, hcs, Bool.false_eq_true, if_false, hloop, hfs, Result.toks]
  simp

/-! the hypotheses are needed (kernel-checked on the regenerated table) -/

/-- type and value of the token of one step -/
def tokOf (r : Option Res) : Option (String × Text) := r.bind (fun r => r.emit.map (fun t => (t.typ, t.val)))

/-- a newline: the model's `helper.string` (stated for values without newline) would leave it inside the
quotes, and `url("` newline `")` is not a URI token (the real `helper.string` writes `\a `) -/
example : cssUri true [10] = [117, 114, 108, 40, 34, 10, 34, 41] ∧
    tokOf (step Gen.tables ⟨false, true⟩ ⟨none, cssUri true [10], 1, 1⟩) = some ("FUNCTION", [117, 114, 108, 40]) := by
  decide
/-- a backslash: `url(\a)` is one URI token, but its value is not the written text (`\a` is the escape
for a newline), and `urivalue` does not return `\a` -/
example : tokOf (step Gen.tables ⟨false, true⟩ ⟨none, cssUri true [92, 97], 1, 1⟩) =
    some ("URI", [117, 114, 108, 40, 10, 41]) ∧ uriValue [117, 114, 108, 40, 10, 41] ≠ [92, 97] := by decide

/-! non-vacuity: a bare URL `a/b.png`; a URL with a quote, a bracket, a blank and a non-ASCII character
(quoted, the quote escaped); the pinned defect example `a\x01b`, now quoted; the empty URL -/
example : step Gen.tables ⟨false, true⟩ ⟨none, [117, 114, 108, 40, 97, 47, 98, 46, 112, 110, 103, 41, 59, 32], 1, 1⟩ =
    some { emit := some ⟨"URI", [117, 114, 108, 40, 97, 47, 98, 46, 112, 110, 103, 41], 1, 1⟩,
           raw := [117, 114, 108, 40, 97, 47, 98, 46, 112, 110, 103, 41],
           st := advance ⟨none, [117, 114, 108, 40, 97, 47, 98, 46, 112, 110, 103, 41, 59, 32], 1, 1⟩
             [117, 114, 108, 40, 97, 47, 98, 46, 112, 110, 103, 41] } :=
  uri_one_token ⟨false, true⟩ rfl rfl _ [97, 47, 98, 46, 112, 110, 103] [59, 32] (by decide) (by decide)
example : UrlOK [97, 34, 40, 32, 252] ∧
    cssUri true [97, 34, 40, 32, 252] = [117, 114, 108, 40, 34, 97, 92, 34, 40, 32, 252, 34, 41] ∧
    step Gen.tables ⟨false, true⟩ ⟨some 58, [117, 114, 108, 40, 34, 97, 92, 34, 40, 32, 252, 34, 41, 41], 3, 7⟩ =
      some { emit := some ⟨"URI", [117, 114, 108, 40, 34, 97, 92, 34, 40, 32, 252, 34, 41], 3, 7⟩,
             raw := [117, 114, 108, 40, 34, 97, 92, 34, 40, 32, 252, 34, 41],
             st := ⟨some 41, [41], 3, 20⟩ } :=
  ⟨by decide, by decide,
    uri_one_token ⟨false, true⟩ rfl rfl ⟨some 58, _, 3, 7⟩ [97, 34, 40, 32, 252] [41] (by decide) (by decide)⟩
example : ∃ tok st', step Gen.tables ⟨false, true⟩ ⟨none, [117, 114, 108, 40, 34, 97, 1, 98, 34, 41], 1, 1⟩ =
      some { emit := some tok, raw := [117, 114, 108, 40, 34, 97, 1, 98, 34, 41], st := st' } ∧
    tok.typ = "URI" ∧ tok.val = [117, 114, 108, 40, 34, 97, 1, 98, 34, 41] ∧ uriValue tok.val = [97, 1, 98] ∧
    st'.rest = [] :=
  url_single_token_roundtrip ⟨false, true⟩ rfl rfl ⟨none, _, 1, 1⟩ [97, 1, 98] [] (by decide) (by decide)
example : (tokenize Gen.tables ⟨false, true⟩ [117, 114, 108, 40, 41]).toks = [⟨"URI", [117, 114, 108, 40, 41], 1, 1⟩] :=
  (uri_tokenize_alone ⟨false, true⟩ rfl rfl [] (by decide)).1
/-- the text the pinned snapshot wrote for `a\x01b` (bare) is not a URI token -/
example : tokOf (step Gen.tables ⟨false, true⟩ ⟨none, cssUri false [97, 1, 98], 1, 1⟩) =
    some ("FUNCTION", [117, 114, 108, 40]) := by decide

end CssVerif.C12
