/-
C17 — Numeric and colour values keep their meaning.

Numbers: `Model/Number.lean` transcribes DimensionValue's split and the number branch of
do_css_Value exactly (Python int / correctly rounded double, `'%f'`, `_strip_zeros`, the
leading-zero surgery).  The theorems below are about the serializer of /repo today
(`fixedRounding = true`); the defect of the pinned snapshot is kept as a kernel-checked witness.

`fmt_reparse_partial` (float literals not printed as integers) was the first theorem; `fmt_reparse_all`,
`fmt_sign_unit`, `fmt_reparse_text` and `number_roundtrip` now cover every branch (zero, integer, both
float branches), the `+` prefix, the unit suffix and the re-parse of the whole written text, for every
number `parseNum` can return (`parse_wf`).
Partial: hsl()/hsla() and rgb() percentages (floating point in colorsys) are decided by the oracle only.
-/
import CssVerif.Proofs.Number
import CssVerif.Proofs.NumberFull
import CssVerif.Gen.Colors
import CssVerif.Spec.Colors
namespace CssVerif.C17
open CssVerif CssVerif.Number CssVerif.Color

/-! ### obligations on regenerated tables -/

/-- the named-colour table of /repo is the CSS3 table (148 entries, hand-pinned Spec) -/
theorem named : Gen.colorRows = Spec.css3Colors := by decide +kernel

/-- the zero-length units of the serializer are the eight the model uses -/
theorem zero_units : Gen.zeroUnits = zeroUnits := by decide

/-! ### numbers -/

/-- the serialised number text re-parses to the value rounded to 6 places (floats, both
omitLeadingZero settings) … -/
theorem fmt_reparse_partial (om : Bool) (p : Parsed) (hf : p.isFloat = true)
    (hsign : (p.sign == some 45) = p.value.neg) (hnz : round6 p.value ≠ 0)
    (hni : round6 p.value % 1000000 ≠ 0) :
    ∃ v, decimalValue (fmtParts true om p).2.1 = some v ∧
      Q.same v ⟨p.value.neg, round6 p.value, 1000000⟩ :=
  fmt_reparse_float om p hf hsign hnz hni

/-- … and that is within half a unit of the sixth decimal place of the parsed value -/
theorem round6_close (q : Q) (hd : 0 < q.den) :
    2 * (round6 q * q.den - q.num * 1000000) ≤ q.den ∧ 2 * (q.num * 1000000 - round6 q * q.den) ≤ q.den :=
  round6_error q hd

/-- `'%f'` followed by `_strip_zeros` never changes the value printed -/
theorem strip_keeps_value (q : Q) :
    ∃ v, decimalValue (stripZeros (fmtF q)) = some v ∧ Q.same v ⟨q.neg && !q.isZero, round6 q, 1000000⟩ :=
  fmt_strip_value q

/-- the digit string of an integer denotes it (the integer branch) -/
theorem int_digits (n : Nat) : digitsVal (natDigits n) = n ∧ ∀ c ∈ natDigits n, isDigit c = true :=
  ⟨natDigits_val n, natDigits_digits n⟩

/-- the defect of the pinned snapshot: `.9999995` with omitLeadingZero was written `.0` (value 0);
the repaired serializer writes `1` -/
theorem snapshot_counterexample :
    (parseNum [46, 57, 57, 57, 57, 57, 57, 53]).map (fmtNumber false true) = some [46, 48] ∧
    (parseNum [46, 57, 57, 57, 57, 57, 57, 53]).map (fmtNumber true true) = some [49] := by decide +kernel

/-! ### numbers: every branch of the serializer (repaired code), sign and unit, re-parse

Definitions used below (all in `Proofs/NumberFull.lean`):
`WF p` — the facts true of every `p` returned by `parseNum` (`parse_wf`);
`printsZero p` / `printsInt p` — the serializer's `num == 0` / `num == int(num)` tests, `intPart p` = `int(num)`;
`signOut p`, `unitOut p` — the sign and unit texts; `signBack p` — the sign `parseNum` reads back;
`expected p` — the value to be written: `round6 value / 10^6` for a float literal, the value itself
for an integer literal, with the sign of `p` but no sign on a zero;
`UnitText d` — `d` does not start with a digit nor with `.` digit. -/

/-- everything `parseNum` returns is well formed: sign is none/`+`/`-` and agrees with `value.neg`,
denominators are positive, integer literals have denominator 1, the unit does not start with a
digit and, after an integer literal, not with `.` digit -/
theorem parse_wf (t : Text) (p : Parsed) (h : parseNum t = some p) : WF p := parseNum_wf t p h

/-- **1. every branch, both `omitLeadingZero` settings**: the number text is a decimal text whose
exact value is the expected one — for a float literal `round6 value / 10^6`, for an integer literal
the value itself — with the sign of `p` and never `-0`; in the zero branch it is exactly `0`, in the
integer branch it is the integer `int(num)` (denominator 1). -/
theorem fmt_reparse_all (om : Bool) (p : Parsed) (hwf : WF p) :
    ∃ v, decimalValue (fmtParts true om p).2.1 = some v ∧ 0 < v.den ∧
      (p.isFloat = true → Q.same v ⟨p.value.neg && round6 p.value != 0, round6 p.value, 1000000⟩) ∧
      (p.isFloat = false → Q.same v ⟨p.value.neg && p.value.num != 0, p.value.num, p.value.den⟩) ∧
      (v.num = 0 → v.neg = false) ∧
      (printsZero p = true ↔ v.num = 0) ∧
      (printsZero p = true → v = ⟨false, 0, 1⟩) ∧
      (printsInt p = true → v.den = 1 ∧ v.num = intPart p) := by
  obtain ⟨v, hv, hs, hd, hnz, hi, hpz, hz⟩ := reparse_all om p hwf
  rw [fmtParts_eq]
  refine ⟨v, hv, hd, ?_, ?_, hnz, hpz, hz, fun h => ⟨hi h, int_branch_num p v hwf.den hs (hi h)⟩⟩
  · intro hf; simpa [expected, hf] using hs
  · intro hf; simpa [expected, hf] using hs

/-- … hence in every branch the value written is within half a unit of the sixth decimal place of
the parsed value (exactly it for integer literals), and has its sign unless it is zero -/
theorem fmt_reparse_close (om : Bool) (p : Parsed) (hwf : WF p) :
    ∃ v, decimalValue (fmtParts true om p).2.1 = some v ∧ 0 < v.den ∧
      (v.neg = true → p.value.neg = true) ∧ (v.num ≠ 0 → v.neg = p.value.neg) ∧
      2 * 1000000 * (v.num * p.value.den - p.value.num * v.den) ≤ p.value.den * v.den ∧
      2 * 1000000 * (p.value.num * v.den - v.num * p.value.den) ≤ p.value.den * v.den := by
  rw [fmtParts_eq]; exact reparse_close om p hwf

/-- **2. sign and unit**: the text written is sign ++ number ++ unit, where the sign is `+` exactly
when `p` was written with `+` and the value printed is not zero (`printsZero p = false`, which by
`fmt_reparse_all` is `v.num ≠ 0`), and the unit is `p.dim` except that a zero value drops one of the
eight `zeroUnits` (and only then).  No hypothesis on `p`. -/
theorem fmt_sign_unit (om : Bool) (p : Parsed) :
    fmtNumber true om p = signOut p ++ (fmtParts true om p).2.1 ++ unitOut p ∧
    (fmtParts true om p).1 = signOut p ∧ (fmtParts true om p).2.2 = unitOut p ∧
    signOut p = (if p.sign = some 43 ∧ printsZero p = false then [43] else []) ∧
    unitOut p = (if printsZero p = true ∧ p.dim ∈ zeroUnits then [] else p.dim) := by
  refine ⟨?_, ?_, ?_, ?_, ?_⟩
  · rw [fmtNumber_eq, fmtParts_eq]
  · rw [fmtParts_eq]
  · rw [fmtParts_eq]
  · unfold signOut; cases printsZero p <;> simp
  · unfold unitOut; cases printsZero p <;> simp

/-- **3. the written text parses again** (`parseNum`, i.e. DimensionValue's split): it yields the unit
of (2), the sign written, an `int` in the zero/integer branches and a `float` otherwise, whose value
is the decimal value `v` of (1) — for a float the correctly rounded double of `v`
(`roundToDouble`, the model of Python's `float(text)`).

Hypothesis `hdim`: when the number is written without a fraction, the unit must be a text that
`parseNum` can produce after an integer (`UnitText`: not starting with a digit — part of `WF` — nor with
`.` digit).  It holds for every integer literal (`unit_text_of_int`); it can fail only for a float
literal followed by `.` digit, e.g. `1.0.5` (unit `.5`) is written `1.5`, see the counterexample below. -/
theorem fmt_reparse_text (om : Bool) (p : Parsed) (hwf : WF p) (hdim : printsInt p = true → UnitText p.dim) :
    ∃ v p', decimalValue (fmtParts true om p).2.1 = some v ∧ Q.same v (expected p) ∧
      parseNum (fmtNumber true om p) = some p' ∧
      p'.dim = unitOut p ∧ p'.sign = signBack p ∧ p'.isFloat = !printsInt p ∧
      p'.value = (if printsInt p then v
                  else ⟨v.neg, (roundToDouble v.num v.den).1, (roundToDouble v.num v.den).2⟩) := by
  obtain ⟨v, hv, hs, hp⟩ := reparse_text om p hwf hdim
  rw [fmtNumber_eq, fmtParts_eq]
  exact ⟨v, _, hv, hs, hp, rfl, rfl, rfl, rfl⟩

/-- `UnitText` is exactly the set of units `parseNum` yields after an integer literal … -/
theorem unit_text_of_int (t : Text) (p : Parsed) (h : parseNum t = some p) (hf : p.isFloat = false) :
    UnitText p.dim := unitText_of_parse t p h hf

/-- … every such text is produced (after the literal `1`) -/
theorem unit_text_produced (d : Text) (h : UnitText d) : ∃ p, parseNum (49 :: d) = some p ∧ p.dim = d :=
  unitText_produced d h

/-- `hdim` is needed: `parseNum` accepts `1.0.5` (a float `1.0` with unit `.5`, which no tokenizer
produces); it is written `1.5`, which reads back with an empty unit -/
theorem reparse_needs_unit_text :
    (parseNum [49, 46, 48, 46, 53]).map (fun p => (p.dim, printsInt p, fmtNumber true false p, unitOut p,
        (parseNum (fmtNumber true false p)).map (·.dim)))
      = some ([46, 53], true, [49, 46, 53], [46, 53], some []) := by decide +kernel

/-- and outside `WF` (a unit starting with a digit cannot come from `parseNum`): `1` with unit `5`
is written `15` -/
example : fmtNumber true false ⟨none, false, ⟨false, 1, 1⟩, [53]⟩ = [49, 53] := by decide +kernel

/-- the end-to-end statement for a parsed text: write, read again -/
theorem number_roundtrip (om : Bool) (t : Text) (p : Parsed) (h : parseNum t = some p)
    (hdim : p.isFloat = true → printsInt p = true → dotDigit p.dim = false) :
    ∃ v p', parseNum (fmtNumber true om p) = some p' ∧ p'.dim = unitOut p ∧
      decimalValue (fmtParts true om p).2.1 = some v ∧ 0 < v.den ∧
      p'.value = (if printsInt p then v
                  else ⟨v.neg, (roundToDouble v.num v.den).1, (roundToDouble v.num v.den).2⟩) ∧
      (v.num ≠ 0 → v.neg = p.value.neg) ∧ (v.num = 0 → v.neg = false) ∧
      2 * 1000000 * (v.num * p.value.den - p.value.num * v.den) ≤ p.value.den * v.den ∧
      2 * 1000000 * (p.value.num * v.den - v.num * p.value.den) ≤ p.value.den * v.den := by
  have hwf := parseNum_wf t p h
  have hd : printsInt p = true → UnitText p.dim := by
    intro hi
    refine ⟨hwf.dimHead, ?_⟩
    cases hf : p.isFloat
    · exact hwf.dimInt hf
    · exact hdim hf hi
  obtain ⟨v, p', hv, _, hp, h1, _, _, h4⟩ := fmt_reparse_text om p hwf hd
  obtain ⟨v', hv', hd', _, hn, hc1, hc2⟩ := fmt_reparse_close om p hwf
  obtain ⟨v'', hv'', _, _, _, hz, _⟩ := fmt_reparse_all om p hwf
  rw [hv] at hv' hv''
  cases hv'; cases hv''
  exact ⟨v, p', hp, h1, hv, hd', h4, hn, hz, hc1, hc2⟩

/-! non-vacuity: `+1.0px` satisfies the hypotheses with a non-empty unit in the integer branch;
`-0.0000004px` is the `-0` case (written `0`); `-.5em` with omitLeadingZero -/
example : ∃ p, parseNum [43, 49, 46, 48, 112, 120] = some p ∧ WF p ∧ printsInt p = true ∧
    (printsInt p = true → UnitText p.dim) ∧ fmtNumber true true p = [43, 49, 112, 120] := by
  cases h : parseNum [43, 49, 46, 48, 112, 120] with
  | none => exact absurd h (by decide +kernel)
  | some p =>
    have hd : (parseNum [43, 49, 46, 48, 112, 120]).map (fun p => (p.dim, printsInt p, fmtNumber true true p))
        = some ([112, 120], true, [43, 49, 112, 120]) := by decide +kernel
    rw [h] at hd
    simp only [Option.map_some, Option.some.injEq] at hd
    have h1 : p.dim = [112, 120] := congrArg Prod.fst hd
    have h2 : printsInt p = true := congrArg (fun x => x.2.1) hd
    have h3 : fmtNumber true true p = [43, 49, 112, 120] := congrArg (fun x => x.2.2) hd
    refine ⟨p, rfl, parseNum_wf _ _ h, h2, fun _ => ?_, h3⟩
    rw [h1]
    exact ⟨by intro c hc; simp at hc; subst hc; decide, rfl⟩
example : (parseNum [45, 48, 46, 48, 48, 48, 48, 48, 48, 52, 112, 120]).map (fmtNumber true true) = some [48] := by
  decide +kernel
example : (parseNum [45, 46, 53, 101, 109]).map (fun p => (fmtNumber true true p, fmtNumber true false p))
    = some ([45, 46, 53, 101, 109], [45, 48, 46, 53, 101, 109]) := by decide +kernel

/-! ### colours -/

/-- `#abc` means `#aabbcc` -/
theorem hex3_is_hex6 (a b c : Nat) : hexColor [35, a, b, c] = hexColor [35, a, a, b, b, c, c] := by
  simp only [hexColor]
  cases hexDigitVal a <;> cases hexDigitVal b <;> cases hexDigitVal c <;> simp
  omega

/-- hex digits denote 0..15, upper or lower case -/
theorem hex_digit_range (c v : Nat) (h : hexDigitVal c = some v) : v < 16 := by
  unfold hexDigitVal at h
  split at h
  · cases h; omega
  · split at h
    · cases h; omega
    · split at h
      · cases h; omega
      · cases h

/-- every component of a hex colour is a byte -/
theorem hex_components (v : Text) (r g b : Nat) (h : hexColor v = some (r, g, b)) :
    r ≤ 255 ∧ g ≤ 255 ∧ b ≤ 255 := by
  unfold hexColor at h
  split at h
  · rename_i a b' c
    cases ha : hexDigitVal a <;> cases hb : hexDigitVal b' <;> cases hc : hexDigitVal c <;> simp [ha, hb, hc] at h
    have := hex_digit_range _ _ ha; have := hex_digit_range _ _ hb; have := hex_digit_range _ _ hc
    omega
  · rename_i a1 a2 b1 b2 c1 c2
    cases h1 : hexDigitVal a1 <;> cases h2 : hexDigitVal a2 <;> cases h3 : hexDigitVal b1 <;>
      cases h4 : hexDigitVal b2 <;> cases h5 : hexDigitVal c1 <;> cases h6 : hexDigitVal c2 <;>
      simp [h1, h2, h3, h4, h5, h6] at h
    have := hex_digit_range _ _ h1; have := hex_digit_range _ _ h2; have := hex_digit_range _ _ h3
    have := hex_digit_range _ _ h4; have := hex_digit_range _ _ h5; have := hex_digit_range _ _ h6
    omega
  · cases h

/-- **hex shortening never changes the components**, for every text and both settings -/
theorem hash_shorten (minimize : Bool) (v : Text) : hexColor (shortenHash minimize v) = hexColor v := by
  unfold shortenHash
  split
  · rename_i h a1 a2 b1 b2 c1 c2
    split
    · rename_i hc
      simp only [Bool.and_eq_true, beq_iff_eq] at hc
      obtain ⟨⟨⟨_, h1⟩, h2⟩, h3⟩ := hc
      subst h1 h2 h3
      by_cases hh : h = 35
      · subst hh; exact hex3_is_hex6 a1 b1 c1
      · simp [hexColor, hh]
    · rfl
  · rfl

/-- clipping to the gamut -/
theorem clamp_range (neg : Bool) (n : Nat) : clamp255 neg n ≤ 255 := by
  unfold clamp255; split
  · omega
  · split <;> omega

/-! non-vacuity -/
example : hexColor [35, 102, 56, 48] = some (255, 136, 0) := by decide          -- #f80
example : (parseNum [45, 48, 46, 53, 48, 112, 120]).map (fmtNumber true true) = some [45, 46, 53, 112, 120] := by
  decide +kernel                                                                            -- -0.50px → -.5px

end CssVerif.C17
