/-
C17 — Numeric and colour values keep their meaning.

Numbers: `Model/Number.lean` transcribes DimensionValue's split and the number branch of
do_css_Value exactly (Python int / correctly rounded double, `'%f'`, `_strip_zeros`, the
leading-zero surgery).  The theorems below are about the serializer of /repo today
(`fixedRounding = true`); the defect of the pinned snapshot is kept as a kernel-checked witness.

Partial: `fmt_reparse_float` covers float literals not printed as integers (both omitLeadingZero
settings) for the number text; the zero / integer branches, the `+` prefix and the unit suffix
are covered by the `num` correspondence on the grid and the exact-fraction oracle.
hsl()/hsla() (floating point in colorsys) is decided by the oracle only.
-/
import CssVerif.Proofs.Number
import CssVerif.Gen.Colors
import CssVerif.Spec.Colors
namespace CssVerif.C17
open CssVerif CssVerif.Number CssVerif.Color

/-! ### obligations on regenerated tables -/

/-- the named-colour table of /repo is the CSS3 table (148 entries, hand-pinned Spec) -/
theorem named : Gen.colorRows = Spec.css3Colors := by decide +kernel

/-- the zero-length units of the serializer are the eight the model uses -/
theorem zero_units : Gen.zeroUnits = zeroUnits := by decide

/-! ### numbers -/

/-- the serialised number text re-parses to the value rounded to 6 places (floats, both
omitLeadingZero settings) … -/
theorem fmt_reparse_partial (om : Bool) (p : Parsed) (hf : p.isFloat = true)
    (hsign : (p.sign == some 45) = p.value.neg) (hnz : round6 p.value ≠ 0)
    (hni : round6 p.value % 1000000 ≠ 0) :
    ∃ v, decimalValue (fmtParts true om p).2.1 = some v ∧
      Q.same v ⟨p.value.neg, round6 p.value, 1000000⟩ :=
  fmt_reparse_float om p hf hsign hnz hni

/-- … and that is within half a unit of the sixth decimal place of the parsed value -/
theorem round6_close (q : Q) (hd : 0 < q.den) :
    2 * (round6 q * q.den - q.num * 1000000) ≤ q.den ∧ 2 * (q.num * 1000000 - round6 q * q.den) ≤ q.den :=
  round6_error q hd

/-- `'%f'` followed by `_strip_zeros` never changes the value printed -/
theorem strip_keeps_value (q : Q) :
    ∃ v, decimalValue (stripZeros (fmtF q)) = some v ∧ Q.same v ⟨q.neg && !q.isZero, round6 q, 1000000⟩ :=
  fmt_strip_value q

/-- the digit string of an integer denotes it (the integer branch) -/
theorem int_digits (n : Nat) : digitsVal (natDigits n) = n ∧ ∀ c ∈ natDigits n, isDigit c = true :=
  ⟨natDigits_val n, natDigits_digits n⟩

/-- the defect of the pinned snapshot: `.9999995` with omitLeadingZero was written `.0` (value 0);
the repaired serializer writes `1` -/
theorem snapshot_counterexample :
    (parseNum [46, 57, 57, 57, 57, 57, 57, 53]).map (fmtNumber false true) = some [46, 48] ∧
    (parseNum [46, 57, 57, 57, 57, 57, 57, 53]).map (fmtNumber true true) = some [49] := by decide +kernel

/-! ### colours -/

/-- `#abc` means `#aabbcc` -/
theorem hex3_is_hex6 (a b c : Nat) : hexColor [35, a, b, c] = hexColor [35, a, a, b, b, c, c] := by
  simp only [hexColor]
  cases hexDigitVal a <;> cases hexDigitVal b <;> cases hexDigitVal c <;> simp
  omega

/-- hex digits denote 0..15, upper or lower case -/
theorem hex_digit_range (c v : Nat) (h : hexDigitVal c = some v) : v < 16 := by
  unfold hexDigitVal at h
  split at h
  · cases h; omega
  · split at h
    · cases h; omega
    · split at h
      · cases h; omega
      · cases h

/-- every component of a hex colour is a byte -/
theorem hex_components (v : Text) (r g b : Nat) (h : hexColor v = some (r, g, b)) :
    r ≤ 255 ∧ g ≤ 255 ∧ b ≤ 255 := by
  unfold hexColor at h
  split at h
  · rename_i a b' c
    cases ha : hexDigitVal a <;> cases hb : hexDigitVal b' <;> cases hc : hexDigitVal c <;> simp [ha, hb, hc] at h
    have := hex_digit_range _ _ ha; have := hex_digit_range _ _ hb; have := hex_digit_range _ _ hc
    omega
  · rename_i a1 a2 b1 b2 c1 c2
    cases h1 : hexDigitVal a1 <;> cases h2 : hexDigitVal a2 <;> cases h3 : hexDigitVal b1 <;>
      cases h4 : hexDigitVal b2 <;> cases h5 : hexDigitVal c1 <;> cases h6 : hexDigitVal c2 <;>
      simp [h1, h2, h3, h4, h5, h6] at h
    have := hex_digit_range _ _ h1; have := hex_digit_range _ _ h2; have := hex_digit_range _ _ h3
    have := hex_digit_range _ _ h4; have := hex_digit_range _ _ h5; have := hex_digit_range _ _ h6
    omega
  · cases h

/-- **hex shortening never changes the components**, for every text and both settings -/
theorem hash_shorten (minimize : Bool) (v : Text) : hexColor (shortenHash minimize v) = hexColor v := by
  unfold shortenHash
  split
  · rename_i h a1 a2 b1 b2 c1 c2
    split
    · rename_i hc
      simp only [Bool.and_eq_true, beq_iff_eq] at hc
      obtain ⟨⟨⟨_, h1⟩, h2⟩, h3⟩ := hc
      subst h1 h2 h3
      by_cases hh : h = 35
      · subst hh; exact hex3_is_hex6 a1 b1 c1
      · simp [hexColor, hh]
    · rfl
  · rfl

/-- clipping to the gamut -/
theorem clamp_range (neg : Bool) (n : Nat) : clamp255 neg n ≤ 255 := by
  unfold clamp255; split
  · omega
  · split <;> omega

/-! non-vacuity -/
example : hexColor [35, 102, 56, 48] = some (255, 136, 0) := by decide          -- #f80
example : (parseNum [45, 48, 46, 53, 48, 112, 120]).map (fmtNumber true true) = some [45, 46, 53, 112, 120] := by
  decide +kernel                                                                            -- -0.50px → -.5px

end CssVerif.C17
