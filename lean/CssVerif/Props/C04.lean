/-
C04 — Malformed statements and declarations are skipped as a unit.

`Model/Upto.lean` transcribes `Base._tokensupto2` (util.py) in all its modes, the statement loop of
`CSSStyleSheet._setCssText` (the same loop runs over the body of `CSSMediaRule`), the declaration loop of
`CSSStyleDeclaration._setCssText` with its error recovery, and the order state the sheet keeps across
statements.  Tokens are abstracted to the classes those loops distinguish.

What is proved, for token lists of any length and nesting depth:
* `boundary`      — from the first token of a balanced statement the boundary finder returns exactly that
                    statement (prelude with properly nested (), [], function() groups and no `;`/`}` at depth 0,
                    then `;` or a `{…}` block with any balanced content) and leaves the rest untouched;
* `junk_is_a_unit`— so the statement loop is a homomorphism over concatenation: with a junk statement
                    between them, the neighbours reach their productions with exactly the tokens they have
                    without it;
* `order_unaffected` — a rejected statement leaves the @charset/@import/@namespace order state alone;
* `declaration_is_a_unit` — a declaration, well-formed or junk, whatever its first token, is delimited by its
                    own `;` (nested brackets, `!`, strings inside do not matter).
The behaviour of the pinned snapshot is kept as kernel-checked counterexamples (three repaired defects).

Tie: `upto` (all 13 modes, with and without start token), `split`, `dsplit`, `stmts` correspondences on token
streams of the real tokenizer, the real spans being recorded from the running parser.
Partial: that a production's verdict depends only on the tokens it is handed (and the order state) is what
the (good, junk, good) oracle checks on the implementation; the content of unknown rules ("tokens intact") too.
-/
import CssVerif.Proofs.Upto
namespace CssVerif.C04
open CssVerif CssVerif.Upto

/-- the boundary finder stops exactly at the end of a balanced statement -/
theorem boundary (s : TK) (tail rest : List TK) (hs : Stmt (s :: tail)) (hg : goodStart s = true) :
    upto true default (some s) (tail ++ rest) = (s :: tail, rest) := upto_stmt s tail rest hs hg

/-- inside brackets nothing can end a statement, in any mode -/
theorem nothing_ends_inside (m : Mode) (seg : List TK) (hb : Bal seg) (c : Cnt) (rest : List TK) (hc : Inside c) :
    scan m c (seg ++ rest) = (seg ++ (scan m c rest).1, (scan m c rest).2) := scan_inside m seg hb c rest hc

/-- (good, junk, good): the statements handed to the productions are the neighbours' own, junk or no junk -/
theorem junk_is_a_unit (g1 g2 : List (List TK)) (j : List TK) (h1 : ∀ it ∈ g1, Item it)
    (h2 : ∀ it ∈ g2, Item it) (hj : Item j) :
    splitAll true (g1.flatten ++ j ++ g2.flatten) = g1.flatMap out ++ out j ++ g2.flatMap out ∧
    splitAll true (g1.flatten ++ g2.flatten) = g1.flatMap out ++ g2.flatMap out :=
  split_skips_junk g1 g2 j h1 h2 hj

/-- a rejected statement does not change which rules may follow -/
theorem order_unaffected (a b : List SItem) (k : Sheet.Kind) (st : Nat × Sheet.Sheet) :
    stmts true (a ++ .stmt k none :: b) st = stmts true (a ++ b) st := stmts_skip_junk a b k st

/-- … so the sheet parsed with a rejected statement in it is the sheet parsed without it -/
theorem sheet_unaffected (a b : List SItem) (k : Sheet.Kind) :
    parseStmts true (a ++ .stmt k none :: b) = parseStmts true (a ++ b) := parseStmts_skip_junk a b k

/-- a declaration is delimited by its own `;` -/
theorem declaration_is_a_unit (s : TK) (tail rest : List TK) (hs : declStart s = true)
    (hp : Prel semicolon (s :: tail)) :
    dsplitAll true (s :: tail ++ .semi :: rest) = (dkind s, s :: tail ++ [.semi]) :: dsplitAll true rest :=
  dsplit_decl s tail rest hs hp

/-- the three repaired defects of the pinned snapshot -/
theorem snapshot_function_start :
    upto false default (some .func) [.other, .rparen, .lbrace, .rbrace, .other, .lbrace, .rbrace] =
      ([.func, .other, .rparen, .lbrace, .rbrace, .other, .lbrace, .rbrace], []) ∧
    upto true default (some .func) [.other, .rparen, .lbrace, .rbrace, .other, .lbrace, .rbrace] =
      ([.func, .other, .rparen, .lbrace, .rbrace], [.other, .lbrace, .rbrace]) := snapshot_function_counterexample

theorem snapshot_order :
    (stmts false [.stmt .style none, .ws, .stmt .import (some { kind := .import })] (0, [])).2 = [] ∧
    (stmts true [.stmt .style none, .ws, .stmt .import (some { kind := .import })] (0, [])).2 =
      [{ kind := .import }] :=
  snapshot_order_counterexample

theorem snapshot_declaration :
    dsplitAll false [.other, .bang, .ident, .colon, .other, .semi, .ident, .colon, .other] =
      [(.ignored, [.other, .bang]), (.property, [.ident, .colon, .other, .semi]), (.property, [.ident, .colon, .other])] ∧
    dsplitAll true [.other, .bang, .ident, .colon, .other, .semi, .ident, .colon, .other] =
      [(.ignored, [.other, .bang, .ident, .colon, .other, .semi]), (.property, [.ident, .colon, .other])] ∧
    dsplitAll false [.lparen, .other, .rparen, .semi, .ident, .colon, .other] =
      [(.ignored, [.lparen, .other, .rparen, .semi, .ident, .colon, .other])] ∧
    dsplitAll true [.lparen, .other, .rparen, .semi, .ident, .colon, .other] =
      [(.ignored, [.lparen, .other, .rparen, .semi]), (.property, [.ident, .colon, .other])] :=
  snapshot_decl_counterexample

/-! ### non-vacuity: `f(x;[y}]) $ "s" { a: (b;c) ; {d} }` is a statement starting with a FUNCTION token -/

def exInner : List TK := [.ident, .colon, .lparen, .other, .semi, .other, .rparen, .semi, .lbrace, .other, .rbrace]
def exPrel : List TK := [.func, .other, .semi, .lbracket, .other, .rbracket, .rparen, .other, .string]

theorem exInner_bal : Bal exInner := by
  refine .atom _ _ rfl (.atom _ _ rfl ?_)
  refine .group .lparen .rparen [.other, .semi, .other] _ rfl ?_ ?_
  · exact .atom _ _ rfl (.atom _ _ rfl (.atom _ _ rfl .nil))
  · refine .atom _ _ rfl ?_
    exact .group .lbrace .rbrace [.other] [] rfl (.atom _ _ rfl .nil) .nil

theorem exPrel_prel : Prel default exPrel := by
  refine .group .func .rparen [.other, .semi, .lbracket, .other, .rbracket] _ rfl rfl rfl ?_ ?_
  · refine .atom _ _ rfl (.atom _ _ rfl ?_)
    exact .group .lbracket .rbracket [.other] [] rfl (.atom _ _ rfl .nil) .nil
  · exact .atom _ _ rfl rfl (.atom _ _ rfl rfl .nil)

theorem exStmt : Stmt (exPrel ++ .lbrace :: (exInner ++ [.rbrace])) := .block exPrel exInner exPrel_prel exInner_bal

/-- the theorem applied, and the model evaluated on the same input (a test, labelled as one) -/
theorem example_boundary :
    upto true default (some .func) ((exPrel.drop 1 ++ .lbrace :: (exInner ++ [.rbrace])) ++ [.ident, .lbrace, .rbrace]) =
      (exPrel ++ .lbrace :: (exInner ++ [.rbrace]), [.ident, .lbrace, .rbrace]) :=
  boundary .func (exPrel.drop 1 ++ TK.lbrace :: (exInner ++ [TK.rbrace])) [.ident, .lbrace, .rbrace]
    (show Stmt (TK.func :: (exPrel.drop 1 ++ TK.lbrace :: (exInner ++ [TK.rbrace]))) from exStmt) rfl

end CssVerif.C04
