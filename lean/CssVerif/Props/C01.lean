/-
C01 — Parsing any text terminates and never raises.

What is proved (for inputs of any length), on the models of the layers every parse goes through:
* the tokenizer ends because the text is used up — never out of fuel, never stuck (`tokenizer_total`, C08, on the
  productions regenerated from /repo);
* the boundary finder of statements and declarations consumes tokens one by one and returns the rest unchanged
  in length or shorter (`boundary_total`), so the statement and declaration loops make progress;
* whatever an @import fetcher does, loading ends with the rule kept (`fetcher_contained`, C20);
* **no regular expression of the tokenizer can backtrack catastrophically** (`tokenizer_patterns_unambiguous`): on
  the patterns regenerated from /repo every star's ways to go on are told apart within two characters
  (`Model/ReAmbig.lean`).  This obligation found three exponential-time defects in the pinned snapshot (unquoted
  URLs, escapes in unterminated strings, runs of `*` in unterminated comments); their shapes are kept as
  kernel-checked counterexamples.
* the same obligation on the validation patterns of css_parser.profiles holds for all but the listed ones
  (`profile_patterns`); three of those are confirmed exponential on the implementation and recorded as findings.

What a theorem cannot carry here: exception-freedom of the un-modelled DOM-building code and the actual
running time of CPython's `re` engine — decided by structured fuzzing under a wall-clock watchdog
(harness/props/c01.py).
-/
import CssVerif.Props.C08
import CssVerif.Props.C20
import CssVerif.Proofs.Upto
import CssVerif.Model.ReAmbig
import CssVerif.Gen.Profiles
import CssVerif.Gen.Colors
namespace CssVerif.C01
open CssVerif CssVerif.Re

theorem tokenizer_total (cfg : Cfg) (s : Text) : (tokenize Gen.tables cfg s).endKind = .done :=
  C08.tokenize_total cfg s

theorem boundary_total (fx : Bool) (m : Upto.Mode) (s : Upto.TK) (toks : List Upto.TK) :
    (Upto.upto fx m (some s) toks).2.length ≤ toks.length := Upto.upto_rest_le fx m s toks

theorem fetcher_contained (f : Import.Fetch) : Import.setHref true f ≠ none := by
  rw [C20.fetch_contained]; simp

/-- every pattern of the tokenizer is free of ambiguous loops -/
theorem tokenizer_patterns_unambiguous :
    (Gen.prods.all (fun p => starsOK p.re) && starsOK Gen.bom && starsOK Gen.unicodesub && starsOK Gen.cleanstring &&
      starsOK Gen.simpleescapes) = true := by decide +kernel

/-- the validation patterns that do not pass (to be looked at one by one; see known_findings.json) -/
def flaggedProfiles : List (String × String) := [
  ("CSS Backgrounds and Borders Module Level 3", "box-shadow"),
  ("CSS Fonts Module Level 3 @font-face properties", "font-family"),
  ("CSS Fonts Module Level 3 @font-face properties", "src"),
  ("CSS Level 2.1", "background"), ("CSS Level 2.1", "content"), ("CSS Level 2.1", "counter-increment"),
  ("CSS Level 2.1", "counter-reset"), ("CSS Level 2.1", "font"), ("CSS Level 2.1", "font-family"),
  ("CSS Level 2.1", "list-style"), ("CSS Level 2.1", "quotes"), ("CSS Level 2.1", "voice-family"),
  ("CSS Text Level 3", "text-shadow"), ("CSS3 Paged Media Module", "page")]

theorem profile_patterns :
    (Gen.profileRes.filter (fun p => !starsOK p.2.2)).map (fun p => (p.1, p.2.1)) = flaggedProfiles ∧
    Gen.profileSkipped = [] := by decide +kernel

/-- the pattern that decides whether a HASH is a hex colour ends at the end of the text in both copies (value.py,
prodparser.py): with `$` the HASH `#abc` + newline (written `#abc\\a `) counted as a six-digit colour and the conversion
of its empty last pair raised ValueError out of parseString -/
theorem hexcolor_pattern_ends_strictly : Gen.hexColorStrictEnd = true := by decide

/-- the three exponential shapes of the pinned snapshot are rejected by the analysis, their repairs accepted -/
theorem snapshot_patterns :
    let hexc : Re := .cls false [(48, 57), (65, 70), (97, 102)]
    let plain : Re := .cls true [(10, 10), (13, 13), (12, 12), (92, 92), (34, 34)]
    -- "\A": hex escape or simple escape (only lower-case hex digits excluded)
    starsOK (.seq (.star (.alt plain (.seq (.cls false [(92, 92)]) (.alt (.seq hexc (.opt hexc))
        (.cls true [(10, 10), (13, 13), (12, 12), (48, 57), (97, 102)]))))) (.cls false [(34, 34)])) = false ∧
    -- url(...): the backslash is in the character class and starts an escape
    starsOK (.seq (.star (.alt (.cls false [(33, 33), (35, 38), (40, 40), (42, 126)]) (.seq (.cls false [(92, 92)])
        (.cls true [(10, 10), (48, 57), (65, 70), (97, 102)])))) (.cls false [(41, 41)])) = false ∧
    -- comment: the repeated group may start with "*"
    starsOK (.seq (.star (.cls false [(42, 42)])) (.seq (.star (.seq (.cls true [(47, 47)])
        (.seq (.star (.cls true [(42, 42)])) (.seq (.cls false [(42, 42)]) (.star (.cls false [(42, 42)]))))))
        (.cls false [(47, 47)]))) = false ∧
    starsOK (.seq (.star (.cls false [(42, 42)])) (.seq (.star (.seq (.cls true [(47, 47), (42, 42)])
        (.seq (.star (.cls true [(42, 42)])) (.seq (.cls false [(42, 42)]) (.star (.cls false [(42, 42)]))))))
        (.cls false [(47, 47)]))) = true := by decide +kernel

end CssVerif.C01
