import CssVerif.Model.Codec
namespace CssVerif.C14
theorem placeholder : True := trivial
end CssVerif.C14
