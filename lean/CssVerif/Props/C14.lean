/-
C14 — CSS codec: detection priority, inverse, chunking-invariant.

Model: `Model/Codec.lean` (detection by candidate elimination, text-level detection, @charset
rewriting, one-shot functions, incremental state machines over an abstract inner codec `I`).
The inner codec is Python's; the model assumes of it exactly `DecLaw` (feeding a then b = feeding
a ++ b; failures are not forgotten).
-/
import CssVerif.Proofs.Codec
namespace CssVerif.C14
open CssVerif CssVerif.Codec

/-- **chunking invariance (decoder)**: for every way of cutting the byte stream into chunks, the
incremental decoder's concatenated output — or its error — is exactly that of the one-shot function -/
theorem idecode_chunks (I : Inner) (law : DecLaw I) (chunks : List Bytes) (enc : Option Text) (force : Bool) :
    (decFeed I (decInit I enc force) chunks).map (·.1) = decode I chunks.flatten enc force := by
  rw [decFeed_eq I law chunks (decInit I enc force)]
  exact decStep_oneshot I chunks.flatten enc force

/-- two chunkings of the same bytes give the same result -/
theorem idecode_chunking_irrelevant (I : Inner) (law : DecLaw I) (c1 c2 : List Bytes)
    (h : c1.flatten = c2.flatten) (enc : Option Text) (force : Bool) :
    (decFeed I (decInit I enc force) c1).map (·.1) = (decFeed I (decInit I enc force) c2).map (·.1) := by
  rw [idecode_chunks I law c1, idecode_chunks I law c2, h]

/-- a detection, once made on a prefix, is never revised by more input -/
theorem detect_stable (p q : Bytes) (f : Bool) (e : Text) (x : Bool)
    (h : detectStr p false = (some e, x)) : detectStr (p ++ q) f = (some e, x) :=
  Codec.detect_stable p q f e x h

/-- a rewritten header is never revised by more input: the rest is passed through -/
theorem fix_stable (p q e : Text) (f : Bool) (t : Text) (h : fixEncoding p e false = some t) :
    fixEncoding (p ++ q) e f = some (t ++ q) := Codec.fix_stable p q e f t h

/-- at end of input both the detector and the rewriter always answer -/
theorem final_total (b : Bytes) (t e : Text) :
    (∃ n x, detectStr b true = (some n, x)) ∧ (fixEncoding t e true).isSome = true :=
  ⟨detect_final b, fix_final t e⟩

/-! ### detection priority (decision logic stated outright) -/

/-- an explicit encoding argument (with `force`, the default) wins over anything in the bytes -/
theorem priority_explicit (I : Inner) (b : Bytes) (e : Text) :
    decode I b (some e) true = decodeWith I e b := by
  unfold decode
  simp

/-- byte-order marks -/
theorem priority_bom_utf8 (t : Bytes) (f : Bool) :
    detectStr (0xEF :: 0xBB :: 0xBF :: t) f = (some (ofStr "utf-8-sig"), true) := by
  cases t <;> simp [detectStr, cands, allCands, compat, pat, patOK, need, candName]

theorem priority_bom_utf16be (t : Bytes) (f : Bool) :
    detectStr (0xFE :: 0xFF :: t) f = (some (ofStr "utf-16"), true) := by
  match t with
  | [] => simp [detectStr, cands, allCands, compat, pat, patOK, need, candName]
  | [a] => simp [detectStr, cands, allCands, compat, pat, patOK, need, candName]
  | a :: b :: r => simp [detectStr, cands, allCands, compat, pat, patOK, need, candName]

/-- no candidate pattern fits: UTF-8 -/
theorem priority_default (b : Bytes) (f : Bool) (h : cands b = []) : detectStr b f = (some utf8, false) := by
  unfold detectStr
  rw [h]

theorem findIdx_quote (name rest : Text) (hq : ∀ c ∈ name, c ≠ 34) :
    (name ++ 34 :: rest).findIdx? (· == 34) = some name.length := by
  induction name with
  | nil => simp [List.findIdx?_cons]
  | cons c cs ih =>
    have hc34 : (c == 34) = false := by
      have := hq c List.mem_cons_self
      simpa using this
    simp only [List.cons_append, List.findIdx?_cons, hc34, Bool.false_eq_true, if_false]
    rw [ih (fun x hx => hq x (List.mem_cons_of_mem _ hx))]
    simp

/-- a complete leading `@charset "name"` rule names the encoding -/
theorem priority_charset (name rest : Text) (f : Bool) (hq : ∀ c ∈ name, c ≠ 34) :
    detectStr (charsetPrefix ++ name ++ 34 :: rest) f = (some name, true) := by
  have hc : cands (charsetPrefix ++ name ++ 34 :: rest) = [.charset] := by
    have : charsetPrefix ++ name ++ 34 :: rest = [64, 99, 104, 97] ++ ([114, 115, 101, 116, 32, 34] ++ name ++ 34 :: rest) := by
      simp [charsetPrefix, ofStr]
    rw [this, cands_long _ _ (by simp)]
    decide
  have hname : charsetName (charsetPrefix ++ name ++ 34 :: rest) = some name := by
    unfold charsetName
    have hp : charsetPrefix.isPrefixOf (charsetPrefix ++ name ++ 34 :: rest) = true := by
      rw [List.isPrefixOf_iff_prefix, List.append_assoc]; exact List.prefix_append _ _
    simp only [hp, if_true]
    have hfq : findQuote (charsetPrefix ++ name ++ 34 :: rest) charsetPrefix.length = some (charsetPrefix.length + name.length) := by
      unfold findQuote
      rw [List.append_assoc, List.drop_left]
      have := findIdx_quote name rest hq
      rw [this]
    simp only [hfq]
    rw [List.append_assoc, ← List.length_append, ← List.append_assoc, List.take_left]
    simp
  unfold detectStr
  rw [hc]
  have hl : (charsetPrefix ++ name ++ 34 :: rest).length ≥ need .charset := by
    simp [need, charsetPrefix_length]; omega
  simp only [hl, if_true, hname]
  rfl

/-! non-vacuity -/
example : detectStr (ofStr "@charset \"latin-1\";a") true = (some (ofStr "latin-1"), true) := by decide
example : detectStr [0xFF, 0xFE] true = (some (ofStr "utf-16"), true) := by decide
example : fixEncoding (ofStr "@charset \"x\";a") (ofStr "utf-8") false = some (ofStr "@charset \"utf-8\";a") := by decide

end CssVerif.C14
