/-
C14 — CSS codec: detection priority, inverse, chunking-invariant.

Model: `Model/Codec.lean` (detection by candidate elimination, text-level detection, @charset
rewriting, one-shot functions, incremental state machines over an abstract inner codec `I`).
The inner codec is Python's; the model assumes of it exactly `DecLaw` (feeding a then b = feeding
a ++ b; failures are not forgotten) for its incremental decoders and `EncLaw` (the same two laws)
for its incremental encoders; the inverse additionally assumes that the inner codec round-trips.

The inverse WITHOUT an encoding argument on the decoder side (`encode t none` then `decode b none`)
assumes, for the one encoding name `e` that the text selects, `AsciiTransparent I e`
(`Proofs/CodecInverse.lean`): the name is registered, the one-shot inner codec round-trips
(`encodeAll e t = some b → decodeAll e b = some t`), and an ASCII prefix of the text comes out as the
same bytes (`encodeAll e (p ++ r) = some b`, `p` ASCII → `b = p ++ _`).  Nothing is assumed about the
bytes after the ASCII prefix.  For the `utf-8-sig` spellings (not ASCII-transparent: a byte-order
mark comes first) the assumption is `SigCodec I e`: the bytes start with `EF BB BF` and the decoder
registered as `utf-8-sig` reads them back.  Texts whose UTF-8 bytes look like a byte-order mark or a
UTF-16/32 `@` (`U+FEFF…`, `"@\0c\0"`, `"\0@"`, …) do NOT survive: see the counterexamples at the end.
-/
import CssVerif.Proofs.Codec
import CssVerif.Proofs.CodecEnc
import CssVerif.Proofs.CodecInverse
namespace CssVerif.C14
open CssVerif CssVerif.Codec

/-- **chunking invariance (decoder)**: for every way of cutting the byte stream into chunks, the
incremental decoder's concatenated output — or its error — is exactly that of the one-shot function -/
theorem idecode_chunks (I : Inner) (law : DecLaw I) (chunks : List Bytes) (enc : Option Text) (force : Bool) :
    (decFeed I (decInit I enc force) chunks).map (·.1) = decode I chunks.flatten enc force := by
  rw [decFeed_eq I law chunks (decInit I enc force)]
  exact decStep_oneshot I chunks.flatten enc force

/-- two chunkings of the same bytes give the same result -/
theorem idecode_chunking_irrelevant (I : Inner) (law : DecLaw I) (c1 c2 : List Bytes)
    (h : c1.flatten = c2.flatten) (enc : Option Text) (force : Bool) :
    (decFeed I (decInit I enc force) c1).map (·.1) = (decFeed I (decInit I enc force) c2).map (·.1) := by
  rw [idecode_chunks I law c1, idecode_chunks I law c2, h]

/-- a detection, once made on a prefix, is never revised by more input -/
theorem detect_stable (p q : Bytes) (f : Bool) (e : Text) (x : Bool)
    (h : detectStr p false = (some e, x)) : detectStr (p ++ q) f = (some e, x) :=
  Codec.detect_stable p q f e x h

/-- a rewritten header is never revised by more input: the rest is passed through -/
theorem fix_stable (p q e : Text) (f : Bool) (t : Text) (h : fixEncoding p e false = some t) :
    fixEncoding (p ++ q) e f = some (t ++ q) := Codec.fix_stable p q e f t h

/-- at end of input both the detector and the rewriter always answer -/
theorem final_total (b : Bytes) (t e : Text) :
    (∃ n x, detectStr b true = (some n, x)) ∧ (fixEncoding t e true).isSome = true :=
  ⟨detect_final b, fix_final t e⟩

/-! ### detection priority (decision logic stated outright) -/

/-- an explicit encoding argument (with `force`, the default) wins over anything in the bytes -/
theorem priority_explicit (I : Inner) (b : Bytes) (e : Text) :
    decode I b (some e) true = decodeWith I e b := by
  unfold decode
  simp

/-- byte-order marks -/
theorem priority_bom_utf8 (t : Bytes) (f : Bool) :
    detectStr (0xEF :: 0xBB :: 0xBF :: t) f = (some (ofStr "utf-8-sig"), true) := by
  cases t <;> simp [detectStr, cands, allCands, compat, pat, patOK, need, candName]

theorem priority_bom_utf16be (t : Bytes) (f : Bool) :
    detectStr (0xFE :: 0xFF :: t) f = (some (ofStr "utf-16"), true) := by
  match t with
  | [] => simp [detectStr, cands, allCands, compat, pat, patOK, need, candName]
  | [a] => simp [detectStr, cands, allCands, compat, pat, patOK, need, candName]
  | a :: b :: r => simp [detectStr, cands, allCands, compat, pat, patOK, need, candName]

/-- no candidate pattern fits: UTF-8 -/
theorem priority_default (b : Bytes) (f : Bool) (h : cands b = []) : detectStr b f = (some utf8, false) := by
  unfold detectStr
  rw [h]

theorem findIdx_quote (name rest : Text) (hq : ∀ c ∈ name, c ≠ 34) :
    (name ++ 34 :: rest).findIdx? (· == 34) = some name.length := by
  induction name with
  | nil => simp [List.findIdx?_cons]
  | cons c cs ih =>
    have hc34 : (c == 34) = false := by
      have := hq c List.mem_cons_self
      simpa using this
    simp only [List.cons_append, List.findIdx?_cons, hc34, Bool.false_eq_true, if_false]
    rw [ih (fun x hx => hq x (List.mem_cons_of_mem _ hx))]
    simp

/-- a complete leading `@charset "name"` rule names the encoding -/
theorem priority_charset (name rest : Text) (f : Bool) (hq : ∀ c ∈ name, c ≠ 34) :
    detectStr (charsetPrefix ++ name ++ 34 :: rest) f = (some name, true) := by
  have hc : cands (charsetPrefix ++ name ++ 34 :: rest) = [.charset] := by
    have : charsetPrefix ++ name ++ 34 :: rest = [64, 99, 104, 97] ++ ([114, 115, 101, 116, 32, 34] ++ name ++ 34 :: rest) := by
      simp [charsetPrefix, ofStr]
    rw [this, cands_long _ _ (by simp)]
    decide
  have hname : charsetName (charsetPrefix ++ name ++ 34 :: rest) = some name := by
    unfold charsetName
    have hp : charsetPrefix.isPrefixOf (charsetPrefix ++ name ++ 34 :: rest) = true := by
      rw [List.isPrefixOf_iff_prefix, List.append_assoc]; exact List.prefix_append _ _
    simp only [hp, if_true]
    have hfq : findQuote (charsetPrefix ++ name ++ 34 :: rest) charsetPrefix.length = some (charsetPrefix.length + name.length) := by
      unfold findQuote
      rw [List.append_assoc, List.drop_left]
      have := findIdx_quote name rest hq
      rw [this]
    simp only [hfq]
    rw [List.append_assoc, ← List.length_append, ← List.append_assoc, List.take_left]
    simp
  unfold detectStr
  rw [hc]
  have hl : (charsetPrefix ++ name ++ 34 :: rest).length ≥ need .charset := by
    simp [need, charsetPrefix_length]; omega
  simp only [hl, if_true, hname]
  rfl

/-! non-vacuity -/
example : detectStr (ofStr "@charset \"latin-1\";a") true = (some (ofStr "latin-1"), true) := by decide
example : detectStr [0xFF, 0xFE] true = (some (ofStr "utf-16"), true) := by decide
example : fixEncoding (ofStr "@charset \"x\";a") (ofStr "utf-8") false = some (ofStr "@charset \"utf-8\";a") := by decide

/-! ### the incremental ENCODER -/

/-- **chunking invariance (encoder)**: for every way of cutting the text into chunks, the incremental
encoder's concatenated output — or its error — is exactly that of the one-shot `encode`.
No side condition on the encoding name is needed: the second rewrite `encStep` performs for
`utf-8-sig` always writes `utf-8`, which has no quote, so it is the identity (`fix_idempotent`). -/
theorem iencode_chunks (I : Inner) (law : EncLaw I) (chunks : List Text) (enc : Option Text) :
    (encFeed I (encInit I enc) chunks).map (·.1) = encode I chunks.flatten enc := by
  rw [encFeed_eq I law chunks (encInit I enc)]
  exact encStep_oneshot I chunks.flatten enc

/-- two chunkings of the same text give the same result -/
theorem iencode_chunking_irrelevant (I : Inner) (law : EncLaw I) (c1 c2 : List Text)
    (h : c1.flatten = c2.flatten) (enc : Option Text) :
    (encFeed I (encInit I enc) c1).map (·.1) = (encFeed I (encInit I enc) c2).map (·.1) := by
  rw [iencode_chunks I law c1, iencode_chunks I law c2, h]

/-- two encoder steps = one step on the concatenation, from ANY state (buffering, running, with or
without an explicit encoding), final or not — state included, not only the output -/
theorem iencode_two_chunks (I : Inner) (law : EncLaw I) (st : EncSt I) (a b : Text) (f : Bool) :
    twoEncSteps I st a b f = encStep I st (a ++ b) f := twoEncSteps_eq I law st a b f

/-- any chunk list from ANY state = one final step on the concatenation -/
theorem iencode_feed_any_state (I : Inner) (law : EncLaw I) (cs : List Text) (st : EncSt I) :
    encFeed I st cs = encStep I st cs.flatten true := encFeed_eq I law cs st

/-- the one-shot `encode` is the incremental encoder fed everything at once -/
theorem iencode_oneshot (I : Inner) (all : Text) (enc : Option Text) :
    (encStep I (encInit I enc) all true).map (·.1) = encode I all enc := encStep_oneshot I all enc

/-- a text-level detection, once made on a prefix, is never revised by more text -/
theorem detect_unicode_stable (p q : Text) (f : Bool) (e : Text) (x : Bool)
    (h : detectUnicode p false = (some e, x)) : detectUnicode (p ++ q) f = (some e, x) :=
  detectU_stable p q f e x h

/-- a decided text-level detection implies a decided header rewrite -/
theorem detect_unicode_fix (p e e2 : Text) (x : Bool) (h : detectUnicode p false = (some e, x)) :
    (fixEncoding p e2 false).isSome = true := detectU_fix p e e2 x h

/-- **the rewrite is idempotent**: re-fixing a fixed text with any encoding that writes the same
name returns it unchanged — when the written name contains no quote character.  The hypothesis is
needed: see the counterexample below. -/
theorem fix_idempotent (p e e2 t : Text) (f : Bool) (h : fixEncoding p e f = some t)
    (hq : ∀ c ∈ (if isUtf8Sig e then utf8 else e), c ≠ 34)
    (he : (if isUtf8Sig e2 then utf8 else e2) = (if isUtf8Sig e then utf8 else e)) :
    fixEncoding t e2 f = some t := fix_idem p e e2 t f h hq he

/-- counterexample to idempotence for a name with a quote: the second rewrite stops at the quote
inside the name written by the first -/
example : fixEncoding (ofStr "@charset \"x\";") (ofStr "a\"b") true = some (ofStr "@charset \"a\"b\";") ∧
    fixEncoding (ofStr "@charset \"a\"b\";") (ofStr "a\"b") true = some (ofStr "@charset \"a\"b\"b\";") := by
  decide

/-- **inverse (explicit encoding)**: if the inner codec round-trips, decoding what `encode` produced,
with the same encoding, returns the text up to the `@charset` rewrite.  The name written into the
header must not contain a quote (a registered Python codec name never does); without that the
statement is false, see the counterexample below. -/
theorem encode_decode_explicit (I : Inner)
    (rt : ∀ (e t : Text) (b : Bytes), I.known e = true → I.encodeAll e t = some b → I.decodeAll e b = some t)
    (t e : Text) (b : Bytes) (hq : ∀ c ∈ (if isUtf8Sig e then utf8 else e), c ≠ 34)
    (h : encode I t (some e) = .ok b) :
    decode I b (some e) true = .ok ((fixEncoding t e true).getD t) := encode_decode I rt t e b hq h

/-- counterexample to the inverse without the no-quote hypothesis (identity inner codec, which
round-trips and accepts every name): the decoder rewrites the header a second time and does not
return the text `encode` encoded -/
example :
    (encode idInner (ofStr "@charset \"x\";") (some (ofStr "a\"b"))).toOption = some (ofStr "@charset \"a\"b\";") ∧
    (fixEncoding (ofStr "@charset \"x\";") (ofStr "a\"b") true).getD [] = ofStr "@charset \"a\"b\";" ∧
    (decode idInner (ofStr "@charset \"a\"b\";") (some (ofStr "a\"b")) true).toOption
      = some (ofStr "@charset \"a\"b\"b\";") := by decide

/-! non-vacuity (encoder): the identity inner codec satisfies the laws and the round-trip; a header
is rewritten, encoded, and decoded back; chunked and one-shot runs agree on a concrete input -/
example : EncLaw idInner := idInner_encLaw
example : ∀ (e t : Text) (b : Bytes), idInner.known e = true → idInner.encodeAll e t = some b →
    idInner.decodeAll e b = some t := idInner_roundtrip
example : ∀ c ∈ (if isUtf8Sig (ofStr "latin-1") then utf8 else ofStr "latin-1"), c ≠ 34 := by decide
example : (encode idInner (ofStr "@charset \"x\";a") (some (ofStr "latin-1"))).toOption
    = some (ofStr "@charset \"latin-1\";a") := by decide
example : decode idInner (ofStr "@charset \"latin-1\";a") (some (ofStr "latin-1")) true
    = .ok (ofStr "@charset \"latin-1\";a") :=
  encode_decode_explicit idInner idInner_roundtrip (ofStr "@charset \"x\";a") (ofStr "latin-1")
    (ofStr "@charset \"latin-1\";a") (by decide) (by rfl)
example : ((encFeed idInner (encInit idInner (some (ofStr "UTF_8_sig")))
      [ofStr "@char", ofStr "set \"x", ofStr "\";a"]).map (·.1)).toOption
    = some (ofStr "@charset \"utf-8\";a") := by decide
example : ((encFeed idInner (encInit idInner none) [ofStr "@char", ofStr "set \"utf-8-sig", ofStr "\";a"]).map (·.1)).toOption
    = some (ofStr "@charset \"utf-8\";a") := by decide
example : detectUnicode (ofStr "@charset \"x\"") false = (some (ofStr "x"), true) := by decide

/-! ### the inverse when the DECODER gets no encoding argument -/

/-- **inverse, text with an `@charset` head**: the text starts with a complete `@charset "e"` rule,
`encode` (no encoding argument) therefore encodes it with `e`; if the inner codec for `e` is
ASCII-transparent, `decode` (no encoding argument, any `force`) finds the same head in the bytes,
decodes with `e`, rewrites the head to `e` — the identity — and returns the text itself.

Hypotheses: the name has no quote (else the head ends earlier; automatically true when the head was
found by `detectUnicode`, see `encode_decode_charset_detected`), is ASCII (that is what makes it
appear verbatim in the bytes; Python codec names are ASCII), and is not a spelling of `utf-8-sig`
(false then: see `encode_decode_charset_sig` and the counterexamples below).  That `e` is not the
css codec's own name follows from `encode` having succeeded. -/
theorem encode_decode_charset (I : Inner) (e rest : Text) (b : Bytes) (tr : AsciiTransparent I e)
    (hq : ∀ c ∈ e, c ≠ 34) (ha : ∀ c ∈ e, c < 128) (hs : isUtf8Sig e = false)
    (h : encode I (charsetPrefix ++ e ++ 34 :: rest) none = .ok b) (force : Bool) :
    decode I b none force = .ok (charsetPrefix ++ e ++ 34 :: rest) :=
  encode_decode_head I e rest b tr hq ha hs h force

/-- the same, the head being described by what the text-level detector says about the text -/
theorem encode_decode_charset_detected (I : Inner) (t e : Text) (b : Bytes)
    (hdet : detectUnicode t true = (some e, true)) (tr : AsciiTransparent I e)
    (ha : ∀ c ∈ e, c < 128) (hs : isUtf8Sig e = false)
    (h : encode I t none = .ok b) (force : Bool) :
    decode I b none force = .ok t := by
  obtain ⟨rest, ht, hq⟩ := detectU_explicit hdet
  subst ht
  exact encode_decode_head I e rest b tr hq ha hs h force

/-- **`utf-8-sig` heads**: the encoder writes `utf-8` into the head and a byte-order mark in front;
the decoder answers `utf-8-sig` because of the mark and writes `utf-8` again.  The text comes back
with its head renamed to `utf-8` — the inverse holds up to the rewrite, not exactly. -/
theorem encode_decode_charset_sig (I : Inner) (e rest : Text) (b : Bytes) (sc : SigCodec I e)
    (hq : ∀ c ∈ e, c ≠ 34) (hs : isUtf8Sig e = true)
    (h : encode I (charsetPrefix ++ e ++ 34 :: rest) none = .ok b) (force : Bool) :
    decode I b none force = .ok (charsetPrefix ++ utf8 ++ 34 :: rest) :=
  encode_decode_head_sig I e rest b sc hq hs h force

/-- the answer of the byte detector decides everything when no encoding is given -/
theorem decode_none_detected (I : Inner) (b : Bytes) (e : Text) (force : Bool)
    (hd : (detectStr b true).1 = some e) :
    decode I b none force = if isCss e then .error .value else decodeWith I e b :=
  decode_none_other I b e force hd

/-- **inverse, text without a complete head** (no head at all, or an unterminated one): `encode`
uses UTF-8; if the byte detector answers UTF-8 for the bytes, `decode` returns the text.  By
`decode_none_detected` the hypothesis on the bytes is also necessary for the UTF-8 decoder to be
called at all. -/
theorem encode_decode_default_detect (I : Inner) (t : Text) (b : Bytes) (tr : AsciiTransparent I utf8)
    (hn : (detectUnicode t true).2 = false) (h : encode I t none = .ok b)
    (hd : (detectStr b true).1 = some utf8) (force : Bool) :
    decode I b none force = .ok t :=
  encode_decode_nohead I t b tr hn h hd force

/-- … in particular when the bytes fit no byte-order mark, no UTF-16/32 `@` and no `@cha` -/
theorem encode_decode_default (I : Inner) (t : Text) (b : Bytes) (tr : AsciiTransparent I utf8)
    (hn : (detectUnicode t true).2 = false) (h : encode I t none = .ok b)
    (hc : cands b = []) (force : Bool) :
    decode I b none force = .ok t :=
  encode_decode_nohead I t b tr hn h (by rw [detect_cands_nil true hc]) force

/-- … which can be read off the text: some ASCII prefix `p` of it already excludes every candidate
(`cands p = []` is decidable: `"a"`, `"@i"`, `"@m"`, `"@co"`, `"/*"` …) -/
theorem encode_decode_default_prefix (I : Inner) (p r : Text) (b : Bytes) (tr : AsciiTransparent I utf8)
    (hn : (detectUnicode (p ++ r) true).2 = false) (h : encode I (p ++ r) none = .ok b)
    (hp : ∀ c ∈ p, c < 128) (hc : cands p = []) (force : Bool) :
    decode I b none force = .ok (p ++ r) :=
  encode_decode_prefix I p r b tr hn h hp hc force

/-- … for instance: the first character is ASCII, not NUL and not `@` (no hypothesis on the bytes,
none on the rest of the text) -/
theorem encode_decode_default_first (I : Inner) (c : Nat) (r : Text) (b : Bytes) (tr : AsciiTransparent I utf8)
    (h128 : c < 128) (h0 : c ≠ 0) (h64 : c ≠ 64) (h : encode I (c :: r) none = .ok b) (force : Bool) :
    decode I b none force = .ok (c :: r) :=
  encode_decode_prefix I [c] r b tr (detectU_first c r h64) h
    (by intro x hx; rw [List.mem_singleton.mp hx]; exact h128) (cands_first c h128 h0 h64) force

/-! non-vacuity: the identity codec and the toy UTF-8 codec (`toyInner`: ASCII and U+FEFF, BOM for
the `utf-8-sig` spellings, no other name known) are ASCII-transparent; concrete texts go through -/
example (e : Text) : AsciiTransparent idInner e := idInner_transparent e
example : AsciiTransparent toyInner (ofStr "UTF_8") := toyInner_transparent _ (by decide)
example : SigCodec toyInner (ofStr "UTF_8_sig") := toyInner_sig _ (by decide)

example : (encode idInner (ofStr "@charset \"Latin-1\";a") none).toOption = some (ofStr "@charset \"Latin-1\";a") := by decide
example : decode idInner (ofStr "@charset \"Latin-1\";a") none true = .ok (ofStr "@charset \"Latin-1\";a") :=
  encode_decode_charset idInner (ofStr "Latin-1") (ofStr ";a") _ (idInner_transparent _)
    (by decide) (by decide) (by decide) (by rfl) true
/-- a head immediately followed by the end of the text; an upper-case, underscore spelling is kept -/
example : decode toyInner (ofStr "@charset \"UTF_8\"") none true = .ok (ofStr "@charset \"UTF_8\"") :=
  encode_decode_charset_detected toyInner (ofStr "@charset \"UTF_8\"") (ofStr "UTF_8") _ (by decide)
    (toyInner_transparent _ (by decide)) (by decide) (by decide) (by rfl) true
example : (encode toyInner (ofStr "@charset \"UTF_8\"") none).toOption = some (ofStr "@charset \"UTF_8\"") := by decide
/-- the empty name is a name, too (the identity codec knows it) -/
example : decode idInner (ofStr "@charset \"\";") none true = .ok (ofStr "@charset \"\";") :=
  encode_decode_charset idInner [] (ofStr ";") _ (idInner_transparent _) (by decide) (by decide) (by decide) (by rfl) true
/-- `utf-8-sig`: BOM in the bytes, `utf-8` in the head that comes back -/
example : (encode toyInner (ofStr "@charset \"UTF_8_sig\";a") none).toOption
    = some (0xEF :: 0xBB :: 0xBF :: ofStr "@charset \"utf-8\";a") := by decide
example : decode toyInner (0xEF :: 0xBB :: 0xBF :: ofStr "@charset \"utf-8\";a") none true
    = .ok (ofStr "@charset \"utf-8\";a") :=
  encode_decode_charset_sig toyInner (ofStr "UTF_8_sig") (ofStr ";a") _ (toyInner_sig _ (by decide))
    (by decide) (by decide) (by rfl) true
/-- no head -/
example : decode toyInner (ofStr "a{}") none true = .ok (ofStr "a{}") :=
  encode_decode_default_first toyInner 97 (ofStr "{}") _ (toyInner_transparent _ (by decide))
    (by decide) (by decide) (by decide) (by rfl) true
example : decode toyInner (ofStr "@import \"x\";") none true = .ok (ofStr "@import \"x\";") :=
  encode_decode_default_prefix toyInner (ofStr "@i") (ofStr "mport \"x\";") _ (toyInner_transparent _ (by decide))
    (by decide) (by rfl) (by decide) (by decide) true
/-- an unterminated head is UTF-8 text like any other -/
example : decode toyInner (ofStr "@charset \"abc") none true = .ok (ofStr "@charset \"abc") :=
  encode_decode_default_detect toyInner (ofStr "@charset \"abc") _ (toyInner_transparent _ (by decide))
    (by decide) (by rfl) (by decide) true

/-! counterexamples (kernel-checked): where encode → decode does NOT return the text -/

/-- **a leading U+FEFF is lost.**  The text has no head, the toy UTF-8 codec is ASCII-transparent and
round-trips on these very bytes, but the three bytes of U+FEFF are the UTF-8 byte-order mark: the
detector answers `utf-8-sig`, whose decoder drops them.  So the hypothesis on the bytes in
`encode_decode_default_detect` cannot be dropped. -/
example :
    (detectUnicode (0xFEFF :: ofStr "a{}") true).2 = false ∧
    (encode toyInner (0xFEFF :: ofStr "a{}") none).toOption = some (0xEF :: 0xBB :: 0xBF :: ofStr "a{}") ∧
    toyInner.decodeAll utf8 (0xEF :: 0xBB :: 0xBF :: ofStr "a{}") = some (0xFEFF :: ofStr "a{}") ∧
    detectStr (0xEF :: 0xBB :: 0xBF :: ofStr "a{}") true = (some (ofStr "utf-8-sig"), true) ∧
    (decode toyInner (0xEF :: 0xBB :: 0xBF :: ofStr "a{}") none true).toOption = some (ofStr "a{}") := by decide

/-- **texts with NUL characters that look like a UTF-16/32 `@`**: `"@\0c\0"` is encoded as the same
four UTF-8 bytes, which the detector takes for UTF-16-LE (`"\0@"`: UTF-16-BE, `"@\0\0\0"`:
UTF-32-LE, `"\0\0\0@"`: UTF-32-BE); the toy codec does not know these names, so decoding fails with
a lookup error (Python would decode `"@\0c\0"` to `"@c"`) -/
example :
    (encode toyInner [64, 0, 99, 0] none).toOption = some [64, 0, 99, 0] ∧
    detectStr [64, 0, 99, 0] true = (some (ofStr "utf-16-le"), false) ∧
    decode toyInner [64, 0, 99, 0] none true = .error .lookup ∧
    detectStr [0, 64] true = (some (ofStr "utf-16-be"), false) ∧
    detectStr [64, 0, 0, 0] true = (some (ofStr "utf-32-le"), false) ∧
    detectStr [0, 0, 0, 64] true = (some (ofStr "utf-32-be"), false) :=
  ⟨by decide, by decide, by rfl, by decide, by decide, by decide⟩

/-- **`utf-8-sig` heads do not come back as they were** — even with the identity codec, which is
ASCII-transparent for every name: `encode` itself renames the head to `utf-8`.  So `hs` in
`encode_decode_charset` cannot be dropped. -/
example :
    (encode idInner (ofStr "@charset \"utf-8-sig\";a") none).toOption = some (ofStr "@charset \"utf-8\";a") ∧
    (decode idInner (ofStr "@charset \"utf-8\";a") none true).toOption = some (ofStr "@charset \"utf-8\";a") := by decide

/-- the css codec's own name in the head: `encode` refuses, in any letter case -/
example : encode idInner (ofStr "@charset \"CSS\";a") none = .error .value := by rfl

end CssVerif.C14
