/-
C02 — Well-formed CSS is parsed faithfully into the object model.

Statement (given): every style sheet written in the grammar the library documents yields exactly one rule per
statement, in source order, carrying the rule type, selectors, property names, value components, priorities,
media queries, hrefs, prefixes and namespace URIs that were written; the result does not depend on
insignificant white space, comment placement or the validate setting, and parseComments=False removes comments
and nothing else.

Model: `Model/Value.lean` — the value grammar (`PropertyValue._setCssText` and the productions of
`css/value.py`: terms, operators, generic / colour functions, calc() with its white-space rules) as a
recursive-descent parser over the kinds of the tokens, building the abstract value.  `Proofs/Value.lean` defines
*every* way of writing a value as tokens (`RValue`: arbitrary white space and comments at every boundary,
obligatory white space around + and - in calc()).

Proved, for values of any size and nesting depth:
* `value_parsed_faithfully` — every writing of a value parses to exactly that value (kinds, order, operators,
  function nesting, calc operators);
* `layout_independent` — hence two writings of the same value parse alike, whatever the layout;
* `comments_removed` — deleting the comment tokens (parseComments=False) leaves a writing of the same value.
Statement and declaration boundaries (one rule per statement, one property per declaration, whatever is nested
inside) are the theorems of C04 / C08, cited below as `statement_boundary`.

Tie: `vparse` — the model on the kinds of the real tokenizer's tokens against the real PropertyValue (verdict
and structure read off its seq): exact on derivations of the grammar under random layouts, and `model accepts ⇒
same value` on mutated token sequences (outside the grammar the implementation is more lenient in places; the
model rejects).
Media queries and media lists: the second part of this file (the combinator engine itself, total; the accepted
languages, exactly).
Partial: selectors (C16), namespaces (C15), at-rule preludes, validate-independence and the
assembly of the object model from these parts are decided by the oracle on the implementation (sheets from
the grammar G, expected model by construction, 3 layouts x parseComments, validate on/off).
-/
import CssVerif.Proofs.Value
import CssVerif.Proofs.ProdParser
import CssVerif.Proofs.PPTotal
import CssVerif.Proofs.PPList
import CssVerif.Props.C04
namespace CssVerif.C02
open CssVerif.Value

theorem value_parsed_faithfully (v : Value) (ts : List VT) (h : RValue v ts) : pvalue ts = some v :=
  pvalue_ok v ts h

theorem layout_independent (v : Value) (ts ts' : List VT) (h : RValue v ts) (h' : RValue v ts') :
    pvalue ts = pvalue ts' := by rw [pvalue_ok v ts h, pvalue_ok v ts' h']

theorem comments_removed (v : Value) (ts : List VT) (h : RValue v ts) : pvalue (dropComments ts) = some v :=
  pvalue_ok v _ (dc_value v ts h)

/-- a statement ends where the C04 boundary theorem says, whatever tokens are nested inside it -/
theorem statement_boundary (s : Upto.TK) (tail rest : List Upto.TK) (hs : Upto.Stmt (s :: tail))
    (hg : Upto.goodStart s = true) :
    Upto.upto true Upto.default (some s) (tail ++ rest) = (s :: tail, rest) := C04.boundary s tail rest hs hg

/-- non-vacuity: `a , f( 1px/**/ rgb(1 2,3)) / calc( 1px + 2% * 3 )` -/
example : pvalue [.ident, .ws, .comma, .ws, .func, .ws, .dim, .comment, .ws, .colorFunc false, .num, .ws, .num, .comma,
      .num, .rparen, .rparen, .ws, .slash, .ws, .calcFunc, .ws, .dim, .ws, .plus, .ws, .pct, .ws, .star, .ws, .num, .ws,
      .rparen] =
    some [(.none, .atom .ident),
      (.comma, .fn (.cons false (.atom .dim) (.cons false (.colorFn false [(false, .num), (false, .num), (true, .num)]) .nil))),
      (.slash, .calc .dim [(.plus, .pct), (.star, .num)])] := by rfl

/-- what the grammar excludes is rejected: no white space before `+` in calc(), a doubled comma -/
example : pvalue [.calcFunc, .dim, .plus, .ws, .dim, .rparen] = none ∧ pvalue [.ident, .comma, .comma, .ident] = none :=
  ⟨rfl, rfl⟩

/-! ## The combinator engine (`prodparser.py`) and media queries

Model: `Model/ProdParser.lean` — `Prod` / `Sequence` / `Choice` with the `matches` / `nextProd` protocol (counters as
explicit frame state), the token loop of `ProdParser.parse` (savedTokens, the global tokenizer's push-back list,
COMMENT / S / INVALID / EOF, the descent over the production stack, `stop` `stopAndKeep` `stopIfNoMoreMatch`
`nextSor` (`_SorFilter`) `mayEnd`, nested `toSeq` callables as a hook) and the end-of-input walk;
`Model/MediaQuery.lean` — the grammars of `MediaQuery._setMediaText` / `MediaList._setMediaText`, Prod by Prod.
Tie: `pp` / `ppshow` (harness/props/c02pp.py): the real classes on the same grammars, the real MediaQuery / MediaList.

* `engine_total` — for every grammar without empty or zero-round Sequences in which no unbounded Sequence is
  all-optional (except ones only a COMMENT could enter), every hook that terminates and does not lengthen the input,
  every configuration and token list: the fuel the entry point gives (2·size+2 per descent, one per token) is
  enough, no Sequence spins, no IndexError; `engine_progress`: such a parse never leaves more than it was given, and
  one token less when the grammar has no `stopAndKeep`.  `media_query_total`, `media_list_total`: the two media
  grammars satisfy the hypotheses (the all-optional `Sequence(comment){0,∞}` of MediaList is never entered).
  `spin_is_real`: on `Sequence(Prod(optional)){0,∞}` the model reports `spin` (the real engine does not return).
* `media_query_language` — for token lists of any length without an EOF token, `MediaQuery(text)` is well-formed iff
  the tokens (S and COMMENT removed) are in `MQ.accepts`, a recogniser written from the docstring grammar plus one
  rule: after `[only|not]? <known media type>` a token that does not fit inside an `and ( … )` part ends the
  query quietly (`print and ;` is "well-formed").  `media_query_documented` / `media_query_beyond_documented`
  compare with the documented grammar: every documented query is accepted unless `only`/`not` is followed by
  something other than a known media type; whatever else is accepted begins with a known media type.
* `media_list_language` — for token lists of any length without an EOF token, the verdict of `MediaList(text)` /
  `MediaList._setMediaText(tokens)` (outer engine run on the list grammar, one nested engine run per query on the
  same token stream, `savedTokens` and the tokenizer's push-back list between them) is `MQ.listAccepts`: queries
  separated by commas, each read by `MQ.sQuery` (the same six-state scan, saying where it stops and whether the
  token it stops at is handed back, lost, or — parsed from a string and followed by more text — comes back).
  `media_list_comment_dependent`: from a string the verdict depends on a trailing comment.
-/
open CssVerif.PP in
theorem engine_total (hook : Hook) (cfg : Cfg) (g : G) (toks saved : List Tok) (hwf : g.wf = true)
    (hns : g.noSpin = true) (hr : g.rootOK = true) (hh : HookOK hook) : (parse hook cfg g toks saved).status = .ok :=
  parse_total hook cfg g toks saved hwf hns hr hh

open CssVerif.PP in
theorem engine_progress (hook : Hook) (cfg : Cfg) (g : G) (toks saved : List Tok) (hwf : g.wf = true)
    (hns : g.noSpin = true) (hr : g.rootOK = true) (hh : HookOK hook) :
    (let r := parse hook cfg g toks saved; r.rest.length + r.saved.length + r.pushed.length ≤ toks.length + saved.length) ∧
    (g.noSAK = true → (toks ≠ [] ∨ saved ≠ []) →
      let r := parse hook cfg g toks saved; r.rest.length + r.saved.length + r.pushed.length + 1 ≤ toks.length + saved.length) :=
  ⟨parse_measure hook cfg g toks saved hwf hns hr hh, fun hs hne => parse_progress hook cfg g toks saved hwf hns hr hh hs hne⟩

open CssVerif.PP in
theorem media_query_total (colors : List Text) (toks : List Tok) : (MQ.mediaQuery colors toks).status = .ok :=
  mediaQuery_total colors toks

open CssVerif.PP in
theorem media_list_total (colors : List Text) (global : Bool) (toks : List Tok) :
    (MQ.mediaList colors global toks).2.status = .ok := mediaList_total colors global toks

open CssVerif.PP in
theorem synthetic_total (cfg : Cfg) (toks saved : List Tok) :
    (parse noHook cfg Synth.s1 toks saved).status = .ok ∧ (parse noHook cfg Synth.s2 toks saved).status = .ok ∧
    (parse noHook cfg Synth.s3 toks saved).status = .ok :=
  ⟨s1_total cfg toks saved, s2_total cfg toks saved, s3_total cfg toks saved⟩

open CssVerif.PP in
/-- the hazard of Appendix A.3 is real where the hypothesis fails: every item optional, no upper bound -/
theorem spin_is_real : Synth.s4.noSpin = false ∧ (parse noHook {} Synth.s4 [⟨.ident, [98], [98]⟩] []).status = .spin := by
  decide

open CssVerif.PP CssVerif.PP.MQ in
theorem media_query_language (colors : List Text) (toks : List Tok) (he : ∀ t ∈ toks, t.kind ≠ .eof) :
    (mediaQuery colors toks).wf = accepts colors (strip toks) := mediaQuery_correct colors toks he

open CssVerif.PP CssVerif.PP.MQ in
theorem media_query_documented (colors : List Text) (ts : List Tok) (hd : documented colors ts = true)
    (hs : ∀ t rest, ts = t :: rest → pLpar.eval t = true → pIdent.eval t = false)
    (hon : ∀ t rest, ts = t :: rest → pOnlyNot.eval t = true → ∃ u us, rest = u :: us ∧ pKnown.eval u = true) :
    accepts colors ts = true := documented_accepted colors ts hd hs hon

open CssVerif.PP CssVerif.PP.MQ in
theorem media_query_beyond_documented (colors : List Text) (ts : List Tok) (ha : accepts colors ts = true)
    (hs : ∀ t rest, ts = t :: rest → pLpar.eval t = true → pIdent.eval t = false) :
    documented colors ts = true ∨ knownHead ts = true := accepted_documented colors ts ha hs

open CssVerif.PP CssVerif.PP.MQ in
theorem media_list_language (colors : List Text) (g : Bool) (toks : List Tok) (he : ∀ t ∈ toks, t.kind ≠ .eof) :
    (mediaList colors g toks).1 = listAccepts colors g toks := mediaList_correct colors g toks he

open CssVerif.PP CssVerif.PP.MQ in
/-- `print and ;` is a well-formed list, `print and ; /*c*/` is not (from a string); an unknown media type is accepted
    only in the last place -/
theorem media_list_comment_dependent :
    listAccepts [] true [tPrint, tAndTok, chr 59] = true ∧ listAccepts [] true [tPrint, tAndTok, chr 59, ⟨.comment, [], []⟩] = false ∧
    listAccepts [] true [tPrint, tCommaTok, tFoo] = true ∧ listAccepts [] true [tFoo, tCommaTok, tPrint] = false := by decide

open CssVerif.PP CssVerif.PP.MQ in
/-- non-vacuity of the hypotheses, and their necessity:
    a documented query that is accepted; `not foo` (documented, `hon` fails) is rejected;
    `only EOF` is well-formed although `only` is not in the language (`he` of `media_query_language`) -/
example : documented [] [tPrint, tAndTok, chr 40, tWidth, chr 58, tDim, chr 41] = true ∧
    accepts [] [tPrint, tAndTok, chr 40, tWidth, chr 58, tDim, chr 41] = true ∧
    documented [] [tNotTok, tFoo] = true ∧ accepts [] [tNotTok, tFoo] = false ∧
    (mediaQuery [] [ident tOnly, ⟨.eof, [], []⟩]).wf = true ∧ accepts [] (strip [ident tOnly, ⟨.eof, [], []⟩]) = false := by
  decide

end CssVerif.C02
