/-
C02 — Well-formed CSS is parsed faithfully into the object model.

Statement (given): every style sheet written in the grammar the library documents yields exactly one rule per
statement, in source order, carrying the rule type, selectors, property names, value components, priorities,
media queries, hrefs, prefixes and namespace URIs that were written; the result does not depend on
insignificant white space, comment placement or the validate setting, and parseComments=False removes comments
and nothing else.

Model: `Model/Value.lean` — the value grammar (`PropertyValue._setCssText` and the productions of
`css/value.py`: terms, operators, generic / colour functions, calc() with its white-space rules) as a
recursive-descent parser over the kinds of the tokens, building the abstract value.  `Proofs/Value.lean` defines
*every* way of writing a value as tokens (`RValue`: arbitrary white space and comments at every boundary,
obligatory white space around + and - in calc()).

Proved, for values of any size and nesting depth:
* `value_parsed_faithfully` — every writing of a value parses to exactly that value (kinds, order, operators,
  function nesting, calc operators);
* `layout_independent` — hence two writings of the same value parse alike, whatever the layout;
* `comments_removed` — deleting the comment tokens (parseComments=False) leaves a writing of the same value.
Statement and declaration boundaries (one rule per statement, one property per declaration, whatever is nested
inside) are the theorems of C04 / C08, cited below as `statement_boundary`.

Tie: `vparse` — the model on the kinds of the real tokenizer's tokens against the real PropertyValue (verdict
and structure read off its seq): exact on derivations of the grammar under random layouts, and `model accepts ⇒
same value` on mutated token sequences (outside the grammar the implementation is more lenient in places; the
model rejects).
Partial: selectors (C16), namespaces (C15), media queries, at-rule preludes, validate-independence and the
assembly of the object model from these parts are decided by the oracle on the implementation (sheets from
the grammar G, expected model by construction, 3 layouts x parseComments, validate on/off).
-/
import CssVerif.Proofs.Value
import CssVerif.Props.C04
namespace CssVerif.C02
open CssVerif.Value

theorem value_parsed_faithfully (v : Value) (ts : List VT) (h : RValue v ts) : pvalue ts = some v :=
  pvalue_ok v ts h

theorem layout_independent (v : Value) (ts ts' : List VT) (h : RValue v ts) (h' : RValue v ts') :
    pvalue ts = pvalue ts' := by rw [pvalue_ok v ts h, pvalue_ok v ts' h']

theorem comments_removed (v : Value) (ts : List VT) (h : RValue v ts) : pvalue (dropComments ts) = some v :=
  pvalue_ok v _ (dc_value v ts h)

/-- a statement ends where the C04 boundary theorem says, whatever tokens are nested inside it -/
theorem statement_boundary (s : Upto.TK) (tail rest : List Upto.TK) (hs : Upto.Stmt (s :: tail))
    (hg : Upto.goodStart s = true) :
    Upto.upto true Upto.default (some s) (tail ++ rest) = (s :: tail, rest) := C04.boundary s tail rest hs hg

/-- non-vacuity: `a , f( 1px/**/ rgb(1 2,3)) / calc( 1px + 2% * 3 )` -/
example : pvalue [.ident, .ws, .comma, .ws, .func, .ws, .dim, .comment, .ws, .colorFunc false, .num, .ws, .num, .comma,
      .num, .rparen, .rparen, .ws, .slash, .ws, .calcFunc, .ws, .dim, .ws, .plus, .ws, .pct, .ws, .star, .ws, .num, .ws,
      .rparen] =
    some [(.none, .atom .ident),
      (.comma, .fn (.cons false (.atom .dim) (.cons false (.colorFn false [(false, .num), (false, .num), (true, .num)]) .nil))),
      (.slash, .calc .dim [(.plus, .pct), (.star, .num)])] := by rfl

/-- what the grammar excludes is rejected: no white space before `+` in calc(), a doubled comma -/
example : pvalue [.calcFunc, .dim, .plus, .ws, .dim, .rparen] = none ∧ pvalue [.ident, .comma, .comma, .ident] = none :=
  ⟨rfl, rfl⟩

end CssVerif.C02
