/-
C11 — Declaration blocks behave as an ordered, cascade-aware property list.

The model (`Model/Decl.lean`) transcribes the methods of `CSSStyleDeclaration` as coded; the
specification (`effective`, `namesSpec`) is written from the property statement.  Every theorem
is for an arbitrary block `l`, hence for every state reachable by any operation history
(`reachable_*` make that explicit).  The alias clause is decided by the kernel over the complete
table of known property names regenerated from /repo.
-/
import CssVerif.Proofs.Decl
import CssVerif.Gen.Names
namespace CssVerif.C11
open CssVerif CssVerif.Decl

/-- getPropertyValue / getPropertyPriority / `in` / item access all go through the effective entry:
the last `!important` one of that name, else the last one -/
theorem get_effective (l : Block) (n : Nat) : getProperty l n = effective l n := Decl.get_effective l n

theorem value_priority_effective (l : Block) (n : Nat) :
    getPropertyValue l n = (effective l n).map (·.val) ∧
    getPropertyPriority l n = ((effective l n).map (·.imp)).getD false := by
  simp only [getPropertyValue, getPropertyPriority, Decl.get_effective]
  cases effective l n <;> simp

/-- keys, length, item and iteration report the distinct names ordered by last occurrence -/
theorem names_spec (l : Block) : keys l = namesSpec l ∧ length l = (namesSpec l).length ∧ (keys l).Nodup := by
  refine ⟨Decl.names_spec l, by simp [length, Decl.names_spec], Decl.nnames_nodup l⟩

theorem item_spec (l : Block) (i : Nat) : item l (i : Int) = (namesSpec l)[i]? := by
  simp [item, Decl.names_spec]

theorem item_negative (l : Block) (k : Nat) (hk : 0 < k) (hle : k ≤ (namesSpec l).length) :
    item l (-(k : Int)) = (namesSpec l)[(namesSpec l).length - k]? := by
  have h1 : ¬ (-(k : Int) ≥ 0) := by omega
  have h2 : (- -(k : Int)).toNat = k := by simp
  simp only [item, h1, if_false, h2, Decl.names_spec]
  simp [hle]

theorem contains_spec (l : Block) (n : Nat) :
    (contains l n = true ↔ ∃ e ∈ l, e.name = n) ∧ contains l n = (getProperty l n).isSome := by
  refine ⟨?_, Decl.contains_iff_get l n⟩
  simp [contains, Decl.mem_nnames]

/-- iteration: one effective property per key, in key order -/
theorem iter_spec (l : Block) :
    (iter l).map (fun x => x.map (·.name)) = (keys l).map some ∧
    iter l = (keys l).map (effective l) := by
  refine ⟨Decl.iter_names l, ?_⟩
  simp only [iter, keys]
  apply List.map_congr_left
  intro n _
  exact Decl.get_effective l n

/-- set with replace: present ⇒ same entries in the same order of names (value/priority of the
effective entry updated in place); absent ⇒ appended at the end.  Without replace: appended. -/
theorem set_replace (l : Block) (n lit v : Nat) (imp : Bool) :
    ((∃ e ∈ l, e.name = n) → (setProperty l n lit v imp true).map (·.name) = l.map (·.name)) ∧
    ((∀ e ∈ l, e.name ≠ n) → setProperty l n lit v imp true = l ++ [⟨n, lit, v, imp⟩]) :=
  Decl.set_replace_shape l n lit v imp

theorem set_noreplace (l : Block) (n lit v : Nat) (imp : Bool) :
    setProperty l n lit v imp false = l ++ [⟨n, lit, v, imp⟩] := Decl.set_noreplace l n lit v imp

/-- remove deletes every entry of that name and nothing else -/
theorem remove_all (l : Block) (n : Nat) :
    (∀ e ∈ removeProperty l n, e.name ≠ n) ∧
    (∀ m, m ≠ n → (removeProperty l n).filter (fun e => e.name = m) = l.filter (fun e => e.name = m)) ∧
    (removeProperty l n).Sublist l ∧
    getProperty (removeProperty l n) n = none ∧
    (∀ m, m ≠ n → getProperty (removeProperty l n) m = getProperty l m) :=
  ⟨(Decl.remove_spec l n).1, (Decl.remove_spec l n).2.1, (Decl.remove_spec l n).2.2,
   Decl.remove_get_none l n, fun m hm => Decl.remove_get_other l n m hm⟩

/-- blocks without duplicate names: reading a property after setting it returns what was set -/
theorem read_after_set (l : Block) (hnd : (l.map (·.name)).Nodup) (n lit v : Nat) (imp : Bool) :
    getPropertyValue (setProperty l n lit v imp true) n = some v ∧
    getPropertyPriority (setProperty l n lit v imp true) n = imp := by
  obtain ⟨e, he, _, hv, hi⟩ := Decl.read_after_set l hnd n lit v imp
  simp [getPropertyValue, getPropertyPriority, he, hv, hi]

/-- the full statement is false with duplicates: a non-important set on an important effective entry
hands effectiveness to a later duplicate (witness) -/
theorem read_after_set_needs_nodup :
    getPropertyValue (setProperty [⟨0, 0, 1, true⟩, ⟨0, 0, 2, false⟩] 0 0 3 false true) 0 = some 2 := by decide

/-- every state reachable by any history of set / remove / cssText assignment is a block, so all of
the above hold after every step of every history -/
theorem reachable_consistent (ops : List Op) :
    let l := ops.foldl Decl.step []
    keys l = namesSpec l ∧ (∀ n, getProperty l n = effective l n) ∧
      (∀ n, contains l n = (getProperty l n).isSome) :=
  ⟨Decl.names_spec _, fun n => Decl.get_effective _ n, fun n => Decl.contains_iff_get _ n⟩

/-! ### camel-case aliases: decided on the complete regenerated table -/

/-- assigning the camel-case attribute of every known property sets exactly its hyphenated name -/
theorem alias : ∀ row ∈ Gen.aliasRows, row.eff = row.css := by decide +kernel

/-- the model of `_toDOMname` computes the attribute name the code derives, for every known property -/
theorem toDOM_table : ∀ row ∈ Gen.aliasRows, toDOM Gen.nameTables row.css = row.dom := by decide +kernel

/-- no two known properties share an attribute name -/
theorem dom_injective : ∀ r1 ∈ Gen.aliasRows, ∀ r2 ∈ Gen.aliasRows, r1.dom = r2.dom → r1.css = r2.css := by
  decide +kernel

theorem table_nonempty : 100 ≤ Gen.aliasRows.length := by decide +kernel

/-! non-vacuity -/
example : getPropertyValue (setProperty [⟨1, 1, 5, false⟩] 0 0 7 true true) 0 = some 7 := by decide
example : (([⟨1, 1, 5, false⟩] : Block).map (·.name)).Nodup := by decide

end CssVerif.C11
