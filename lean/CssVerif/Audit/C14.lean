import CssVerif.Props.C14
#print axioms CssVerif.C14.idecode_chunks
#print axioms CssVerif.C14.idecode_chunking_irrelevant
#print axioms CssVerif.C14.detect_stable
#print axioms CssVerif.C14.fix_stable
#print axioms CssVerif.C14.final_total
#print axioms CssVerif.C14.priority_explicit
#print axioms CssVerif.C14.priority_bom_utf8
#print axioms CssVerif.C14.priority_bom_utf16be
#print axioms CssVerif.C14.priority_default
#print axioms CssVerif.C14.priority_charset
