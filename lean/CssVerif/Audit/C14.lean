import CssVerif.Props.C14
#print axioms CssVerif.C14.placeholder
