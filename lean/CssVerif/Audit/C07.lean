import CssVerif.Props.C07
#print axioms CssVerif.C07.placeholder
