import CssVerif.Props.C07
#print axioms CssVerif.C07.valid_init
#print axioms CssVerif.C07.valid_step
#print axioms CssVerif.C07.reject_unchanged
#print axioms CssVerif.C07.reachable_valid
#print axioms CssVerif.C07.parse_valid
#print axioms CssVerif.C07.reparse_same_partial
#print axioms CssVerif.C07.reachable_reparse
#print axioms CssVerif.C07.container_insert_allowed
#print axioms CssVerif.C07.container_delete_allowed
#print axioms CssVerif.C07.container_reject_unchanged
#print axioms CssVerif.C07.snapshot_counterexample
#print axioms CssVerif.C07.snapshot_inorder_index
