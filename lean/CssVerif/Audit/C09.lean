import CssVerif.Props.C09
#print axioms CssVerif.C09.gen_S_first
#print axioms CssVerif.C09.classify_ws
#print axioms CssVerif.C09.classify_fast
#print axioms CssVerif.C09.classify_solo
#print axioms CssVerif.C09.gen_solo_delims
#print axioms CssVerif.C09.classify_includes
#print axioms CssVerif.C09.classify_dashmatch
#print axioms CssVerif.C09.classify_prefixmatch
#print axioms CssVerif.C09.classify_suffixmatch
#print axioms CssVerif.C09.classify_substringmatch
#print axioms CssVerif.C09.first_char_sound
#print axioms CssVerif.C09.digit_types
#print axioms CssVerif.C09.letter_types
#print axioms CssVerif.C09.special_types
