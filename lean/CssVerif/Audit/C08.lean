import CssVerif.Props.C08
#print axioms CssVerif.C08.gen_nonNullable
#print axioms CssVerif.C08.gen_coversAll
#print axioms CssVerif.C08.gen_fastNoNl
#print axioms CssVerif.C08.gen_backslashOnly
#print axioms CssVerif.C08.tokenize_total
#print axioms CssVerif.C08.partition
#print axioms CssVerif.C08.value_eq_raw
#print axioms CssVerif.C08.position
#print axioms CssVerif.C08.all_emitted
#print axioms CssVerif.Re.exec_eq_head
