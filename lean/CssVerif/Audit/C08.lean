import CssVerif.Props.C08
#print axioms CssVerif.C08.placeholder
