import CssVerif.Props.C02
#print axioms CssVerif.C02.value_parsed_faithfully
#print axioms CssVerif.C02.layout_independent
#print axioms CssVerif.C02.comments_removed
#print axioms CssVerif.C02.statement_boundary
