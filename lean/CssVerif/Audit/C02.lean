import CssVerif.Props.C02
#print axioms CssVerif.C02.value_parsed_faithfully
#print axioms CssVerif.C02.layout_independent
#print axioms CssVerif.C02.comments_removed
#print axioms CssVerif.C02.statement_boundary
#print axioms CssVerif.C02.engine_total
#print axioms CssVerif.C02.engine_progress
#print axioms CssVerif.C02.media_query_total
#print axioms CssVerif.C02.media_list_total
#print axioms CssVerif.C02.synthetic_total
#print axioms CssVerif.C02.spin_is_real
#print axioms CssVerif.C02.media_query_language
#print axioms CssVerif.C02.media_query_documented
#print axioms CssVerif.C02.media_query_beyond_documented
#print axioms CssVerif.C02.media_list_language
#print axioms CssVerif.C02.media_list_comment_dependent
