import CssVerif.Props.C04
#print axioms CssVerif.C04.boundary
#print axioms CssVerif.C04.nothing_ends_inside
#print axioms CssVerif.C04.junk_is_a_unit
#print axioms CssVerif.C04.order_unaffected
#print axioms CssVerif.C04.declaration_is_a_unit
#print axioms CssVerif.C04.snapshot_function_start
#print axioms CssVerif.C04.snapshot_order
#print axioms CssVerif.C04.snapshot_declaration
#print axioms CssVerif.C04.exStmt
#print axioms CssVerif.C04.example_boundary
#print axioms CssVerif.C04.sheet_unaffected
