import CssVerif.Props.C10
#print axioms CssVerif.C10.spelling_reads_as_name
#print axioms CssVerif.C10.spellings_agree
#print axioms CssVerif.C10.quote_kind
