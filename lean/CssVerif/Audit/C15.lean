import CssVerif.Props.C15
#print axioms CssVerif.C15.undeclared_rejected
#print axioms CssVerif.C15.undeclared_error
#print axioms CssVerif.C15.stored_uri
#print axioms CssVerif.C15.stored_uri_cases
#print axioms CssVerif.C15.attr_unprefixed
#print axioms CssVerif.C15.example_undeclared
#print axioms CssVerif.C15.example_declared
#print axioms CssVerif.C15.view_bijective
#print axioms CssVerif.C15.view_from_rules
#print axioms CssVerif.C15.view_later_wins
#print axioms CssVerif.C15.view_accounts_for
#print axioms CssVerif.C15.prefix_round_trip
#print axioms CssVerif.C15.reparse_keeps_pair
#print axioms CssVerif.C15.none_pair_finding
#print axioms CssVerif.C15.ns_ops_keep_pairs
#print axioms CssVerif.C15.in_use_cannot_be_deleted
#print axioms CssVerif.C15.attr_default_finding
