import CssVerif.Props.C19
#print axioms CssVerif.C19.ir_sound
#print axioms CssVerif.C19.rejected_unchanged
#print axioms CssVerif.C19.per_setter
#print axioms CssVerif.C19.C19
#print axioms CssVerif.C19.coverage
#print axioms CssVerif.C19.snapshot_commit_then_check
#print axioms CssVerif.C19.snapshot_replace_then_parse
#print axioms CssVerif.C19.snapshot_setters_in_a_row
#print axioms CssVerif.C19.repaired_shapes
