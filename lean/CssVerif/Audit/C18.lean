import CssVerif.Props.C18
#print axioms CssVerif.C18.sheet_found
#print axioms CssVerif.C18.insert_links
#print axioms CssVerif.C18.insert_top_links
#print axioms CssVerif.C18.insert_keeps
#print axioms CssVerif.C18.deleted_detached
#print axioms CssVerif.C18.deleted_top_detached
#print axioms CssVerif.C18.snapshot_getter
#print axioms CssVerif.C18.owners_init
#print axioms CssVerif.C18.owners_fresh
#print axioms CssVerif.C18.owners_parent
#print axioms CssVerif.C18.owners_step
#print axioms CssVerif.C18.owners_reachable
#print axioms CssVerif.C18.owners_reachable_text
#print axioms CssVerif.C18.owners_alias
