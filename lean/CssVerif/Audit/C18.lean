import CssVerif.Props.C18
#print axioms CssVerif.C18.sheet_found
#print axioms CssVerif.C18.insert_links
#print axioms CssVerif.C18.insert_top_links
#print axioms CssVerif.C18.insert_keeps
#print axioms CssVerif.C18.deleted_detached
#print axioms CssVerif.C18.deleted_top_detached
#print axioms CssVerif.C18.snapshot_getter
