import CssVerif.Props.C06
#print axioms CssVerif.C06.no_other_state
#print axioms CssVerif.C06.temporaries_clean
#print axioms CssVerif.C06.clean_however_it_ends
#print axioms CssVerif.C06.settings_restored
#print axioms CssVerif.C06.snapshot_shapes
#print axioms CssVerif.C06.nested_checker_iff_grammar
#print axioms CssVerif.C06.stack_restores
#print axioms CssVerif.C06.stack_caller_last_set
#print axioms CssVerif.C06.stack_state_at
#print axioms CssVerif.C06.stack_inside
#print axioms CssVerif.C06.stack_flag_at
#print axioms CssVerif.C06.slot_wrong
#print axioms CssVerif.C06.slot_wrong_always
#print axioms CssVerif.C06.slot_restores_without_reentry
#print axioms CssVerif.C06.slot_flag_at_without_reentry
#print axioms CssVerif.C06.noReentry_wellNested
