import CssVerif.Props.C06
#print axioms CssVerif.C06.no_other_state
#print axioms CssVerif.C06.temporaries_clean
#print axioms CssVerif.C06.clean_however_it_ends
#print axioms CssVerif.C06.settings_restored
#print axioms CssVerif.C06.snapshot_shapes
