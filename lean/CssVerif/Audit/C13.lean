import CssVerif.Props.C13
#print axioms CssVerif.C13.written_is_encodable
#print axioms CssVerif.C13.read_back
#print axioms CssVerif.C13.gen_unicodesub_shape
