import CssVerif.Props.C03
#print axioms CssVerif.C03.written_is_a_writing
#print axioms CssVerif.C03.reparse_value
#print axioms CssVerif.C03.fixpoint_value
#print axioms CssVerif.C03.number_cited
#print axioms CssVerif.C03.hash_cited
#print axioms CssVerif.C03.string_cited
#print axioms CssVerif.C03.url_cited
#print axioms CssVerif.C03.namespace_cited
#print axioms CssVerif.C03.rule_order_cited
