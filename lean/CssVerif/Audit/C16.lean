import CssVerif.Props.C16
#print axioms CssVerif.C16.not_norm
#print axioms CssVerif.C16.specificity
#print axioms CssVerif.C16.specificity_any_tables
#print axioms CssVerif.C16.definition_cases
#print axioms CssVerif.C16.exSel_wf
#print axioms CssVerif.C16.exSel_spec
#print axioms CssVerif.C16.exSel_run
#print axioms CssVerif.C16.exSel_text
