import CssVerif.Props.C16
#print axioms CssVerif.C16.placeholder
