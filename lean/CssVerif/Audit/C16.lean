import CssVerif.Props.C16
#print axioms CssVerif.C16.not_norm
#print axioms CssVerif.C16.specificity
#print axioms CssVerif.C16.specificity_any_tables
#print axioms CssVerif.C16.definition_cases
#print axioms CssVerif.C16.exSel_wf
#print axioms CssVerif.C16.exSel_spec
#print axioms CssVerif.C16.exSel_run
#print axioms CssVerif.C16.exSel_text
#print axioms CssVerif.C16.lexemes_classify
#print axioms CssVerif.C16.text_is_token_values
#print axioms CssVerif.C16.tokens_from_text
#print axioms CssVerif.C16.specificity_from_text
#print axioms CssVerif.C16.exSel_names
#print axioms CssVerif.C16.exSel_text_eq
#print axioms CssVerif.C16.exSel_from_text
#print axioms CssVerif.C16.exU_wf
#print axioms CssVerif.C16.exNotF_wf
