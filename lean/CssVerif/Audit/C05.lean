import CssVerif.Props.C05
#print axioms CssVerif.C05.words_never_touch
#print axioms CssVerif.C05.gap_nonempty
#print axioms CssVerif.C05.gap_is_white_space
#print axioms CssVerif.C05.value_same_under_all_preferences
#print axioms CssVerif.C05.hash_cited
