import CssVerif.Props.C11
#print axioms CssVerif.C11.get_effective
#print axioms CssVerif.C11.value_priority_effective
#print axioms CssVerif.C11.names_spec
#print axioms CssVerif.C11.item_spec
#print axioms CssVerif.C11.item_negative
#print axioms CssVerif.C11.contains_spec
#print axioms CssVerif.C11.iter_spec
#print axioms CssVerif.C11.set_replace
#print axioms CssVerif.C11.set_noreplace
#print axioms CssVerif.C11.remove_all
#print axioms CssVerif.C11.read_after_set
#print axioms CssVerif.C11.read_after_set_needs_nodup
#print axioms CssVerif.C11.reachable_consistent
#print axioms CssVerif.C11.alias
#print axioms CssVerif.C11.toDOM_table
#print axioms CssVerif.C11.dom_injective
#print axioms CssVerif.C11.table_nonempty
