import CssVerif.Props.C01
#print axioms CssVerif.C01.tokenizer_total
#print axioms CssVerif.C01.boundary_total
#print axioms CssVerif.C01.fetcher_contained
#print axioms CssVerif.C01.tokenizer_patterns_unambiguous
#print axioms CssVerif.C01.profile_patterns
#print axioms CssVerif.C01.hexcolor_pattern_ends_strictly
#print axioms CssVerif.C01.snapshot_patterns
