import CssVerif.Props.C12
#print axioms CssVerif.C12.replace_then_get
#print axioms CssVerif.C12.page_declarations_seen
#print axioms CssVerif.C12.url_survives
#print axioms CssVerif.C12.string_survives
#print axioms CssVerif.C12.snapshot_counterexamples
#print axioms CssVerif.C12.gen_uri_layout
#print axioms CssVerif.C12.uri_one_token
#print axioms CssVerif.C12.uri_one_token_rest
#print axioms CssVerif.C12.url_single_token_roundtrip
#print axioms CssVerif.C12.uri_tokenize_alone
