import CssVerif.Props.C12
#print axioms CssVerif.C12.replace_then_get
#print axioms CssVerif.C12.page_declarations_seen
#print axioms CssVerif.C12.url_survives
#print axioms CssVerif.C12.string_survives
#print axioms CssVerif.C12.snapshot_counterexamples
