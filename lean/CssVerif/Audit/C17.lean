import CssVerif.Props.C17
#print axioms CssVerif.C17.named
#print axioms CssVerif.C17.zero_units
#print axioms CssVerif.C17.fmt_reparse_partial
#print axioms CssVerif.C17.round6_close
#print axioms CssVerif.C17.strip_keeps_value
#print axioms CssVerif.C17.int_digits
#print axioms CssVerif.C17.snapshot_counterexample
#print axioms CssVerif.C17.hex3_is_hex6
#print axioms CssVerif.C17.hex_components
#print axioms CssVerif.C17.hash_shorten
#print axioms CssVerif.C17.clamp_range
