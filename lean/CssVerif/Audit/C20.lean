import CssVerif.Props.C20
#print axioms CssVerif.C20.placeholder
