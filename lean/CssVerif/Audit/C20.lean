import CssVerif.Props.C20
#print axioms CssVerif.C20.enc_priority
#print axioms CssVerif.C20.enc_source
#print axioms CssVerif.C20.hand_on
#print axioms CssVerif.C20.fetch_contained
#print axioms CssVerif.C20.snapshot_counterexample
#print axioms CssVerif.C20.urljoin_rfc
#print axioms CssVerif.C20.above_root_differs
#print axioms CssVerif.C20.enc_nested
