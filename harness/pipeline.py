"""Shared by the pipeline properties C02, C03, C05, C10: parsing helpers, the structural diff of two extracted
models, and the fixed inputs of the recorded findings."""
import logging

from . import lib, sheetgen as G

lib.use_repo()


def cp():
    import css_parser
    css_parser.log.setLevel(logging.FATAL)
    css_parser.log.raiseExceptions = False
    return css_parser


def parse(text, **kw):
    c = cp()
    kw.setdefault('fetcher', lambda url: (None, ''))
    return c.CSSParser(**kw).parseString(text, href='http://h/sheet.css')


def diff(a, b, path=''):
    """first structural difference of two models: (path, got, expected) or None"""
    if type(a) != type(b) or not isinstance(a, (list, tuple)):
        return None if a == b else (path, a, b)
    if len(a) != len(b):
        for i, (x, y) in enumerate(zip(a, b)):
            if x != y:
                return (path + '/%d(of %d vs %d)' % (i, len(a), len(b)), x, y)
        return (path + '/length', a[len(b):], b[len(a):])
    for i, (x, y) in enumerate(zip(a, b)):
        d = diff(x, y, path + '/%d' % i)
        if d:
            return d
    return None


def show(d, n=300):
    return 'at %s: got %s, expected %s' % (d[0], repr(d[1])[:n], repr(d[2])[:n])


def model_of(text, comments=False, **kw):
    return G.sheet_model(parse(text, **kw), comments=comments)


# recorded findings: one fixed input each, compared with the spelling / layout that must be equivalent
PINNED = {
    ('layout', 'a /**/ b'): ('a /**/ b { top: 0 }', 'a b { top: 0 }'),
    ('layout', 'a /**/{'): ('a /**/{ top: 0 }', 'a{ top: 0 }'),
    ('respell', '.d\\iv'): ('.d\\iv#\\h1 \\x-y[\\title=\\v] { top: 0 }', '.div#h1 x-y[title=v] { top: 0 }'),
    ('respell', 'ser\\if'): ('a { font-family: ser\\if }', 'a { font-family: serif }'),
}


def probe_pinned(findings, kinds):
    for (kind, key), (text, ref) in PINNED.items():
        if kind not in kinds:
            continue
        d = diff(model_of(text), model_of(ref))
        if d:
            findings.add(kind, key, '%r and %r give different models: %s' % (text, ref, show(d, 120)))
