"""Lexeme-level generators shared by several properties (C01, C08, C09, C10, C13).

Each generator draws from a `random.Random`; every alternative of the token
grammar has its own branch so the distribution can be reported.
"""
ALPHABET = list('aurl()"\'\\/*@-1.%+ \n#!<') + ['é', '{', ';']

WS = [' ', '\t', '\n', '\r', '\f', '\r\n', '  ']
HEXD = '0123456789abcdefABCDEF'
NMSTART = 'abcxyzAZ_' + 'é中'
NMCHAR = NMSTART + '0189-'


def esc_hex(rnd, ch):
    """hex escape of ch, random zero padding and optional terminator"""
    h = '%x' % ord(ch)
    if rnd.random() < 0.3:
        h = h.upper()
    pad = rnd.randint(0, 6 - len(h)) if len(h) < 6 else 0
    h = '0' * pad + h
    term = rnd.choice(['', ' ', '\t', '\n', '\r\n', '\f']) if len(h) < 6 else rnd.choice(['', ' '])
    return '\\' + h + term


def name_char(rnd, first=False, esc=True):
    r = rnd.random()
    pool = NMSTART if first else NMCHAR
    c = rnd.choice(pool)
    if not esc or r < 0.8:
        return c
    if r < 0.9:
        e = esc_hex(rnd, c)
        if e[-1] in HEXD or e[-1] == '\\':
            e += ' '
        return e
    # literal escape of a non-hex, non-newline char
    lit = rnd.choice('gzGZ_-!~ (' + 'é')
    return '\\' + lit


def ident(rnd, esc=True, maxlen=6):
    s = ''
    if rnd.random() < 0.15:
        s += '-'
    s += name_char(rnd, True, esc)
    for _ in range(rnd.randint(0, maxlen)):
        s += name_char(rnd, False, esc)
    # a trailing un-terminated hex escape would glue to what follows: terminate it
    return s


def num(rnd):
    sign = rnd.choice(['', '', '+', '-'])
    k = rnd.random()
    if k < 0.4:
        body = str(rnd.randint(0, 999))
    elif k < 0.7:
        body = '%d.%d' % (rnd.randint(0, 99), rnd.randint(0, 999))
    else:
        body = '.%d' % rnd.randint(0, 999)
    return sign + body


def string(rnd, esc=True):
    q = rnd.choice('"\'')
    body = ''
    for _ in range(rnd.randint(0, 6)):
        r = rnd.random()
        if r < 0.6:
            body += rnd.choice('abc xyz()/*;{}@#' + 'é' + ('"' if q == "'" else "'"))
        elif not esc:
            body += 'q'
        elif r < 0.7:
            body += '\\' + q
        elif r < 0.8:
            body += '\\' + rnd.choice(['\n', '\r\n', '\f', '\r'])
        elif r < 0.9:
            body += esc_hex(rnd, rnd.choice('a"\'\\z'))
        else:
            body += '\\' + rnd.choice('gz!\\')
    return q + body + q


def uri(rnd, esc=True):
    u = rnd.choice(['url(', 'URL(', 'Url(', 'u\\rl(', 'ur\\6c (', '\\55 rl('] if esc else ['url(', 'URL('])
    w1 = rnd.choice(['', ' ', '\n'])
    w2 = rnd.choice(['', ' ', '\t'])
    if rnd.random() < 0.5:
        body = string(rnd, esc)
    else:
        body = ''.join(rnd.choice('abc/.:?#%&-_~!*' + 'é') for _ in range(rnd.randint(0, 8)))
    return u + w1 + body + w2 + ')'


def comment(rnd):
    body = ''.join(rnd.choice('abc */\n"\'{};@') for _ in range(rnd.randint(0, 8)))
    body = body.replace('*/', '* /')
    return '/*' + body + '*/'


def unicode_range(rnd):
    a = ''.join(rnd.choice('0123456789abcdefABCDEF?') for _ in range(rnd.randint(1, 6)))
    s = rnd.choice('uU') + '+' + a
    if rnd.random() < 0.4:
        s += '-' + ''.join(rnd.choice(HEXD) for _ in range(rnd.randint(1, 6)))
    return s


ATKW = ['@media', '@import', '@page', '@namespace', '@font-face', '@variables', '@charset', '@MEDIA', '@Im\\port',
        '@\\6d edia', '@foo', '@-x-y', '@top-left']

KINDS = ['ident', 'function', 'atkw', 'hash', 'string', 'uri', 'number', 'percentage', 'dimension', 'urange',
         'comment', 'cdo', 'cdc', 'match', 'ws', 'delim']


def lexeme(rnd, kind=None, esc=True):
    kind = kind or rnd.choice(KINDS)
    if kind == 'ident':
        return kind, ident(rnd, esc)
    if kind == 'function':
        return kind, ident(rnd, esc) + '('
    if kind == 'atkw':
        return kind, (rnd.choice(ATKW) if esc else rnd.choice(['@media', '@import', '@foo', '@page']))
    if kind == 'hash':
        return kind, '#' + ''.join(name_char(rnd, False, esc) for _ in range(rnd.randint(1, 6)))
    if kind == 'string':
        return kind, string(rnd, esc)
    if kind == 'uri':
        return kind, uri(rnd, esc)
    if kind == 'number':
        return kind, num(rnd)
    if kind == 'percentage':
        return kind, num(rnd) + '%'
    if kind == 'dimension':
        return kind, num(rnd) + rnd.choice(['px', 'em', 'EM', 'deg', 'x', '-y']) if True else ''
    if kind == 'urange':
        return kind, unicode_range(rnd)
    if kind == 'comment':
        return kind, comment(rnd)
    if kind == 'cdo':
        return kind, '<!--'
    if kind == 'cdc':
        return kind, '-->'
    if kind == 'match':
        return kind, rnd.choice(['~=', '|=', '^=', '$=', '*='])
    if kind == 'ws':
        return kind, rnd.choice(WS)
    return 'delim', rnd.choice(list(',:;{}>[]()+~*/.=!|&$^<'))


def soup(rnd, n, esc=True):
    """random text: lexemes mixed with raw alphabet noise and truncations"""
    parts = []
    for _ in range(n):
        r = rnd.random()
        if r < 0.75:
            parts.append(lexeme(rnd, esc=esc)[1])
            if rnd.random() < 0.5:
                parts.append(rnd.choice(WS))
        elif r < 0.9:
            parts.append(''.join(rnd.choice(ALPHABET) for _ in range(rnd.randint(1, 4))))
        else:
            lx = lexeme(rnd, esc=esc)[1]
            parts.append(lx[:rnd.randint(0, len(lx))])
    s = ''.join(parts)
    if not esc:
        s = s.replace('\\', '')
    # the COMMENT production backtracks exponentially on runs of '*': keep runs short (see C01 finding)
    while '*****' in s:
        s = s.replace('*****', '****')
    return s
