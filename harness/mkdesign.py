"""Build DESIGN.md from docs/design_head.md, generated sections (5 properties, 6 defects and findings, 8 seeded
changes) and docs/design_tail.md + docs/appendix_a.md."""
import glob
import json
import os
import re
import subprocess

V = os.path.dirname(os.path.dirname(os.path.abspath(__file__)))


def props_section():
    m = json.load(open(os.path.join(V, 'MANIFEST.json')))
    titles = {}
    for l in open(os.path.join(V, 'properties.jsonl')):
        d = json.loads(l)
        titles[d['id']] = d['title']
    out = ['--------------------------------------------------------------------------------',
           '## 5. The twenty properties', '',
           'All twenty are claimed at level *proof*; none is `not_applicable`.  "Partial" names what the theorems do not '
           'cover and what decides it instead; the same text is in `MANIFEST.json` and at the top of each property file.', '']
    for c in m['checks']:
        pid = c['property_id']
        src = open(os.path.join(V, 'lean', 'CssVerif', 'Props', pid + '.lean')).read()
        thms = re.findall(r'^theorem ([A-Za-z0-9_]+)', src, re.M)
        audit = open(os.path.join(V, 'lean', 'CssVerif', 'Audit', pid + '.lean')).read()
        audited = re.findall(r'#print axioms CssVerif\.%s\.([A-Za-z0-9_]+)' % pid, audit)
        try:
            ev = json.load(open(os.path.join(V, 'evidence', pid + '.json')))
            cov = ev['coverage']
            evline = 'last run: %d obligations discharged, %s evaluations, %s model/implementation traces' % (
                cov['discharged'], cov.get('evaluations'), cov.get('traces_validated_against_impl'))
        except Exception:
            evline = ''
        out.append('### %s — %s' % (pid, titles[pid]))
        out.append('')
        out.append(c['level_claimed']['text'] + '.')
        out.append('')
        out.append('*Technique:* %s.  *Trusted / scope:* %s.' % (c['technique'], c['level_note']))
        out.append('')
        out.append('*Audited theorems* (`Props/%s.lean`): %s.%s' % (
            pid, ', '.join('`%s`' % t for t in audited),
            ('  Further theorems in the file: ' + ', '.join('`%s`' % t for t in thms if t not in audited) + '.')
            if [t for t in thms if t not in audited] else ''))
        out.append('')
        out.append('*Harness:* `harness/props/%s.py`; %s.' % (pid.lower(), evline))
        out.append('')
    return '\n'.join(out)


def findings_section():
    k = json.load(open(os.path.join(V, 'known_findings.json')))
    out = ['--------------------------------------------------------------------------------',
           '## 6. Defects repaired and findings recorded', '',
           'Every entry was first reported by a check as a violation on the unchanged tree with a concrete input, then '
           'reproduced by hand on the real code.  Repairs are single unguarded `fix:` commits in `/repo` (the unedited suite '
           'passes after each); the models follow the repaired code.  `known_findings.json` is the authoritative list.', '',
           '### 6.1 Repaired (%d `fix:` commits)' % len(k['fixed']), '']
    by = {}
    for f in k['fixed']:
        mm = re.match(r'fixed: property=(C\d\d) (\S+) (.*)', f, re.S)
        by.setdefault(mm.group(1), []).append((mm.group(2), mm.group(3)))
    for pid in sorted(by):
        out.append('**%s**' % pid)
        out.append('')
        for commit, what in by[pid]:
            out.append('* `%s` %s' % (commit, what.replace('\n', ' ')))
        out.append('')
    openf = [f for f in k['findings'] if f['status'] == 'open']
    out.append('### 6.2 Recorded, not repaired (%d open findings)' % len(openf))
    out.append('')
    out.append('Each is identified by one specific input or call site; the check prints a `KNOWN-FINDING` line for it and still '
               'reports any other violation of the same property.')
    out.append('')
    for f in openf:
        out.append('* **%s** (%s) — %s  Replay: `%s`' % (f['id'], f['property'], f['what'].replace('\n', ' '), f.get('replay', '')))
    out.append('')
    return '\n'.join(out)


def seeded_section():
    out = ['--------------------------------------------------------------------------------',
           '## 8. Seeded changes: which check catches what', '',
           'Each change was written by a fresh sub-agent that saw only the text of one property and a scratch worktree of '
           '`/repo` (nothing from `/verif`), was asked for a small realistic regression that keeps all 384 tests green, and '
           'delivered the patch, a demonstration script and a description of exactly which inputs trigger it.  I confirmed '
           'each one myself with `./mutest` (tests pass with the change; the demonstration fails with it and passes without; '
           'then the property\'s check against `/repo` with the patch applied).  None is ever committed to `/repo`; they are '
           'kept as `seeded/<id>/`.', '',
           '| id | change (abridged) | check result | caught by |', '|---|---|---|---|']
    for d in sorted(glob.glob(os.path.join(V, 'seeded', '*'))):
        sid = os.path.basename(d)
        try:
            m = json.load(open(os.path.join(d, 'meta.json')))
        except Exception:
            continue
        s = m['summary'].replace('\n', ' ').replace('|', '\\|')
        s = s if len(s) < 330 else s[:327] + '…'
        conf = m.get('confirmed', {})
        res = 'exit %s' % conf.get('check_exit_with_change')
        out.append('| %s | %s | %s | %s |' % (sid, s, res, m.get('caught_by', '').replace('\n', ' ').replace('|', '\\|')))
    out.append('')
    return '\n'.join(out)


def main():
    head = open(os.path.join(V, 'docs', 'design_head.md')).read()
    tail = open(os.path.join(V, 'docs', 'design_tail.md')).read()
    app = open(os.path.join(V, 'docs', 'appendix_a.md')).read()
    false_alarms = open(os.path.join(V, 'docs', 'design_false_alarms.md')).read()
    text = '\n'.join([head, props_section(), findings_section(), false_alarms, seeded_section(), tail, app])
    open(os.path.join(V, 'DESIGN.md'), 'w').write(text)
    print('DESIGN.md: %d lines' % text.count('\n'))


if __name__ == '__main__':
    main()
