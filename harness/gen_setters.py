#!/venv/bin/python
"""Translator for C19: Python AST of every text setter of /repo → an IR program (lean/CssVerif/Gen/Setters.lean).

The IR records, in program order and with if/else, loops, try/except, try/finally and early returns kept,
where the object (`self`) is changed and where an exception may be raised.  What counts as which is decided
by the classification tables below; they are part of the trusted base and are printed into the evidence.
"""
import ast
import inspect
import os
import sys
import textwrap

REPO_SRC = os.environ.get('CSS_PARSER_SRC', '/repo/src')
if REPO_SRC not in sys.path:
    sys.path.insert(0, REPO_SRC)
HERE = os.path.dirname(os.path.abspath(__file__))
OUT = os.path.join(HERE, '..', 'lean', 'CssVerif', 'Gen', 'Setters.lean')

# ----------------------------------------------------------------------------- classification tables

# methods of self that neither change self nor raise through the log
PURE = {
    '_tokenize2', '_tokensupto2', '_tokenvalue', '_type', '_normalize', '_valuestr', '_nexttoken', '_tempSeq',
    '_splitNamespacesOff', '_stringtokenvalue', '_uritokenvalue', '_getCssText', '_getSelectorText', '_getMediaText',
    '_isValidating', '_getUsedURIs', '_getUsedUris', 'children', '_getParentRule', '_getParent', '_valuestr',
    '__parseMarginAndStyle', '_CSSPageRule__parseMarginAndStyle',  # builds fresh rules only (may raise: see RAISING)
    '__getNamespaces', '_getNamespaces', '_adddefaultproductions', '_pushtoken', '_getValidating',
}
# … and those that may raise (through the log or through a parsing sub-object) without changing self
RAISING = {'_checkReadonly', '__parseMarginAndStyle', '_CSSPageRule__parseMarginAndStyle',
           '__parseSelectorText', '_CSSPageRule__parseSelectorText'}
# calls on self that are themselves reject-or-commit operations on the named field
CALL_OPS = {'insertRule': 'cssRules', 'add': 'cssRules', 'deleteRule': 'cssRules', '_cleanNamespaces': 'cssRules',
            'appendMedium': 'seq', 'appendSelector': 'seq', 'append': 'seq', 'setProperty': 'seq',
            'removeProperty': 'seq', '_updateVariables': 'variables', '_setSeq': None, '_replaceNamespaceURI': 'namespaceURI'}
# attributes whose assignment runs a parsing setter (on whatever object)
PARSING_ATTRS = {'cssText', 'selectorText', 'mediaText', 'name', 'value', 'priority', 'propertyValue', 'encoding', 'prefix',
                 'namespaceURI', 'media', 'style', 'href', 'margin', 'atkeyword', 'selectorList', 'mediaType', 'cssValue',
                 'literalname', 'uri', 'variables'}
# in-place mutators of containers
MUTATORS = {'append', 'insert', 'extend', 'remove', 'pop', 'clear', 'update', 'replace', 'appendData', 'rstrip', 'sort',
            'reverse', '__setitem__', '__delitem__', 'setdefault', 'add', 'discard'}
TEXT_KWARGS = {'cssText', 'selectorText', 'mediaText', 'style', 'name', 'value', 'priority', 'href', 'media', 'prefix',
               'namespaceURI', 'encoding', 'selectorList', 'margin', 'mediaType', 'variables'}
LOG_LEVELS = {'debug', 'info', 'warn', 'warning', 'error', 'critical', 'fatal'}
# plain attributes that are bookkeeping of the parse, not state of the object model a caller can observe
IGNORED_FIELDS = {'_log', '_Property__nametoken', '__nametoken'}
# stores through a property setter that is handed an *object* (or an already checked keyword) in the commit phase of
# a setter: the callee's only way to raise (`_checkReadonly`) is dominated by the caller's own check
# calls that cannot reject at the site they are made from (argument recorded in DESIGN.md, validated dynamically)
COMMIT_CALLS = {('CSSStyleSheet', '_updateVariables'): 'variables',   # recomputes a cache from the rules, logs nothing
                ('CSSStyleSheet', '_cleanNamespaces'): 'cssRules',   # after a parse every non-effective @namespace rule shares its URI
                                                                 # with an effective one: deleteRule's in-use refusal cannot fire
                }
INLINE_SETTERS = {('CSSImportRule', 'href'), ('MediaQuery', 'mediaType'), ('Property', 'propertyValue')}      # setters analysed in place rather than assumed disciplined
NONE_STORES = {('Property', 'propertyValue'), ('Property', 'priority')}   # handed None: cleared, cannot reject
OBJECT_STORES = {
    ('CSSFontFaceRule', 'style'), ('CSSPageRule', 'style'), ('CSSStyleRule', 'style'), ('CSSStyleRule', 'selectorList'),
    ('MarginRule', 'style'), ('MarginRule', 'margin'), ('CSSImportRule', 'atkeyword'), ('CSSImportRule', 'media'),
    ('CSSImportRule', 'name'), ('CSSMediaRule', 'media'), ('CSSMediaRule', 'name'), ('CSSNamespaceRule', 'atkeyword'),
    ('CSSUnknownRule', 'atkeyword'), ('CSSPageRule', 'cssRules'), ('CSSMediaRule', 'cssRules'), ('CSSStyleSheet', 'cssRules'),
    ('CSSCharsetRule', 'atkeyword'), ('CSSFontFaceRule', 'atkeyword'), ('CSSPageRule', 'atkeyword'),
    ('CSSMediaRule', 'atkeyword'),
}

SETTERS = [
    ('CSSCharsetRule.cssText', 'css_parser.css', 'CSSCharsetRule', '_setCssText'),
    ('CSSCharsetRule.encoding', 'css_parser.css', 'CSSCharsetRule', '_setEncoding'),
    ('CSSComment.cssText', 'css_parser.css', 'CSSComment', '_setCssText'),
    ('CSSFontFaceRule.cssText', 'css_parser.css', 'CSSFontFaceRule', '_setCssText'),
    ('CSSImportRule.cssText', 'css_parser.css', 'CSSImportRule', '_setCssText'),
    ('CSSMediaRule.cssText', 'css_parser.css', 'CSSMediaRule', '_setCssText'),
    ('CSSNamespaceRule.cssText', 'css_parser.css', 'CSSNamespaceRule', '_setCssText'),
    ('CSSNamespaceRule.prefix', 'css_parser.css', 'CSSNamespaceRule', '_setPrefix'),
    ('CSSNamespaceRule.namespaceURI', 'css_parser.css', 'CSSNamespaceRule', '_setNamespaceURI'),
    ('CSSPageRule.cssText', 'css_parser.css', 'CSSPageRule', '_setCssText'),
    ('CSSPageRule.selectorText', 'css_parser.css', 'CSSPageRule', '_setSelectorText'),
    ('CSSStyleRule.cssText', 'css_parser.css', 'CSSStyleRule', '_setCssText'),
    ('CSSStyleRule.selectorText', 'css_parser.css', 'CSSStyleRule', '_setSelectorText'),
    ('CSSUnknownRule.cssText', 'css_parser.css', 'CSSUnknownRule', '_setCssText'),
    ('MarginRule.cssText', 'css_parser.css', 'MarginRule', '_setCssText'),
    ('CSSStyleSheet.cssText', 'css_parser.css', 'CSSStyleSheet', '_setCssText'),
    ('CSSStyleSheet.encoding', 'css_parser.css', 'CSSStyleSheet', '_setEncoding'),
    ('CSSStyleDeclaration.cssText', 'css_parser.css', 'CSSStyleDeclaration', '_setCssText'),
    ('Property.cssText', 'css_parser.css', 'Property', '_setCssText'),
    ('Property.name', 'css_parser.css', 'Property', '_setName'),
    ('Property.value', 'css_parser.css', 'Property', '_setPropertyValue'),
    ('Property.priority', 'css_parser.css', 'Property', '_setPriority'),
    ('Selector.selectorText', 'css_parser.css', 'Selector', '_setSelectorText'),
    ('SelectorList.selectorText', 'css_parser.css', 'SelectorList', '_setSelectorText'),
    ('MediaList.mediaText', 'css_parser.stylesheets', 'MediaList', '_setMediaText'),
    ('MediaQuery.mediaText', 'css_parser.stylesheets', 'MediaQuery', '_setMediaText'),
]

# ----------------------------------------------------------------------------- IR constructors

SKIP = ('skip',)
RAISE = ('raise',)
RET = ('ret',)


def seq(*xs):
    xs = [x for x in xs if x != SKIP]
    if not xs:
        return SKIP
    out = xs[-1]
    for x in reversed(xs[:-1]):
        out = ('seq', x, out)
    return out


def alt(a, b):
    if a == b:
        return a
    return ('alt', a, b)


def alts(xs):
    xs = list(xs)
    if not xs:
        return SKIP
    out = xs[0]
    for x in xs[1:]:
        out = alt(out, x)
    return out


def loop(a):
    return SKIP if a == SKIP else ('loop', a)


def has_ret(ir):
    return ir[0] == 'ret' or any(has_ret(x) for x in ir[1:] if isinstance(x, tuple) and x and isinstance(x[0], str))


def scope(a):
    return a if not has_ret(a) else ('scope', a)


class Ctx:
    def __init__(self, cls, funcs, depth, stack, notes):
        self.cls = cls
        self.local_defs = {}
        self.aliases = {}          # local name → field of self it aliases
        self.cur = []              # fields that may have been stored to on a path reaching this point
        self.fresh = set()         # fields that hold an object created during this call (in-place changes below
                                   # them do not touch the old state)
        self.fresh_locals = set()  # locals bound to the result of a call
        self.saved = {}            # local name → set of fields whose old value it holds
        self.funcs = funcs
        self.depth = depth
        self.stack = stack
        self.notes = notes


def is_self(node):
    return isinstance(node, ast.Name) and node.id == 'self'


def root_field(node, ctx):
    """if `node` denotes (something below) a field of self: the field name"""
    cur = node
    while True:
        if isinstance(cur, ast.Attribute):
            if is_self(cur.value):
                return cur.attr
            cur = cur.value
        elif isinstance(cur, ast.Subscript):
            cur = cur.value
        elif isinstance(cur, ast.Call):
            return None
        elif isinstance(cur, ast.Name):
            return ctx.aliases.get(cur.id)
        else:
            return None


def has_setter(cls, attr):
    p = inspect.getattr_static(cls, attr, None)
    return isinstance(p, property) and p.fset is not None


def canon(field):
    return field.lstrip('_') if field not in ('_seq',) else 'seq'


class Translator:
    def __init__(self):
        self.fields = {}
        self.readonly_checked = False
        self.notes = {'assumed_pure_calls': set(), 'inlined': set(), 'call_fields': set(), 'unsupported': []}

    def fid(self, name):
        name = canon(name)
        if name not in self.fields:
            self.fields[name] = len(self.fields)
        return self.fields[name]

    # --- functions
    def function_ir(self, cls, name, depth=0, stack=()):
        key = (cls.__name__, name)
        if key in stack or depth > 4:
            return RAISE                       # recursion / depth cut: assume it may raise (and see CALL_OPS)
        fn = None
        owner = None
        for k in cls.__mro__:
            if name in k.__dict__:
                fn = k.__dict__[name]
                owner = k
                break
        if fn is None:
            mangled = [n for k in cls.__mro__ for n in k.__dict__ if n.endswith(name) and n.startswith('_')]
            self.notes['unsupported'].append('no source for %s.%s' % (cls.__name__, name))
            return RAISE
        if isinstance(fn, property):
            fn = fn.fset
        fn = getattr(fn, '__func__', fn)
        tree = self.find_def(fn)
        if tree is None:
            self.notes['unsupported'].append('no source for %s.%s' % (cls.__name__, name))
            return RAISE
        ctx = Ctx(owner, None, depth, stack + (key,), self.notes)
        ctx.cls = cls
        ctx.owner = owner
        body = self.block(tree.body, ctx)
        return body if depth == 0 else scope(body)

    _modules = {}

    def find_def(self, fn):
        try:
            path = inspect.getsourcefile(fn)
            line = fn.__code__.co_firstlineno
        except (TypeError, AttributeError):
            return None
        if path not in self._modules:
            self._modules[path] = ast.parse(open(path).read())
        for node in ast.walk(self._modules[path]):
            if isinstance(node, ast.FunctionDef) and node.name == fn.__name__ and \
                    (node.lineno == line or any(d.lineno == line for d in node.decorator_list)):
                return node
        return None

    # --- statements
    def block(self, stmts, ctx):
        out = []
        for s in stmts:
            before = ctx.cur
            ir = self.stmt(s, ctx)
            nb = py_run(ir, before)[0] if before is not None else None
            ctx.cur = nb        # None: what follows is unreachable
            out.append(ir)
        return seq(*out)

    def stmt(self, s, ctx):
        if isinstance(s, ast.FunctionDef):
            ctx.local_defs[s.name] = s
            return SKIP
        if isinstance(s, ast.Expr):
            if isinstance(s.value, ast.Constant):
                return SKIP
            return self.expr(s.value, ctx)
        if isinstance(s, (ast.Assign, ast.AugAssign, ast.AnnAssign)):
            value = s.value
            pre = self.expr(value, ctx) if value is not None else SKIP
            targets = s.targets if isinstance(s, ast.Assign) else [s.target]
            post = []
            for t in targets:
                post.append(self.assign_target(t, value, ctx))
            return seq(pre, *post)
        if isinstance(s, ast.Delete):
            out = []
            for t in s.targets:
                f = root_field(t, ctx)
                if f and f not in IGNORED_FIELDS:
                    out.append(('store', self.fid(f)))
            return seq(*out)
        if isinstance(s, ast.If):
            c = self.expr(s.test, ctx)
            start = ctx.cur
            a = self.block(s.body, ctx)
            ctx.cur = start
            b = self.block(s.orelse, ctx)
            ctx.cur = start
            return seq(c, alt(a, b))
        if isinstance(s, (ast.For, ast.While)):
            head = self.expr(s.iter if isinstance(s, ast.For) else s.test, ctx)
            body = self.block(s.body, ctx)
            if isinstance(s, ast.While):
                body = seq(body, self.expr(s.test, ctx))
            return seq(head, loop(body), self.block(s.orelse, ctx))
        if isinstance(s, ast.Return):
            return seq(self.expr(s.value, ctx) if s.value is not None else SKIP, RET)
        if isinstance(s, ast.Raise):
            exc = s.exc.func if isinstance(s.exc, ast.Call) else s.exc
            if isinstance(exc, ast.Name) and exc.id in getattr(ctx, 'caught', ()):
                return SKIP          # caught by a handler of the enclosing try of this function: a local jump
            return seq(RAISE, RET)
        if isinstance(s, ast.Try):
            caught_before = getattr(ctx, 'caught', ())
            names = set(caught_before)
            for h in s.handlers:
                reraises = bool(h.body) and isinstance(h.body[-1], ast.Raise) and h.body[-1].exc is None
                if not reraises and h.type is not None:
                    for n in ([h.type] if not isinstance(h.type, ast.Tuple) else h.type.elts):
                        if isinstance(n, ast.Name):
                            names.add(n.id)
            ctx.caught = names
            body = self.block(s.body, ctx)
            ctx.caught = caught_before
            orelse = self.block(s.orelse, ctx)
            out = body
            handlers = []
            restore = None
            for h in s.handlers:
                hb = self.block(h.body, ctx)
                reraises = bool(h.body) and isinstance(h.body[-1], ast.Raise) and h.body[-1].exc is None
                if reraises and self.handler_catches_all(h):
                    rs = self.restored_fields(h.body, ctx, body)
                    restore = rs if restore is None else restore
                else:
                    handlers.append(hb)
            if restore is not None:
                out = ('tryRestore', sorted(restore), body)
            out = seq(out, orelse)
            if handlers:
                # a handler that does not re-raise: runs (maybe) after part of the body
                out = alt(out, seq(body, alts(handlers)))
            if s.finalbody:
                out = ('tryFinally', out, self.block(s.finalbody, ctx))
            return out
        if isinstance(s, ast.With):
            return seq(*([self.expr(i.context_expr, ctx) for i in s.items] + [self.block(s.body, ctx)]))
        if isinstance(s, (ast.Pass, ast.Break, ast.Continue, ast.Global, ast.Nonlocal, ast.Import, ast.ImportFrom)):
            return SKIP
        if isinstance(s, ast.Assert):
            return self.expr(s.test, ctx)
        self.notes['unsupported'].append('statement %s' % type(s).__name__)
        return seq(('store', self.fid('unknown')), RAISE)

    def handler_catches_all(self, h):
        if h.type is None:
            return True
        names = [h.type] if not isinstance(h.type, ast.Tuple) else list(h.type.elts)
        return any(isinstance(n, ast.Name) and n.id in ('Exception', 'BaseException') for n in names)

    def restored_fields(self, body, ctx, try_ir):
        rs = set()
        for st in body:
            if isinstance(st, ast.Assign):
                for t in st.targets:
                    tl = t.elts if isinstance(t, ast.Tuple) else [t]
                    for x in tl:
                        if isinstance(x, ast.Attribute) and is_self(x.value) and self.is_saved_value(st.value, ctx):
                            rs.add(self.fid(x.attr))
                        elif isinstance(x, ast.Attribute) and is_self(x.value):
                            self.notes['unsupported'].append('handler restores %s from a value not saved at entry' % x.attr)
            elif isinstance(st, ast.Expr) and isinstance(st.value, ast.Call):
                f = st.value.func
                # self.__dict__.update(saved): every attribute of the object is put back
                if isinstance(f, ast.Attribute) and f.attr == 'update' and isinstance(f.value, ast.Attribute) and \
                        f.value.attr == '__dict__' and is_self(f.value.value) and st.value.args and \
                        isinstance(st.value.args[0], ast.Name) and ctx.saved.get(st.value.args[0].id) == {'*'}:
                    inv = {v: k for k, v in self.fields.items()}
                    rs |= set(i for i in self.mut_fields(try_ir) if not inv[i].endswith('*'))
                elif isinstance(f, ast.Attribute) and is_self(f.value) and f.attr == '_updateVariables':
                    rs.add(self.fid('variables'))
                # alias.__dict__.update(saved_alias_dict): the object below the field is put back too
                elif isinstance(f, ast.Attribute) and f.attr == 'update' and isinstance(f.value, ast.Attribute) and \
                        f.value.attr == '__dict__' and isinstance(f.value.value, ast.Name) and \
                        f.value.value.id in ctx.aliases and st.value.args and isinstance(st.value.args[0], ast.Name) and \
                        ctx.saved.get(st.value.args[0].id) == {'*' + f.value.value.id}:
                    rs.add(self.fid(ctx.aliases[f.value.value.id] + '*'))
        return rs

    def is_saved_value(self, value, ctx):
        names = [value] if not isinstance(value, ast.Tuple) else list(value.elts)
        return all(isinstance(n, ast.Name) and n.id in ctx.saved for n in names)

    def saved_fields_of(self, value, ctx):
        """`self.f` read while f is still untouched → {f}; dict(self.__dict__, …) while nothing is touched → all"""
        if isinstance(value, ast.Attribute) and is_self(value.value):
            f = canon(value.attr)
            return {f} if self.fid(f) not in (ctx.cur or []) else None
        if isinstance(value, ast.Call) and isinstance(value.func, ast.Name) and value.func.id == 'dict' and value.args and \
                isinstance(value.args[0], ast.Attribute) and value.args[0].attr == '__dict__' and is_self(value.args[0].value):
            return {'*'} if not ctx.cur else None
        if isinstance(value, ast.Call) and isinstance(value.func, ast.Name) and value.func.id == 'dict' and value.args and \
                isinstance(value.args[0], ast.Attribute) and value.args[0].attr == '__dict__' and \
                isinstance(value.args[0].value, ast.Name) and value.args[0].value.id in ctx.aliases:
            fld = ctx.aliases[value.args[0].value.id]
            return {'*' + value.args[0].value.id} if self.fid(fld + '*') not in (ctx.cur or []) else None
        return None

    def mut_fields(self, ir):
        k = ir[0]
        if k == 'store':
            return [ir[1]]
        if k == 'call':
            return list(ir[1])
        if k in ('seq', 'alt', 'tryFinally'):
            return self.mut_fields(ir[1]) + self.mut_fields(ir[2])
        if k in ('loop', 'scope'):
            return self.mut_fields(ir[1])
        if k == 'tryRestore':
            return self.mut_fields(ir[2])
        return []

    def assign_target(self, t, value, ctx):
        if isinstance(t, (ast.Tuple, ast.List)):
            vals = value.elts if isinstance(value, (ast.Tuple, ast.List)) and len(value.elts) == len(t.elts) else [None] * len(t.elts)
            if isinstance(value, ast.Call):
                for x in t.elts:
                    if isinstance(x, ast.Name):
                        ctx.fresh_locals.add(x.id)
            return seq(*[self.assign_target(x, v, ctx) for x, v in zip(t.elts, vals)])
        if isinstance(t, ast.Name):
            # a local that holds the old value of a field (for a restoring handler): only good if the field has
            # not been stored to before
            if value is not None:
                fs = self.saved_fields_of(value, ctx)
                if fs is not None:
                    ctx.saved[t.id] = fs
            if isinstance(value, ast.Call):
                ctx.fresh_locals.add(t.id)
            elif value is not None:
                ctx.fresh_locals.discard(t.id)
            # alias tracking: a local bound to (something below) a field of self
            ctx.aliases.pop(t.id, None)
            if value is not None and not isinstance(value, ast.Call):
                f = root_field(value, ctx)
                if f:
                    ctx.aliases[t.id] = f
            return SKIP
        if isinstance(t, ast.Starred):
            return self.assign_target(t.value, None, ctx)
        # attribute / subscript store
        f = root_field(t, ctx)
        if f is None:
            # a store into a temporary: a parsing attribute may raise
            if isinstance(t, ast.Attribute) and t.attr in PARSING_ATTRS:
                return RAISE
            return SKIP
        if f in IGNORED_FIELDS:
            return SKIP
        if isinstance(t, ast.Attribute) and is_self(t.value):
            if isinstance(value, ast.Call) or (isinstance(value, ast.Name) and value.id in ctx.fresh_locals):
                ctx.fresh.add(canon(t.attr))
            else:
                ctx.fresh.discard(canon(t.attr))
            if has_setter(ctx.cls, t.attr) and (ctx.cls.__name__, t.attr) in NONE_STORES and \
                    isinstance(value, ast.Constant) and value.value is None:
                return ('store', self.fid(t.attr))
            if has_setter(ctx.cls, t.attr) and (ctx.cls.__name__, t.attr) in INLINE_SETTERS:
                self.notes['inlined'].add('%s.%s=' % (ctx.cls.__name__, t.attr))
                return self.function_ir(ctx.cls, t.attr, ctx.depth + 1, ctx.stack)
            if has_setter(ctx.cls, t.attr) and (ctx.cls.__name__, t.attr) in OBJECT_STORES:
                self.notes.setdefault('object_stores', set()).add('%s.%s' % (ctx.cls.__name__, t.attr))
                return ('store', self.fid(t.attr))
            if has_setter(ctx.cls, t.attr):
                self.notes['call_fields'].add('%s.%s' % (ctx.cls.__name__, t.attr))
                return ('call', [self.fid(t.attr)])
            return ('store', self.fid(t.attr))
        # below a field: the object held there is changed in place (putting the field back does not undo that,
        # unless the object was created during this call)
        if canon(f) in ctx.fresh:
            if isinstance(t, ast.Attribute) and t.attr in PARSING_ATTRS:
                return ('call', [self.fid(f)])
            return ('store', self.fid(f))
        if isinstance(t, ast.Attribute) and t.attr in PARSING_ATTRS:
            self.notes['call_fields'].add('%s.%s.%s' % (ctx.cls.__name__, f, t.attr))
            return ('call', [self.fid(f + '*')])
        return ('store', self.fid(f + '*'))

    # --- expressions: events of every call inside, in source order
    def expr(self, e, ctx):
        if e is None:
            return SKIP
        out = []
        for node in self.calls_in_order(e):
            out.append(self.call(node, ctx))
        return seq(*out)

    def calls_in_order(self, e):
        found = []

        class V(ast.NodeVisitor):
            def visit_Call(v, node):
                for a in node.args:
                    v.visit(a)
                for k in node.keywords:
                    v.visit(k.value)
                v.visit(node.func)
                found.append(node)

            def visit_Lambda(v, node):
                return              # not executed here

            def visit_GeneratorExp(v, node):
                v.generic_visit(node)
        V().visit(e)
        return found

    def call(self, node, ctx):
        f = node.func
        # self._log.<level>(...)
        if isinstance(f, ast.Attribute) and f.attr in LOG_LEVELS and isinstance(f.value, ast.Attribute) and \
                f.value.attr == '_log':
            for k in node.keywords:
                if k.arg == 'neverraise' and isinstance(k.value, ast.Constant) and k.value.value is True:
                    return SKIP
            return RAISE
        if isinstance(f, ast.Attribute) and is_self(f.value):
            m = f.attr
            if m == '_parse':
                return self.parse_call(node, ctx)
            if m == '_setSeq':
                return ('store', self.fid('seq'))
            if (ctx.cls.__name__, m) in COMMIT_CALLS:
                self.notes.setdefault('commit_calls', set()).add('%s.%s()' % (ctx.cls.__name__, m))
                return ('store', self.fid(COMMIT_CALLS[(ctx.cls.__name__, m)]))
            if m == '_checkReadonly':
                # the first check of a setter decides; the object cannot become readonly in between
                if self.readonly_checked:
                    return SKIP
                self.readonly_checked = True
                return RAISE
            if m in CALL_OPS and CALL_OPS[m]:
                self.notes['call_fields'].add('%s.%s()' % (ctx.cls.__name__, m))
                return ('call', [self.fid(CALL_OPS[m])])
            if m in RAISING:
                return RAISE
            if m in PURE:
                return SKIP
            self.notes['inlined'].add('%s.%s' % (ctx.cls.__name__, m))
            return self.function_ir(ctx.cls, m, ctx.depth + 1, ctx.stack)
        # super(C, self).m(...)
        if isinstance(f, ast.Attribute) and isinstance(f.value, ast.Call) and isinstance(f.value.func, ast.Name) and \
                f.value.func.id == 'super':
            mro = ctx.cls.__mro__
            owner = getattr(ctx, 'owner', ctx.cls)
            nxt = mro[mro.index(owner) + 1] if owner in mro and mro.index(owner) + 1 < len(mro) else None
            if nxt is None:
                return RAISE
            self.notes['inlined'].add('super→%s.%s' % (nxt.__name__, f.attr))
            sub = Translator.__new__(Translator)
            sub.__dict__ = self.__dict__
            return self.function_ir(nxt, f.attr, ctx.depth + 1, ctx.stack)
        # mutators on (something below) a field of self
        if isinstance(f, ast.Attribute) and f.attr in MUTATORS:
            fld = root_field(f.value, ctx)
            if fld and fld not in IGNORED_FIELDS:
                return ('store', self.fid(fld))
            return SKIP
        if isinstance(f, ast.Attribute) and f.attr in ('insertRule', 'add', 'deleteRule', 'appendMedium', 'appendSelector',
                                                       'setProperty', 'removeProperty'):
            fld = root_field(f.value, ctx)
            if fld:
                return ('call', [self.fid(fld)])
            return RAISE
        # local function
        if isinstance(f, ast.Name) and f.id in ctx.local_defs:
            return scope(self.block(ctx.local_defs[f.id].body, ctx))
        # constructors of object-model classes and the production parser: may parse text → may raise
        name = None
        if isinstance(f, ast.Name):
            name = f.id
        elif isinstance(f, ast.Attribute):
            name = f.attr
        if name and (name[:1].isupper() or name in ('parse',)) and name not in ('Sequence', 'Choice', 'Prod', 'PreDef'):
            # a constructor handed no text builds an empty object and cannot reject anything
            def rejectable(v):
                if isinstance(v, ast.Constant):
                    return False            # a literal in the source: valid by inspection
                if isinstance(v, ast.Attribute) and root_field(v, ctx):
                    return False            # an object already held by self
                return True
            texty = any(rejectable(a) for a in node.args) or any(
                (k.arg in TEXT_KWARGS or k.arg is None) and rejectable(k.value) for k in node.keywords)
            if name == 'parse' or texty:
                return RAISE
            return SKIP
        self.notes['assumed_pure_calls'].add(name or '<expr>')
        return SKIP

    def parse_call(self, node, ctx):
        prods = []
        names = []
        for k in node.keywords:
            if k.arg in ('productions', 'default'):
                names.extend(self.names_in(k.value))
        for a in node.args:
            names.extend(self.names_in(a))
        for n in names:
            if n in ctx.local_defs:
                prods.append(scope(self.block(ctx.local_defs[n].body, ctx)))
        # the default productions: an unexpected at-keyword builds an unknown rule (may raise), comments are appended
        prods.append(RAISE)
        return loop(alts(prods))

    def names_in(self, e):
        out = []
        for n in ast.walk(e):
            if isinstance(n, ast.Name):
                out.append(n.id)
        return out


# ----------------------------------------------------------------------------- emit Lean

def lean_ir(ir):
    k = ir[0]
    if k == 'skip':
        return '.skip'
    if k == 'raise':
        return '.raise_'
    if k == 'ret':
        return '.ret'
    if k == 'store':
        return '(.store %d)' % ir[1]
    if k == 'call':
        return '(.call [%s])' % ', '.join(str(x) for x in ir[1])
    if k in ('seq', 'alt'):
        return '(.%s %s %s)' % (k, lean_ir(ir[1]), lean_ir(ir[2]))
    if k == 'loop':
        return '(.loop %s)' % lean_ir(ir[1])
    if k == 'scope':
        return '(.scope %s)' % lean_ir(ir[1])
    if k == 'tryRestore':
        return '(.tryRestore [%s] %s)' % (', '.join(str(x) for x in ir[1]), lean_ir(ir[2]))
    if k == 'tryFinally':
        return '(.tryFinally %s %s)' % (lean_ir(ir[1]), lean_ir(ir[2]))
    raise AssertionError(ir)


def size(ir):
    return 1 + sum(size(x) for x in ir[1:] if isinstance(x, tuple))


def generate():
    import importlib
    import css_parser  # noqa
    tr = Translator()
    progs = []
    for sid, modname, clsname, fname in SETTERS:
        mod = importlib.import_module(modname)
        cls = getattr(mod, clsname)
        tr.readonly_checked = False
        ir = tr.function_ir(cls, fname)
        progs.append((sid, ir))
    lines = ['-- GENERATED by harness/gen_setters.py from the Python AST of /repo — do not edit',
             'import CssVerif.Model.SetterIR', 'namespace CssVerif.Gen', 'open CssVerif.SetterIR', '',
             '/-- field numbering: %s -/' % ', '.join('%d=%s' % (v, k) for k, v in sorted(tr.fields.items(), key=lambda kv: kv[1]))]
    for i, (sid, ir) in enumerate(progs):
        lines.append('def setter%d : IR := %s' % (i, lean_ir(ir)))
    lines.append('')
    lines.append('def setters : List (String × IR) := [%s]' % ', '.join('("%s", setter%d)' % (sid, i) for i, (sid, _) in enumerate(progs)))
    lines.append('end CssVerif.Gen')
    text = '\n'.join(lines) + '\n'
    old = open(OUT).read() if os.path.exists(OUT) else None
    if old != text:
        os.makedirs(os.path.dirname(OUT), exist_ok=True)
        with open(OUT, 'w') as f:
            f.write(text)
    notes = {k: sorted(v) if isinstance(v, set) else v for k, v in tr.notes.items()}
    notes['fields'] = tr.fields
    notes['sizes'] = {sid: size(ir) for sid, ir in progs}
    return progs, notes, old != text


# a Python evaluator of the abstract run (mirrors Model/SetterIR.lean) used to explain a failed obligation
def _join(a, b):
    if a is None:
        return b
    if b is None:
        return a
    return a + b


def _mutf(ir):
    return Translator.mut_fields(Translator.__new__(Translator), ir)


def py_run(ir, D):
    """returns (norm, rais, ret): None or a list (upper bound of dirty fields)"""
    k = ir[0]
    if k == 'skip':
        return (D, None, None)
    if k == 'store':
        return ([ir[1]] + D, None, None)
    if k == 'raise':
        return (D, D, None)
    if k == 'call':
        return (list(ir[1]) + D, D, None)
    if k == 'seq':
        o = py_run(ir[1], D)
        if o[0] is None:
            return o
        ob = py_run(ir[2], o[0])
        return (ob[0], _join(o[1], ob[1]), _join(o[2], ob[2]))
    if k == 'alt':
        a, b = py_run(ir[1], D), py_run(ir[2], D)
        return (_join(a[0], b[0]), _join(a[1], b[1]), _join(a[2], b[2]))
    if k == 'loop':
        H = D + [f for f in _mutf(ir[1]) if f not in D]
        o = py_run(ir[1], H)
        return (H, o[1], o[2])
    if k == 'ret':
        return (None, None, D)
    if k == 'scope':
        o = py_run(ir[1], D)
        return (_join(o[0], o[2]), o[1], None)
    if k == 'tryRestore':
        o = py_run(ir[2], D)
        return (o[0], None if o[1] is None else [f for f in o[1] if f not in ir[1]], o[2])
    if k == 'tryFinally':
        o = py_run(ir[1], D)
        out = (None, None, None)
        if o[0] is not None:
            out = py_run(ir[2], o[0])
        if o[1] is not None:
            f = py_run(ir[2], o[1])
            out = (out[0], _join(out[1], _join(f[0], f[1])), _join(out[2], f[2]))
        if o[2] is not None:
            f = py_run(ir[2], o[2])
            out = (out[0], _join(out[1], f[1]), _join(out[2], _join(f[0], f[2])))
        return out
    raise AssertionError(ir)


def disciplined(ir):
    r = py_run(ir, [])[1]
    return r is None or r == []


if __name__ == '__main__':
    progs, notes, changed = generate()
    for sid, ir in progs:
        inv = {v: k for k, v in notes['fields'].items()}
        r = py_run(ir, [])[1]
        print('%-32s size %4d  %s' % (sid, size(ir), 'disciplined' if disciplined(ir) else
                                      'MAY RAISE AFTER CHANGING ' + ','.join(sorted(set(inv[f] for f in r)))))
    print('gen_setters:', 'rewritten' if changed else 'unchanged')
    if notes['unsupported']:
        print('unsupported:', notes['unsupported'])
