"""C18 (sub-objects): the `own` correspondence.  Histories of text and object assignments on declaration blocks,
properties, values, selector lists, selectors and media lists of style / @font-face / @media rules are applied to the
real objects and, as protocol tokens, to the model `Model/Owners.lean`; after EVERY operation the parent / owner id of
every object reachable from every rule is compared.  (Written by the proof sub-agent together with the model, folded
into the harness here.)  The operations depend on the objects that exist, so a case is a seed: line and expected
answer are generated together."""
import logging
import random

from .. import lib

lib.use_repo()


def _cp():
    import css_parser
    css_parser.log.setLevel(logging.CRITICAL)
    css_parser.log.raiseExceptions = False
    return css_parser


ADOPT = ('so', 'po', 'lo', 'ao', 'mo')

def nm(k): return 'p%d' % k
def tx(k): return 'e%d' % k
def decls(ns): return '; '.join('%s: 0' % nm(k) for k in ns)
def sels(ts): return ', '.join(tx(k) for k in ts)
def lst(l): return '+'.join(map(str, l)) if l else '_'

class H:
    def __init__(self):
        self.ids = {}; self.objs = {}; self.next = 0; self.keep = []
        self.kind = {}   # id -> kind
        self.rk = {}     # rule id -> (hasSel, hasStyle, hasMedia)
    def bind(self, o, kind):
        assert id(o) not in self.ids, 'already bound'
        self.ids[id(o)] = self.next; self.objs[self.next] = o; self.kind[self.next] = kind
        self.keep.append(o); self.next += 1
        return self.next - 1
    def bindProp(self, p): self.bind(p, 'prop'); self.bind(p.propertyValue, 'value')
    def bindBlock(self, b):
        self.bind(b, 'block')
        for p in b.getProperties(all=True): self.bindProp(p)
    def bindList(self, l):
        self.bind(l, 'list')
        for s in l: self.bind(s, 'sel')
    def of(self, kind): return [i for i, k in self.kind.items() if k == kind]
    def sid(self, o): return '-' if o is None else str(self.ids.get(id(o), '?'))
    def report(self, r):
        rule = self.objs[r]; hs, hb, hm = self.rk[r]; out = ['%d:-' % r]; ok = True
        def emit(o, par, owner):
            nonlocal ok
            out.append('%s:%s' % (self.sid(o), self.sid(par)))
            ok = ok and (par is owner)
        if hb:
            b = rule.style; emit(b, b.parentRule, rule)
            for p in b.getProperties(all=True):
                emit(p, p.parent, b); v = p.propertyValue; emit(v, v.parent, p)
        if hs:
            l = rule.selectorList; emit(l, l.parentRule, rule)
            for s in l: emit(s, s.parent, l)
        if hm:
            m = rule.media; emit(m, m.parentRule, rule)
        return ('1' if ok else '0') + ' ' + ' '.join(out)

def gen_and_apply(h, rnd, adopt=True):
    """pick a random applicable op, apply it to the Python objects, return its protocol token"""
    css_parser = _cp()
    from css_parser.css import CSSStyleDeclaration, Property, SelectorList, Selector
    from css_parser.stylesheets import MediaList
    rules = h.of('rule')
    srules = [r for r in rules if h.rk[r][1]]; lrules = [r for r in rules if h.rk[r][0]]; mrules = [r for r in rules if h.rk[r][2]]
    blocks, props, lists, selsl, medias = h.of('block'), h.of('prop'), h.of('list'), h.of('sel'), h.of('media')
    def names(lo=0): return [rnd.randrange(6) for _ in range(rnd.randrange(lo, 3))]
    choices = ['nr', 'nb', 'np', 'nl', 'ns', 'nm']
    if srules: choices += ['st', 'so'] * 2
    if lrules: choices += ['rt', 'xt', 'lo'] * 2
    if blocks: choices += ['bt', 'pt', 'po', 'rp'] * 2
    if lists: choices += ['lt', 'at', 'ao'] * 2
    if mrules: choices += ['mt', 'mo'] * 2
    if medias: choices += ['me']
    if not adopt:
        choices = [c for c in choices if c not in ADOPT]
    while True:
        op = rnd.choice(choices)
        if op == 'nr':
            kind = rnd.randrange(3)
            if kind == 0:
                ts, ns = names(1), names()
                sh = css_parser.parseString('%s { %s }' % (sels(ts), decls(ns))); h.keep.append(sh)
                rule = sh.cssRules[0]; r = h.bind(rule, 'rule'); h.rk[r] = (True, True, False)
                h.bindList(rule.selectorList); h.bindBlock(rule.style)
                return 'nr.%s.%s.0' % (lst(ts), lst(ns))
            if kind == 1:
                ns = names()
                sh = css_parser.parseString('@font-face { %s }' % decls(ns)); h.keep.append(sh)
                rule = sh.cssRules[0]; r = h.bind(rule, 'rule'); h.rk[r] = (False, True, False)
                h.bindBlock(rule.style)
                return 'nr.x.%s.0' % lst(ns)
            sh = css_parser.parseString('@media print { a { top: 0 } }'); h.keep.append(sh)
            rule = sh.cssRules[0]; r = h.bind(rule, 'rule'); h.rk[r] = (False, False, True)
            h.bind(rule.media, 'media')
            return 'nr.x.x.1'
        if op == 'nb':
            ns = names(); b = CSSStyleDeclaration(cssText=decls(ns)); h.bindBlock(b); return 'nb.' + lst(ns)
        if op == 'np':
            k = rnd.randrange(6); p = Property(nm(k), '0'); h.bindProp(p); return 'np.%d' % k
        if op == 'nl':
            ts = names(1); l = SelectorList(selectorText=sels(ts)); h.bindList(l); return 'nl.' + lst(ts)
        if op == 'ns':
            k = rnd.randrange(6); s = Selector(tx(k)); h.bind(s, 'sel'); return 'ns.%d' % k
        if op == 'nm':
            m = MediaList('screen'); h.bind(m, 'media'); return 'nm'
        if op == 'st':
            r = rnd.choice(srules); ns = names(); h.objs[r].style = decls(ns); h.bindBlock(h.objs[r].style)
            return 'st.%d.%s' % (r, lst(ns))
        if op == 'so':
            r = rnd.choice(srules); x = rnd.choice(blocks); h.objs[r].style = h.objs[x]; return 'so.%d.%d' % (r, x)
        if op == 'rt':
            cand = [r for r in lrules if h.rk[r][1]]
            if not cand: continue
            r = rnd.choice(cand); ts, ns = names(1), names()
            h.objs[r].cssText = '%s { %s }' % (sels(ts), decls(ns))
            h.bindList(h.objs[r].selectorList); h.bindBlock(h.objs[r].style)
            return 'rt.%d.%s.%s' % (r, lst(ts), lst(ns))
        if op == 'bt':
            b = rnd.choice(blocks); ns = names(); h.objs[b].cssText = decls(ns)
            for p in h.objs[b].getProperties(all=True): h.bindProp(p)
            return 'bt.%d.%s' % (b, lst(ns))
        if op == 'pt':
            b = rnd.choice(blocks); k = rnd.randrange(6); blk = h.objs[b]
            before = len(blk.getProperties(all=True)); blk.setProperty(nm(k), '1')
            after = blk.getProperties(all=True)
            if len(after) > before: h.bindProp(after[-1])
            return 'pt.%d.%d' % (b, k)
        if op == 'po':
            if not props: continue
            b = rnd.choice(blocks); p = rnd.choice(props); h.objs[b].setProperty(h.objs[p]); return 'po.%d.%d' % (b, p)
        if op == 'rp':
            b = rnd.choice(blocks); k = rnd.randrange(6); h.objs[b].removeProperty(nm(k)); return 'rp.%d.%d' % (b, k)
        if op == 'xt':
            r = rnd.choice(lrules); ts = names()
            h.objs[r].selectorText = sels(ts) if ts else ',,'
            if ts: h.bindList(h.objs[r].selectorList)
            return 'xt.%d.%s' % (r, lst(ts))
        if op == 'lo':
            r = rnd.choice(lrules); x = rnd.choice(lists); h.objs[r].selectorList = h.objs[x]; return 'lo.%d.%d' % (r, x)
        if op == 'lt':
            l = rnd.choice(lists); ts = names()
            h.objs[l].selectorText = sels(ts) if ts else ',,'
            if ts:
                for s in h.objs[l]: h.bind(s, 'sel')
            return 'lt.%d.%s' % (l, lst(ts))
        if op == 'at':
            l = rnd.choice(lists); k = rnd.randrange(6); s = h.objs[l].appendSelector(tx(k)); h.bind(s, 'sel')
            return 'at.%d.%d' % (l, k)
        if op == 'ao':
            if not selsl: continue
            l = rnd.choice(lists); s = rnd.choice(selsl); h.objs[l].appendSelector(h.objs[s]); return 'ao.%d.%d' % (l, s)
        if op == 'mt':
            r = rnd.choice(mrules); h.objs[r].media = 'tv'; h.bind(h.objs[r].media, 'media'); return 'mt.%d' % r
        if op == 'mo':
            r = rnd.choice(mrules); x = rnd.choice(medias); h.objs[r].media = h.objs[x]; return 'mo.%d.%d' % (r, x)
        if op == 'me':
            m = rnd.choice(medias)
            if rnd.random() < .5: h.objs[m].mediaText = 'print, tv'
            else: h.objs[m].appendMedium('handheld')
            return 'me.%d' % m



_CACHE = {}


def gen(case):
    """case = (seed, length, adopt) -> (driver line, expected answer, every rule consistent after every op?)"""
    if case in _CACHE:
        return _CACHE[case]
    seed, length, adopt = case
    rnd = random.Random(seed)
    h = H()
    toks, segs = [], []
    for _ in range(length):
        toks.append(gen_and_apply(h, rnd, adopt))
        segs.append([(r, h.report(r)) for r in h.of('rule')])
    roots = h.of('rule')
    if not roots:
        r = ('numval -', '~', True)
    else:
        exp = ' | '.join(' ; '.join(dict(seg).get(r, '0 %d:-' % r) for r in roots) for seg in segs)
        allok = all(rep.startswith('1 ') for seg in segs for _, rep in seg)
        r = ('own %s %s' % (','.join(map(str, roots)), ','.join(toks)), exp, allok)
    _CACHE.clear()
    _CACHE[case] = r
    return r


def own_cases(tier, seed):
    n = 300 if tier == 'quick' else 5000
    out = []
    for i in range(n):
        out.append((seed * 1000003 + i, 12 + i % 30, i % 3 != 0))
    return out


def own_line(case):
    return gen(case)[0]


def own_py(case):
    return gen(case)[1]


def own_oracle(case, _e=None):
    """theorem owners_reachable_text on the implementation: a history without object adoption keeps every rule consistent"""
    line, exp, allok = gen(case)
    if not case[2] and not allok:
        return 'history without object adoption leaves a rule whose sub-objects name another owner: %s -> %s' % (line[:300], exp[-200:])
    return ''
