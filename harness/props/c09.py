"""C09 — token classification follows the CSS token grammar.

Proof: lean/CssVerif/Props/C09.lean.  Tie: (G) production table regenerated; `re` op = the Lean
matcher against CPython `re.match` per production; `tok` op on lexeme-derived texts.
Search: derivation oracle — the expected (type, value) list is known by construction.
"""
import random
import time

from .. import corr, lexemes, lib

lib.use_repo()
PROP = 'C09'

# the one deliberate deviation documented in the anchors: `and(` stays IDENT + '('
SPECIAL = [
    ('and(', [('IDENT', 'and'), ('CHAR', '(')]),
    ('AND(', [('IDENT', 'AND'), ('CHAR', '(')]),
    ('band(', [('FUNCTION', 'band(')]),
    ('-1px', [('DIMENSION', '-1px')]),
    ('- 1px', [('CHAR', '-'), ('S', ' '), ('DIMENSION', '1px')]),
    ('u+0a?', [('UNICODE-RANGE', 'u+0a?')]),
    ('u +0a', [('IDENT', 'u'), ('S', ' '), ('DIMENSION', '+0a')]),
    ('url(a)', [('URI', 'url(a)')]),
    ('url (a)', [('IDENT', 'url'), ('S', ' '), ('CHAR', '('), ('IDENT', 'a'), ('CHAR', ')')]),
    ('a @charset "x"', [('IDENT', 'a'), ('S', ' '), ('CHARSET_SYM', '@charset '), ('STRING', '"x"')]),
    ('a @charset"x"', [('IDENT', 'a'), ('S', ' '), ('ATKEYWORD', '@charset'), ('STRING', '"x"')]),
    ('@charset "x"', [('CHARSET_SYM', '@charset '), ('STRING', '"x"')]),
    ('\\41 b', [('IDENT', 'Ab')]),
    ('\\41  b', [('IDENT', 'A'), ('S', ' '), ('IDENT', 'b')]),
    ('\\000041b', [('IDENT', 'Ab')]),
    ('\\g', [('IDENT', '\\g')]),
    ('"a\\\nb"', [('STRING', '"ab"')]),
    ('.5em', [('DIMENSION', '.5em')]),
    ('5.em', [('NUMBER', '5'), ('CHAR', '.'), ('IDENT', 'em')]),
    ('+.5%', [('PERCENTAGE', '+.5%')]),
    ('#0a-b', [('HASH', '#0a-b')]),
    ('<!-- -->', [('CDO', '<!--'), ('S', ' '), ('CDC', '-->')]),
]


def line_of(case):
    return 'tok SC %s' % lib.enc(case[0])


def _toks(text):
    from css_parser.tokenize2 import Tokenizer
    return [(t[0], t[1]) for t in Tokenizer().tokenize(text)]


def py_of(case):
    from css_parser.tokenize2 import Tokenizer
    toks = list(Tokenizer().tokenize(case[0]))
    return 'done ' + ' '.join('%s:%s:%d:%d' % (t[0], lib.enc(t[1]), t[2], t[3]) for t in toks)


def oracle(case, _e=None):
    text, exp = case[0], case[1]
    got = _toks(text)
    exp = [tuple(x) for x in exp]
    if got != exp:
        i = next((k for k in range(min(len(got), len(exp))) if got[k] != exp[k]), min(len(got), len(exp)))
        return 'lexeme %d: expected %r, tokenizer gave %r' % (i, exp[i:i + 1], got[i:i + 1])
    return ''


# ---- regex differential: Lean matcher vs re.match for each production

def re_cases(rnd, n):
    from css_parser.tokenize2 import Tokenizer
    from css_parser.cssproductions import MACROS, PRODUCTIONS
    import re
    t = Tokenizer()
    exp = t._expand_macros(MACROS, PRODUCTIONS)
    comp = [re.compile('(?:%s)' % v, re.U) for _, v in exp]
    out = []
    for _ in range(n):
        r = rnd.random()
        if r < 0.6:
            s = lexemes.GENS[rnd.choice(lexemes.KINDS)](rnd, True)[1]
            if rnd.random() < 0.5:
                s += rnd.choice(['', ' ', 'a', '(', ')', '1', '\\', '/)', '*/'])
            if rnd.random() < 0.2:
                s = s[:rnd.randint(0, len(s))]
        else:
            s = ''.join(rnd.choice(' 1/)(a\\-+.%u?"\'\n*@#<!>') for _ in range(rnd.randint(0, 7)))
        while '*****' in s:
            s = s.replace('*****', '****')
        prev = rnd.choice(['', '', '(', 'a', ' '])
        for i in range(len(comp)):
            out.append((i, prev, s))
    return out, comp


_COMP = None


def re_line(c):
    return 're %d %s %s' % (c[0], '%x' % ord(c[1]) if c[1] else '~', lib.enc(c[2]))


def re_py(c):
    global _COMP
    if _COMP is None:
        _COMP = re_cases(random.Random(0), 0)[1]
    m = _COMP[c[0]].match(c[1] + c[2], len(c[1]))
    return str(m.end() - len(c[1])) if m else '~'


def run(tier, seed):
    t0 = time.time()
    build = lib.build_and_audit(PROP)
    findings = lib.Findings(PROP)
    rnd = random.Random(seed)
    n_seq = 40000 if tier == 'quick' else 200000
    cases = [(t, e, 'special') for t, e in SPECIAL]
    kinds_count = {}
    # every ordered pair of lexeme kinds (validates the adjacency rules), several draws each
    reps = 12 if tier == 'quick' else 40
    for ka in lexemes.KINDS:
        for kb in lexemes.KINDS:
            for _ in range(reps):
                a = lexemes.GENS[ka](rnd, True)
                b = lexemes.GENS[kb](rnd, True)
                lex = [a]
                if lexemes.needs_sep(a, b):
                    sep = lexemes.rnd_sep(rnd, a)
                    if lexemes.needs_sep(a, sep) or (a[0] == 'ws' and sep[0] == 'ws'):
                        sep = ('comment', '/**/', 'COMMENT', '/**/')
                    lex.append(sep)
                    if lexemes.needs_sep(sep, b):
                        lex.append(('comment', '/**/', 'COMMENT', '/**/'))
                lex.append(b)
                cases.append((''.join(l[1] for l in lex), [(l[2], l[3]) for l in lex], 'pair'))
    n_pairs = len(cases) - len(SPECIAL)
    for _ in range(n_seq):
        text, exp, lexs = lexemes.sequence(rnd, rnd.randint(1, 12 if tier == 'quick' else 40), esc=rnd.random() < 0.7)
        for l in lexs:
            kinds_count[l[0]] = kinds_count.get(l[0], 0) + 1
        cases.append((text, exp, 'seq'))
    res = corr.run('c09', cases, line_of, py_of, oracle, chunk=1500)
    # regex differential
    rc, _ = re_cases(rnd, 1500 if tier == 'quick' else 20000)
    res_re = corr.run('c09re', rc, re_line, re_py, None, chunk=6000)
    broken = []
    for case, why in res['oracle_fail']:
        findings.add('lex', case[0], why)
    if res['n_mismatch']:
        c, line, e, g = res['mismatches'][0]
        broken.append('correspondence op `tok` diverges on %d lexeme texts; first %r impl=%s model=%s' % (
            res['n_mismatch'], c[0], e[:160], g[:160]))
        for c, line, e, g in res['mismatches']:
            why = oracle(c)
            if why:
                findings.add('lex', c[0], why)
    if res_re['n_mismatch']:
        c, line, e, g = res_re['mismatches'][0]
        broken.append('regex op `re`: Lean matcher and re.match differ on %d cases; first production #%d prev=%r text=%r re=%s lean=%s' % (
            res_re['n_mismatch'], c[0], c[1], c[2], e, g))
    # listed findings: probe each witness
    findings.probe_known(lambda f: bool(oracle((f['input'], [tuple(x) for x in f['expected']]))))
    coverage = {
        'evaluations': res['n'] + res_re['n'],
        'distinct_nontrivial': len(set(c[0] for c in cases)),
        'rule': 'cases = lexeme derivations (every alternative of each token production: signs, missing integer part, '
                'hex/literal escapes with every terminator, both quotes, escaped newlines, non-ASCII) joined by the '
                'adjacency rules; all 16x16 ordered kind pairs; expected (type, value) list known by construction; '
                'distinct = distinct texts.  Plus the Lean regex matcher vs re.match on every production.',
        'traces_validated_against_impl': res['n'] + res_re['n'],
        'lexeme_kinds': kinds_count,
        'pairs': n_pairs, 'sequences': n_seq, 'regex_differential_cases': res_re['n'],
        'samples': [cases[i][0] for i in (3, len(SPECIAL) + 7, len(cases) // 2, len(cases) - 1)],
        'correspondence_mismatches': res['n_mismatch'] + res_re['n_mismatch'],
        'oracle_failures': res['n_oracle_fail'],
        'partial_theorems': ['classify is proved for the fragment listed in Props/C09.lean; the remaining lexeme '
                             'classes rest on the correspondence and the derivation oracle'],
    }
    assumptions = ['CPython re semantics = CssVerif.Re.ms (differentially tested this run on every production)',
                   '`and(` is IDENT + "(" by documented design of the tokenizer',
                   'at-keyword token values are compared as written']
    return lib.finish(PROP, tier, seed, t0, build, findings, coverage, assumptions, broken)
