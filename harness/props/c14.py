"""C14 — CSS codec: detection priority, inverse, chunking-invariant.

Proof: lean/CssVerif/Props/C14.lean.  Tie: `cdet / cdetu / cfix / cdec / cenc / cidec / cienc` ops —
the same bytes / texts / chunkings to `_codec3` and to the model (inner codecs restricted to
single-byte encodings and utf-8-sig over ASCII payloads; Python's own multi-byte codecs are the
trusted base and are exercised by the direct oracles).
Search: oracles on the implementation — every partition into <= 3 chunks gives the one-shot result;
detection follows the priority; decode(encode(t)) is t up to the @charset rewrite.
"""
import codecs
import itertools
import random
import time

from .. import corr, lib

lib.use_repo()
PROP = 'C14'


def _c():
    from css_parser import _codec3
    return _codec3


SIMPLE_ENCS = ['ascii', 'utf-8', 'latin-1', 'iso-8859-1', 'utf-8-sig', 'UTF_8_SIG', 'US-ASCII']
ALL_ENCS = ['ascii', 'utf-8', 'latin-1', 'utf-8-sig', 'utf-16', 'utf-16-le', 'utf-16-be', 'utf-32', 'utf-32-le',
            'utf-32-be', 'cp1252', 'iso-8859-15', 'koi8-r']


def err_name(e):
    if isinstance(e, LookupError):
        return 'ERR:lookup'
    if isinstance(e, UnicodeError):
        return 'ERR:unicode'
    if isinstance(e, AttributeError):
        return 'ERR:attribute'
    if isinstance(e, ValueError):
        return 'ERR:value'
    return 'ERR:' + type(e).__name__


def opt(e):
    return '~' if e is None else lib.enc(e)


# ------------------------------------------------------------------ case kinds

def line_of(c):
    k = c[0]
    if k == 'det':
        return 'cdet %s %s' % ('F' if c[2] else 'N', lib.encb(c[1]))
    if k == 'detu':
        return 'cdetu %s %s' % ('F' if c[2] else 'N', lib.enc(c[1]))
    if k == 'fix':
        return 'cfix %s %s %s' % ('F' if c[3] else 'N', lib.enc(c[2]), lib.enc(c[1]))
    if k == 'dec':
        return 'cdec %s %d %s' % (opt(c[2]), 1 if c[3] else 0, lib.encb(c[1]))
    if k == 'enc':
        return 'cenc %s %s' % (opt(c[2]), lib.enc(c[1]))
    if k == 'idec':
        return 'cidec %s %d %s' % (opt(c[2]), 1 if c[3] else 0, ';'.join(lib.encb(x) for x in c[1]))
    if k == 'ienc':
        return 'cienc %s %s' % (opt(c[2]), ';'.join(lib.enc(x) for x in c[1]))
    raise AssertionError(c)


def _name(x):
    return '~' if x is None else lib.enc(x)


def idec(chunks, encoding, force):
    C = _c()
    d = C.IncrementalDecoder(encoding=encoding, force=force)
    out = []
    for ch in chunks:
        out.append(d.decode(ch, False))
    out.append(d.decode(b'', True))
    return ''.join(out)


def ienc(chunks, encoding):
    C = _c()
    e = C.IncrementalEncoder(encoding=encoding)
    out = []
    for ch in chunks:
        out.append(e.encode(ch, False))
    out.append(e.encode('', True))
    return b''.join(x if isinstance(x, bytes) else x.encode('latin-1') for x in out)


def py_of(c):
    C = _c()
    k = c[0]
    try:
        if k == 'det':
            e, x = C.detectencoding_str(c[1], c[2])
            return '%s/%d' % (_name(e), 1 if x else 0)
        if k == 'detu':
            e, x = C.detectencoding_unicode(c[1], c[2])
            return '%s/%d' % (_name(e), 1 if x else 0)
        if k == 'fix':
            r = C._fixencoding(c[1], c[2], c[3])
            return '~' if r is None else lib.enc(r)
        if k == 'dec':
            return lib.enc(C.decode(c[1], encoding=c[2], force=c[3])[0])
        if k == 'enc':
            return lib.encb(C.encode(c[1], encoding=c[2])[0])
        if k == 'idec':
            return lib.enc(idec(c[1], c[2], c[3]))
        if k == 'ienc':
            return lib.encb(ienc(c[1], c[2]))
    except Exception as e:
        return err_name(e)
    raise AssertionError(c)


# ------------------------------------------------------------------ oracles (implementation only)

SCALE = [63, 64, 65, 255, 256, 257, 1023, 1024, 1025, 4095, 4096, 4097, 8191, 8192, 8193, 65535, 65536, 65537]


def scale_cuts(n):
    """cut points for long inputs: around every power-of-two-ish size (where buffer limits live), the ends, the middle"""
    pts = set([0, 1, 2, 3, 9, 10, 11, 12, n // 2, n - 1, n])
    for k in SCALE:
        for d in (-76, 0, 76):
            if 0 <= k + d <= n:
                pts.add(k + d)
    return sorted(x for x in pts if 0 <= x <= n)


def partitions(seq, maxparts=3):
    n = len(seq)
    yield [seq]
    if n > 64:
        cuts = scale_cuts(n)
        for i in cuts:
            yield [seq[:i], seq[i:]]
        for a, i in enumerate(cuts):
            for j in cuts[a:]:
                yield [seq[:i], seq[i:j], seq[j:]]
        for size in (64, 1000, 1024, 4096):
            if size < n:
                yield [seq[k:k + size] for k in range(0, n, size)]
        return
    for i in range(0, n + 1):
        yield [seq[:i], seq[i:]]
    if maxparts >= 3:
        for i in range(0, n + 1):
            for j in range(i, n + 1):
                yield [seq[:i], seq[i:j], seq[j:]]


def oracle_chunks_dec(data, encoding, force, own=None, limit=40):
    """every partition of the byte stream decodes to the one-shot result (errors compared by class)"""
    C = _c()
    try:
        ref = C.decode(data, encoding=encoding, force=force)[0]
    except Exception as e:
        ref = err_name(e)
    # which inner codec is in play (to recognise disagreements that are CPython's, not the css layer's:
    # e.g. the incremental utf-16 decoder insists on a BOM, the one-shot function does not)
    inner = encoding
    if encoding is None or not force:
        det, explicit = C.detectencoding_str(data, True)
        if encoding is None or explicit:
            inner = det
    allparts = partitions(data)
    if len(data) > 64:
        allparts = list(allparts)
        r = random.Random(len(data))
        allparts = r.sample(allparts, min(len(allparts), limit))
        if own is not None:
            allparts.append(list(own))
    for parts in allparts:
        try:
            got = idec(parts, encoding, force)
        except Exception as e:
            got = err_name(e)
        if got != ref:
            if not inner_law_holds(inner, parts):
                continue
            return 'chunks of lengths %r of %s decode to %s, one-shot gives %s' % (
                [len(x) for x in parts], lib.short(data), lib.short(got), lib.short(ref))
    return ''


def inner_law_holds(enc, parts):
    """does Python's own codec give the same answer one-shot and incrementally on this chunking?"""
    data = b''.join(parts)
    try:
        one = codecs.getdecoder(enc)(data)[0]
    except LookupError:
        return True
    except Exception as e:
        one = err_name(e)
    try:
        d = codecs.getincrementaldecoder(enc)()
        inc = ''.join(d.decode(p, False) for p in parts) + d.decode(b'', True)
    except Exception as e:
        inc = err_name(e)
    return one == inc


def oracle_chunks_enc(text, encoding, own=None, limit=40):
    C = _c()
    try:
        ref = C.encode(text, encoding=encoding)[0]
    except Exception as e:
        ref = err_name(e)
    allparts = partitions(text)
    if len(text) > 64:
        allparts = list(allparts)
        r = random.Random(len(text))
        allparts = r.sample(allparts, min(len(allparts), limit))
        if own is not None:
            allparts.append(list(own))
    for parts in allparts:
        try:
            got = ienc(parts, encoding)
        except Exception as e:
            got = err_name(e)
        if got != ref:
            return 'chunks of lengths %r of %s encode to %s, one-shot gives %s' % (
                [len(x) for x in parts], lib.short(text), lib.short(got), lib.short(ref))
    return ''


def expected_detect(data):
    """the CSS rules as the codec documents them (table at the top of _codec3.py): a byte-order mark,
    else the byte pattern of an '@' / '@charset' head in a UTF-16/32 flavour, else a complete leading
    @charset "..." rule, else UTF-8 — written independently of the candidate-elimination code"""
    n = len(data)
    if data[:3] == codecs.BOM_UTF8:
        return 'utf-8-sig'
    if data[:4] == codecs.BOM_UTF32_LE or data[:4] == codecs.BOM_UTF32_BE:
        return 'utf-32'
    if data[:2] in (codecs.BOM_UTF16_LE, codecs.BOM_UTF16_BE):
        return 'utf-16'
    if data[:4] == b'@\x00\x00\x00':
        return 'utf-32-le'
    if data[:4] == b'\x00\x00\x00@':
        return 'utf-32-be'
    if data[:4] == b'@\x00c\x00':
        return 'utf-16-le'
    if data[:2] == b'\x00@':
        return 'utf-16-be'
    if data.startswith(b'@charset "'):
        end = data.find(b'"', 10)
        if end >= 0:
            return data[10:end].decode('latin-1')
    return 'utf-8'


def oracle_roundtrip(text, enc):
    """encode then decode returns the text up to the @charset rewrite; detection picks the right encoding"""
    C = _c()
    try:
        data = C.encode(text, encoding=enc)[0]
    except (UnicodeError, LookupError):
        return ''
    except Exception as e:
        return 'encode(%r, %r) raised %s' % (text, enc, type(e).__name__)
    try:
        back = C.decode(data, encoding=enc)[0]
    except Exception as e:
        return 'decode(encode(%r, %r)) raised %s' % (text, enc, type(e).__name__)
    shown = 'utf-8' if enc.replace('_', '-').lower() == 'utf-8-sig' else enc
    exp = C._fixencoding(text, shown, True)
    if back != exp:
        return 'decode(encode(%r, %r)) = %r, expected %r' % (text, enc, back, exp)
    # with no hint: a text carrying its own @charset rule (or a BOM-writing encoding) is detected
    if text.startswith('@charset "') or enc in ('utf-16', 'utf-32', 'utf-8-sig'):
        try:
            auto = C.decode(data)[0]
        except Exception as e:
            return 'decode(encode(%r, %r)) without hint raised %s' % (text, enc, type(e).__name__)
        if auto != exp and not (enc in ('utf-16', 'utf-32', 'utf-8-sig') and auto == C._fixencoding(text, enc, True)):
            return 'decode(encode(%r, %r)) without hint = %r, expected %r' % (text, enc, auto, exp)
    return ''


def oracle(c, _e=None):
    k = c[0]
    if k == 'idec':
        return oracle_chunks_dec(b''.join(c[1]), c[2], c[3], own=c[1])
    if k == 'idecL':
        return oracle_chunks_dec(c[1], c[2], c[3], limit=60)
    if k == 'ienc':
        return oracle_chunks_enc(''.join(c[1]), c[2], own=c[1])
    if k == 'det' and c[2]:
        C = _c()
        e, _ = C.detectencoding_str(c[1], True)
        exp = expected_detect(c[1])
        if e != exp:
            return 'detected %r, the CSS rules give %r' % (e, exp)
    if k == 'rt':
        return oracle_roundtrip(c[1], c[2])
    return ''


# ------------------------------------------------------------------ generation

HEADS = ['@charset "%s";', '@charset "%s"', '@charset "%s', '@charset "', '@charset', '@chars', '@', '',
         '@charset  "%s";', "@charset '%s';", '@CHARSET "%s";', ' @charset "%s";', '@charset "%s";@charset "x";']
BODIES = ['', 'a{}', 'a{content:"x"}', '"', 'x"y', '\n']


def texts(rnd, n, names):
    out = []
    for _ in range(n):
        h = rnd.choice(HEADS)
        if '%s' in h:
            h = h % rnd.choice(names)
        out.append(h + rnd.choice(BODIES))
    return out


def gen_cases(tier, seed):
    rnd = random.Random(seed)
    cases = []
    names = ['utf-8', 'ascii', 'latin-1', 'utf-8-sig', 'UTF_8_SIG', 'iso-8859-1', 'x-unknown', 'css', 'CSS', 'Css', 'utf-16', '']
    # detection: all 4-byte prefixes over the significant bytes, both final flags, plus longer charset heads
    sig = [0xEF, 0xBB, 0xBF, 0xFF, 0xFE, 0x40, 0x00, 0x63, 0x68, 0x61, 0x20]
    for n in range(0, 5):
        for t in itertools.product(sig, repeat=n):
            for fin in (False, True):
                cases.append(('det', bytes(t), fin))
    for t in texts(rnd, 200, names):
        for enc in ('latin-1', 'utf-16-le', 'utf-16-be', 'utf-32-le', 'utf-32-be', 'utf-16', 'utf-32', 'utf-8-sig'):
            data = t.encode(enc)
            for cut in range(0, min(len(data), 48) + 1, 1 if len(data) < 24 else 3):
                cases.append(('det', data[:cut], rnd.random() < 0.5))
    n_det = len(cases)
    # text-level detection and rewriting: every prefix of charset heads
    for t in texts(rnd, 120, names):
        for cut in range(len(t) + 1):
            for fin in (False, True):
                cases.append(('detu', t[:cut], fin))
                cases.append(('fix', t[:cut], rnd.choice(names[:6]), fin))
    n_text = len(cases) - n_det
    # one-shot and incremental, simple inner codecs (model) — every partition into <= 3 chunks for short ones
    simple_texts = texts(rnd, 40 if tier == 'quick' else 400, ['ascii', 'utf-8', 'latin-1', 'utf-8-sig', 'x-unknown', 'css', 'CSS'])
    for t in simple_texts:
        for enc in [None] + rnd.sample(SIMPLE_ENCS, 3):
            cases.append(('enc', t, enc))
            data = None
            try:
                data = t.encode('utf-8-sig' if (enc or '').replace('_', '-').lower() == 'utf-8-sig' else 'latin-1')
            except Exception:
                pass
            parts = list(partitions(t))
            for p in (parts if len(t) <= 14 else rnd.sample(parts, 40)):
                cases.append(('ienc', tuple(p), enc))
            if data is not None:
                for force in (True, False):
                    cases.append(('dec', data, enc, force))
                    bparts = list(partitions(data))
                    for p in (bparts if len(data) <= 14 else rnd.sample(bparts, 40)):
                        cases.append(('idec', tuple(p), enc, force))
    # latin-1 high bytes / undecodable for ascii
    for data in (b'\xe9', b'a\xe9b', b'@charset "ascii";\xe9', b'@charset "latin-1";\xe9', b'\xef\xbb\xbf\xe9'):
        for enc in (None, 'ascii', 'latin-1', 'utf-8-sig'):
            cases.append(('dec', data, enc, True))
            for p in partitions(data):
                cases.append(('idec', tuple(p), enc, True))
    n_model = len(cases) - n_det - n_text
    return cases, {'detect_cases': n_det, 'text_cases': n_text, 'codec_cases': n_model}


def long_texts(rnd, tier, namepad='x'):
    """texts whose deciding character (the closing quote of the @charset head, the first character after a BOM,
    the end of the head) lies beyond N characters, N around the sizes in SCALE: a limit on how much is buffered
    or scanned is exactly what short inputs cannot see"""
    top = 8193 if tier == 'quick' else 65537
    out = []
    for n in [k for k in SCALE if k <= top]:
        if tier == 'quick' and n not in (64, 257, 1024, 1025, 4096, 8193) and rnd.random() < 0.6:
            continue
        pad = ' ' * n
        npad = namepad * n
        com = '/*' + 'x' * n + '*/'
        out += [
            '@charset "latin-1' + npad + '";a{}',         # padded name: the quote comes late (with blanks Python's
                                                            # registry still knows the name; the model's does not: 'x')
            '@charset "utf-8;\n' + com + 'a{content:"x"}',  # no closing quote, a later string supplies one
            '@charset ' + pad,                              # never becomes a head with a quote
            '@charset "utf-8";' + com + 'a{}',             # ordinary head, long body
            com + '@charset "utf-8";',                     # no head at all
        ]
    return out


def gen_long(tier, seed):
    rnd = random.Random(seed + 2)
    cases = []
    for t in long_texts(rnd, tier):
        for fin in (False, True):
            cases.append(('detu', t, fin))
            cases.append(('fix', t, rnd.choice(['utf-8', 'latin-1', 'utf-8-sig']), fin))
        data = t.encode('latin-1')
        cases.append(('det', data, False))
        cases.append(('det', data, True))
        for enc in (None, 'latin-1', 'utf-8-sig'):
            d2 = (codecs.BOM_UTF8 + data) if enc == 'utf-8-sig' else data
            force = rnd.random() < 0.7
            cases.append(('dec', d2, enc, force))
            parts = list(partitions(d2))
            for p in rnd.sample(parts, min(len(parts), 6 if tier == 'quick' else 30)):
                cases.append(('idec', tuple(p), enc, force))
            cases.append(('enc', t, enc))
            tparts = list(partitions(t))
            for p in rnd.sample(tparts, min(len(tparts), 4 if tier == 'quick' else 20)):
                cases.append(('ienc', tuple(p), enc))
    return cases


def gen_oracle_only(tier, seed):
    """cases that only the implementation sees: the real multi-byte codecs"""
    rnd = random.Random(seed + 1)
    out = []
    ts = texts(rnd, 25 if tier == 'quick' else 300, ALL_ENCS + ['x-unknown'])
    ts += ['é', '@charset "utf-8";é', '\U0001F600', '@charset "latin-1";é"', 'a']
    for t in ts:
        for enc in rnd.sample(ALL_ENCS, 4 if tier == 'quick' else 8):
            out.append(('rt', t, enc))
            try:
                data = t.encode(enc)
            except Exception:
                continue
            if len(data) <= (40 if tier == 'quick' else 64):
                out.append(('idec', (data,), None, True))
                out.append(('idec', (data,), enc, True))
            if len(t) <= 30:
                out.append(('ienc', (t,), enc))
                out.append(('ienc', (t,), None))
    lt = long_texts(rnd, tier, namepad=' ')
    for t in rnd.sample(lt, min(len(lt), 12 if tier == 'quick' else 60)):
        for enc in rnd.sample(['utf-16', 'utf-32-le', 'utf-8-sig', 'utf-16-be', 'cp1252'], 2):
            out.append(('idecL', t.encode(enc), rnd.choice([None, enc]), True))
        out.append(('idecL', t.encode('latin-1'), None, True))
    return out


def run(tier, seed):
    t0 = time.time()
    build = lib.build_and_audit(PROP)
    findings = lib.Findings(PROP)
    cases, dist = gen_cases(tier, seed)
    longc = gen_long(tier, seed)
    dist['long_input_cases'] = len(longc)
    dist['long_input_sizes'] = sorted(set(len(c[1]) if c[0] in ('det', 'detu', 'fix', 'dec', 'enc') else sum(len(x) for x in c[1]) for c in longc))[-5:]
    cases = cases + longc
    res = corr.run('c14', cases, line_of, py_of, oracle, chunk=3000)
    extra = gen_oracle_only(tier, seed)
    res2 = corr.run('c14o', extra, lambda c: 'cdet N -', lambda c: '~/0', oracle, chunk=200)
    broken = []
    for case, why in (res['oracle_fail'] + res2['oracle_fail']):
        key = repr((case[0],) + tuple(b''.join(x) if case[0] == 'idec' and i == 0 else (''.join(x) if case[0] == 'ienc' and i == 0 else x)
                                      for i, x in enumerate(case[1:])))
        findings.add('oracle', key, why)
    if res['n_mismatch']:
        c, line, e, g = res['mismatches'][0]
        broken.append('correspondence ops `c*` diverge on %d cases; first %r line=%s impl=%s model=%s' % (
            res['n_mismatch'], c, line[:200], e[:200], g[:200]))
    findings.probe_known(lambda f: bool(oracle(tuple(f['case']))))
    coverage = {
        'evaluations': res['n'] + res2['n'],
        'distinct_nontrivial': len(set(cases)) + len(set(extra)),
        'rule': 'detection: all byte strings of length <= 4 over the 11 significant bytes x final flag, plus every '
                'prefix of charset heads in 8 encodings; text-level detection / rewriting on every prefix of 13 head '
                'shapes; one-shot and incremental decode/encode on texts with complete, truncated, mis-named @charset '
                'rules x encodings x BOM x EVERY partition into <= 3 chunks (model side: single-byte inner codecs and '
                'utf-8-sig; implementation-only oracles: the real multi-byte codecs); distinct = distinct cases',
        'traces_validated_against_impl': res['n'],
        'implementation_only_oracle_cases': res2['n'],
        'exhaustive': True,
        'distribution': dist,
        'samples': [repr(cases[i])[:200] for i in (3, dist['detect_cases'] + 5, len(cases) - 1)],
        'correspondence_mismatches': res['n_mismatch'],
        'oracle_failures': res['n_oracle_fail'] + res2['n_oracle_fail'],
    }
    # how much of the code the model transcribes do the correspondence inputs execute (a measurement, not a verdict)
    _sample = cases[::max(1, len(cases) // 2500)]
    coverage_lines = lib.modelled_code_coverage([('css_parser._codec3', 'detectencoding_str'), ('css_parser._codec3', 'detectencoding_unicode'), ('css_parser._codec3', '_fixencoding'), ('css_parser._codec3', 'decode'), ('css_parser._codec3', 'encode'), ('css_parser._codec3', 'IncrementalDecoder.decode'), ('css_parser._codec3', 'IncrementalEncoder.encode')], [lambda c=c: py_of(c) for c in _sample], limit=2505)
    coverage['modelled_code_line_coverage'] = coverage_lines
    coverage['partial_theorems'] = ['the encode/decode inverse WITHOUT an encoding argument (detection from the written bytes) is not proved in Lean: decided by the round-trip oracle over the real codecs']
    assumptions = ["Python's own codecs (codecs.getincrementaldecoder / encoder) are chunking-invariant and agree with "
                   'their one-shot forms: abstract inner codec with that law in the Lean model',
                   'errors are compared by class (Unicode / Lookup / Value / Attribute)']
    return lib.finish(PROP, tier, seed, t0, build, findings, coverage, assumptions, broken)
