"""C06 — results do not depend on what was parsed or called before.

Proof: lean/CssVerif/Props/C06.lean (the table of process-wide mutable cells regenerated from the AST equals
the documented one; every function that changes a setting for the duration of a call restores it however it
ends).  Search / validation: sequences of public-API calls with valid, malformed and raising arguments,
followed by canary operations compared with a fresh process; after EVERY call the observable settings are
compared with what the caller last set.
"""
import json
import os
import random
import subprocess
import sys
import time
import xml.dom

from .. import lib

lib.use_repo()
PROP = 'C06'


def _cp():
    import css_parser
    import logging
    css_parser.log.setLevel(logging.FATAL)
    return css_parser


GOOD_SHEET = '@import "i.css"; @namespace p "u"; a, p|b > c { top: 0; color: red !important } @media print { d { left: 0 } }'
TEXTS = {
    'good': GOOD_SHEET, 'style': 'x { margin: 1px 2px }', 'junk': 'a { top: } $$$ {{{ @@ ;', 'unclosed': 'a { b: "c',
    'mq-trailing': '@media tv } { a { top: 0 } }', 'bad-import': '@import "i.css" tv };', 'bad-calc': 'a { width: calc(1px + ) }',
    'bad-url': 'a { background: url(x y) }', 'nested-junk': '@media print { @media } { } }', 'attr-junk': 'a[b=} { }',
    'bytes-bad': b'a { content: "\xff" }', 'empty': '', 'charset-late': 'a{} @charset "utf-8";', 'ns-undeclared': 'z|a { top: 0 }',
}
SETTER_TEXTS = ['tv }', 'print, }', 'x y )', '}', '{', 'a, ,', '@x', '"', 'top:', '1px }', 'screen and (', 'a|b|c', ':not(', '[']


def gen_text(rnd):
    """a setter / constructor argument from the grammars (media query lists with every feature with and without a value,
    selector lists, declaration blocks, values), half of them mutated: arguments the fixed list does not have"""
    from .. import sheetgen as G, selgen
    k = rnd.choice(['mq', 'mq', 'sel', 'decls'])
    if k == 'mq':
        qs = []
        for _ in range(rnd.randint(1, 3)):
            q = []
            if rnd.random() < 0.7:
                q.append(rnd.choice(['', 'only ', 'not ']) + rnd.choice(G.MEDIA))
            for _ in range(rnd.randint(0 if q else 1, 2)):
                f, v = rnd.choice(G.FEATURES)
                q.append('(%s%s)' % (f, (': ' + v) if v and rnd.random() < 0.6 else ''))
            qs.append(' and '.join(q))
        t = rnd.choice([', ', ',', ' , ']).join(qs)
    elif k == 'sel':
        g = selgen.Gen(rnd, avoid_known=False)
        t = ', '.join(g.selector()[0] for _ in range(rnd.randint(1, 3)))
    else:
        t = G.render_decls(G.gen_decls(rnd, 1, 3), G.Layout(None), G.Plain())
    if rnd.random() < 0.5 and t:
        i = rnd.randrange(len(t) + 1)
        t = t[:i] + rnd.choice(['', ' ', ',', '}', '{', ')', '(', ';', '"', '@x', '$', ':']) + t[i + rnd.randint(0, 2):]
    return t


def fetcher_ok(url):
    return (None, 'i { top: 1px }')


def fetcher_raise(url):
    raise RuntimeError('fetcher')


def settings_snapshot():
    cp = _cp()
    from css_parser import prodparser, cssproductions
    prefs = cp.ser.prefs
    return {
        'raiseExceptions': cp.log.raiseExceptions,
        'ser': id(cp.ser),
        'prefs': sorted((k, repr(v)) for k, v in vars(prefs).items()),
        'savedTokens': list(prodparser.savedTokens),
        'productions': hash(repr(cssproductions.PRODUCTIONS) + repr(sorted(cssproductions.MACROS.items()))),
    }


def canaries(start=0):
    """a fixed set of operations whose results must not depend on history - nor on each other: they are run in
    rotated order (beginning with number `start`), so that every one of them is at some time the FIRST call after
    the history, and the results are reported by number"""
    cp = _cp()

    def quiet(f):
        def g():
            cp.log.raiseExceptions = False
            return f()
        return g

    def loud(kind, bad):
        def g():
            cp.log.raiseExceptions = True
            try:
                (cp.stylesheets.MediaList if kind == 'm' else cp.css.Selector)(bad)
                return 'accepted'
            except xml.dom.DOMException as e:
                return type(e).__name__
        return g

    def sheet():
        sh = cp.CSSParser(fetcher=fetcher_ok).parseString(GOOD_SHEET, href='http://h/s.css')
        return [sh.cssText.decode('utf-8'),
                [s.specificity for r in sh.cssRules if r.type == r.STYLE_RULE for s in r.selectorList]]

    def medium():
        ml = cp.stylesheets.MediaList('screen')
        r = ml.appendMedium('print')
        return [r, ml.mediaText, ml.length]

    def query():
        mq = cp.stylesheets.MediaQuery('print')
        mq2 = cp.stylesheets.MediaQuery('tv')
        mq2.mediaText = 'screen and (color)'
        return [mq.mediaText, mq.mediaType, mq.wellformed, mq2.mediaText, mq2.wellformed]

    def item():
        ml = cp.stylesheets.MediaList('screen, tv')
        ml[0] = 'print'
        return ml.mediaText

    def single_rules():
        # the text of single rules under a preference of the global serializer that is switched on for these reads only
        prefs = cp.ser.prefs
        old = prefs.indentSpecificities
        prefs.indentSpecificities = True
        try:
            sh = cp.parseString('a {color: red} a.x {color: blue} @media print {a {top: 0} a.y {top: 1px}}')
            return [sh.cssRules[1].cssText, sh.cssRules[0].cssText, sh.cssRules[1].cssText, sh.cssRules[2].cssRules[1].cssText,
                    sh.cssText.decode(), sh.cssRules[1].cssText]
        finally:
            prefs.indentSpecificities = old

    thunks = [quiet(single_rules), quiet(sheet),
              quiet(lambda: cp.CSSParser().parseStyle('top: 0; color: rgb(1,2,3); margin: 0 auto !important').cssText),
              quiet(lambda: cp.stylesheets.MediaList('print, screen and (min-width: 1px)').mediaText),
              quiet(lambda: cp.css.Selector('a > b:not(.c)[d="e"]::after').selectorText),
              quiet(lambda: cp.css.PropertyValue('1px solid rgba(0, 0, 0, .5)').cssText),
              quiet(lambda: cp.css.CSSStyleSheet().cssText.decode()),
              quiet(lambda: [t[:2] for t in cp.tokenize2.Tokenizer().tokenize('a{b:c} /*d*/ @e "f" url(g) 1.5em')]),
              quiet(medium), quiet(query), quiet(item),
              quiet(lambda: cp.css.SelectorList('a, b.c').selectorText),
              quiet(lambda: cp.css.CSSStyleDeclaration('left: 0; top: 1px').cssText),
              quiet(lambda: cp.css.Property('color', 'red').cssText),
              quiet(lambda: cp.css.CSSImportRule(href='x.css', mediaText='print').cssText),
              quiet(lambda: cp.css.CSSMediaRule(mediaText='print').media.mediaText)]
    for bad in ('tv }', 'a, ,', 'top:'):
        thunks += [loud('m', bad), loud('s', bad)]
    out = [None] * len(thunks)
    old = cp.log.raiseExceptions
    try:
        for k in range(len(thunks)):
            i = (start + k) % len(thunks)
            try:
                out[i] = thunks[i]()
            except Exception as e:
                out[i] = 'RAISED %s: %s' % (type(e).__name__, str(e)[:80])
    finally:
        cp.log.raiseExceptions = old
    return json.dumps(out, default=str)


def reference():
    """canary results of a fresh process"""
    code = ('import sys; sys.path.insert(0, %r); sys.path.insert(0, %r)\n'
            'from harness.props import c06\nprint(c06.canaries())\n') % (lib.VERIF, os.path.join(lib.REPO, 'src'))
    p = subprocess.run(['/venv/bin/python', '-c', code], stdout=subprocess.PIPE, stderr=subprocess.PIPE)
    return p.stdout.decode().strip().splitlines()[-1] if p.stdout.strip() else 'REFERENCE FAILED: ' + p.stderr.decode()[-300:]


def api_call(rnd, pool=()):
    """one public-API call as (description, thunk); thunks may raise"""
    cp = _cp()
    k = rnd.choice(['parseString', 'parseString', 'parseStyle', 'parser-reuse', 'old-parser', 'old-parser', 'medialist', 'mediaquery', 'selector',
                    'selectorlist', 'style-text', 'property', 'sheet-text', 'rule-text', 'append-medium', 'append-selector',
                    'serialize-prefs', 'csscombine', 'value', 'leftover', 'leftover', 'reentrant', 'import-raise', 'set-raise', 'set-serializer', 'import-media', 'parse-media', 'global-prefs', 'global-prefs'])
    t = rnd.choice(list(TEXTS))
    s = rnd.choice(SETTER_TEXTS) if rnd.random() < 0.5 else gen_text(rnd)
    raising = rnd.random() < 0.5
    if k == 'parseString':
        return ('parseString(%s, raise=%s)' % (t, raising),
                lambda: cp.CSSParser(fetcher=fetcher_ok, raiseExceptions=raising).parseString(TEXTS[t], href='http://h/s.css'))
    if k == 'old-parser':
        # a parser object made earlier (under whatever setting was in force then) and used again now
        i = rnd.randrange(len(pool)) if pool else 0
        if not pool:
            return ('module parseString(%s)' % t, lambda: cp.parseString(TEXTS[t]))
        if rnd.random() < 0.6:
            return ('parser[%d].parseString(%s)' % (i, t), lambda: pool[i].parseString(TEXTS[t], href='http://h/s.css'))
        return ('parser[%d].parseStyle(%r)' % (i, s), lambda: pool[i].parseStyle(s))
    if k == 'parseStyle':
        return ('parseStyle(%r)' % s, lambda: cp.parseStyle(s if rnd.random() < 0.7 else b'\xff'))
    if k == 'parser-reuse':
        return ('module parseString(%s)' % t, lambda: cp.parseString(TEXTS[t]))
    if k == 'medialist':
        return ('MediaList(%r)' % s, lambda: cp.stylesheets.MediaList(s))
    if k == 'mediaquery':
        def f():
            mq = cp.stylesheets.MediaQuery('tv')
            mq.mediaText = s
        return ('MediaQuery.mediaText=%r' % s, f)
    if k == 'selector':
        return ('Selector(%r)' % s, lambda: cp.css.Selector(s))
    if k == 'selectorlist':
        return ('SelectorList(%r)' % s, lambda: cp.css.SelectorList(s))
    if k == 'style-text':
        return ('CSSStyleDeclaration(%r)' % s, lambda: cp.css.CSSStyleDeclaration(s))
    if k == 'property':
        def f():
            p = cp.css.Property('color', 'red')
            p.cssText = 'top: ' + s
        return ('Property.cssText=%r' % s, f)
    if k == 'sheet-text':
        def f():
            sh = cp.css.CSSStyleSheet()
            sh.cssText = TEXTS[t] if not isinstance(TEXTS[t], bytes) else 'a{'
        return ('sheet.cssText=%s' % t, f)
    if k == 'rule-text':
        def f():
            r = cp.css.CSSMediaRule()
            r.cssText = '@media ' + s + ('' if '{' in s else ' { a { top: 0 } }')
        return ('CSSMediaRule.cssText=@media %r' % s, f)
    if k == 'import-media':
        return ('CSSImportRule(mediaText=%r)' % s, lambda: cp.css.CSSImportRule(href='x.css', mediaText=s))
    if k == 'parse-media':
        return ('parseString(@media %r, raise=%s)' % (s, raising), lambda: cp.CSSParser(
            fetcher=fetcher_ok, raiseExceptions=raising).parseString('@media ' + s + ' { a { top: 0 } } b { left: 0 }'))
    if k == 'append-medium':
        return ('appendMedium(%r)' % s, lambda: cp.stylesheets.MediaList('print').appendMedium(s))
    if k == 'append-selector':
        return ('appendSelector(%r)' % s, lambda: cp.css.SelectorList('a').appendSelector(s))
    if k == 'serialize-prefs':
        def f():
            sh = cp.parseString(GOOD_SHEET)
            ser = cp.serialize.CSSSerializer()
            ser.prefs.useMinified()
            ser.prefs.indent = rnd.choice(['', '\t', '  '])
            ser.do_CSSStyleSheet(sh)
        return ('serialize with private prefs', f)
    if k == 'global-prefs':
        # the caller switches preferences of the GLOBAL serializer on, serialises, and switches them off again
        names = rnd.sample(['indentSpecificities', 'keepAllProperties', 'omitLastSemicolon', 'keepUsedNamespaceRulesOnly', 'lineNumbers',
                            'indentClosingBrace', 'keepEmptyRules', 'resolveVariables', 'minimizeColorHash'], 3)

        def f():
            prefs = cp.ser.prefs
            old = {n: getattr(prefs, n) for n in names}
            try:
                for n in names:
                    setattr(prefs, n, not old[n])
                for text in rnd.sample(['a {left:0} a.b {color: red}', GOOD_SHEET, 'x, y.z { top: 0 } x { left: 0 }'], 3):
                    sh = cp.CSSParser(fetcher=fetcher_ok).parseString(text)
                    if rnd.random() < 0.5:
                        sh.cssText
                    # single rules and blocks, in any order and more than once
                    for r in rnd.choices(list(sh.cssRules), k=4):
                        r.cssText
                        getattr(getattr(r, 'style', None), 'cssText', None)
            finally:
                for n in names:
                    setattr(prefs, n, old[n])
        return ('serialize under global prefs %s toggled, then restored' % names, f)
    if k == 'csscombine':
        enc = rnd.choice(['utf-8', 'ascii', 'no-such-enc'])
        from css_parser.script import csscombine
        mini, resv = rnd.random() < 0.5, rnd.random() < 0.5
        return ('csscombine(target=%s, minify=%s, resolveVariables=%s)' % (enc, mini, resv),
                lambda: csscombine(cssText=TEXTS['good'], href='http://h/s.css', targetencoding=enc, minify=mini, resolveVariables=resv))
    if k == 'value':
        return ('PropertyValue(%r)' % s, lambda: cp.css.PropertyValue(s))
    if k == 'leftover':
        # accepted calls whose text goes on after the part that was asked for (a value followed by ';', a margin box
        # followed by '}'): whatever the reader keeps of the rest must not reach the next call
        j = rnd.randrange(6)
        return [("Property('color', 'red;')", lambda: cp.css.Property('color', 'red;')),
                ("setProperty('left', '1px;')", lambda: cp.css.CSSStyleDeclaration().setProperty('left', '1px;')),
                ("PropertyValue('1px; 2px')", lambda: cp.css.PropertyValue('1px; 2px')),
                ("CSSVariablesDeclaration('a: 1px; b: 2px;')", lambda: cp.css.CSSVariablesDeclaration('a: 1px; b: 2px;')),
                ("parseString('@page { @top-left { } }')", lambda: cp.parseString('@page { @top-left { } }')),
                ("MarginRule.cssText = '@top-left { } }'", lambda: setattr(cp.css.MarginRule(), 'cssText', '@top-left { left: 0 } }'))][j]
    if k == 'reentrant':
        # the fetcher parses with the very parser it serves (e.g. to look into the sheet it hands over)
        def f():
            p = cp.CSSParser(raiseExceptions=raising)

            def fetch(url):
                p.parseString(TEXTS[t] if not isinstance(TEXTS[t], bytes) else 'a{}')
                p.parseStyle(s)
                return None, 'i { top: 1px }'
            p.setFetcher(fetch)
            p.parseString('@import "x.css"; a { left: 0 }', href='http://h/s.css')
        return ('parser whose fetcher parses %s and %r with it (raise=%s)' % (t, s, raising), f)
    if k == 'import-raise':
        return ('parse with raising fetcher', lambda: cp.CSSParser(fetcher=fetcher_raise).parseString('@import "x.css";'))
    if k == 'set-raise':
        v = rnd.random() < 0.5
        return ('SET raiseExceptions=%s' % v, ('set-raise', v))
    if k == 'set-serializer':
        return ('SET serializer', ('set-ser',))
    raise AssertionError(k)


def run_sequence(seed, length, ref):
    cp = _cp()
    rnd = random.Random(seed)
    cp.log.raiseExceptions = True
    # parsers that live as long as the sequence: made now, used after the caller has changed settings
    pool = [cp.CSSParser(fetcher=fetcher_ok, raiseExceptions=r) for r in (None, True, False)]
    expect = settings_snapshot()
    history = ['parser[0..2] = CSSParser(raiseExceptions=None/True/False)']
    for _ in range(length):
        desc, thunk = api_call(rnd, pool)
        history.append(desc)
        if isinstance(thunk, tuple):
            # the caller changes a setting: from now on that is what must be observed
            if thunk[0] == 'set-raise':
                cp.log.raiseExceptions = thunk[1]
            else:
                cp.setSerializer(cp.serialize.CSSSerializer())
            expect = settings_snapshot()
            continue
        try:
            thunk()
        except (xml.dom.DOMException, UnicodeDecodeError, RuntimeError, LookupError):
            pass
        except Exception as e:
            return 'after %r: %s raised %s (%s)' % (history[:-1], desc, type(e).__name__, str(e)[:80])
        now = settings_snapshot()
        if now != expect:
            diff = [k for k in now if now[k] != expect[k]]
            return 'after %r the process-wide %s differ from what the caller last set: %r, expected %r' % (
                history, diff, {k: now[k] for k in diff}, {k: expect[k] for k in diff})
    got = canaries(start=rnd.randrange(64))
    if got != ref:
        a, b = json.loads(got), json.loads(ref)
        idx = [i for i, (x, y) in enumerate(zip(a, b)) if x != y][:1]
        return 'after %r canary %s gives %r, a fresh process gives %r' % (history, idx, [a[i] for i in idx], [b[i] for i in idx])
    return ''


def _work(args):
    seeds, length, ref = args
    out = []
    for s in seeds:
        try:
            w = run_sequence(s, length, ref)
        except Exception:
            import traceback
            w = 'harness raised: ' + traceback.format_exc()[-400:]
        if w:
            out.append((s, w))
    return out


def run(tier, seed):
    t0 = time.time()
    from .. import gen_globals
    cells, changed = gen_globals.generate()
    build = lib.build_and_audit(PROP)
    build.gen_status = (build.gen_status or '') + '; gen_globals: ' + ('rewritten' if changed else 'unchanged')
    findings = lib.Findings(PROP)
    broken = []
    ref = reference()
    if ref.startswith('REFERENCE FAILED'):
        print('check: ' + ref)
        return 2
    n = 400 if tier == 'quick' else 6000
    length = 8 if tier == 'quick' else 14
    seeds = [seed * 1000003 + i for i in range(n)]
    import multiprocessing as mp
    chunks = [(seeds[i:i + 25], length, ref) for i in range(0, n, 25)]
    with mp.get_context('fork').Pool(lib.NPROC) as pool:
        res = pool.map(_work, chunks)
    fails = [x for r in res for x in r]
    for s, why in fails[:6]:
        findings.add('sequence', 'seed %d' % s, why)
    # re-entrant parses: Model/SaveStack.lean against the running CSSParser
    from . import c06s
    resS, distS = c06s.run(tier, seed)
    if resS['n_mismatch']:
        c, line, e, g = resS['mismatches'][0]
        broken.append('correspondence op `savestack` diverges on %d histories; first %s: impl=%s model=%s' % (
            resS['n_mismatch'], line[:200], e[:120], g[:120]))
    for case, why in resS['oracle_fail'][:4]:
        findings.add('reentrant', c06s.line_of(case)[:200], why)
    coverage = {
        'evaluations': n * length + resS['n'],
        'distinct_nontrivial': n,
        'rule': 'sequences of public-API calls (parseString / parseStyle with raising and non-raising parsers on 14 texts incl. '
                'undecodable bytes, module-level parse helpers, MediaList / MediaQuery / Selector / SelectorList / '
                'CSSStyleDeclaration / Property / PropertyValue / CSSImportRule constructors and text setters with 14 malformed texts and with arguments from the media-query / selector / declaration grammars (every feature with and without a value), half of them mutated, '
                'sheet and rule cssText, appendMedium, appendSelector, serialisation under private preferences, csscombine '
                'incl. an unknown target encoding, a raising fetcher, and the caller changing raiseExceptions / the '
                'serializer); after EVERY call log.raiseExceptions, the global serializer and its preferences, the '
                'pushed-back token list and the tokenizer productions are compared with what the caller last set; after '
                'the sequence 22 canary operations (run in rotated order) are compared by number with a fresh process.  Re-entrant '
                'parses: forests of calls on 1-3 long-lived parser objects whose fetchers make the child calls (same or other parser, '
                'returning or raising), flag observed inside and after every call, against the model `savestack`',
        'traces_validated_against_impl': n,
        'exhaustive': False,
        'distribution': {'sequences': n, 'length': length},
        'classification': {'mutated_cells': ['%s %s <- %s' % (k[0], k[1], ', '.join(sorted(v))[:120]) for k, v in sorted(cells.items())]},
        'samples': ['seed %d' % seeds[0], 'seed %d' % seeds[-1]],
        'correspondence_mismatches': resS['n_mismatch'],
        'oracle_failures': len(fails) + resS['n_oracle_fail'],
        'reentrant_histories': distS,
    }
    assumptions = ['the scanner of harness/gen_globals.py finds process-wide state by syntactic patterns (module-level names, '
                   'css_parser.<object> attribute chains, class-level containers, mutable defaults)']
    return lib.finish(PROP, tier, seed, t0, build, findings, coverage, assumptions, broken)
