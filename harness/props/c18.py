"""C18 — parent/owner links always mirror containment.

Proof: lean/CssVerif/Props/C18.lean (a store model of the rule tree with the raw link fields the code keeps
and the derived parentStyleSheet getter; the link invariant holds for every tree built by parsing and is
preserved by insertRule/add/deleteRule at any depth).  Tie: `tree` op — same construction / edit histories
on real sheets and on the model, the full (node, attribute) -> container map compared after every
operation.  Search: walking the real object graph after parsing and after every operation of random
histories (rules, selector lists, selectors, media lists, declarations, properties, values, imported sheets).
"""
import random
import time
import xml.dom

from .. import corr, lib

lib.use_repo()
PROP = 'C18'


def _cp():
    import css_parser
    import logging
    css_parser.log.setLevel(logging.FATAL)
    css_parser.log.raiseExceptions = True
    return css_parser


def walk(sheet):
    """yield (description, actual parent, expected parent) for every containment link reachable from `sheet`"""
    cp = _cp()
    out = []

    def rule_links(rule, container_rule, top):
        name = '%s %r' % (type(rule).__name__, (rule.cssText or '')[:30])
        out.append((name + '.parentRule', rule.parentRule, container_rule))
        out.append((name + '.parent', rule.parent, container_rule))          # (the parent node of a rule in a rule list)
        out.append((name + '.parentStyleSheet', rule.parentStyleSheet, top))
        sl = getattr(rule, 'selectorList', None)
        if sl is not None and rule.type == rule.STYLE_RULE:
            out.append((name + '.selectorList.parentRule', sl.parentRule, rule))
            for s in sl:
                out.append((name + ' selector %r .parent' % s.selectorText, s.parent, sl))
        st = getattr(rule, 'style', None)
        if st is not None and hasattr(st, 'getProperties'):
            out.append((name + '.style.parentRule', st.parentRule, rule))
            for p in st.getProperties(all=True):
                out.append((name + ' property %s .parent' % p.name, p.parent, st))
                pv = p.propertyValue
                if pv is not None:
                    out.append((name + ' property %s .propertyValue.parent' % p.name, pv.parent, p))
                    for v in pv:
                        if hasattr(v, 'parent'):
                            out.append((name + ' value %r .parent' % v.cssText, v.parent, pv))
        md = getattr(rule, 'media', None)
        if md is not None:
            out.append((name + '.media.parentRule', md.parentRule, rule))
        if rule.type == rule.IMPORT_RULE and rule.styleSheet is not None:
            out.append((name + '.styleSheet.ownerRule', rule.styleSheet.ownerRule, rule))
            for r in rule.styleSheet.cssRules:
                rule_links(r, None, rule.styleSheet)
        kids = getattr(rule, 'cssRules', None)
        if kids is not None and rule.type in (rule.MEDIA_RULE, rule.PAGE_RULE):
            for r in kids:
                rule_links(r, rule, top)
    for r in sheet.cssRules:
        rule_links(r, None, sheet)
    return out


def broken_links(sheet):
    return ['%s is %s, contained in %s' % (d, short(a), short(e)) for d, a, e in walk(sheet) if a is not e]


def short(o):
    if o is None:
        return 'None'
    return '<%s %r>' % (type(o).__name__, (getattr(o, 'cssText', None) or getattr(o, 'selectorText', None) or
                                          getattr(o, 'mediaText', None) or '')[:24])


SHEETS = [
    'a, b > c { top: 0; color: red !important } @media print { d { left: 0 } @media screen { e { top: 1px } '
    '@media tv { f { top: 2px } } @page { margin: 0 } } } @page :first { margin: 1px; @top-left { content: "x" } } '
    '@font-face { font-family: x; src: url(a.woff) } @import "i.css" print; @foo bar; /*c*/',
    '@import "i.css"; @namespace p "u"; p|a { background: url(x.png) no-repeat, rgb(1,2,3) } @media all { @media print { g { top: 0 } } }',
]


def fresh(i):
    cp = _cp()
    sh = cp.css.CSSStyleSheet(href='http://h/s.css')
    sh._setFetcher(lambda url: (None, 'i { top: 1px } @media print { j { left: 0 } }'))
    if i >= len(SHEETS):
        # a sheet from the grammar G (seed i): nesting, @page with margin boxes (also empty and repeated ones), at-rules
        # inside blocks, namespaces, every value shape
        from .. import sheetgen as G
        rnd = random.Random(i)
        sh.cssText = G.render_sheet(G.gen_sheet(rnd), G.Layout(rnd, comments=False), G.Plain())
        return sh
    text = SHEETS[i]
    # @import has to come first
    parts = [p for p in split_rules(text)]
    imports = [p for p in parts if p.startswith('@import')]
    rest = [p for p in parts if not p.startswith('@import')]
    sh.cssText = ' '.join(imports + rest)
    return sh


def split_rules(text):
    cp = _cp()
    tmp = cp.css.CSSStyleSheet()
    tmp._setFetcher(lambda url: None)
    out, depth, cur = [], 0, ''
    for ch in text:
        cur += ch
        if ch == '{':
            depth += 1
        elif ch == '}':
            depth -= 1
            if depth == 0:
                out.append(cur.strip())
                cur = ''
        elif ch == ';' and depth == 0:
            out.append(cur.strip())
            cur = ''
    if cur.strip():
        out.append(cur.strip())
    return out


def containers(sheet):
    """all rule containers reachable: the sheet, @media rules (any depth), @page rules"""
    out = [sheet]

    def rec(rules):
        for r in rules:
            if r.type in (r.MEDIA_RULE, r.PAGE_RULE):
                out.append(r)
                rec(r.cssRules)
    rec(sheet.cssRules)
    return out


def style_rules(sheet):
    out = []

    def rec(rules):
        for r in rules:
            if r.type == r.STYLE_RULE:
                out.append(r)
            elif r.type in (r.MEDIA_RULE,):
                rec(r.cssRules)
    rec(sheet.cssRules)
    return out


NEW_RULES = ['k { top: 3px }', '@media tv { l { top: 4px } }', '@page { margin: 2px }', '/*n*/', '@bar x;',
             '@media print { @media screen { m { left: 5px } } }',
             '@page :left { margin: 1px; @top-left { color: red; color: blue } @bottom-left { left: 0 } @top-left { top: 0; width: 1px } }',
             '@media tv { @page { @top-center { content: "a" } @top-center { content: "b" } } }']
PAGE_TEXTS = ['@page { margin: 3px; @top-left { left: 1px } @top-left { top: 2px } }', '@page :first { @bottom-center { color: red } }']


def apply_op(sheet, op, detached):
    cp = _cp()
    kind = op[0]
    cs = containers(sheet)
    if kind == 'insert_text':
        c = cs[op[1] % len(cs)]
        c.insertRule(NEW_RULES[op[2] % len(NEW_RULES)], min(op[3], len(c.cssRules)))
    elif kind == 'insert_obj':
        c = cs[op[1] % len(cs)]
        tmp = cp.css.CSSStyleSheet()
        tmp.cssText = NEW_RULES[op[2] % len(NEW_RULES)]
        c.insertRule(tmp.cssRules[0], min(op[3], len(c.cssRules)))
    elif kind == 'add':
        c = cs[op[1] % len(cs)]
        c.add(NEW_RULES[op[2] % len(NEW_RULES)])
    elif kind == 'delete':
        c = cs[op[1] % len(cs)]
        if len(c.cssRules):
            i = op[2] % len(c.cssRules)
            r = c.cssRules[i]
            c.deleteRule(i)
            detached.append(r)
    elif kind == 'sheet_csstext':
        # the whole text replaced - or refused (late @import, undeclared prefix, late @charset): the rules stay and stay linked
        sheet.cssText = ['w { top: 9px } @media tv { w2 { left: 0 } }', 'z {} @import "late.css";', 'q|z {}', 'y {} @charset "utf-8";',
                         '@page { margin: 0; @top-left { color: red } }'][op[1] % 5]
    elif kind == 'move':
        # take a rule out of one container and insert the same object into another
        c = cs[op[1] % len(cs)]
        d = cs[op[2] % len(cs)]
        if len(c.cssRules):
            r = c.cssRules[op[3] % len(c.cssRules)]
            if r.type in (r.STYLE_RULE, r.COMMENT) and r is not d:
                c.deleteRule(r)
                d.insertRule(r)
    else:
        srs = style_rules(sheet)
        if not srs:
            return
        r = srs[op[1] % len(srs)]
        if kind == 'style_text':
            r.style = 'left: 9px; margin: 1px 2px'
        elif kind == 'style_obj':
            r.style = cp.css.CSSStyleDeclaration(cssText='top: 8px')
        elif kind == 'style_csstext':
            r.style.cssText = 'color: blue; top: 7px'
        elif kind == 'selector_text':
            r.selectorText = 'x, y > z'
        elif kind == 'selectorlist_obj':
            r.selectorList = cp.css.SelectorList(selectorText='q, r')
        elif kind == 'append_selector':
            r.selectorList.appendSelector('s')
        elif kind == 'set_property':
            r.style.setProperty('width', '1px')
        elif kind == 'set_property_obj':
            r.style.setProperty(cp.css.Property('height', '2px'))
        elif kind == 'rule_csstext':
            r.cssText = 't { top: 6px }'
        elif kind == 'media_text':
            ms = [c for c in cs[1:] if c.type == c.MEDIA_RULE]
            if ms:
                ms[op[1] % len(ms)].media.mediaText = 'tv, print'
        elif kind == 'media_obj':
            ms = [c for c in cs[1:] if c.type == c.MEDIA_RULE]
            if ms:
                ms[op[1] % len(ms)].media = cp.stylesheets.MediaList('screen')
        elif kind == 'append_medium':
            ms = [c for c in cs[1:] if c.type == c.MEDIA_RULE]
            if ms:
                ms[op[1] % len(ms)].media.appendMedium('handheld')
        elif kind == 'page_csstext':
            ps = [c for c in cs[1:] if c.type == c.PAGE_RULE]
            if ps:
                ps[op[1] % len(ps)].cssText = PAGE_TEXTS[op[2] % len(PAGE_TEXTS)]
        elif kind == 'media_csstext':
            ms = [c for c in cs[1:] if c.type == c.MEDIA_RULE]
            if ms:
                ms[op[1] % len(ms)].cssText = '@media tv { u { top: 5px } @media print { v { top: 4px } } }'
        else:
            raise AssertionError(op)


OPS = ['insert_text', 'insert_obj', 'add', 'delete', 'move', 'style_text', 'style_obj', 'style_csstext', 'selector_text',
       'selectorlist_obj', 'append_selector', 'set_property', 'set_property_obj', 'rule_csstext', 'media_text', 'media_obj',
       'append_medium', 'media_csstext', 'page_csstext', 'sheet_csstext']


def run_history(case):
    which, ops = case
    sheet = fresh(which)
    bad = broken_links(sheet)
    if bad:
        return 'after parsing sheet %d: %s' % (which, bad[0])
    detached = []
    for n, op in enumerate(ops):
        try:
            apply_op(sheet, op, detached)
        except xml.dom.DOMException:
            pass
        bad = broken_links(sheet)
        if bad:
            return 'sheet %d after %r: %s' % (which, list(ops[:n + 1]), bad[0])
        for r in detached:
            if r.parentRule is not None or r.parentStyleSheet is not None or r.parent is not None:
                if not any(r is x for c in containers(sheet) for x in c.cssRules):
                    return 'sheet %d after %r: the deleted rule %s still reports parentRule=%s parentStyleSheet=%s' % (
                        which, list(ops[:n + 1]), short(r), short(r.parentRule), short(r.parentStyleSheet))
    return ''


def gen_cases(tier, seed):
    rnd = random.Random(seed)
    cases = []
    for w in range(len(SHEETS)):
        cases.append((w, ()))
        for k in OPS:
            for a in range(6):
                for b in range(3):
                    cases.append((w, ((k, a, b, b),)))
    n = 300 if tier == 'quick' else 5000
    for _ in range(n):
        ops = tuple((rnd.choice(OPS), rnd.randrange(8), rnd.randrange(8), rnd.randrange(4))
                    for _ in range(rnd.randint(2, 10 if tier == 'quick' else 25)))
        cases.append((rnd.randrange(len(SHEETS)), ops))
    # sheets from the grammar G: the links right after parsing, then short random histories
    for j in range(150 if tier == 'quick' else 3000):
        g = len(SHEETS) + seed * 100003 + j
        cases.append((g, ()))
        if j % 3 == 0:
            cases.append((g, tuple((rnd.choice(OPS), rnd.randrange(8), rnd.randrange(8), rnd.randrange(4))
                                   for _ in range(rnd.randint(1, 6)))))
    return cases


# ------------------------------------------------------------------ `tree` correspondence

MODEL_FIXED = '1'
N_OBJ = 6          # ids 1..6: 1-3 @media containers, 4-6 style rules


def tree_ops(case):
    """case = ('tree', [(kind, a, b, c)]) → executable op list over ids; skips ops that are not applicable"""
    return case[1]


def tree_py(case):
    cp = _cp()
    sheet = cp.css.CSSStyleSheet()
    objs = {}
    for i in (1, 2, 3):
        objs[i] = cp.css.CSSMediaRule(mediaText='print')
    for i in (4, 5, 6):
        objs[i] = cp.css.CSSStyleRule(selectorText='s%d' % i, style='top: %dpx' % i)
    ids = {id(o): i for i, o in objs.items()}
    outs = []
    for op in case[1]:
        k = op[0]
        if k == 't':
            sheet.insertRule(objs[op[2]], op[1])
        elif k == 'c':
            objs[op[1]].insertRule(objs[op[3]], op[2])
        elif k == 'dt':
            sheet.deleteRule(op[1])
        elif k == 'dc':
            objs[op[1]].deleteRule(op[2])
        line = []
        for i in range(1, N_OBJ + 1):
            o = objs[i]
            pr = o.parentRule
            ps = o.parentStyleSheet
            line.append('%s/%s' % ('-' if pr is None else ids[id(pr)], '-' if ps is None else ('0' if ps is sheet else '?')))
        outs.append(' '.join(line))
    return ' | '.join(outs)


def tree_line(case):
    return 'tree %s %d %s' % (MODEL_FIXED, N_OBJ, ','.join('.'.join(str(x) for x in op) for op in case[1]))


def tree_cases(tier, seed):
    """well-formed histories: a rule is inserted only while detached, deleted only where it is"""
    rnd = random.Random(seed + 18)
    cases = []
    for _ in range(400 if tier == 'quick' else 6000):
        top = []
        kids = {1: [], 2: [], 3: []}
        where = {}
        ops = []
        for _ in range(rnd.randint(2, 14)):
            free = [i for i in range(1, N_OBJ + 1) if i not in where]
            r = rnd.random()
            if r < 0.6 and free:
                x = rnd.choice(free)
                # containers reachable or not: any container that is not x itself and not inside x
                def inside(c, x):
                    while c in where and where[c] != 0:
                        c = where[c]
                        if c == x:
                            return True
                    return False
                conts = [c for c in (1, 2, 3) if c != x and not inside(c, x)]
                if rnd.random() < 0.4 or not conts:
                    i = rnd.randint(0, len(top))
                    top.insert(i, x)
                    where[x] = 0
                    ops.append(('t', i, x))
                else:
                    c = rnd.choice(conts)
                    i = rnd.randint(0, len(kids[c]))
                    kids[c].insert(i, x)
                    where[x] = c
                    ops.append(('c', c, i, x))
            elif where:
                x = rnd.choice(list(where))
                c = where.pop(x)
                if c == 0:
                    i = top.index(x)
                    top.pop(i)
                    ops.append(('dt', i))
                else:
                    i = kids[c].index(x)
                    kids[c].pop(i)
                    ops.append(('dc', c, i))
        if ops:
            cases.append(('tree', tuple(ops)))
    return cases


def hist_oracle(case, _e=None):
    try:
        return run_history(case)
    except Exception:
        import traceback
        return 'harness raised: ' + traceback.format_exc()[-300:]


def run(tier, seed):
    t0 = time.time()
    build = lib.build_and_audit(PROP)
    findings = lib.Findings(PROP)
    broken = []
    cases = gen_cases(tier, seed)
    res = corr.run('c18', cases, lambda c: 'numval -', lambda c: '~', hist_oracle, chunk=60)
    for case, why in res['oracle_fail'][:6]:
        which, ops = case
        small = lib.shrink_seq(tuple(ops), lambda o: bool(run_history((which, tuple(o))))) if len(ops) > 1 else ops
        findings.add('history', repr((which, tuple(small))), run_history((which, tuple(small))) or why)
    tcases = tree_cases(tier, seed)
    resT = corr.run('c18t', tcases, tree_line, tree_py, None, chunk=300)
    if resT['n_mismatch']:
        c, line, e, g = resT['mismatches'][0]
        broken.append('correspondence op `tree` diverges on %d histories; first %r\n impl=%s\n model=%s' % (
            resT['n_mismatch'], c[1], e[-300:], g[-300:]))
    from . import c18own
    ocases = c18own.own_cases(tier, seed)
    resO = corr.run('c18o', ocases, c18own.own_line, c18own.own_py, c18own.own_oracle, chunk=25)
    if resO['n_mismatch']:
        c, line, e, g = resO['mismatches'][0]
        broken.append('correspondence op `own` diverges on %d histories; first %s\n impl=%s\n model=%s' % (
            resO['n_mismatch'], line[:300], e[-300:], g[-300:]))
    for case, why in resO['oracle_fail'][:4]:
        findings.add('owners', repr(case), why)
    coverage = {
        'evaluations': sum(len(c[1]) + 1 for c in cases) + sum(len(c[1]) for c in tcases) + sum(c[1] for c in ocases),
        'distinct_nontrivial': len(set(cases)) + len(set(tcases)) + len(set(ocases)),
        'rule': 'graph walk: sheets from the grammar G (150 / 3000 per run) and 2 fixed sheets with every rule kind (@media nested three deep with @page inside, @page with a margin '
                'rule, @font-face, @import with a fetched sheet, unknown rule, comment, namespaced selectors, multi-valued '
                'properties) x every one of 18 operations at 18 positions alone, then random histories (insertRule text / '
                'object at any container and index, add, deleteRule, moving a rule object between containers, style / '
                'selectorText / selectorList / mediaText / media / cssText assignments as text and as objects, setProperty, '
                'appendSelector, appendMedium); after EVERY operation every link of every reachable object is compared '
                'with containment and every deleted rule must report no parent; `tree`: well-formed insert / delete '
                'histories over 3 containers and 3 style rules against the model; `own`: histories of 12-41 text and object '
                'assignments on declaration blocks, properties, values, selector lists, selectors and media lists of style / '
                '@font-face / @media rules (a third of them without object adoption: there every rule must stay consistent), '
                'owner of every reachable sub-object compared with the model after every operation',
        'traces_validated_against_impl': resT['n'] + resO['n'],
        'exhaustive': False,
        'distribution': {'graph_histories': len(cases), 'tree_histories': len(tcases), 'owner_histories': len(ocases)},
        'samples': [repr(cases[i]) for i in (1, len(cases) // 2, len(cases) - 1)],
        'correspondence_mismatches': resT['n_mismatch'] + resO['n_mismatch'],
        'oracle_failures': res['n_oracle_fail'] + resO['n_oracle_fail'],
    }
    assumptions = ['two models: the rule tree (Links) and the sub-objects of a rule (Owners: block, properties, values, selector '
                   'list, selectors, media list); links of imported sheets and of margin rules inside @page are checked on the '
                   'implementation only; adopting an object that another reachable container still lists is outside the '
                   'theorem (hypothesis Adopt, kernel-checked counterexamples) - the real code then leaves the old owner '
                   'with a child naming the new owner',
                   'a rule object is inserted only while it is not contained elsewhere']
    return lib.finish(PROP, tier, seed, t0, build, findings, coverage, assumptions, broken)
