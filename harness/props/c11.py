"""C11 — declaration blocks behave as an ordered, cascade-aware property list.

Proof: lean/CssVerif/Props/C11.lean (refinement of the coded methods to the entry-list spec; alias
table decided by the kernel).  Tie: `decl` op — same operation histories to a real
CSSStyleDeclaration and to the model, every accessor compared after every operation.
Search: reference-list oracle written from the property statement, evaluated on the real object.
"""
import itertools
import random
import time

from .. import corr, lib

lib.use_repo()
PROP = 'C11'

NAMES = ['color', 'top', 'left', 'width']
SPELL = {0: ['color', 'COLOR', 'c\\olor'], 1: ['top', 'TOP', 't\\op'], 2: ['left', 'LEFT', '\\left'],
         3: ['width', 'WIDTH', 'w\\idth']}
VALUES = {1: 'red', 2: 'blue', 3: 'inherit'}
VAL_ID = {v: k for k, v in VALUES.items()}


def lit_id(n, k):
    # Property.literalname is the name as written, lower-cased (escapes kept): 'COLOR' and 'color' coincide
    return n * 3 + (0 if k == 1 else k)


def _style():
    import css_parser
    import logging
    css_parser.log.setLevel(logging.FATAL)
    return css_parser.css.CSSStyleDeclaration()


def apply_op(style, op):
    """op tuples: ('s', n, k, v, imp, rep, how) / ('r', n, k, how) / ('a', entries)"""
    if op[0] == 's':
        _, n, k, v, imp, rep, how = op
        name, val = SPELL[n][k], VALUES[v]
        if how == 'set':
            style.setProperty(name, val, 'important' if imp else '', replace=bool(rep))
        elif how == 'item':
            style[name] = (val, 'important') if imp else val
        else:   # attribute
            setattr(style, NAMES[n], val)
    elif op[0] == 'r':
        _, n, k, how = op
        if how == 'remove':
            style.removeProperty(SPELL[n][k])
        elif how == 'del':
            del style[SPELL[n][k]]
        elif how == 'empty':
            style.setProperty(SPELL[n][k], '')
        else:
            delattr(style, NAMES[n])
    else:
        style.cssText = '; '.join('%s: %s%s' % (SPELL[n][k], VALUES[v], ' !important' if imp else '')
                                  for (n, k, v, imp) in op[1])


def op_line(op):
    if op[0] == 's':
        _, n, k, v, imp, rep, how = op
        return 's.%d.%d.%d.%d.%d' % (n, lit_id(n, k), v, imp, rep)
    if op[0] == 'r':
        return 'r.%d' % op[1]
    return 'a.' + '+'.join('%d:%d:%d:%d' % (n, lit_id(n, k), v, imp) for (n, k, v, imp) in op[1])


def line_of(hist):
    return 'decl ' + ','.join(op_line(o) for o in hist)


def _entry(p):
    n = NAMES.index(p.name)
    k = SPELL[n].index(p.literalname)
    return '%d:%d:%d:%d' % (n, lit_id(n, k), VAL_ID[p.value], 1 if p.priority else 0)


def observe(style):
    props = style.getProperties(all=True)
    b = '+'.join(_entry(p) for p in props)
    k = ','.join(str(NAMES.index(x)) for x in style.keys())
    g = []
    for n in range(4):
        p = style.getProperty(NAMES[n])
        s = _entry(p) if p else '~'
        # all the single-name accessors must agree with getProperty
        if p:
            assert style.getPropertyValue(NAMES[n]) == p.value and style.getPropertyPriority(NAMES[n]) == p.priority
            assert style[NAMES[n]] == p.value and getattr(style, NAMES[n]) == p.value
            assert style.getPropertyValue(SPELL[n][1]) == p.value
        else:
            assert style.getPropertyValue(NAMES[n]) == '' and style.getPropertyPriority(NAMES[n]) == ''
        g.append(s + '/' + ('1' if NAMES[n] in style else '0'))
    it = []
    for i in (-3, -2, -1, 0, 1, 2, 3):
        x = style.item(i)
        it.append(str(NAMES.index(x)) if x else '~')
    ef = '+'.join(_entry(p) if p else '~' for p in style)
    assert [_entry(p) for p in style.getProperties()] == [_entry(p) for p in style]
    return 'B=%s;K=%s;L=%d;G=%s;I=%s;E=%s' % (b, k, style.length, ','.join(g), ','.join(it), ef)


def py_of(hist):
    st = _style()
    outs = []
    for op in hist:
        apply_op(st, op)
        outs.append(observe(st))
    return ' | '.join(outs)


# ---- reference oracle written from the statement (independent of the Lean model)

def ref_apply(l, op):
    if op[0] == 's':
        _, n, k, v, imp, rep, how = op
        if how != 'set':
            rep = 1
            if how == 'attr':
                imp, k = 0, 0
        if rep:
            idx = ref_eff(l, n)
            if idx is not None:
                e = l[idx]
                return l[:idx] + [(e[0], e[1], v, imp)] + l[idx + 1:]
        return l + [(n, lit_id(n, k), v, imp)]
    if op[0] == 'r':
        return [e for e in l if e[0] != op[1]]
    return [(n, lit_id(n, k), v, imp) for (n, k, v, imp) in op[1]]


def ref_eff(l, n):
    imp = [i for i, e in enumerate(l) if e[0] == n and e[3]]
    if imp:
        return imp[-1]
    al = [i for i, e in enumerate(l) if e[0] == n]
    return al[-1] if al else None


def ref_observe(l):
    names = []
    for e in reversed(l):
        if e[0] not in names:
            names.append(e[0])
    names.reverse()
    b = '+'.join('%d:%d:%d:%d' % e for e in l)
    g = []
    for n in range(4):
        i = ref_eff(l, n)
        g.append(('%d:%d:%d:%d' % l[i] if i is not None else '~') + '/' + ('1' if n in names else '0'))
    it = []
    for i in (-3, -2, -1, 0, 1, 2, 3):
        try:
            it.append(str(names[i]))
        except IndexError:
            it.append('~')
    ef = '+'.join('%d:%d:%d:%d' % l[ref_eff(l, n)] for n in names)
    return 'B=%s;K=%s;L=%d;G=%s;I=%s;E=%s' % (b, ','.join(map(str, names)), len(names), ','.join(g), ','.join(it), ef)


def oracle(hist, _e=None):
    st = _style()
    l = []
    for i, op in enumerate(hist):
        try:
            apply_op(st, op)
            got = observe(st)
        except AssertionError:
            return 'after op %d (%r): single-name accessors disagree with getProperty' % (i, op)
        l = ref_apply(l, op)
        exp = ref_observe(l)
        if got != exp:
            return 'after op %d (%r): object reports %s, ordered-list semantics give %s' % (i, op, got, exp)
    return ''


def alias_oracle():
    """every known property: the camel-case attribute must set / read / delete the hyphenated name"""
    import css_parser
    from css_parser import profiles
    from css_parser.css.cssproperties import _toDOMname
    bad = []
    names = []
    for g in profiles.properties:
        for n in profiles.properties[g]:
            if n not in names:
                names.append(n)
    for n in names:
        st = _style()
        d = _toDOMname(n)
        try:
            setattr(st, d, 'inherit')
            ok = st.keys() == [n] and st.getPropertyValue(n) == 'inherit' and getattr(st, d) == 'inherit'
            if ok:
                st2 = _style()
                st2.setProperty(n, 'inherit')
                ok = getattr(st2, d) == 'inherit'
                delattr(st2, d)
                ok = ok and st2.length == 0
        except Exception as e:  # AttributeError etc.
            ok = False
        if not ok:
            bad.append((n, d))
    return names, bad


def all_ops(names=(0, 1), values=(1, 2)):
    ops = []
    for n in names:
        for k in range(3):
            for v in values:
                for imp in (0, 1):
                    for rep in (0, 1):
                        ops.append(('s', n, k, v, imp, rep, 'set'))
            ops.append(('s', n, k, values[0], 1, 1, 'item'))
            ops.append(('r', n, k, 'remove'))
        ops.append(('s', n, 0, values[-1], 0, 1, 'attr'))
        ops.append(('r', n, 0, 'delattr'))
        ops.append(('r', n, 1, 'empty'))
    ops.append(('a', ()))
    ops.append(('a', ((0, 1, 1, 1), (1, 0, 2, 0), (0, 2, 2, 0))))
    ops.append(('a', ((1, 0, 1, 0), (0, 0, 1, 0), (1, 1, 2, 1), (1, 2, 1, 0))))
    return ops


def gen_cases(tier, seed):
    rnd = random.Random(seed)
    ops = all_ops()
    depth = 3 if tier == 'quick' else 4
    cases = []
    if tier == 'quick':
        for h in itertools.product(ops, repeat=2):
            cases.append(h)
        # depth 3: all (op, op, op) with a reduced first two layers
        small = [o for o in ops if o[0] != 's' or (o[2] < 2 and o[3] == 1) or o[6] != 'set']
        for h in itertools.product(small, small, ops):
            cases.append(h)
    else:
        small = [o for o in ops if o[0] != 's' or (o[2] < 2) or o[6] != 'set']
        for h in itertools.product(ops, repeat=3):
            cases.append(h)
        for h in itertools.product(small, small, small, ops):
            if rnd.random() < 0.25:
                cases.append(h)
    n_exh = len(cases)
    big = all_ops(names=(0, 1, 2, 3), values=(1, 2, 3))
    for _ in range(300 if tier == 'quick' else 4000):
        cases.append(tuple(rnd.choice(big) for _ in range(rnd.randint(5, 60 if tier == 'quick' else 300))))
    return cases, {'ops_alphabet': len(ops), 'exhaustive_histories': n_exh, 'depth': depth,
                   'random_histories': len(cases) - n_exh}


def run(tier, seed):
    t0 = time.time()
    build = lib.build_and_audit(PROP)
    findings = lib.Findings(PROP)
    cases, dist = gen_cases(tier, seed)
    res = corr.run('c11', cases, line_of, py_of, oracle, chunk=1500)
    broken = []
    for case, why in res['oracle_fail']:
        findings.add('history', repr(case), why)
    if res['n_mismatch']:
        c, line, e, g = res['mismatches'][0]
        broken.append('correspondence op `decl` diverges on %d histories; first %r impl=%s model=%s' % (
            res['n_mismatch'], c, e[-300:], g[-300:]))
    names, bad = alias_oracle()
    for n, d in bad:
        findings.add('alias', n, 'attribute %s is not an alias of property %s' % (d, n))
    nt = sum(len(h) for h in cases)
    # how much of the code the model transcribes do the correspondence inputs execute (a measurement, not a verdict)
    _sample = cases[::max(1, len(cases) // 1500)]
    coverage_lines = lib.modelled_code_coverage([('css_parser.css.cssstyledeclaration', 'CSSStyleDeclaration.setProperty'), ('css_parser.css.cssstyledeclaration', 'CSSStyleDeclaration.getProperty'), ('css_parser.css.cssstyledeclaration', 'CSSStyleDeclaration.getProperties'), ('css_parser.css.cssstyledeclaration', 'CSSStyleDeclaration.removeProperty'), ('css_parser.css.cssstyledeclaration', 'CSSStyleDeclaration.item'), ('css_parser.css.cssstyledeclaration', 'CSSStyleDeclaration.keys')], [lambda c=c: py_of(c) for c in _sample], limit=1505)
    coverage = {
        'modelled_code_line_coverage': coverage_lines,
        'evaluations': nt,
        'distinct_nontrivial': len(set(cases)),
        'rule': 'cases = operation histories on one declaration block over (2 names x 3 spellings x 2 values x '
                'priority x replace) set ops via setProperty / item assignment / attribute assignment, removals via '
                'removeProperty / del / empty value / delattr, cssText assignment; exhaustive to the stated depth then '
                'seeded random long histories over 4 names; after EVERY op all accessors are compared with the '
                'model; distinct = distinct histories; evaluations = operations executed',
        'traces_validated_against_impl': res['n'],
        'exhaustive': True,
        'distribution': dist,
        'alias_names_checked': len(names),
        'samples': [repr(cases[i]) for i in (0, len(cases) // 3, len(cases) - 1)],
        'correspondence_mismatches': res['n_mismatch'],
        'oracle_failures': res['n_oracle_fail'] + len(bad),
    }
    assumptions = ['values are opaque: drawn from texts whose serialisation is canonical, so the value parser is '
                   'not in the loop', 'non-Property items (comments) in a block are skipped by every accessor']
    return lib.finish(PROP, tier, seed, t0, build, findings, coverage, assumptions, broken)
