"""C05 (omission preferences) — which rules and declarations the serialiser WRITES.

Model: lean/CssVerif/Model/Omit.lean (`written : Prefs → Sheet → Sheet`), theorems in Proofs/Omit.lean, headline
statements in Props/C05.lean.  Tie (driver op `omit`): random abstract sheets (rules: comment, @charset, @import,
@namespace, style, @media (nested), @page with margin boxes, @font-face, unknown at-rules; blocks of declarations
(name, priority, valid), comments, nested at-rules) are rendered to CSS text in varying layout and spelling, parsed by
the real library and reduced to the abstract form (so the abstract input is what the parser built, and the generator's
intention is compared with it only to print the distribution); the sheet is serialised under a preference row, the
OUTPUT is parsed again, reduced with the same name / uri tables and compared with the model's `written` applied to the
abstract input.  Other sources: sheets of the grammar G, character-level mutations, sheets changed through the API
after parsing (a default @namespace inserted: the `None in useduris` clause).
"""
import random
import re
import time

from .. import corr, lib, pipeline as P, sheetgen as G

PROP = 'C05'

# ------------------------------------------------------------------ preference rows

KEEP = ['keepComments', 'keepEmptyRules', 'keepUnknownAtRules', 'keepUsedNamespaceRulesOnly', 'keepAllProperties', 'validOnly']
LAYOUT_BOOL = ['defaultAtKeyword', 'defaultPropertyName', 'defaultPropertyPriority', 'formatUnknownAtRules',
               'indentClosingBrace', 'minimizeColorHash', 'omitLastSemicolon', 'omitLeadingZero']
LAYOUT_STR = {'importHrefFormat': [None, 'string', 'uri'], 'indent': ['    ', '', '\t', ' '],
              'linesAfterRules': ['', '\n', '\n\n'], 'listItemSpacer': [' ', ''], 'paranthesisSpacer': [' ', ''],
              'propertyNameSpacer': [' ', ''], 'selectorCombinatorSpacer': [' ', ''], 'spacer': [' ', '']}
LINESEP = ['\n', '', ' ', '\r\n']


def row_of(i, rnd):
    """the 2^6 x 2 settings of the modelled preferences in turn (+ useMinified), layout preferences at random"""
    row = {}
    k = i % 130
    if k >= 128:
        row['minified'] = True
        if k == 129:
            row['keepAllProperties'] = False        # (useMinified leaves it alone; set afterwards)
        return row
    for j, name in enumerate(KEEP):
        row[name] = bool(k >> j & 1)
    row['lineSeparator'] = rnd.choice(LINESEP[1:2] if k >> 6 & 1 else [LINESEP[0], LINESEP[0], LINESEP[2], LINESEP[3]])
    if rnd.random() < 0.5:
        for name in LAYOUT_BOOL:
            row[name] = rnd.random() < 0.5
        for name, vals in LAYOUT_STR.items():
            row[name] = rnd.choice(vals)
    return row


def apply_prefs(p, row):
    p.useDefaults()
    if row.get('minified'):
        p.useMinified()
    for k, v in row.items():
        if k != 'minified':
            setattr(p, k, v)


def bits_of(p):
    return ''.join('1' if x else '0' for x in (p.keepComments, p.keepEmptyRules, p.keepUnknownAtRules,
                                                p.keepUsedNamespaceRulesOnly, p.keepAllProperties, p.validOnly,
                                                p.lineSeparator != ''))


# ------------------------------------------------------------------ abstract sheets: generator and renderer

# (normalised name, spellings, valid values, invalid values)
PROPS = [('color', ['color', 'COLOR', 'c\\olor', 'col\\6f r', 'Color'], ['red', '#fff', 'blue'], ['1px', 'zork(1)']),
         ('top', ['top', 'TOP', 't\\6fp'], ['0', '1px', 'auto'], ['red', '"s"']),
         ('left', ['left'], ['2em'], ['x y']),
         ('margin', ['margin', 'MARGIN'], ['0', '1px 2px'], ['red']),
         ('zork', ['zork', 'ZORK'], [], ['1', 'a b'])]
FONT_PROPS = [('font-family', ['font-family', 'FONT-FAMILY'], ['x', '"a b"'], ['1px']),
              ('font-weight', ['font-weight'], ['bold'], ['zork']),
              ('src', ['src'], ['url(a.ttf)'], [])]
PRIO = ['!important', '! important', '!IMPORTANT', '!im\\portant', '!/*c*/important']
COMMENTS = ['/*c*/', '/* a b */', '/**/', '/* two\n   lines */', '/*{;}*/']
NESTED_AT = ['@x {}', '@y;', '@x-z a b { k: v }', '@w "s";']
UNKNOWN = ['@foo;', '@foo bar { a { b: c } }', '@-x-y 1 "s" {}', '@three-dee { x: y }']


def gen_item(rnd, pool, kinds):
    k = rnd.choice(kinds)
    if k == 'c':
        return ('c', rnd.choice(COMMENTS))
    if k == 'a':
        return ('a', rnd.choice(NESTED_AT))
    name, spell, good, bad = rnd.choice(pool)
    valid = bool(good) and (not bad or rnd.random() < 0.7)
    imp = rnd.random() < 0.3
    return ('d', name, imp, valid, rnd.choice(spell), rnd.choice(good if valid else bad), rnd.choice(PRIO) if imp else '')


def gen_block(rnd, pool, atrules=True, comments=True):
    shape = rnd.random()
    kinds = ['d'] * 5 + (['c'] if comments else []) + (['a'] if atrules else [])
    if shape < 0.12:
        n = 0
    elif shape < 0.30:
        # what decides emptiness: only comments, only nested at-rules (one, two, three), only invalid declarations
        kinds = rnd.choice([['c'] if comments else ['d'], ['a'] if atrules else ['d'], ['a', 'c'] if atrules and comments else ['d']])
        n = rnd.randint(1, 3)
    elif shape < 0.55:
        # duplicates of one name
        pool = [rnd.choice(pool)]
        n = rnd.randint(2, 5)
    else:
        n = rnd.randint(1, 5)
    return [gen_item(rnd, pool, kinds) for _ in range(n)]


def gen_simple_sel(rnd, prefixes):
    el = rnd.choice(['a', 'b', 'p', '*'])
    r = rnd.random()
    if r < 0.35 and prefixes:
        s = rnd.choice(prefixes) + '|' + el
    elif r < 0.42:
        s = '*|' + el
    elif r < 0.48:
        s = '|' + el
    elif r < 0.8:
        s = el
    else:
        s = ''
    r = rnd.random()
    if r < 0.15:
        s += '.k'
    elif r < 0.25:
        s += '[' + rnd.choice(['href', 'u', 'x']) + ']'          # (an attribute without a prefix: see `_getUsedUris`)
    elif r < 0.33 and prefixes:
        s += '[' + rnd.choice(prefixes) + '|t=v]'
    elif r < 0.38 and prefixes:
        s += ':not(' + rnd.choice(prefixes) + '|c)'
    elif r < 0.42:
        s += '#i'
    return s or '.k'


def gen_selectors(rnd, prefixes):
    out = []
    for _ in range(rnd.choice([1, 1, 1, 2, 3])):
        parts = [gen_simple_sel(rnd, prefixes)]
        while rnd.random() < 0.25:
            parts.append(rnd.choice([' ', '>', '+', '~']))
            parts.append(gen_simple_sel(rnd, prefixes))
        out.append(''.join(parts))
    return out


def gen_rule(rnd, prefixes, depth, in_media):
    kinds = ['style'] * 6 + ['comment', 'unknown', 'page', 'media', 'media']
    if not in_media:
        kinds.append('fontface')
    if depth >= 3:
        kinds = ['style', 'style', 'comment', 'unknown', 'page']
    k = rnd.choice(kinds)
    if k == 'style':
        return ('style', gen_selectors(rnd, prefixes), gen_block(rnd, PROPS))
    if k == 'comment':
        return ('comment', rnd.choice(COMMENTS))
    if k == 'unknown':
        return ('unknown', rnd.choice(UNKNOWN))
    if k == 'fontface':
        return ('fontface', gen_block(rnd, FONT_PROPS))
    if k == 'page':
        names = rnd.sample(['@top-left', '@bottom-center', '@left-middle'], rnd.choice([0, 0, 1, 2, 3]))
        return ('page', rnd.choice(['', ':first', ':left']), gen_block(rnd, PROPS[1:4]),
                [(n, gen_block(rnd, PROPS[:3], atrules=False, comments=False)) for n in names])
    return ('media', rnd.choice(['print', 'screen, print', 'all', '(min-width: 1px)']),
            [gen_rule(rnd, prefixes, depth + 1, True) for _ in range(rnd.choice([0, 1, 1, 2, 3]))])


def gen_sheet(rnd):
    rules = []

    def comment():
        if rnd.random() < 0.2:
            rules.append(('comment', rnd.choice(COMMENTS)))
    if rnd.random() < 0.25:
        rules.append(('charset', 'utf-8'))
    comment()
    for _ in range(rnd.choice([0, 0, 0, 1, 2])):
        rules.append(('import', rnd.choice(['"a.css"', 'url(b.css) print', 'url("c.css")'])))
        comment()
    prefixes = []
    uris = ['http://n/%d' % i for i in range(4)] + ['h', 'u']     # ('h', 'u': first letters of attribute names)
    rnd.shuffle(uris)                # (distinct uris: two prefixes of one uri are a matter of C07 / C15, see the report)
    for pfx in rnd.sample(['', 'p', 'q', 'Svg'], rnd.choice([0, 1, 1, 2, 3])):
        rules.append(('namespace', pfx, uris.pop()))
        if pfx:
            prefixes.append(pfx)
        comment()
    for _ in range(rnd.choice([1, 2, 3, 4, 6])):
        rules.append(gen_rule(rnd, prefixes, 0, False))
    return rules


class Lay:
    def __init__(self, rnd):
        self.rnd = rnd

    def ws(self, inline=False):
        """white space; `inline`: inside a selector / before the colon of a declaration, where a comment is no item"""
        r = self.rnd.random()
        if r < 0.5:
            return ' '
        if r < 0.7:
            return ''
        if r < 0.85 or not inline:
            return '\n  '
        return ' /*w*/ '


def render_block(items, lay):
    parts = []
    for it in items:
        if it[0] == 'c':
            parts.append(it[1])
        elif it[0] == 'a':
            parts.append(it[1])
        else:
            _, name, imp, valid, spell, value, prio = it
            parts.append(spell + lay.ws(True) + ':' + lay.ws() + value + (' ' + prio if imp else '') + lay.ws() + ';')
    text = lay.ws().join(parts)
    if items and items[-1][0] == 'd' and lay.rnd.random() < 0.5:
        text = text[:text.rindex(';')]
    return text


def render_rule(r, lay):
    k = r[0]
    w = lay.ws
    if k == 'comment':
        return r[1]
    if k == 'charset':
        return '@charset "%s";' % r[1]
    if k == 'import':
        return '@import ' + r[1] + ';'
    if k == 'namespace':
        return '@namespace ' + (r[1] + ' ' if r[1] else '') + '"' + r[2] + '"' + w() + ';'
    if k == 'unknown':
        return r[1]
    if k == 'style':
        return (w(True) + ',' + w()).join(r[1]) + w(True) + '{' + w() + render_block(r[2], lay) + w() + '}'
    if k == 'fontface':
        return '@font-face' + w() + '{' + w() + render_block(r[1], lay) + w() + '}'
    if k == 'page':
        inner = render_block(r[2], lay)
        for n, b in r[3]:
            inner += (' ; ' if inner and not inner.rstrip().endswith((';', '}', '*/')) else ' ') + n + w() + '{' + w() + render_block(b, lay) + w() + '}'
        return '@page' + (' ' + r[1] if r[1] else '') + w() + '{' + w() + inner + w() + '}'
    if k == 'media':
        return '@media ' + r[1] + w() + '{' + w() + w().join(render_rule(x, lay) for x in r[2]) + w() + '}'
    raise AssertionError(r)


def render_sheet(rules, lay):
    out = []
    for i, r in enumerate(rules):
        out.append(render_rule(r, lay))
    if rules and rules[0][0] == 'charset':
        return out[0] + lay.ws().join([''] + out[1:])
    return lay.ws().join(out)


def mutate(rnd, text):
    """character-level edits: the parser recovers, the abstract sheet is whatever it builds"""
    head = ''
    if text.startswith('@charset'):
        # (`@charset"x";` is an unknown rule that is written `@charset "x";`, which is a charset rule: not an omission)
        head, text = text[:text.index(';') + 1], text[text.index(';') + 1:]
    t = list(text)
    for _ in range(rnd.randint(1, 4)):
        if not t:
            break
        i = rnd.randrange(len(t))
        r = rnd.random()
        if r < 0.35:
            del t[i]
        elif r < 0.7:
            t.insert(i, rnd.choice('{};:@!*/|"\\ a1,()[]'))
        else:
            j = rnd.randrange(len(t))
            t[i], t[j] = t[j], t[i]
    return head + ''.join(t)


# ------------------------------------------------------------------ reduction of a parsed sheet to the abstract form

class Ids:
    """names and uris → ids, shared by the input sheet and the re-parsed output; uri id 0 is None"""

    def __init__(self):
        self.names = {}
        self.uris = {None: 0}

    def name(self, n):
        return self.names.setdefault(n, len(self.names) + 1)

    def uri(self, u):
        return self.uris.setdefault(u, len(self.uris))


def red_block(style, ids, notes):
    out = []
    objs = [id(item.value) for item in style.seq]
    if len(set(objs)) < len(objs):
        # (merging a repeated margin box whose declaration is named `c\\\\olor` leaves one Property object twice in the
        # block: `@page{@top-left{}@top-left{c\\\\olor:f;COlor:l}}`; same root as 'name-renormalises')
        notes.append('one-object-twice')
    for item in style.seq:
        v = item.value
        cn = v.__class__.__name__
        if cn == 'Property':
            if not (v.wellformed and v.seqs[0]):
                notes.append('property-not-wellformed')
            if P.cp().helper.normalize(v.name) != v.name:
                # FINDING (replayed by replay_findings): getProperty normalises the normalised name once more, so the
                # declaration `c\\\\olor: red` is never "effective" and is omitted with keepAllProperties off
                notes.append('name-renormalises')
            out.append(('d', ids.name(v.name), bool(v.priority), bool(v.valid)))
        elif cn == 'CSSComment':
            out.append(('c',))
        elif cn == 'CSSUnknownRule':
            if not v.wellformed:
                notes.append('nested-atrule-not-wellformed')
            out.append(('a',))
        else:
            notes.append('other-item:' + cn)
            out.append(('a',))
    return out


def red_rules(rules, ids, notes):
    out = []
    for r in rules:
        t = r.type
        if t != r.COMMENT and not getattr(r, 'wellformed', True):
            notes.append('rule-not-wellformed:%d' % t)
        if t == r.COMMENT:
            out.append(('C',))
        elif t == r.CHARSET_RULE:
            out.append(('H',))
        elif t == r.IMPORT_RULE:
            out.append(('I',))
        elif t == r.UNKNOWN_RULE:
            out.append(('U',))
        elif t == r.NAMESPACE_RULE:
            out.append(('N', ids.uri(r.namespaceURI), not r.prefix))
        elif t == r.STYLE_RULE:
            used = r.selectorList._getUsedUris()
            out.append(('S', sorted(ids.uri(u) for u in sorted(used, key=lambda u: (type(u).__name__, str(u)))),
                        red_block(r.style, ids, notes)))
        elif t == r.MEDIA_RULE:
            if not r.media.wellformed:
                notes.append('media-not-wellformed')
            out.append(('M', red_rules(r.cssRules, ids, notes)))
        elif t == r.PAGE_RULE:
            out.append(('P', red_block(r.style, ids, notes), [red_block(m.style, ids, notes) for m in r.cssRules]))
        elif t == r.FONT_FACE_RULE:
            out.append(('F', red_block(r.style, ids, notes)))
        elif t == 1006:
            # a margin rule standing by itself (the parser accepts `@top-left {}` at the top level): do_MarginRule
            # writes it under the condition of do_CSSFontFaceRule - the block has a text -, so it is reduced to that kind
            notes.append('margin-rule-at-top-level')
            out.append(('F', red_block(r.style, ids, notes)))
        else:
            notes.append('other-rule:%d' % t)
            out.append(('U',))
    return out


def prune_hollow(rs):
    """what every preference setting leaves out: @page / margin box / @font-face without any item"""
    out = []
    for r in rs:
        if r[0] == 'F' and not r[1]:
            continue
        if r[0] == 'P':
            ms = [m for m in r[2] if m]
            if not r[1] and not ms:
                continue
            r = ('P', r[1], ms)
        if r[0] == 'M':
            r = ('M', prune_hollow(r[1]))
        out.append(r)
    return out


def strip_comments(rs):
    def blk(b):
        return [it for it in b if it[0] != 'c']
    out = []
    for r in rs:
        if r[0] == 'C':
            continue
        if r[0] == 'S':
            r = ('S', r[1], blk(r[2]))
        elif r[0] == 'F':
            r = ('F', blk(r[1]))
        elif r[0] == 'P':
            r = ('P', blk(r[1]), [blk(m) for m in r[2]])
        elif r[0] == 'M':
            r = ('M', strip_comments(r[1]))
        out.append(r)
    return out


def no_valid(rs):
    def blk(b):
        return [it[:3] + (False,) if it[0] == 'd' else it for it in b]
    out = []
    for r in rs:
        if r[0] == 'S':
            r = ('S', r[1], blk(r[2]))
        elif r[0] == 'F':
            r = ('F', blk(r[1]))
        elif r[0] == 'P':
            r = ('P', blk(r[1]), [blk(m) for m in r[2]])
        elif r[0] == 'M':
            r = ('M', no_valid(r[1]))
        out.append(r)
    return out


def enc_block(b, strip=False):
    out = ['B%d' % len(b)]
    for it in b:
        if it[0] == 'd':
            out.append('xyzw'[2 * it[2] + it[3]] + str(it[1]))
        else:
            out.append(it[0])
    return out


def enc_rules(rs, strip=False):
    out = []
    for r in rs:
        k = r[0]
        if k in 'CHIU':
            out.append(k)
        elif k == 'N':
            out.append(('D' if r[2] else 'N') + str(r[1]))
        elif k == 'S':
            used = [] if strip else r[1]
            out.append('S%d' % len(used))
            out.extend(str(u) for u in used)
            out.extend(enc_block(r[2]))
        elif k == 'M':
            out.append('M%d' % len(r[1]))
            out.extend(enc_rules(r[1], strip))
        elif k == 'P':
            out.append('P%d' % len(r[2]))
            out.extend(enc_block(r[1]))
            for m in r[2]:
                out.extend(enc_block(m))
        elif k == 'F':
            out.append('F')
            out.extend(enc_block(r[1]))
    return out


def enc_sheet(rs, strip=False):
    return '.'.join(['T%d' % len(rs)] + enc_rules(rs, strip))


def strip_used(line):
    """the encoded sheet without the used-uri lists of its style rules"""
    toks = line.split('.')
    out = []
    i = 0
    while i < len(toks):
        t = toks[i]
        if t[:1] == 'S' and t[1:].isdigit():
            out.append('S0')
            i += 1 + int(t[1:])
        else:
            out.append(t)
            i += 1
    return '.'.join(out)


def intended(rules):
    """the abstract sheet the generator meant (uris and names as strings; compared only up to those)"""
    out = []
    for r in rules:
        k = r[0]
        if k == 'comment':
            out.append(('C',))
        elif k == 'charset':
            out.append(('H',))
        elif k == 'import':
            out.append(('I',))
        elif k == 'unknown':
            out.append(('U',))
        elif k == 'namespace':
            out.append(('N', not r[1]))
        elif k == 'style':
            out.append(('S', shape_block(r[2])))
        elif k == 'media':
            out.append(('M', intended(r[2])))
        elif k == 'page':
            out.append(('P', shape_block(r[2]), [shape_block(b) for _, b in r[3]]))
        elif k == 'fontface':
            out.append(('F', shape_block(r[1])))
    return out


def shape_block(items):
    return [(it[0], it[1], it[2], it[3]) if it[0] == 'd' else (it[0],) for it in items]


def shape_of(red, names):
    """the reduced sheet in the generator's terms"""
    inv = {v: k for k, v in names.items()}
    out = []

    def blk(b):
        return [('d', inv[it[1]], it[2], it[3]) if it[0] == 'd' else (it[0],) for it in b]
    for r in red:
        k = r[0]
        if k in 'CHIU':
            out.append((k,))
        elif k == 'N':
            out.append(('N', r[2]))
        elif k == 'S':
            out.append(('S', blk(r[2])))
        elif k == 'M':
            out.append(('M', shape_of(r[1], names)))
        elif k == 'P':
            out.append(('P', blk(r[1]), [blk(m) for m in r[2]]))
        elif k == 'F':
            out.append(('F', blk(r[1])))
    return out


# ------------------------------------------------------------------ one case

_CACHE = {}


def build(case):
    """(source kind, src, notes, ids, abstract input, api?) for a case; cached in the worker"""
    seed, row = case
    if seed in _CACHE:
        return _CACHE[seed]
    if len(_CACHE) > 400:
        _CACHE.clear()
    rnd = random.Random(seed)
    c = P.cp()
    c.ser.prefs.useDefaults()
    kind = ['abs', 'abs', 'abs', 'abs', 'abs', 'abs', 'G', 'mut', 'mut', 'api'][seed % 10]
    notes = []
    want = None
    if kind == 'G':
        ast = G.gen_sheet(rnd)
        src = G.render_sheet(ast, G.Layout(rnd), G.Respell(rnd) if rnd.random() < 0.4 else G.Plain())
    else:
        ast = gen_sheet(rnd)
        src = render_sheet(ast, Lay(rnd))
        want = intended(ast)
        if kind == 'mut':
            src = mutate(rnd, src)
            want = None
    sheet = P.parse(src)
    if kind == 'api':
        # a default namespace declared after the selectors were read: type selectors keep `None` as their uri
        if not any(r.type == r.NAMESPACE_RULE and not r.prefix for r in sheet.cssRules):
            try:
                sheet.add('@namespace "http://late/%d";' % rnd.randint(0, 1))
                notes.append('api:default-namespace-added')
            except Exception as e:
                notes.append('api:add-raised-' + type(e).__name__)
        if rnd.random() < 0.4:
            try:
                sheet.add('@namespace late "http://n/%d";' % rnd.randint(0, 3))
                notes.append('api:prefixed-namespace-added')
            except Exception as e:
                notes.append('api:add-raised-' + type(e).__name__)
    ids = Ids()
    # (`Property.valid` validates the value AS SERIALISED NOW: it is read under the row's preferences, as the serialiser does)
    try:
        apply_prefs(c.ser.prefs, row)
        if kind == 'mut':
            # names the parser accepts but that are no identifiers once normalised (`c\\ lr`) are written raw under
            # defaultPropertyName with keepAllProperties off: a matter of spelling, kept out of this comparison
            c.ser.prefs.defaultPropertyName = False
        red = red_rules(sheet.cssRules, ids, notes)
    finally:
        c.ser.prefs.useDefaults()
    if want is not None and kind != 'api':
        notes.append('as-intended' if shape_of(red, ids.names) == want else 'parsed-differently')
    # base line: with every keep-preference at "keep" (and the row's layout) the text must re-parse to the sheet itself
    # (less @page / @font-face without content); where it does not - escapes of control characters in names, malformed
    # unknown rules, ... : only mutated sources - the difference is no omission and the case is counted, not compared
    try:
        apply_prefs(c.ser.prefs, row)
        if kind == 'mut':
            c.ser.prefs.defaultPropertyName = False
        for k, v in zip(KEEP, (True, True, True, False, True, False)):
            setattr(c.ser.prefs, k, v)
        ids2 = Ids()
        ids2.names, ids2.uris = dict(ids.names), dict(ids.uris)
        base_in = red_rules(sheet.cssRules, ids2, [])           # (valid flags as they are under these preferences)
        base = red_rules(P.parse(sheet.cssText).cssRules, ids2, [])
        a, b = enc_sheet(base, kind == 'api'), enc_sheet(prune_hollow(base_in), kind == 'api')
        if a != b:
            notes.append('baseline-differs')
        elif not row.get('keepComments', not row.get('minified')):
            # the same without comments: taking a comment out of the prelude of an unknown rule can glue `/` and `*`
            # (`@x { a / *b /*c*/ }`), a matter of spacing
            c.ser.prefs.keepComments = False
            base_in = red_rules(sheet.cssRules, ids2, [])
            base = red_rules(P.parse(sheet.cssText).cssRules, ids2, [])
            a = enc_sheet(base, kind == 'api')
            b = enc_sheet(prune_hollow(strip_comments(base_in)), kind == 'api')
            if a != b:
                notes.append('baseline-differs')
    except Exception as e:
        notes.append('baseline-raised-' + type(e).__name__)
    finally:
        c.ser.prefs.useDefaults()
    _CACHE[seed] = (kind, src, notes, ids, red, sheet)
    return _CACHE[seed]


def omit_line(case):
    seed, row = case
    kind, src, notes, ids, red, sheet = build(case)
    c = P.cp()
    p = c.serialize.Preferences()
    apply_prefs(p, row)
    return 'omit %s %s' % (bits_of(p), enc_sheet(red))


def omit_py(case):
    seed, row = case
    kind, src, notes, ids, red, sheet = build(case)
    c = P.cp()
    prefs = c.ser.prefs
    try:
        apply_prefs(prefs, row)
        if kind == 'mut':
            prefs.defaultPropertyName = False
        text = sheet.cssText
        back = P.parse(text)
        n2 = []
        out = red_rules(back.cssRules, ids, n2)
    finally:
        prefs.useDefaults()
    return enc_sheet(out)


def judge(case, impl, model):
    notes = build(case)[2]
    if any(n in SKIP for n in notes):
        return False
    if case[0] % 10 == 9:
        # (sheets changed through the API: a selector is respelled `|a` under the late default namespace and
        # re-parses with another uri; which rules and items are written is compared)
        return strip_used(impl) != strip_used(model)
    return impl != model


SKIP = ('baseline-differs', 'name-renormalises', 'one-object-twice')


def skipped(case, _impl=None):
    """why the case is counted and not compared ('' when it is compared)"""
    notes = build(case)[2]
    return ', '.join(sorted(set(n for n in notes if n in SKIP)))


def cases(tier, seed, n=None):
    rnd = random.Random(seed * 31 + 7)
    n = n or (1300 if tier == 'quick' else 39000)
    return [(seed * 1000003 + i, row_of(i + (i // 130), rnd)) for i in range(n)]


def distribution(cs):
    """what the generator produced (computed in-process on a sample)"""
    dist = {}

    def bump(k, n=1):
        dist[k] = dist.get(k, 0) + n

    def walk(rs, depth):
        for r in rs:
            bump('rule:' + r[0])
            if r[0] == 'M':
                bump('media-depth:%d' % (depth + 1))
                if not r[1]:
                    bump('media:no-children')
                walk(r[1], depth + 1)
            blocks = {'S': lambda: [r[2]], 'P': lambda: [r[1]] + r[2], 'F': lambda: [r[1]]}.get(r[0], lambda: [])()
            for b in blocks:
                kinds = set(it[0] for it in b)
                bump('block:' + ('empty' if not b else 'only-comments' if kinds == {'c'} else 'only-atrules(%d)' % len(b)
                                 if kinds == {'a'} else 'no-declaration' if 'd' not in kinds else 'with-declarations'))
                names = [it[1] for it in b if it[0] == 'd']
                if len(set(names)) < len(names):
                    bump('block:duplicate-names')
                if any(it[0] == 'd' and not it[3] for it in b):
                    bump('block:invalid-declaration')
                if any(it[0] == 'd' and it[2] for it in b):
                    bump('block:priority')
    for case in cs:
        kind, src, notes, ids, red, sheet = build(case)
        bump('source:' + kind)
        for n in set(notes):
            bump('note:' + n)
        used = set()
        declared = set()
        for r in red:
            if r[0] == 'N':
                declared.add(r[1])

        def coll(rs):
            for r in rs:
                if r[0] == 'S':
                    used.update(r[1])
                elif r[0] == 'M':
                    coll(r[1])
        coll(red)
        if declared - used:
            bump('sheet:unused-namespace')
        if declared & used:
            bump('sheet:used-namespace')
        walk(red, 0)
    return dist


def selftest(tier='quick', seed=0, n=None, verbose=False):
    t0 = time.time()
    cs = cases(tier, seed, n)
    res = corr.run('c05omit', cs, omit_line, omit_py, skipped, chunk=100, judge=judge)
    dist = distribution(cs[:min(len(cs), 1300)])
    why = {}
    for _, w in res['oracle_fail']:
        why[w] = why.get(w, 0) + 1
    out = {'cases': res['n'], 'compared': res['n'] - res['n_oracle_fail'], 'mismatches': res['n_mismatch'],
           'not_compared(round trip differs for reasons outside the omission preferences)': why,
           'distribution(first %d)' % min(len(cs), 1300): dist, 'seconds': round(time.time() - t0, 1)}
    shown = []
    for case, line, e, g in res['mismatches'][:6 if not verbose else 40]:
        kind, src, notes, ids, red, sheet = build(case)
        shown.append({'seed': case[0], 'row': case[1], 'src': src, 'line': line, 'impl': e, 'model': g, 'notes': notes})
    out['first_mismatches'] = shown
    return out


# ------------------------------------------------------------------ the findings, replayed on the real code

FINDINGS = [
    # (what, source, preference row, expected text of the real serialiser)
    ('keepEmptyRules=True does not keep an empty @page', '@page {}', {'keepEmptyRules': True}, b''),
    ('keepEmptyRules=True does not keep an empty @font-face', '@font-face {}', {'keepEmptyRules': True}, b''),
    ('keepEmptyRules=True does not keep an empty margin box', '@page { @top-left {} }', {'keepEmptyRules': True}, b''),
    ('two omitted nested at-rules leave a separator: the rule is not "empty"', 'a { @x {} @y {} }',
     {'keepUnknownAtRules': False}, b'a {\n    }'),
    ('... one omitted nested at-rule does', 'a { @x {} }', {'keepUnknownAtRules': False}, b''),
    ('... and so do two when lineSeparator is empty', 'a { @x {} @y {} }', {'keepUnknownAtRules': False, 'lineSeparator': ''}, b''),
    ('a namespace used only by a rule that is not written is kept (not idempotent)', '@namespace p "u"; p|a {}',
     {'minified': True}, b'@namespace p"u";'),
    ('an attribute selector without prefix "uses" the uri that is the first letter of its name',
     '@namespace p "h"; [href] {color:red}', {'minified': True}, b'@namespace p"h";[href]{color:red}'),
    ('an invalid effective declaration shadows the valid one before it', 'a { color: red; color: 1px }',
     {'keepAllProperties': False, 'validOnly': True}, b''),
    ('a name whose normal form still holds a backslash is never effective: its only declaration is omitted',
     'a { c\\\\olor: red; top: 0 }', {'keepAllProperties': False}, b'a {\n    top: 0\n    }'),
    ('validOnly judges the value as it is serialised now: a comment in it makes the declaration invalid ...',
     'a { color: rgb(10% /*x*/, 20%, 30%) }', {'validOnly': True}, b''),
    ('... unless comments are not kept', 'a { color: rgb(10% /*x*/, 20%, 30%) }', {'validOnly': True, 'keepComments': False},
     b'a {\n    color: rgb(10%  , 20%, 30%)\n    }'),
]


def replay_findings():
    c = P.cp()
    out = []
    for what, src, row, want in FINDINGS:
        sheet = P.parse(src)
        try:
            apply_prefs(c.ser.prefs, row)
            got = sheet.cssText
        finally:
            c.ser.prefs.useDefaults()
        out.append((what, src, row, got, got == want))
    return out
