"""C07 — rule order and containment stay valid under any edit history.

Proof: lean/CssVerif/Props/C07.lean (invariant `Valid` preserved by every operation of the sheet
model; rejected calls leave the list unchanged; valid lists re-parse to themselves).
Tie: `sheet` op — same operation histories to a real CSSStyleSheet and to the model; after every
operation result, rule list (with namespace/charset payload), namespaces mapping and validity are
compared.  Search: validity / unchanged-on-reject / re-parse oracles on the real sheet.
"""
import itertools
import random
import time
import xml.dom

from .. import corr, lib

lib.use_repo()
PROP = 'C07'

PFX = {0: '', 1: 'p', 2: 'q'}
URI = {1: 'u1', 2: 'u2'}
ENC = {1: 'utf-8', 2: 'ascii'}
URI_ID = {v: k for k, v in URI.items()}
PFX_ID = {v: k for k, v in PFX.items()}
ENC_ID = {v: k for k, v in ENC.items()}

TEXT = {
    'c1': '@charset "utf-8";', 'c2': '@charset "ascii";', 'i': '@import "x.css";',
    'v': '@variables { c: red }', 's': 'a { top: 0 }', 'm': '@media print { a { top: 0 } }',
    'p': '@page { margin: 0 }', 'f': '@font-face { font-family: x }', 'u': '@foo bar;', 'x': '/*c*/',
}
KIND_BY_TYPE = {0: 'u', 1: 's', 2: 'c', 3: 'i', 4: 'm', 5: 'f', 6: 'p', 10: 'n', 1001: 'x', 1008: 'v', 1006: 'g'}
FIXED = '1'          # the model variant that matches /repo (see MODEL_FIXED below)


_RAISING = True


def _setup():
    import css_parser
    import logging
    css_parser.log.setLevel(logging.FATAL)
    css_parser.log.raiseExceptions = _RAISING
    return css_parser


def new_sheet():
    cp = _setup()
    sh = cp.css.CSSStyleSheet()
    sh._setFetcher(lambda url: None)
    return sh


def rule_text(code):
    """code: 'c1','i','n:p:u','s','sp' (style using prefix p) ..."""
    if code.startswith('n:'):
        _, p, u = code.split(':')
        return '@namespace %s"%s";' % ((PFX[int(p)] + ' ') if int(p) else '', URI[int(u)])
    if code.startswith('s:'):
        return '%s|a { top: 0 }' % PFX[int(code[2:])]
    return TEXT[code]


def make_obj(code, sheet):
    cp = _setup()
    if code.startswith('n:'):
        _, p, u = code.split(':')
        return cp.css.CSSNamespaceRule(prefix=PFX[int(p)], namespaceURI=URI[int(u)])
    if code.startswith('s:'):
        p = PFX[int(code[2:])]
        return cp.css.CSSStyleRule(selectorText=('%s|a' % p, dict(sheet.namespaces.namespaces)),
                                   style='top: 0')
    tmp = cp.css.CSSStyleSheet()
    tmp._setFetcher(lambda url: None)
    tmp.cssText = TEXT[code]
    r = tmp.cssRules[0]
    return r


def model_rule(code, sheet, as_text=True):
    if code.startswith('n:'):
        _, p, u = code.split(':')
        return 'n:%s:%s:' % (p, u)
    if code.startswith('s:'):
        p = PFX[int(code[2:])]
        if not p:
            return 's:0:0:'          # `|a`: explicitly no namespace
        uri = dict(sheet.namespaces.namespaces).get(p)
        return 's:0:0:%d' % URI_ID[uri]
    if code[0] == 'c':
        return 'c:%s:0:' % code[1]
    if code in ('s', 'm') and as_text:
        # an unprefixed type selector parsed inside this sheet is bound to the default namespace
        d = dict(sheet.namespaces.namespaces).get('')
        if d is not None:
            return '%s:0:0:%d' % (code, URI_ID[d])
    return '%s:0:0:' % code


def show_rule(r):
    k = KIND_BY_TYPE[r.type]
    if k == 'n':
        return 'n:%d:%d' % (PFX_ID[r.prefix], URI_ID[r.namespaceURI])
    if k == 'c':
        return 'c:%d' % ENC_ID[r.encoding]
    return k


LEVEL = {'i': 1, 'n': 2, 's': 3, 'm': 3, 'p': 3, 'f': 3}


def py_valid(kinds):
    if 'c' in kinds[1:]:
        return False
    lv = [LEVEL[k] for k in kinds if k in LEVEL]
    return all(a <= b for a, b in zip(lv, lv[1:]))


def observe(sheet, res):
    rules = [show_rule(r) for r in sheet.cssRules]
    ns = dict(sheet.namespaces.namespaces)
    view = ','.join('%d=%d' % (PFX_ID[p], URI_ID[u]) for p, u in sorted(ns.items(), key=lambda kv: PFX_ID[kv[0]]))
    return '%s;%s;%s;%s' % (res, ' '.join(rules), view, 'V' if py_valid([r[0] for r in rules]) else 'INVALID')


def apply_op(sheet, op):
    """returns (result string, model op string or None if the op is skipped)"""
    kind = op[0]
    try:
        if kind == 'ins':
            _, code, idx, inorder, as_text = op
            if code.startswith('s:'):
                p = PFX[int(code[2:])]
                if p and p not in sheet.namespaces.namespaces:
                    return None, None
                as_text = True if not inorder else as_text
            if code.startswith('n:'):
                as_text = False      # text insertion of @namespace is parsed against a copy of the
                                      # declared namespaces and refuses re-declared prefixes (not modelled)
            mr = model_rule(code, sheet, as_text)
            rule = rule_text(code) if as_text else make_obj(code, sheet)
            mop = 'i.%s.%s.%d' % (mr, 'n' if idx is None else (99 if idx < 0 else idx), 1 if inorder else 0)
            if inorder and idx is None:
                r = sheet.add(rule)
            elif inorder:
                r = sheet.insertRule(rule, idx, inOrder=True)      # (the index is documented to be ignored)
            elif idx is None:
                r = sheet.insertRule(rule)
            else:
                r = sheet.insertRule(rule, idx)
            return ('none' if r is None else 'ok%d' % r), mop
        if kind == 'del':
            mop = 'd.%d' % op[1]
            sheet.deleteRule(op[1])
            return 'none', mop
        if kind == 'delobj':
            # deleteRule(<rule object>): the rule at that index, or a rule that is not in the sheet
            i = op[1]
            if 0 <= i < len(sheet.cssRules):
                target, mop = sheet.cssRules[i], 'd.%d' % i
            else:
                target, mop = _setup().css.CSSStyleRule(selectorText='zz'), 'd.99'
            sheet.deleteRule(target)
            return 'none', mop
        if kind == 'enc':
            mop = 'e.%s' % ('n' if op[1] is None else op[1])
            sheet.encoding = None if op[1] is None else ENC[op[1]]
            return 'none', mop
        if kind == 'nsset':
            mop = 'ns.%d.%d' % (op[1], op[2])
            sheet.namespaces[PFX[op[1]]] = URI[op[2]]
            return 'none', mop
        if kind == 'nsdel':
            mop = 'nd.%d' % op[1]
            del sheet.namespaces[PFX[op[1]]]
            return 'none', mop
        if kind == 'assign':
            codes = op[1]
            # selectors in the new text are bound by the namespaces declared *in that text*: keep the two
            # apart so that the payload handed to the model is known without parsing
            has_ns = any(c.startswith('n:') for c in codes)
            codes = tuple(('f' if has_ns else 's') if (c in ('s', 'm') and has_ns) or c.startswith('s:') else c
                          for c in codes)
            mop = 'a.' + '+'.join(model_rule(c, sheet, as_text=False) for c in codes)
            sheet.cssText = ' '.join(rule_text(c) for c in codes)
            return 'none', mop
    except xml.dom.DOMException as e:
        return type(e).__name__, mop
    except Exception as e:      # anything else means the sheet object is corrupted
        return 'EXC:' + type(e).__name__, mop
    raise AssertionError(op)


def run_history(hist):
    sheet = new_sheet()
    outs, mops = [], []
    for op in hist:
        res, mop = apply_op(sheet, op)
        if mop is None:
            continue
        outs.append(observe(sheet, res))
        mops.append(mop)
    return outs, mops


def line_of(hist):
    _, mops = run_history(hist)
    if not mops:
        return 'sheet %s a.' % FIXED
    return 'sheet %s %s' % (FIXED, ','.join(mops))


def py_of(hist):
    outs, mops = run_history(hist)
    if not mops:
        return 'none;;;V'
    return ' | '.join(outs)


def snapshot(sheet):
    return [r.cssText for r in sheet.cssRules]


def oracle(hist, _e=None):
    cp = _setup()
    sheet = new_sheet()
    for n, op in enumerate(hist):
        before = snapshot(sheet)
        res, mop = apply_op(sheet, op)
        if mop is None:
            continue
        if res.startswith('EXC:'):
            return 'op %d %r raised %s (not a DOM exception): the sheet object is inconsistent' % (n, op, res[4:])
        kinds = [KIND_BY_TYPE[r.type] for r in sheet.cssRules]
        if not py_valid(kinds):
            return 'after op %d %r the rule list is %s — not valid CSS order' % (n, op, ' '.join(kinds))
        if res.endswith('Err') and snapshot(sheet) != before:
            return 'op %d %r was rejected (%s) but changed the rule list' % (n, op, res)
        # the serialised sheet re-parses to the same sequence of rules
        try:
            cp.log.raiseExceptions = False
            p = cp.CSSParser(fetcher=lambda url: None, raiseExceptions=False)
            back = p.parseString(sheet.cssText)
            k2 = [show_rule(r) for r in back.cssRules]
        finally:
            cp.log.raiseExceptions = True
        k1 = [show_rule(r) for r in sheet.cssRules]
        if k1 != k2:
            return 'after op %d %r: cssText re-parses to %s, sheet holds %s' % (n, op, ' '.join(k2), ' '.join(k1))
    return ''


# @variables is a legacy rule outside the property's statement (and not re-parsed by default): left out
# ---- containers: @media / @page child kinds

CONT_TEXT = dict(TEXT)
CONT_TEXT.update({'n': '@namespace p "u1";', 'g': '@top-left { content: "x" }'})


def cont_obj(code):
    cp = _setup()
    if code == 'n':
        return cp.css.CSSNamespaceRule(prefix='p', namespaceURI='u1')
    if code == 'g':
        return cp.css.MarginRule(margin='@top-left', style='content: "x"')
    tmp = cp.css.CSSStyleSheet()
    tmp._setFetcher(lambda url: None)
    tmp.cssText = CONT_TEXT[{'c': 'c1'}.get(code, code)]
    return tmp.cssRules[0]


def cont_run(case, raising=True):
    global _RAISING
    which, hist = case
    _RAISING = raising
    try:
        return _cont_run(_setup(), which, hist)
    finally:
        _RAISING = True
        _setup()


def _cont_run(cp, which, hist):
    rule = cp.css.CSSMediaRule(mediaText='print') if which == 'm' else cp.css.CSSPageRule()
    outs = []
    for op in hist:
        try:
            if op[0] == 'i':
                _, code, idx = op
                r = rule.insertRule(cont_obj(code)) if idx is None else rule.insertRule(cont_obj(code), idx)
                res = 'none' if r is None else 'ok%d' % r
            else:
                rule.deleteRule(op[1])
                res = 'none'
        except xml.dom.DOMException as e:
            res = type(e).__name__
        except Exception as e:
            res = 'EXC:' + type(e).__name__
        outs.append('%s;%s' % (res, ' '.join(KIND_BY_TYPE[r.type] for r in rule.cssRules)))
    return outs


def cont_line(case):
    which, hist = case
    return 'cont %s %s' % (which, ','.join(
        ('i.%s.%s' % (o[1], 'n' if o[2] is None else (99 if o[2] < 0 else o[2]))) if o[0] == 'i' else 'd.%d' % o[1]
        for o in hist))


def cont_py(case):
    return ' | '.join(cont_run(case))


MEDIA_FORBIDS = set('cfing')
PAGE_FORBIDS = set('cfinpm')


def cont_oracle(case, _e=None):
    which, _ = case
    forbid = MEDIA_FORBIDS if which == 'm' else PAGE_FORBIDS
    prev = ''
    for n, out in enumerate(cont_run(case)):
        res, kinds = out.split(';')
        if res.startswith('EXC:'):
            return 'container op %d raised %s (not a DOM exception)' % (n, res[4:])
        if set(kinds.split()) & forbid:
            return 'after op %d the @%s rule holds a forbidden child kind: %s' % (n, 'media' if which == 'm' else 'page', kinds)
        if res.endswith('Err') and kinds != prev:
            return 'container op %d was rejected (%s) but changed the child list' % (n, res)
        prev = kinds
    # with a log that does not raise a refused call is reported through the log only: the child list must be the same
    quiet = cont_run(case, raising=False)
    for n, (a, b) in enumerate(zip(cont_run(case), quiet)):
        if a.split(';')[1] != b.split(';')[1]:
            return 'container op %d leaves the children %r with a raising log and %r with a logging one' % (
                n, a.split(';')[1], b.split(';')[1])
    return ''


def cont_cases(tier, seed):
    rnd = random.Random(seed + 7)
    codes = ['c', 'i', 'n', 's', 'm', 'p', 'f', 'u', 'x', 'g']
    ops = [('i', c, idx) for c in codes for idx in (None, 0, 1, 2, -1)] + [('d', i) for i in (-2, -1, 0, 1, 2)]
    cases = []
    for which in 'mp':
        for h in itertools.product(ops, repeat=2):
            cases.append((which, h))
        for _ in range(150 if tier == 'quick' else 3000):
            cases.append((which, tuple(rnd.choice(ops) for _ in range(rnd.randint(3, 12)))))
    return cases


def bad_encoding_failures():
    """sheet.encoding = <a value that is refused> (unknown codec, a codec that is no text encoding, junk), with a log that
    raises and with one that does not: a refused assignment leaves the rule list and the text as they were"""
    global _RAISING
    out = []
    texts = ['@charset "ascii"; @import "x.css"; a { top: 0 }', '@charset "latin-1"; /*c*/ @namespace p "u"; p|a { top: 0 }',
             '@import "x.css"; a { top: 0 }', 'a { top: 0 }', '']
    for raising in (True, False):
        _RAISING = raising
        try:
            cp = _setup()
            for text in texts:
                for bad in ('no-such-codec', 'rot13', 'INVALID ENCODING', 'hex', '"', 'utf-8; x'):
                    sheet = cp.css.CSSStyleSheet()
                    sheet._setFetcher(lambda url: None)
                    sheet.cssText = text
                    before = ([r.type for r in sheet.cssRules], sheet.cssText, sheet.encoding)
                    try:
                        sheet.encoding = bad
                        res = 'returned'
                    except xml.dom.DOMException as e:
                        res = type(e).__name__
                    except Exception as e:
                        out.append('sheet %r: encoding = %r raised %s (no DOM exception)' % (text, bad, type(e).__name__))
                        continue
                    after = ([r.type for r in sheet.cssRules], sheet.cssText, sheet.encoding)
                    taken = res == 'returned' and sheet.encoding == bad
                    if not taken and after != before:
                        out.append('sheet %r (log raises: %s): encoding = %r was refused (%s) but the sheet changed: %r -> %r' % (
                            text, raising, bad, res, before, after))
        finally:
            _RAISING = True
            _setup()
    return out


def list_oracle(case, _e=None):
    """insertRule(<CSSRuleList>, index) on sheets and on @media rules: all of the rules or none (a refused list leaves the
    container unchanged, object by object), and an accepted one leaves valid CSS"""
    cp = _setup()
    _, base, codes, idx, container = case
    sheet = new_sheet()
    for code in base:
        try:
            sheet.add(make_obj(code, sheet))
        except xml.dom.DOMException:
            pass
    target = sheet
    if container:
        target = cp.css.CSSMediaRule(mediaText='print')
        target.insertRule('q { top: 0 }')
        sheet.add(target)
    src = new_sheet()
    lst = cp.css.CSSRuleList()
    for code in codes:
        if not code.startswith('s:') and not code.startswith('n:'):
            list.append(lst, make_obj(code, src))      # (CSSRuleList.append is bound to a sheet; a plain list of rule objects)
    before = list(target.cssRules)
    top_before = list(sheet.cssRules)
    try:
        target.insertRule(lst, min(idx, len(before)))
        refused = None
    except xml.dom.DOMException as e:
        refused = type(e).__name__
    after = list(target.cssRules)
    if refused:
        if len(after) != len(before) or any(a is not b for a, b in zip(after, before)):
            return 'insertRule(<list of %s>, %d) was refused (%s) but changed the rules: %s -> %s' % (
                ' '.join(codes), idx, refused, ' '.join(KIND_BY_TYPE[r.type] for r in before), ' '.join(KIND_BY_TYPE[r.type] for r in after))
        bad = [r for r in lst if r.parentStyleSheet is sheet or r.parentRule is target]
        if bad:
            return 'insertRule(<list of %s>, %d) was refused (%s) but %d of its rules name the container as parent' % (
                ' '.join(codes), idx, refused, len(bad))
    kinds = [KIND_BY_TYPE[r.type] for r in sheet.cssRules]
    if not py_valid(kinds):
        return 'after insertRule(<list of %s>, %d) the rule list is %s - not valid CSS order' % (' '.join(codes), idx, ' '.join(kinds))
    if container and set(KIND_BY_TYPE[r.type] for r in target.cssRules) & MEDIA_FORBIDS:
        return 'after insertRule(<list of %s>, %d) the @media rule holds a forbidden kind' % (' '.join(codes), idx)
    if len(list(sheet.cssRules)) != len(top_before) and container:
        return 'insertRule into the @media rule changed the sheet\'s own rule list'
    return ''


def list_cases(tier, seed):
    rnd = random.Random(seed + 77)
    codes = ['c1', 'i', 'p', 's', 'm', 'f', 'u', 'x']
    out = []
    for _ in range(400 if tier == 'quick' else 8000):
        out.append(('list', tuple(rnd.choice(codes) for _ in range(rnd.randint(0, 4))),
                    tuple(rnd.choice(codes) for _ in range(rnd.randint(1, 4))), rnd.randint(0, 4), rnd.random() < 0.4))
    return out


RULES = ['c1', 'i', 'n:1:1', 'n:0:2', 'p', 's', 'm', 'f', 'u', 'x']


def all_ops(maxlen):
    ops = []
    for code in RULES:
        for idx in list(range(0, maxlen + 1)) + [None]:
            ops.append(('ins', code, idx, False, True))
            if idx == 0:
                ops.append(('ins', code, idx, True, False))       # in-order with an explicit index
        ops.append(('ins', code, None, True, False))
    for i in range(-maxlen, maxlen):
        ops.append(('del', i))
    for i in range(0, maxlen + 1):
        ops.append(('delobj', i))
    ops += [('enc', 1), ('enc', 2), ('enc', None)]
    ops += [('nsset', 1, 1), ('nsset', 1, 2), ('nsset', 0, 1), ('nsdel', 1), ('nsdel', 0)]
    ops += [('assign', ('x', 'i', 's')), ('assign', ('s', 'i')), ('assign', ())]
    return ops


def gen_cases(tier, seed):
    rnd = random.Random(seed)
    cases = []
    ops2 = all_ops(2)
    ops3 = all_ops(3)
    # breadth-first: all histories of depth 2; depth 3 with a reduced first layer; depth 4 sampled
    adds = [o for o in ops3 if o[0] == 'ins' and (o[3] or o[2] is None)] + [('enc', 1)]
    for h in itertools.product(ops2, repeat=2):
        cases.append(h)
    for h in itertools.product(adds, adds, ops3):
        cases.append(h)
    n_exh = len(cases)
    if tier != 'quick':
        # depth 4: the first three layers without the in-order-with-index variants (they are covered at depth 2 and 3)
        adds4 = [o for o in adds if not (o[0] == 'ins' and o[3] and o[2] is not None)]
        total = len(adds4) ** 3 * len(ops3)
        if total <= 150000:
            for h in itertools.product(adds4, adds4, adds4, ops3):
                cases.append(h)
        else:
            # (the full product has millions of histories: a seeded sample of it, the first three layers exhaustive at depth 3)
            for _ in range(150000):
                cases.append((rnd.choice(adds4), rnd.choice(adds4), rnd.choice(adds4), rnd.choice(ops3)))
        n_exh = len(cases)
    big_rules = RULES + ['c2', 'n:2:1', 'n:2:2', 'n:1:2', 'n:0:1', 's:1', 's:2', 's:0']
    n_rand = 600 if tier == 'quick' else 8000
    for _ in range(n_rand):
        h = []
        for _ in range(rnd.randint(4, 25 if tier == 'quick' else 120)):
            r = rnd.random()
            if r < 0.55:
                code = rnd.choice(big_rules)
                inorder = rnd.random() < 0.4
                idx = None if ((inorder and rnd.random() < 0.5) or rnd.random() < 0.2) else rnd.randint(-1, 7)
                h.append(('ins', code, idx, inorder, rnd.random() < 0.5))
            elif r < 0.66:
                h.append(('del', rnd.randint(-7, 7)))
            elif r < 0.7:
                h.append(('delobj', rnd.randint(0, 7)))
            elif r < 0.78:
                h.append(('enc', rnd.choice([1, 2, None])))
            elif r < 0.9:
                h.append(('nsset', rnd.randint(0, 2), rnd.randint(1, 2)))
            elif r < 0.96:
                h.append(('nsdel', rnd.randint(0, 2)))
            else:
                h.append(('assign', tuple(rnd.choice(big_rules[:14]) for _ in range(rnd.randint(0, 5)))))
        cases.append(tuple(h))
    return cases, {'exhaustive_histories': n_exh, 'random_histories': n_rand, 'ops_alphabet': len(ops3)}


def run(tier, seed):
    t0 = time.time()
    build = lib.build_and_audit(PROP)
    findings = lib.Findings(PROP)
    cases, dist = gen_cases(tier, seed)
    res = corr.run('c07', cases, line_of, py_of, oracle, chunk=800)
    broken = []
    for case, why in res['oracle_fail'][:6]:
        small = lib.shrink_seq(case, lambda h: bool(oracle(h)))
        findings.add('history', repr(small), oracle(small) or why)
    if res['n_mismatch']:
        c, line, e, g = res['mismatches'][0]
        broken.append('correspondence op `sheet` diverges on %d histories; first %r\n impl=%s\n model=%s' % (
            res['n_mismatch'], c, e[-400:], g[-400:]))
    ccases = cont_cases(tier, seed)
    cres = corr.run('c07cont', ccases, cont_line, cont_py, cont_oracle, chunk=600)
    for case, why in cres['oracle_fail'][:6]:
        findings.add('container', repr(case), why)
    if cres['n_mismatch']:
        c, line, e, g = cres['mismatches'][0]
        broken.append('correspondence op `cont` diverges on %d histories; first %r impl=%s model=%s' % (
            cres['n_mismatch'], c, e[-300:], g[-300:]))
    lcases = list_cases(tier, seed)
    for why in bad_encoding_failures()[:4]:
        findings.add('encoding', why[:80], why)
    lres = corr.run('c07list', lcases, lambda c: 'numval -', lambda c: '~', list_oracle, chunk=100)
    for case, why in lres['oracle_fail'][:6]:
        findings.add('rule-list', repr(case), why)
    # how much of the code the model transcribes do the correspondence inputs execute (a measurement, not a verdict)
    _sample = cases[::max(1, len(cases) // 2500)]
    coverage_lines = lib.modelled_code_coverage([('css_parser.css.cssstylesheet', 'CSSStyleSheet.insertRule'), ('css_parser.css.cssstylesheet', 'CSSStyleSheet.deleteRule'), ('css_parser.css.cssstylesheet', 'CSSStyleSheet._cleanNamespaces'), ('css_parser.css.cssstylesheet', 'CSSStyleSheet._setEncoding'), ('css_parser.util', '_Namespaces.__setitem__'), ('css_parser.util', '_Namespaces.__delitem__')], [lambda c=c: py_of(c) for c in _sample] + [lambda c=c: list_oracle(c) for c in lcases[:200]], limit=2705)
    coverage = {
        'modelled_code_line_coverage': coverage_lines,
        'container_histories': cres['n'],
        'rule_list_insertions': lres['n'],
        'evaluations': sum(len(h) for h in cases) + sum(len(c[1]) for c in ccases),
        'distinct_nontrivial': len(set(cases)),
        'rule': 'cases = operation histories from the empty sheet over 10 representative rules (text and object '
                'forms) x insertRule at every index / add / deleteRule at every index (negative too) / encoding / '
                'namespaces[p]=u / del namespaces[p] / cssText=; breadth-first to the stated depth, then seeded '
                'random long histories over 19 rules incl. namespaced selectors; after EVERY op result, rule list, '
                'namespaces view and validity are compared with the model and the validity / unchanged-on-reject / '
                're-parse oracles run on the real sheet; evaluations = operations, distinct = distinct histories',
        'traces_validated_against_impl': res['n'],
        'exhaustive': True,
        'distribution': dist,
        'samples': [repr(cases[i]) for i in (1, len(cases) // 2, len(cases) - 1)],
        'correspondence_mismatches': res['n_mismatch'] + cres['n_mismatch'],
        'oracle_failures': res['n_oracle_fail'] + cres['n_oracle_fail'],
    }
    assumptions = ['rule texts are abstracted to (kind, prefix, URI, encoding, used URIs)',
                   'text insertion of @namespace rules is exercised through objects (text form is parsed against '
                   'a copy of the declared namespaces and refuses re-declared prefixes)']
    return lib.finish(PROP, tier, seed, t0, build, findings, coverage, assumptions, broken)
