"""C04 — malformed statements and declarations are skipped as a unit.

Proof: lean/CssVerif/Props/C04.lean (the boundary finder `_tokensupto2` stops exactly at the end of a
balanced statement; the statement splitter of the sheet and of @media bodies is a homomorphism over
concatenation of statements).  Tie: `upto` / `split` ops on token streams produced by the real tokenizer.
Search: (good, junk, good) triples on the real parser — top level, inside @media, inside declaration
blocks — junk drawn from balanced token soup with every token kind first.
"""
import random
import time

from .. import corr, lib, junkgen

lib.use_repo()
PROP = 'C04'


def _cp():
    import css_parser
    import logging
    css_parser.log.setLevel(logging.FATAL)
    css_parser.log.raiseExceptions = False
    return css_parser


def parse(text):
    cp = _cp()
    return cp.CSSParser(fetcher=lambda url: (None, ''), raiseExceptions=False).parseString(text)


def show_rule(r):
    t = r.cssText
    kids = ''
    if r.type == r.MEDIA_RULE:
        kids = '[' + ' || '.join(show_rule(c) for c in r.cssRules) + ']'
        return '%d:%s%s' % (r.type, r.media.mediaText, kids)
    return '%d:%s' % (r.type, ' '.join((t or '').split()))


def sheet_model(text):
    return [show_rule(r) for r in parse(text).cssRules]


def style_model(text):
    cp = _cp()
    st = cp.css.CSSStyleDeclaration()
    st.cssText = text
    out = []
    for item in st.seq:
        v = item.value
        if hasattr(v, 'name'):
            out.append('%s: %s%s' % (v.name, v.value, ' !' + v.priority if v.priority else ''))
        else:
            out.append('other:' + ' '.join(str(getattr(v, 'cssText', v)).split()))
    return out


GHOST = {'@page': 6, '@media': 4, '@font-face': 5}


def classify_sheet(ctx, g1, junk, g2, kind):
    """'' if the junk is skipped as a unit, 'KNOWN:<sig>' for a recorded finding, else a description"""
    wrap = (lambda s: '@media print { %s }' % s) if ctx == 'media' else (lambda s: s)
    table = junkgen.MEDIA_GOOD if ctx == 'media' else junkgen.GOOD_RULES
    t1 = ' '.join(table[n] for n in g1)
    t2 = ' '.join(table[n] for n in g2)
    base = sheet_model(wrap(t1 + ' ' + t2))
    got = sheet_model(wrap(t1 + ' ' + junk + ' ' + t2))
    if got == base:
        return ''
    # recorded: a rejected @page / @media / @font-face statement leaves an empty rule of its type behind
    if kind in GHOST:
        def strip(rules):
            out = []
            for r in rules:
                if is_ghost(r, kind):
                    continue
                if r.startswith('4:') and '[' in r:
                    head, kids = r.split('[', 1)
                    kids = [k for k in kids[:-1].split(' || ') if k and not is_ghost(k, kind)]
                    out.append(head + '[' + ' || '.join(kids) + ']')
                elif not is_ghost(r, kind):
                    out.append(r)
            return out
        if len(got_flat(got)) == len(got_flat(strip(got))) + 1:
            rest = strip(got)
            if rest == base:
                return 'KNOWN:ghost %s' % kind
            # the ghost also counts as a rule of its kind for the order of @charset/@import/@namespace
            it = iter(base)
            if ctx == 'top' and all(any(r == b for b in it) for r in rest) and all(
                    b.split(':')[0] in ('2', '3', '10') for b in base if b not in rest):
                return 'KNOWN:ghost %s' % kind
    return 'in %s context: %r parses to %r, without the junk statement %r' % (
        ctx, wrap(t1 + ' ' + junk + ' ' + t2), got, base)


def is_ghost(r, kind):
    t = GHOST[kind]
    if t == 4:
        return r in ('4:all[]', '4:[]')
    return r == '%d:' % t


def got_flat(rules):
    out = []
    for r in rules:
        out.append(r)
        if r.startswith('4:') and '[' in r:
            kids = r.split('[', 1)[1][:-1]
            out.extend(k for k in kids.split(' || ') if k)
    return out


def classify_decl(d1, junk, d2, how):
    if how == 'style':
        base = style_model('; '.join(d1 + d2))
        got = style_model('; '.join(d1 + [junk] + d2))
    else:
        base = sheet_model('a { %s }' % '; '.join(d1 + d2))
        got = sheet_model('a { %s }' % '; '.join(d1 + [junk] + d2))
    if got == base:
        return ''
    return 'declaration block %r gives %r, without the junk declaration %r' % ('; '.join(d1 + [junk] + d2), got, base)


def unknown_kept(text):
    """an unknown, well-nested at-rule is kept with its tokens intact"""
    cp = _cp()
    rules = parse('a { top: 0 } ' + text + ' b { left: 0 }').cssRules
    if len(rules) != 3 or rules[1].type != rules[1].UNKNOWN_RULE:
        return 'unknown at-rule %r: the sheet holds %r' % (text, [show_rule(r) for r in rules])

    # the model: the rule's own sequence of token values (strings and URLs are stored by value)
    src = []
    for k in cp.tokenize2.Tokenizer().tokenize(text):
        if k[0] in ('S', 'EOF'):
            continue
        if k[0] == 'STRING':
            src.append(k[1][1:-1])
        elif k[0] == 'URI':
            v = k[1][4:-1].strip()
            src.append(v[1:-1] if v[:1] in '"\'' else v)
        else:
            src.append(k[1])
    src[0] = src[0].lower()
    got = [rules[1].atkeyword] + [getattr(i.value, 'cssText', i.value) for i in rules[1].seq if i.type != 'S']
    if got != src:
        return 'unknown at-rule %r is kept with the token values %r, the source has %r' % (text, got, src)
    return ''


def oracle(case, _e=None):
    kind = case[0]
    if kind == 'sheet':
        return classify_sheet(*case[1:])
    if kind == 'decl':
        return classify_decl(*case[1:])
    if kind == 'unknown':
        return unknown_kept(case[1])
    raise AssertionError(case)


# ------------------------------------------------------------------ correspondence with the model

MODES = ['default', 'blockstartonly', 'blockendonly', 'mediaendonly', 'importmediaqueryendonly', 'mediaqueryendonly',
         'semicolon', 'propertynameendonly', 'propertyvalueendonly', 'propertypriorityendonly', 'selectorattendonly',
         'funcendonly', 'listseponly']
SYMS = ('CHARSET_SYM', 'FONT_FACE_SYM', 'IMPORT_SYM', 'NAMESPACE_SYM', 'PAGE_SYM', 'MEDIA_SYM', 'VARIABLES_SYM', 'ATKEYWORD')
MODEL_FIXED = '1'


def tk_class(tok):
    typ, val = tok[0], tok[1]
    if typ == 'EOF':
        return 'E'
    if typ == 'IDENT':         # also one whose value is a delimiter ('\\7b '): a name
        return 'i'
    if val in ('{', '}', '[', ']', '(', ')', ';', ':', '!', ','):
        return val
    if typ == 'FUNCTION':
        return 'F'
    if typ == 'STRING':
        return 'S'
    if typ == 'S':
        return 'w'
    if typ in ('CDO', 'CDC'):
        return 'c'
    if typ == 'COMMENT':
        return 'm'
    if typ in SYMS:
        return '@'
    if typ == 'IDENT':
        return 'i'
    return 'o'


def tokens_of(text, fullsheet=False):
    cp = _cp()
    return list(cp.tokenize2.Tokenizer().tokenize(text, fullsheet=fullsheet))


def enc_toks(toks):
    return ''.join(tk_class(t) for t in toks) or '-'


def upto_py(case):
    cp = _cp()
    _, text, mode, with_start = case
    toks = tokens_of(text, fullsheet=True)
    if with_start and not toks:
        return 'skip'
    b = cp.util.Base()
    kw = {} if mode == 'default' else {mode: True}
    if with_start:
        r = b._tokensupto2(iter(toks[1:]), starttoken=toks[0], **kw)
    else:
        r = b._tokensupto2(iter(toks), **kw)
    return str(len(r))


def upto_line(case):
    _, text, mode, with_start = case
    toks = tokens_of(text, fullsheet=True)
    if with_start and not toks:
        return 'numval -'
    if with_start:
        return 'upto %s %s %s %s' % (MODEL_FIXED, mode, enc_toks(toks[:1]), enc_toks(toks[1:]))
    return 'upto %s %s - %s' % (MODEL_FIXED, mode, enc_toks(toks))


_SPANS = None


def _install_recorder():
    """record the spans the running parser hands to its productions (no change to /repo: the wrapper lives in
    this process only)"""
    cp = _cp()
    if getattr(cp.util.Base, '_verif_wrapped', False):
        return
    orig = cp.util.Base._tokensupto2

    def rec(self, tokenizer, starttoken=None, **kw):
        r = orig(self, tokenizer, starttoken, **kw)
        if _SPANS is not None:
            _SPANS.append((type(self).__name__, starttoken, dict(kw), list(r)))
        return r
    rec.__wrapped__ = orig
    cp.util.Base._tokensupto2 = rec
    cp.util.Base._verif_wrapped = True


def split_py(case):
    """lengths of the statements the sheet's productions received (comments are their own statement)"""
    global _SPANS
    _install_recorder()
    text = case[1]
    toks = tokens_of(text, fullsheet=True)
    _SPANS = []
    try:
        parse(text)
        spans = [s for s in _SPANS if s[0] == 'CSSStyleSheet' and not s[2]]
    finally:
        _SPANS = None
    # merge with the single-token comment statements, in source order (by position of the first token)
    items = [(s[1][2], s[1][3], len(s[3])) for s in spans]
    for t in toks:
        if t[0] == 'COMMENT':
            # a comment that is the start of no span and inside none
            items.append((t[2], t[3], 'c'))
    items.sort(key=lambda x: (x[0], x[1]))
    out = []
    covered_until = None
    pos = {(t[2], t[3]): i for i, t in enumerate(toks)}
    for line, col, n in items:
        i = pos.get((line, col))
        if i is None:
            continue
        if covered_until is not None and i < covered_until:
            continue
        if n == 'c':
            out.append('1')
            covered_until = i + 1
        else:
            out.append(str(n))
            covered_until = i + n
    return ','.join(out)


def split_line(case):
    toks = tokens_of(case[1], fullsheet=True)
    return 'split %s %s' % (MODEL_FIXED, enc_toks(toks))


def dsplit_py(case):
    global _SPANS
    _install_recorder()
    cp = _cp()
    text = case[1]
    toks = tokens_of(text)
    _SPANS = []
    try:
        st = cp.css.CSSStyleDeclaration()
        st.cssText = text
        spans = [s for s in _SPANS if s[0] == 'CSSStyleDeclaration']
    finally:
        _SPANS = None
    items = []
    for name, start, kw, r in spans:
        if start is None:
            continue
        k = 'P' if start[0] == 'IDENT' else ('A' if start[0] in SYMS else 'I')
        items.append((start[2], start[3], k, len(r)))
    covered = []
    for a, b, k, n in items:
        covered.append((a, b, n))
    pos = {(t[2], t[3]): i for i, t in enumerate(toks)}
    inside = set()
    for a, b, n in covered:
        i = pos.get((a, b))
        if i is not None:
            inside.update(range(i, i + n))
    for i, t in enumerate(toks):
        if t[0] == 'COMMENT' and i not in inside:
            items.append((t[2], t[3], 'C', 1))
    items.sort(key=lambda x: (x[0], x[1]))
    return ','.join('%s%d' % (k, n) for _, _, k, n in items)


def dsplit_line(case):
    return 'dsplit %s %s' % (MODEL_FIXED, enc_toks(tokens_of(case[1])))


STMT_TEXT = {
    'c': '@charset "utf-8";', 'i': '@import "x.css";', 'n1': '@namespace p "u1";', 'n2': '@namespace p "u2";',
    'n3': '@namespace q "u1";', 's': 'a { top: 0 }', 'u': '@foo bar;', 'x': '/*c*/', 'f': '@font-face { font-family: x }',
    'Jc': '@charset $;', 'Ji': '@import $;', 'Jn': '@namespace $ $;', 'Js': '$ { top: 0 }',
}
STMT_MODEL = {
    'c': 'c=c:1:0:', 'i': 'i=i:0:0:', 'n1': 'n=n:1:1:', 'n2': 'n=n:1:2:', 'n3': 'n=n:2:1:', 's': 's=s:0:0:', 'u': 'u=u:0:0:',
    'x': 'x=x:0:0:', 'f': 'f=f:0:0:', 'Jc': 'c=-', 'Ji': 'i=-', 'Jn': 'n=-', 'Js': 's=-',
}


def stmts_py(case):
    from . import c07
    codes = case[1]
    sh = parse(' '.join(STMT_TEXT[c] for c in codes))
    return ' '.join(c07.show_rule(r) for r in sh.cssRules)


def stmts_line(case):
    codes = case[1]
    if not codes:
        return 'stmts %s -' % MODEL_FIXED
    return 'stmts %s %s' % (MODEL_FIXED, ',w,'.join(STMT_MODEL[c] for c in codes))


def corr_cases(tier, seed):
    import itertools
    rnd = random.Random(seed + 4)
    upto_cases, split_cases, dsplit_cases = [], [], []
    n = 400 if tier == 'quick' else 6000
    for _ in range(n):
        # balanced soup, and soup with brackets dropped / added (unbalanced)
        t = junkgen.soup(rnd, rnd.randint(1, 7), 1, True)
        if rnd.random() < 0.4:
            t = t.replace(rnd.choice('(){}[];'), rnd.choice(['', ';', '}', ')', ']', '{']), 1)
        if rnd.random() < 0.3:
            t += rnd.choice([';', ' }', ' ] x', ' ) y ;', ' "s" z', ' , w', ' : v', ' ! u'])
        for mode in (MODES if rnd.random() < 0.3 else rnd.sample(MODES, 3)):
            upto_cases.append(('upto', t, mode, rnd.random() < 0.5))
    for _ in range(n):
        parts = []
        for _ in range(rnd.randint(1, 5)):
            r = rnd.random()
            if r < 0.35:
                parts.append(junkgen.GOOD_RULES[rnd.choice(list(junkgen.GOOD_RULES))])
            elif r < 0.6:
                parts.append(junkgen.junk_ruleset(rnd)[0])
            elif r < 0.75:
                parts.append(junkgen.junk_atrule(rnd)[0])
            elif r < 0.9:
                parts.append(junkgen.unknown_atrule(rnd))
            else:
                parts.append(rnd.choice(['<!--', '-->', '/*c*/', ';', '}', '{ }', 'x ;']))
        split_cases.append(('split', ' '.join(parts)))
    for _ in range(n):
        parts = []
        for _ in range(rnd.randint(1, 5)):
            r = rnd.random()
            if r < 0.4:
                parts.append(rnd.choice(junkgen.GOOD_DECLS))
            elif r < 0.85:
                parts.append(junkgen.junk_decl(rnd)[0])
            else:
                parts.append(rnd.choice(['@x y', '@x { a: b }', '/*c*/', '', '} z', ') w', '@kw']))
        dsplit_cases.append(('dsplit', rnd.choice(['; ', ' ;', ';']).join(parts)))
    codes = list(STMT_TEXT)
    stmts_cases = [('stmts', h) for k in (1, 2, 3) for h in itertools.product(codes, repeat=k)]
    if tier != 'quick':
        for _ in range(4000):
            stmts_cases.append(('stmts', tuple(rnd.choice(codes) for _ in range(rnd.randint(4, 8)))))
    return upto_cases, split_cases, dsplit_cases, stmts_cases


def gen_cases(tier, seed):
    rnd = random.Random(seed)
    cases = []
    n = 1500 if tier == 'quick' else 25000
    dist = {'sheet': 0, 'media': 0, 'decl': 0, 'unknown': 0}

    def accepted(ctx, g1, g2):
        table = junkgen.MEDIA_GOOD if ctx == 'media' else junkgen.GOOD_RULES
        text = ' '.join(table[x] for x in g1 + g2)
        if ctx == 'media':
            m = sheet_model('@media print { %s }' % text)
            return len(got_flat(m)) == 1 + len(g1) + len(g2)
        return len(sheet_model(text)) == len(g1) + len(g2)
    # every first-token kind with fixed neighbours, both contexts
    for first in junkgen.FIRST_KINDS:
        for _ in range(3 if tier == 'quick' else 20):
            j, f = junkgen.junk_ruleset(rnd, first)
            cases.append(('sheet', 'top', ('style',), j, ('style2',), 'ruleset:' + f))
            cases.append(('sheet', 'media', ('style',), j, ('style2',), 'ruleset:' + f))
    for first in junkgen.DECL_FIRST:
        for _ in range(3 if tier == 'quick' else 20):
            j, cls, f = junkgen.junk_decl(rnd, 'first', first)
            cases.append(('decl', ['top: 0'], j, ['left: 0'], 'style'))
            cases.append(('decl', ['top: 0'], j, ['left: 0'], 'rule'))
    for _ in range(n):
        r = rnd.random()
        if r < 0.3:
            ctx = 'top'
            g1, g2 = junkgen.good_pair(rnd)
            if not accepted(ctx, g1, g2):
                continue
            if rnd.random() < 0.65:
                j, f = junkgen.junk_ruleset(rnd)
                kind = 'ruleset:' + f
            else:
                j, kind = junkgen.junk_atrule(rnd)
            cases.append(('sheet', ctx, tuple(g1), j, tuple(g2), kind))
            dist['sheet'] += 1
        elif r < 0.5:
            names = list(junkgen.MEDIA_GOOD)
            g1 = [rnd.choice(names) for _ in range(rnd.randint(0, 2))]
            g2 = [rnd.choice(names) for _ in range(rnd.randint(1, 2))]
            if not accepted('media', g1, g2):
                continue
            if rnd.random() < 0.7:
                j, f = junkgen.junk_ruleset(rnd)
                kind = 'ruleset:' + f
            else:
                j, kind = junkgen.junk_atrule(rnd, rnd.choice(['@page', '@media', '@import', '@namespace']))
            cases.append(('sheet', 'media', tuple(g1), j, tuple(g2), kind))
            dist['media'] += 1
        elif r < 0.9:
            d1 = [rnd.choice(junkgen.GOOD_DECLS) for _ in range(rnd.randint(0, 2))]
            d2 = [rnd.choice(junkgen.GOOD_DECLS) for _ in range(rnd.randint(1, 2))]
            j, cls, f = junkgen.junk_decl(rnd)
            cases.append(('decl', d1, j, d2, rnd.choice(['style', 'rule'])))
            dist['decl'] += 1
        else:
            cases.append(('unknown', junkgen.unknown_atrule(rnd)))
            dist['unknown'] += 1
    return cases, dist


def run(tier, seed):
    t0 = time.time()
    build = lib.build_and_audit(PROP)
    findings = lib.Findings(PROP)
    broken = []
    cases, dist = gen_cases(tier, seed)
    res = corr.run('c04', cases, lambda c: 'numval -', lambda c: '~', oracle, chunk=300)
    uc, sc, dc, stc = corr_cases(tier, seed)
    corrs = [('upto', uc, upto_line, upto_py), ('split', sc, split_line, split_py), ('dsplit', dc, dsplit_line, dsplit_py),
             ('stmts', stc, stmts_line, stmts_py)]
    n_corr = 0
    n_mis = 0
    for name, cs, lf, pf in corrs:
        r = corr.run('c04' + name, cs, lf, pf, None, chunk=400)
        n_corr += r['n']
        n_mis += r['n_mismatch']
        if r['n_mismatch']:
            c, line, e, g = r['mismatches'][0]
            broken.append('correspondence op `%s` diverges on %d inputs; first %r\n line=%s\n impl=%s\n model=%s' % (
                name, r['n_mismatch'], c[1:], line[:200], e[:200], g[:200]))
    known = 0
    for case, why in res['oracle_fail']:
        if why.startswith('KNOWN:'):
            known += 1
            findings.add('ghost', why[6:], why)
        else:
            findings.add(case[0], repr(case[1:]), why)
    # how much of the boundary finder do the inputs execute (a measurement, not a verdict)
    coverage_lines = lib.modelled_code_coverage([('css_parser.util', 'Base._tokensupto2')],
                                                [lambda c=c: upto_py(c) for c in uc[::max(1, len(uc) // 1500)]] +
                                                [lambda c=c: oracle(c) for c in cases[::max(1, len(cases) // 400)]], limit=2000)
    coverage = {
        'modelled_code_line_coverage': coverage_lines,
        'evaluations': res['n'] + n_corr,
        'distinct_nontrivial': len(set(repr(c) for c in cases)),
        'rule': '(good, junk, good) triples: junk rule-sets with every token kind first and a poison token at depth 0 of '
                'the prelude, junk known at-rules, at top level and inside @media, neighbours drawn from 12 good '
                'statements (kept only if accepted whole without the junk); junk declarations of four classes (bad '
                'first token of every kind, no colon, no value, malformed priority) between good declarations, via '
                'parseStyle-like assignment and inside a rule; unknown well-nested at-rules kept with tokens intact',
        'traces_validated_against_impl': n_corr,
        'exhaustive': False,
        'distribution': dist,
        'samples': [repr(cases[i]) for i in (1, len(cases) // 2, len(cases) - 1)],
        'correspondence_mismatches': n_mis,
        'oracle_failures': res['n_oracle_fail'] - known,
    }
    return lib.finish(PROP, tier, seed, t0, build, findings, coverage, [], broken)
