"""C03 — serialising and re-parsing preserves the model; output is a fixpoint.

Proof: lean/CssVerif/Props/C03.lean (what the serialiser writes for a value is a writing of that value, so
re-parsing gives the value back and serialising again gives the same tokens; number / string / URL / namespace /
rule-order parts: the C17, C12, C15, C07 theorems).
Tie: `vser` (model: parse the token kinds, serialise; against the kinds of the tokens of the real
PropertyValue(text).cssText) for both settings of the one preference that changes a value's tokens.
Search: sheets from the grammar G under random layouts and spellings: the text of the sheet re-parses to the
same model (comments included, numbers to 6 decimal places, a zero length may lose its unit), serialising the
re-parsed sheet gives the same bytes; the same for every sub-object taken alone: rules, selector lists,
selectors, declaration blocks, properties, property values, media lists, media queries; validity verdicts.
"""
import random
import time

from .. import corr, lib, pipeline as P, sheetgen as G
from . import c02v

PROP = 'C03'


def sub_objects(sheet, out, nsmap):
    c = P.cp()

    def rules(rs):
        for r in rs:
            t = r.type
            if t == r.STYLE_RULE:
                out.append(('style-rule', r))
                out.append(('selector-list', r.selectorList))
                for s in r.selectorList:
                    out.append(('selector', s))
                out.append(('style', r.style))
            elif t == r.MEDIA_RULE:
                out.append(('media-rule', r))
                out.append(('media-list', r.media))
                rules(r.cssRules)
            elif t == r.PAGE_RULE:
                out.append(('page-rule', r))
                out.append(('style', r.style))
                for m in r.cssRules:
                    out.append(('style', m.style))
            elif t == r.FONT_FACE_RULE:
                out.append(('font-face-rule', r))
                out.append(('style', r.style))
            elif t == r.IMPORT_RULE:
                out.append(('import-rule', r))
                out.append(('media-list', r.media))
            elif t in (r.NAMESPACE_RULE, r.CHARSET_RULE, r.UNKNOWN_RULE, r.COMMENT):
                out.append(('simple-rule', r))
    rules(sheet.cssRules)


def nsdecl_count(nsdecl):
    return nsdecl.count('@namespace')


def check_sub(kind, obj, nsdecl, nsmap):
    """serialise the object alone, parse the text alone, compare models and the second serialisation"""
    c = P.cp()
    if kind.endswith('-rule'):
        text = obj.cssText
        # (rules with selectors need the sheet's namespace declarations in front; @charset, @import and @namespace
        # must come first themselves)
        needs_ns = kind in ('style-rule', 'media-rule', 'page-rule', 'font-face-rule')
        if not text:
            # a rule that holds nothing is not written (keepEmptyRules): nothing to re-parse
            return '' if not G.prune([G.rule_model(obj)]) else '%s %r is not written' % (kind, G.rule_model(obj))
        sh = P.parse((nsdecl if needs_ns else '') + text)
        got = [r for r in sh.cssRules]
        if needs_ns:
            got = got[nsdecl_count(nsdecl):]
        if len(got) != 1:
            return '%s %r re-parses to %d rules' % (kind, text[:200], len(got))
        d = P.diff(G.prune([G.rule_model(got[0])]), G.prune([G.rule_model(obj)]))
        if d:
            return '%s %r re-parses differently: %s' % (kind, text[:200], P.show(d, 120))
        if got[0].cssText != text:
            return '%s: second serialisation %r differs from the first %r' % (kind, got[0].cssText[:200], text[:200])
        return ''
    if kind == 'selector-list':
        text = obj.selectorText
        new = c.css.SelectorList(selectorText=(text, nsmap))
        m1, m0 = [G.selector_model(s) for s in new], [G.selector_model(s) for s in obj]
        t2 = new.selectorText
    elif kind == 'selector':
        text = obj.selectorText
        new = c.css.Selector(selectorText=(text, nsmap))
        m1, m0 = G.selector_model(new), G.selector_model(obj)
        t2 = new.selectorText
    elif kind == 'style':
        text = obj.cssText
        new = c.css.CSSStyleDeclaration(cssText=text)
        m1, m0 = G.decl_model(new), G.decl_model(obj)
        t2 = new.cssText
        v1 = [p.valid for p in new.getProperties(all=True)]
        v0 = [p.valid for p in obj.getProperties(all=True)]
        # (inside @font-face and @page other profiles apply: there the verdicts are compared on the whole sheet)
        plain = obj.parentRule is not None and obj.parentRule.type == obj.parentRule.STYLE_RULE
        if v1 != v0 and plain:
            return 'validity verdicts of %r change on re-parsing: %r -> %r' % (text[:200], v0, v1)
        for p in obj.getProperties(all=True):
            why = check_sub('property', p, nsdecl, nsmap) or check_sub('value', p.propertyValue, nsdecl, nsmap)
            if why:
                return why
    elif kind == 'property':
        text = obj.cssText
        new = c.css.Property()
        new.cssText = text
        m1 = (new.name, [G.comp_model(v) for v in new.propertyValue], new.priority)
        m0 = (obj.name, [G.comp_model(v) for v in obj.propertyValue], obj.priority)
        t2 = new.cssText
    elif kind == 'value':
        text = obj.cssText
        new = c.css.PropertyValue(text)
        m1, m0 = [G.comp_model(v) for v in new], [G.comp_model(v) for v in obj]
        t2 = new.cssText
    elif kind == 'media-list':
        text = obj.mediaText
        new = c.stylesheets.MediaList(mediaText=text)
        m1, m0 = G.media_model(new), G.media_model(obj)
        t2 = new.mediaText
        for i in obj.seq:
            if i.type == 'MediaQuery':
                q = c.stylesheets.MediaQuery(mediaText=i.value.mediaText)
                if q.mediaText != i.value.mediaText or [j.type for j in q.seq] != [j.type for j in i.value.seq]:
                    return 'media query %r re-parses to %r' % (i.value.mediaText, q.mediaText)
    else:
        raise AssertionError(kind)
    d = P.diff(m1, m0)
    if d:
        return '%s %r re-parses differently: %s' % (kind, text[:200], P.show(d, 120))
    if t2 != text:
        return '%s: second serialisation %r differs from the first %r' % (kind, t2[:200], text[:200])
    return ''


def sheet_case(seed):
    rnd = random.Random(seed)
    ast = G.gen_sheet(rnd)
    src = G.render_sheet(ast, G.Layout(rnd) if seed % 3 else G.Layout(None), G.Respell(rnd) if seed % 2 else G.Plain())
    sheet = P.parse(src)
    m0 = G.prune(G.sheet_model(sheet, comments=True))          # (blocks that hold nothing are not written)
    t1 = sheet.cssText
    s2 = P.parse(t1)
    d = P.diff(G.prune(G.sheet_model(s2, comments=True)), m0)
    if d:
        return 'sheet', 'the text %r of sheet %r re-parses differently: %s' % (t1[:300], src[:300], P.show(d, 160))
    def verdicts(sh):
        out = []

        def walk(rs):
            for r in rs:
                if hasattr(r, 'style') and r.style is not None and r.style.getProperties(all=True):
                    # (a block that holds nothing is not written)
                    out.append([p.valid for p in r.style.getProperties(all=True)])
                if hasattr(r, 'cssRules'):
                    walk(r.cssRules)
        walk(sh.cssRules)
        return out
    if verdicts(s2) != verdicts(sheet):
        return 'validity', 'the validity verdicts of %r change on re-parsing %r' % (src[:300], t1[:300])
    t2 = s2.cssText
    if t2 != t1:
        import difflib
        dl = [x for x in difflib.unified_diff(t1.decode().split('\n'), t2.decode().split('\n'), lineterm='', n=0)][2:8]
        return 'fixpoint', 'second serialisation of %r differs: %r' % (src[:300], dl)
    nsmap = dict((p, sheet.namespaces[p]) for p in sheet.namespaces)
    nsdecl = ''.join(r.cssText for r in sheet.cssRules if r.type == r.NAMESPACE_RULE)
    subs = []
    sub_objects(sheet, subs, nsmap)
    for kind, obj in subs:
        why = check_sub(kind, obj, nsdecl, nsmap)
        if why:
            return 'sub-object', why + ' (in sheet %r)' % src[:200]
    return None


def oracle(seed, _e=None):
    try:
        r = sheet_case(seed)
    except Exception:
        import traceback
        return 'harness: ' + traceback.format_exc()[-500:]
    return '' if r is None else '%s: %s' % r


# ------------------------------------------------------------------ correspondence: the serialiser model on values

def vser_cases(tier, seed):
    rnd = random.Random(seed * 17 + 3)
    n = 1200 if tier == 'quick' else 20000
    cases = []
    for i in range(n):
        w = c02v.g_value(rnd).replace('m', '')
        text = c02v.text_of(rnd, w)
        kinds = c02v.kinds_of(text)
        if kinds == w:
            cases.append((text, kinds, 'e' if i % 2 else 's'))
    return cases


def vser_py(case):
    c = P.cp()
    pv = c.css.PropertyValue(case[0])
    if not pv.wellformed:
        return 'bad'
    c.ser.prefs.useDefaults()
    try:
        if case[2] == 'e':
            c.ser.prefs.listItemSpacer = ''
        return c02v.kinds_of(pv.cssText)
    finally:
        c.ser.prefs.useDefaults()


def vser_oracle(case, e):
    """the real text of the real value re-parses to the same value and is a fixpoint"""
    c = P.cp()
    pv = c.css.PropertyValue(case[0])
    if not pv.wellformed:
        return 'the value %r is derivable from the grammar and is rejected' % case[0]
    t1 = pv.cssText
    pv2 = c.css.PropertyValue(t1)
    if not pv2.wellformed:
        return 'the text %r written for the value %r does not parse' % (t1, case[0])
    if c02v.real_show(pv2) != c02v.real_show(pv):
        return 'the text %r written for %r re-parses to another value' % (t1, case[0])
    if pv2.cssText != t1:
        return 'second serialisation %r of %r differs from the first %r' % (pv2.cssText, case[0], t1)
    return ''


def run(tier, seed):
    t0 = time.time()
    build = lib.build_and_audit(PROP)
    findings = lib.Findings(PROP)
    broken = []
    vc = vser_cases(tier, seed)
    resV = corr.run('c03v', vc, lambda c: 'vser %s %s' % (c[2], c[1]), vser_py, vser_oracle, chunk=400)
    for case, why in resV['oracle_fail'][:5]:
        findings.add('value', case[0], why)
    if resV['n_mismatch']:
        c, line, e, g = resV['mismatches'][0]
        broken.append('correspondence op `vser` diverges on %d inputs; first %r (%s, listItemSpacer %s): impl=%r model=%r' % (
            resV['n_mismatch'], c[0], c[1], 'empty' if c[2] == 'e' else 'default', e, g))
    n = 300 if tier == 'quick' else 6000
    seeds = [seed * 100003 + i for i in range(n)]
    res = corr.run('c03', seeds, lambda c: 'numval -', lambda c: '~', oracle, chunk=40)
    for case, why in res['oracle_fail'][:8]:
        findings.add(why.split(':')[0], str(case), why)
    coverage = {
        'evaluations': res['n'] + resV['n'],
        'distinct_nontrivial': res['n'] + len(set(c[1] for c in vc)),
        'rule': 'sheets from the grammar G (see C02) under random layouts (2/3) and spellings (1/2), numbers incl. signs, '
                'leading / trailing zeros, 7+ decimals, large values, zero lengths: sheet text re-parses to the same model '
                '(comments included; numbers to 6 places; zero length may lose its unit) and serialises to the same bytes; every '
                'sub-object alone - style / media / page / font-face / import / namespace / charset / unknown rules and '
                'comments, selector lists, selectors (with the sheet\'s namespaces), declaration blocks, properties, property '
                'values, media lists, media queries - re-parsed through its own constructor: same model, same text, same '
                'validity verdicts.  Correspondence: values from the value grammar under random layouts, serialiser model vs '
                'the token kinds of the real cssText, default and empty listItemSpacer',
        'traces_validated_against_impl': resV['n'],
        'exhaustive': False,
        'distribution': {'sheets': res['n'], 'values': resV['n']},
        'samples': [repr(vc[i][:2]) for i in (0, len(vc) // 2, len(vc) - 1)],
        'correspondence_mismatches': resV['n_mismatch'],
        'oracle_failures': res['n_oracle_fail'] + resV['n_oracle_fail'],
    }
    assumptions = ['"equal object" is equality of the independent model extractor (harness/sheetgen.py): rule kinds in order, '
                   'namespace-expanded selector items and specificity, declarations (name, component type / value, priority), media '
                   'query tokens, hrefs, prefixes, URIs, encodings, comment texts',
                   'that the characters the serialiser writes tokenize to the kinds the model lists (blank -> S, words apart) is the '
                   'tokenizer property C09']
    return lib.finish(PROP, tier, seed, t0, build, findings, coverage, assumptions, broken)
