"""C02 — well-formed CSS is parsed faithfully into the object model.

Proof: lean/CssVerif/Props/C02.lean (value grammar: parsing the rendering of any value under any layout gives the
value back; statement and declaration boundaries: C04 / C08 theorems re-used).
Tie: `vparse` (the value-grammar model on the kinds of the real tokenizer's tokens against the real
PropertyValue: verdict and component kinds), on values from the grammar and on malformed token sequences.
Search: sheets from the grammar G: (1) the object model has one rule per statement in source order with the
types, selector specificities, property names, component kinds, priorities, media queries, hrefs, prefixes and
URIs known by construction; (2) the model does not depend on the layout (white space and comments between any
two tokens, also inside functions, calc(), selectors, media queries), (3) nor on validate, (4) parseComments=False
gives the model without the comment rules and nothing else.
"""
import random
import time

from .. import corr, lib, pipeline as P, sheetgen as G

PROP = 'C02'


def sheet_case(seed):
    rnd = random.Random(seed)
    ast = G.gen_sheet(rnd)
    canon = G.render_sheet(ast, G.Layout(None), G.Plain())
    sheet = P.parse(canon)
    m0 = G.sheet_model(sheet, comments=True)
    # (1) by construction
    d = P.diff(G.shape_of_model(m0), G.expected_shape(ast))
    if d:
        return 'shape', 'sheet %r: %s' % (canon[:400], P.show(d, 200))
    want, got = G.big_int_counts(ast), G.model_int_counts(sheet)
    if want != got:
        return 'shape', 'sheet %r: whole numbers beyond 2**53 written %r, exact values found in the model %r' % (canon[:400], want, got)
    m0n = [m for m in G.sheet_model(sheet, comments=False)]
    # (2) layout
    for lay in (G.Layout(rnd), G.Layout(rnd, comments=False), G.Layout(rnd, dense=True)):
        t = G.render_sheet(ast, lay, G.AtCase(rnd))
        d = P.diff(P.model_of(t), m0n)
        if d:
            return 'layout', 'the layout %r of %r gives another model: %s' % (t[:400], canon[:300], P.show(d, 160))
        # (4) parseComments=False: the comments go, nothing else
        d = P.diff(G.sheet_model(P.parse(t, parseComments=False), comments=True), m0n)
        if d:
            return 'parseComments', 'parseComments=False on %r: %s' % (t[:400], P.show(d, 160))
    # (3) validate
    for v in (False, True):
        d = P.diff(G.sheet_model(P.parse(canon, validate=v), comments=True), m0)
        if d:
            return 'validate', 'validate=%s on %r: %s' % (v, canon[:400], P.show(d, 160))
    return None


def oracle(seed, _e=None):
    try:
        r = sheet_case(seed)
    except Exception:
        import traceback
        return 'harness: ' + traceback.format_exc()[-400:]
    return '' if r is None else '%s: %s' % r


def run(tier, seed):
    t0 = time.time()
    build = lib.build_and_audit(PROP)
    findings = lib.Findings(PROP)
    broken = []
    n = 400 if tier == 'quick' else 8000
    seeds = [seed * 100003 + i for i in range(n)]
    res = corr.run('c02', seeds, lambda c: 'numval -', lambda c: '~', oracle, chunk=50)
    for case, why in res['oracle_fail'][:8]:
        findings.add(why.split(':')[0], str(case), why)
    from . import c02v
    vres = c02v.run_corr(tier, seed, broken, findings)
    from . import c02pp
    pres = c02pp.run_corr(tier, seed, broken, findings)
    P.probe_pinned(findings, ('layout',))
    coverage = {
        'evaluations': res['n'] * 9 + vres['n'] + pres['n'],
        'distinct_nontrivial': res['n'] + vres['distinct'] + pres['distinct'],
        'rule': 'sheets from the grammar G: @charset, @import (string / url, media queries with features), @namespace '
                '(prefixed, default), @media incl. nesting with media queries (only / not, and-expressions, expression-first), '
                '@page (pseudo pages, named) with margin boxes, @font-face, style rules with level-3 selectors (namespaces, '
                'attribute operators, pseudo classes / elements, functional pseudos, :not), unknown at-rules with and without '
                'block, comments; declarations with 1-4 components of every kind (identifiers, numbers, dimensions, '
                'percentages, strings, URLs, hash / named / functional colours, nested functions, calc, unicode ranges), '
                'separators , and /, !important.  Per sheet: expected model by construction; 3 layouts (white space and '
                'comments at every token boundary incl. inside functions, calc, selectors, media queries; no comments; dense) '
                'x {parseComments}; validate on / off',
        'traces_validated_against_impl': vres['n'] + pres['n'],
        'exhaustive': False,
        'distribution': {'sheets': res['n'], 'value-grammar cases': vres['n'], 'prodparser / media query cases': pres['distribution']},
        'samples': vres['samples'],
        'correspondence_mismatches': vres['n_mismatch'] + pres['n_mismatch'],
        'oracle_failures': res['n_oracle_fail'],
    }
    assumptions = ['comments are compared as rules only (their placement inside selectors, values and media queries is layout)',
                   'two recorded findings pinned by existing tests concern white space next to a comment in a selector']
    return lib.finish(PROP, tier, seed, t0, build, findings, coverage, assumptions, broken)
