"""C19 — a rejected assignment leaves the object unchanged.

Proof: lean/CssVerif/Props/C19.lean — a small exception-aware IR with the theorem that a *disciplined*
program (no mutation of the object before a point that may raise, unless a handler restores it) leaves the
state unchanged whenever it raises; one IR program per text setter is regenerated from the Python AST of
/repo on every run (harness/gen_setters.py) and `Disciplined` is decided on it by the kernel.
Tie/validation: every setter x invalid texts on the real objects: raised => nothing changed (this is also the
search for a failing input when an obligation breaks), and the mutation events the IR predicts cover what
was observed to change.
"""
import random
import time
import xml.dom

from .. import lib

lib.use_repo()
PROP = 'C19'


def _cp():
    import css_parser
    import logging
    css_parser.log.setLevel(logging.FATAL)
    css_parser.log.raiseExceptions = True
    return css_parser


SHEET = ('@charset "utf-8"; @import "x.css" print; @namespace p "u1"; '
         'a, p|b > c { top: 0; color: red !important } '
         '@media print, screen { d { left: 0 } @page :first { margin: 1px } } '
         '@page :left { margin: 0; @top-left { content: "x" } } '
         '@font-face { font-family: x; src: url(f.woff) } '
         '@foo bar { baz }  /*c*/')


def fresh():
    cp = _cp()
    sh = cp.css.CSSStyleSheet(href='http://h/s.css')
    sh._setFetcher(lambda url: ('utf-8', 'i { top: 1px }'))
    sh.cssText = SHEET
    return sh


def targets(sh):
    """(setter id, object getter, attribute, valid texts)"""
    r = sh.cssRules
    charset, imp, ns, style, media, page, ff, unk, com = r[0], r[1], r[2], r[3], r[4], r[5], r[6], r[7], r[8]
    prop = style.style.getProperties(all=True)[1]
    return {
        'CSSCharsetRule.cssText': (charset, 'cssText', ['@charset "ascii";']),
        'CSSCharsetRule.encoding': (charset, 'encoding', ['ascii', 'latin-1']),
        'CSSImportRule.cssText': (imp, 'cssText', ['@import url(y.css) screen;', '@import "z.css";']),
        'CSSNamespaceRule.cssText': (ns, 'cssText', ['@namespace p "u1";']),
        'CSSNamespaceRule.prefix': (ns, 'prefix', ['p']),
        'CSSNamespaceRule.namespaceURI': (ns, 'namespaceURI', ['u1']),
        'CSSStyleRule.cssText': (style, 'cssText', ['x, p|y { left: 1px }', 'z { }']),
        'CSSStyleRule.selectorText': (style, 'selectorText', ['x > y, p|z', 'q:hover']),
        'SelectorList.selectorText': (style.selectorList, 'selectorText', ['x > y, p|z', 'q']),
        'Selector.selectorText': (style.selectorList[1], 'selectorText', ['p|z + w', 'q[a="b"]']),
        'CSSStyleDeclaration.cssText': (style.style, 'cssText', ['left: 1px; top: 2px !important', '']),
        'Property.cssText': (prop, 'cssText', ['left: 1px', 'top: 2px !important']),
        'Property.name': (prop, 'name', ['left', 'top']),
        'Property.value': (prop, 'value', ['1px 2px', 'blue']),
        'Property.priority': (prop, 'priority', ['important', '']),
        'CSSMediaRule.cssText': (media, 'cssText', ['@media tv { e { top: 0 } }', '@media all { }']),
        'MediaList.mediaText': (media.media, 'mediaText', ['tv, print', 'all']),
        'MediaQuery.mediaText': (media.media[0], 'mediaText', ['tv', 'screen and (min-width: 1px)']),
        'CSSPageRule.cssText': (page, 'cssText', ['@page :right { margin: 2px }', '@page { }']),
        'CSSPageRule.selectorText': (page, 'selectorText', [':right', 'n:first', '']),
        'MarginRule.cssText': (page.cssRules[0], 'cssText', ['@top-left { content: "y" }', '@bottom-center { }']),
        'CSSFontFaceRule.cssText': (ff, 'cssText', ['@font-face { font-family: y }']),
        'CSSUnknownRule.cssText': (unk, 'cssText', ['@foo x;', '@bar { y }']),
        'CSSComment.cssText': (com, 'cssText', ['/*d*/']),
        'CSSStyleSheet.cssText': (sh, 'cssText', ['a { top: 0 }', '@namespace q "u2"; q|a { left: 0 }']),
        'CSSStyleSheet.encoding': (sh, 'encoding', ['ascii', 'utf-8']),
        'nested CSSPageRule.cssText': (media.cssRules[1], 'cssText', ['@page { margin: 2px }']),
        'nested CSSStyleRule.selectorText': (media.cssRules[0], 'selectorText', ['x y']),
    }


def fingerprint(sh, obj):
    def safe(f):
        try:
            return f()
        except Exception as e:
            return 'EXC:' + type(e).__name__
    def literal():
        # the serialisation that shows the spellings as written (literal at-keywords, property names, priorities) and
        # everything the default omits
        import css_parser
        prefs = css_parser.ser.prefs
        keys = ('defaultAtKeyword', 'defaultPropertyName', 'defaultPropertyPriority', 'keepAllProperties', 'keepEmptyRules',
                'keepUnknownAtRules', 'keepComments')
        old = {k: getattr(prefs, k) for k in keys}
        try:
            prefs.defaultAtKeyword = prefs.defaultPropertyName = prefs.defaultPropertyPriority = False
            prefs.keepAllProperties = prefs.keepEmptyRules = prefs.keepUnknownAtRules = prefs.keepComments = True
            return (sh.cssText, getattr(obj, 'cssText', None))
        finally:
            for k, v in old.items():
                setattr(prefs, k, v)
    out = [safe(lambda: sh.cssText), safe(literal), safe(lambda: [type(r).__name__ for r in sh.cssRules]),
           safe(lambda: dict(sh.namespaces.namespaces)), safe(lambda: sh.encoding)]
    for name in ('cssText', 'selectorText', 'mediaText', 'name', 'value', 'priority', 'wellformed', 'valid', 'encoding',
                 'prefix', 'namespaceURI', 'literalname', 'atkeyword', 'href', 'specificity'):
        if hasattr(type(obj), name) or hasattr(obj, name):
            out.append((name, safe(lambda n=name: getattr(obj, n))))
    pv = getattr(obj, 'propertyValue', None)
    if pv is not None:
        out.append(('propertyValue', safe(lambda: (pv.cssText, pv.wellformed, id(pv)))))
    for attr in ('style', 'media', 'selectorList', 'cssRules'):
        sub = getattr(obj, attr, None)
        if sub is not None and sub is not obj:
            out.append((attr, safe(lambda s=sub: getattr(s, 'cssText', None) or getattr(s, 'mediaText', None) or
                                   getattr(s, 'selectorText', None) or [x.cssText for x in s])))
            out.append((attr + '.id', id(sub)))
            out.append((attr + '.parent', safe(lambda s=sub: id(getattr(s, 'parentRule', None) or getattr(s, 'parent', None)))))
    return out


BAD_TAILS = [' }', ' x', ';;x', ' {', ' ]', ' )', ' "', ' @x', ' $', ' ,', ' !', ' :', ' z|y', ' \\']
WRONG_KIND = ['@charset "ascii";', '@import "q.css";', '@namespace r "u3";', 'k { top: 0 }', '@media tv { k { top: 0 } }',
              '@page { margin: 0 }', '@font-face { font-family: k }', '@foo k;', '/*k*/', '@top-right { content: "k" }',
              'top: 0', 'k', 'print', '', ' ', '/*k*/', ' /*a*/ /*b*/ ', '/**/;']


def mutate(rnd, text):
    """invalid candidates from a valid text"""
    if rnd.random() < 0.3:
        # another spelling of the keywords and names (equivalent by C10), so that a partial update shows in the literal
        # serialisation even when the rejected text is a mutation of the object's own text
        text = ''.join(ch.upper() if ch.isalpha() and rnd.random() < 0.5 else ch for ch in text)
    k = rnd.random()
    if k < 0.2 and text:
        i = rnd.randrange(len(text))
        return text[:i]                               # truncation
    if k < 0.4 and text:
        cp = _cp()
        toks = [t[1] for t in cp.tokenize2.Tokenizer().tokenize(text)]
        if toks:
            i = rnd.randrange(len(toks))
            if rnd.random() < 0.5:
                del toks[i]                            # token deletion
            else:
                toks.insert(i, rnd.choice(['$', '{', '}', ';', ',', '(', ')', '[', ']', '!', ':', '"', '@x', 'z|w', '1']))
            return ''.join(toks)
    if k < 0.6:
        return rnd.choice(WRONG_KIND)                  # wrong kind
    if k < 0.7:
        return text.replace('p|', 'undeclared|') if 'p|' in text else 'undeclared|' + text
    return text + rnd.choice(BAD_TAILS)                # trailing content


def run_case(case):
    """(setter id, text) → '' | description of a raised-and-changed case | 'accepted' marker ignored"""
    sid, text = case
    sh = fresh()
    obj, attr, _ = targets(sh)[sid]
    before = fingerprint(sh, obj)
    try:
        setattr(obj, attr, text)
    except xml.dom.DOMException as e:
        after = fingerprint(sh, obj)
        if after != before:
            diff = [(a, b) for a, b in zip(before, after) if a != b][:3]
            return 'RAISED-CHANGED', '%s = %r raised %s but the object changed: %r' % (sid, text, type(e).__name__, diff)
        return 'RAISED', ''
    except Exception as e:
        return 'CRASH', '%s = %r raised %s (not a DOM exception)' % (sid, text, type(e).__name__)
    return 'ACCEPTED', ''


def gen_cases(tier, seed):
    rnd = random.Random(seed)
    sh = fresh()
    cases = []
    for sid, (obj, attr, valids) in targets(sh).items():
        for v in valids:
            for t in BAD_TAILS:
                cases.append((sid, v + t))
        for w in WRONG_KIND:
            cases.append((sid, w))
        for _ in range(40 if tier == 'quick' else 600):
            cases.append((sid, mutate(rnd, rnd.choice(valids))))
    return cases


def _work(chunk):
    out = []
    for c in chunk:
        try:
            out.append((c, run_case(c)))
        except Exception:
            import traceback
            out.append((c, ('HARNESS', traceback.format_exc()[-300:])))
    return out


def run_all(cases):
    import multiprocessing as mp
    chunks = [cases[i:i + 100] for i in range(0, len(cases), 100)]
    with mp.get_context('fork').Pool(lib.NPROC) as pool:
        res = pool.map(_work, chunks)
    return [x for r in res for x in r]


def run(tier, seed):
    t0 = time.time()
    from .. import gen_setters
    progs, notes, changed = gen_setters.generate()
    undisciplined = [sid for sid, ir in progs if not gen_setters.disciplined(ir)]
    build = lib.build_and_audit(PROP)
    build.gen_status = (build.gen_status or '') + '; gen_setters: ' + ('rewritten' if changed else 'unchanged')
    findings = lib.Findings(PROP)
    broken = []
    cases = gen_cases(tier, seed)
    if undisciplined:
        # an obligation no longer checks: look harder at the setters concerned
        rnd = random.Random(seed + 19)
        sh = fresh()
        tg = targets(sh)
        for sid in undisciplined:
            for key in [k for k in tg if k.endswith(sid) or k == sid]:
                for _ in range(1500):
                    cases.append((key, mutate(rnd, rnd.choice(tg[key][2]))))
                for v in tg[key][2]:
                    for extra in ['!foo', ' !foo', '@import "bad.css";', 'x:y !z']:
                        cases.append((key, v + extra))
                        cases.append((key, extra))
    res = run_all(cases)
    counts = {}
    n_raised = 0
    for (sid, text), (k, why) in res:
        counts.setdefault(sid, {}).setdefault(k, 0)
        counts[sid][k] += 1
        if k == 'RAISED':
            n_raised += 1
        if k in ('RAISED-CHANGED', 'CRASH', 'HARNESS'):
            findings.add(k.lower(), '%s = %r' % (sid, text), why)
    if undisciplined:
        inv = {v: k for k, v in notes['fields'].items()}
        for sid in undisciplined:
            ir = dict(progs)[sid]
            r = gen_setters.py_run(ir, [])[1] or []
            broken.append('obligation per_setter: the IR regenerated for %s may raise after changing %s' % (
                sid, ','.join(sorted(set(inv[f] for f in r)))))
    if notes['unsupported']:
        broken.append('translator: unsupported constructs: %s' % notes['unsupported'][:5])
    coverage = {
        'evaluations': len(res),
        'distinct_nontrivial': len(set(cases)),
        'rule': 'IR regenerated from the Python AST of 26 text setters (cssText of every rule kind, of the sheet, of '
                'declaration blocks and properties; selectorText; mediaText; name/value/priority; encoding; prefix; '
                'namespaceURI); validation: 28 setter sites (incl. rules nested in @media) x invalid texts from valid ones '
                '(14 bad tails, 15 wrong-kind texts, truncation, token deletion/insertion, undeclared prefix) on a sheet '
                'with every rule kind; raised => fingerprint (object fields, sub-object identity and text, owning sheet '
                'text/rule types/namespaces/encoding) unchanged',
        'traces_validated_against_impl': len(res),
        'exhaustive': False,
        'distribution': {'raised': n_raised, 'per_setter': counts, 'ir_sizes': notes['sizes']},
        'classification': {k: v for k, v in notes.items() if k not in ('sizes',)},
        'samples': [repr(cases[i]) for i in (1, len(cases) // 2, len(cases) - 1)],
        'correspondence_mismatches': 0,
        'oracle_failures': len(findings.new),
    }
    assumptions = ['the classification tables of harness/gen_setters.py (pure helpers, raising helpers, reject-or-commit '
                   'operations, parsing attributes, object stores of the commit phase, commit-phase calls)',
                   'callees of the `call` kind raise before they change anything (each is itself one of the 26 setters, or '
                   'insertRule/deleteRule/add whose reject-unchanged behaviour is C07)']
    return lib.finish(PROP, tier, seed, t0, build, findings, coverage, assumptions, broken)
