"""C16 — selector specificity equals the CSS definition.

Proof: lean/CssVerif/Props/C16.lean.  Tie: `sel` op — the same selector texts through the real
tokenizer + Selector and through the tokenizer model + selector state machine model; item list,
specificity and verdict compared.  Search: derivation oracle (specificity known by construction),
re-parse of selectorText, @page selector specificity.
"""
import itertools
import random
import time
import xml.dom

from .. import corr, lib, selgen

lib.use_repo()
PROP = 'C16'
NSMAP = {'p': 'u1', 'q': 'u2'}


def _cp():
    import css_parser
    import logging
    css_parser.log.setLevel(logging.FATAL)
    css_parser.log.raiseExceptions = True
    return css_parser


def ns_arg(nsmap):
    if not nsmap:
        return '~'
    return ';'.join('%s=%s' % (lib.enc(k), lib.enc(v)) for k, v in nsmap.items())


def line_of(c):
    return 'sel %s %s' % (ns_arg(c[1]), lib.enc(c[0]))


def show_item(item):
    cp = _cp()
    t, v = item.type, item.value
    if isinstance(v, tuple):
        ns, name = v
        if ns is None:
            n = 'N'
        elif ns == cp._ANYNS:
            n = 'A'
        elif ns == '':
            n = 'E'
        else:
            n = 'U' + lib.enc(ns)
        return '%s:%s:%s' % (t, lib.enc(name), n)
    if hasattr(v, 'cssText'):
        v = v.cssText
    return '%s:%s:-' % (t, lib.enc(v))


def py_of(c):
    cp = _cp()
    text, nsmap = c[0], c[1]
    try:
        s = cp.css.Selector((text, dict(nsmap)))
    except xml.dom.DOMException as e:
        return type(e).__name__
    if not s.wellformed:
        return 'SyntaxErr'
    sp = s.specificity
    return 'ok;%d,%d,%d;%s' % (sp[1], sp[2], sp[3], ' '.join(show_item(i) for i in s.seq))


def oracle(c, _e=None):
    cp = _cp()
    text, nsmap, exp = c[0], c[1], c[2]
    if exp is None:
        return ''
    try:
        s = cp.css.Selector((text, dict(nsmap)))
    except xml.dom.DOMException as e:
        return 'well-formed selector %r rejected with %s' % (text, type(e).__name__)
    if s.specificity != (0,) + tuple(exp):
        return 'selector %r reports specificity %r, the CSS definition gives %r' % (text, s.specificity, (0,) + tuple(exp))
    # unchanged by serialising and re-parsing
    try:
        s2 = cp.css.Selector((s.selectorText, dict(nsmap)))
    except xml.dom.DOMException as e:
        return 'serialised selector %r (from %r) rejected with %s' % (s.selectorText, text, type(e).__name__)
    if s2.specificity != s.specificity:
        return 'specificity changes on re-parse: %r %r -> %r %r' % (text, s.specificity, s.selectorText, s2.specificity)
    return ''


def page_oracle(c, _e=None):
    cp = _cp()
    text, exp = c[1], c[2]
    try:
        r = cp.css.CSSPageRule(selectorText=text)
    except xml.dom.DOMException as e:
        return '@page selector %r rejected with %s' % (text, type(e).__name__)
    if tuple(r.specificity) != tuple(exp):
        return '@page %r reports %r, expected %r' % (text, r.specificity, exp)
    r2 = cp.css.CSSPageRule(selectorText=r.selectorText)
    if tuple(r2.specificity) != tuple(exp):
        return '@page %r re-parsed as %r reports %r' % (text, r.selectorText, r2.specificity)
    # a long-lived rule whose specificity has been read and whose selector is then replaced (through cssText and through
    # selectorText in turn) reports what a fresh rule reports
    global _PAGE
    if _PAGE is None:
        _PAGE = [cp.css.CSSPageRule(selectorText=':first'), ':first', 0]
    old = _PAGE[0].specificity
    prev = _PAGE[1]
    _PAGE[2] += 1
    if _PAGE[2] % 2:
        _PAGE[0].cssText = '@page %s { margin: 0 }' % text
        how = 'cssText'
    else:
        _PAGE[0].selectorText = text
        how = 'selectorText'
    _PAGE[1] = text
    if tuple(_PAGE[0].specificity) != tuple(exp):
        return '@page rule holding %r (specificity read: %r) and then assigned %s=%r reports %r, expected %r' % (
            prev, tuple(old), how, text, tuple(_PAGE[0].specificity), tuple(exp))
    return ''


def respell(rnd, text):
    """the same selector with its pseudo-class / pseudo-element / function names in another letter case and with hex
    escapes (C10: these names are case-insensitive; the specificity must not depend on the spelling)"""
    import re

    def one(m):
        out = []
        name = m.group(2)
        for i, ch in enumerate(name):
            r = rnd.random()
            if ch.isalpha() and r < 0.15:
                nxt = name[i + 1] if i + 1 < len(name) else ''
                out.append('\\%x%s' % (ord(ch.upper() if rnd.random() < 0.5 else ch), ' ' if nxt == '' or nxt in '0123456789abcdefABCDEF' else rnd.choice(['', ' '])))
            elif ch.isalpha() and ch.lower() not in 'abcdef' and r < 0.3:
                # a literal escape of a letter that is no hex digit: the same letter
                out.append('\\' + (ch.upper() if rnd.random() < 0.3 else ch))
            elif r < 0.5:
                out.append(ch.upper())
            else:
                out.append(ch)
        return m.group(1) + ''.join(out)
    return re.sub(r'(::?)([a-z][a-z-]*)', one, text)


_PAGE = None


def gen_cases(tier, seed):
    rnd = random.Random(seed)
    cases = []
    g = selgen.Gen(rnd, avoid_known=False)
    # exhaustive: all compounds of <= 2 simple selectors from a basis, and all :not(x)
    basis = [('a', (0, 0, 1)), ('*', (0, 0, 0)), ('p|a', (0, 0, 1)), ('*|b', (0, 0, 1)), ('|b', (0, 0, 1)),
             ('#i', (1, 0, 0)), ('.c', (0, 1, 0)), ('[x]', (0, 1, 0)), ('[q|x~="v"]', (0, 1, 0)),
             (':hover', (0, 1, 0)), (':nth-child(2n+1)', (0, 1, 0)), (':before', (0, 0, 1)), ('::after', (0, 0, 1)),
             (':lang(en)', (0, 1, 0)), (':where(a)', (0, 0, 0)), ('::part(x)', (0, 0, 1))]
    heads = basis[:5]
    tails = basis[5:]
    for h in [None] + heads:
        for n in range(0, 3):
            for combo in itertools.product(tails, repeat=n):
                if h is None and n == 0:
                    continue
                parts = ([h] if h else []) + list(combo)
                # a pseudo-element must be last
                bad = any(p[0] in (':before', '::after', '::part(x)') for p in parts[:-1])
                if bad:
                    continue
                text = ''.join(p[0] for p in parts)
                spec = tuple(sum(x) for x in zip(*[p[1] for p in parts]))
                cases.append((text, NSMAP, spec))
    for t, s in basis[:11]:
        cases.append((':not(%s)' % t, NSMAP, s))
        cases.append(('a:not( %s )' % t, NSMAP, (s[0], s[1], s[2] + 1)))
    n_exh = len(cases)
    for _ in range(4000 if tier == 'quick' else 60000):
        text, spec, _pairs = g.selector()
        cases.append((text, NSMAP, spec))
        if ':' in text and rnd.random() < 0.4:
            cases.append((respell(rnd, text), NSMAP, spec))
    for t, sp_ in basis[9:] + [(':after', (0, 0, 1)), (':first-line', (0, 0, 1)), (':first-letter', (0, 0, 1)), ('::selection', (0, 0, 1)),
                              (':not(:hover)', (0, 1, 0)), (':not(b)', (0, 0, 1))]:
        for _ in range(10):
            cases.append(('a' + respell(rnd, t), NSMAP, (sp_[0], sp_[1], sp_[2] + 1)))
    # malformed / rejected (correspondence only)
    junk = ['a,b', 'a >', '> a', 'x|a', 'a..b', 'a[', 'a[]', 'a[=v]', ':not(', ':not()', 'a:not(b c)', '::', 'a:', 'a|', '|',
            'a b %', '@x', 'a:nth-child(', '[p|]', 'p|', '*|', 'a ~ ~ b', 'a#', ':not(a b)', 'a:b(', '1a', 'a 1', '"s"']
    for j in junk:
        cases.append((j, NSMAP, None))
    for _ in range(500 if tier == 'quick' else 5000):
        text, _, _ = g.selector()
        i = rnd.randrange(len(text) + 1)
        mut = text[:i] + rnd.choice(['', ' ', ',', '[', ']', '(', ')', ':', '|', '*', '.', '#', '>', '@x', '"q"', '1']) + text[i + rnd.randint(0, 1):]
        cases.append((mut, NSMAP, None))
    return cases, {'exhaustive_compounds': n_exh, 'random_derivations': 4000 if tier == 'quick' else 60000}


def page_cases():
    out = []
    # CSS 2.1 page selectors: an optional page name and at most one pseudo-page
    for name in ['', 'n', 'toc', 'Chapter-1']:
        for ps in ['', ':first', ':left', ':right']:
            spec = (1 if name else 0, 1 if ps == ':first' else 0, 1 if ps in (':left', ':right') else 0)
            out.append(('page', name + ps, spec))
            if ps:
                # pseudo-page names are case-insensitive and may be written with escapes (C10)
                out.append(('page', name + ps.upper(), spec))
                out.append(('page', name + ps[:2] + '\\' + ps[2:], spec) if ps[2] not in 'abcdef' else ('page', name + ps.title(), spec))
    return out


def run(tier, seed):
    t0 = time.time()
    build = lib.build_and_audit(PROP)
    findings = lib.Findings(PROP)
    cases, dist = gen_cases(tier, seed)
    res = corr.run('c16', cases, line_of, py_of, oracle, chunk=1500)
    pc = page_cases()
    res2 = corr.run('c16p', pc + pc[::-1] + pc[::3], lambda c: 'numval -', lambda c: '~', page_oracle, chunk=100)
    broken = []
    for case, why in res['oracle_fail']:
        findings.add('selector', case[0], why)
    for case, why in res2['oracle_fail']:
        findings.add('page', case[1], why)
    if res['n_mismatch']:
        c, line, e, g = res['mismatches'][0]
        broken.append('correspondence op `sel` diverges on %d selectors; first %r\n impl=%s\n model=%s' % (
            res['n_mismatch'], c[0], e[:300], g[:300]))
    findings.probe_known(lambda f: bool(oracle((f['input'], NSMAP, tuple(f['expected'])))))
    # how much of the code the model transcribes do the correspondence inputs execute (a measurement, not a verdict)
    _sample = cases[::max(1, len(cases) // 2500)]
    coverage_lines = lib.modelled_code_coverage([('css_parser.css.selector', 'Selector._setSelectorText')], [lambda c=c: py_of(c) for c in _sample], limit=2505)
    coverage = {
        'modelled_code_line_coverage': coverage_lines,
        'evaluations': res['n'] + res2['n'],
        'distinct_nontrivial': len(set(c[0] for c in cases)),
        'rule': 'selector derivations from the level-3 grammar (type/universal with every namespace form, id, class, '
                'attribute selectors with all operators and ident/string values, pseudo-classes, functional pseudo-'
                'classes, legacy and :: pseudo-elements, :not(x) of every simple kind, :where(), combinators with '
                'whitespace/comment layout); all compounds of <= 2 simple selectors over a 15-element basis '
                'exhaustively; expected specificity known by construction; plus mutated / malformed selectors for the '
                'correspondence; all @page selector forms',
        'traces_validated_against_impl': res['n'],
        'exhaustive': True,
        'distribution': dist,
        'samples': [cases[i][0] for i in (5, len(cases) // 2, len(cases) - 3)],
        'correspondence_mismatches': res['n_mismatch'],
        'oracle_failures': res['n_oracle_fail'] + res2['n_oracle_fail'],
    }
    assumptions = ['the tokenizer model (C08/C09) feeds the selector model',
                   'string values in attribute selectors contain no escaped quotes']
    return lib.finish(PROP, tier, seed, t0, build, findings, coverage, assumptions, broken)
