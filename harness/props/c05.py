"""C05 — serializer preferences change layout, never meaning.

Proof: lean/CssVerif/Props/C05.lean (for every setting of the preferences the value written re-parses to the same
value; two words appended to `Out` are always separated by white space, whatever the spacer strings are).
Tie: `out` (the transcription of Out.append / Out.value against the real class on random sequences of appends
under random preferences), `vser` (C03), `omit` (which rules and declarations are written under the omission
preferences: Model/Omit.lean against the real serialiser and parser, see props/c05o.py).
Search: a pairwise-covering array plus random points of the preference space (18 booleans, 9 strings incl.
useMinified) x sheets from the grammar G and the repository's sample sheets: serialising succeeds and the text
re-parses to the model of the default serialisation transformed by exactly what the preferences are documented
to omit (comments, empty rules, unknown at-rules, unused @namespace rules, overridden duplicates, invalid
properties with validOnly).
"""
import glob
import itertools
import os
import random
import time

from .. import corr, lib, pipeline as P, sheetgen as G
from . import c05o

PROP = 'C05'

BOOL = ['defaultAtKeyword', 'defaultPropertyName', 'defaultPropertyPriority', 'formatUnknownAtRules', 'indentClosingBrace',
        'indentSpecificities', 'keepAllProperties', 'keepComments', 'keepEmptyRules', 'keepUnknownAtRules',
        'keepUsedNamespaceRulesOnly', 'lineNumbers', 'minimizeColorHash', 'normalizedVarNames', 'omitLastSemicolon',
        'omitLeadingZero', 'resolveVariables', 'validOnly']
STR = {'importHrefFormat': [None, 'string', 'uri'], 'indent': ['    ', '', '\t', ' '], 'lineSeparator': ['\n', '', ' ', '\r\n'],
       'linesAfterRules': ['', '\n', '\n\n'], 'listItemSpacer': [' ', ''], 'paranthesisSpacer': [' ', ''],
       'propertyNameSpacer': [' ', ''], 'selectorCombinatorSpacer': [' ', ''], 'spacer': [' ', '']}


def pairwise(rnd):
    """a covering array: every pair of values of two different preferences occurs in some row (greedy)"""
    params = [(b, [True, False]) for b in BOOL] + list(STR.items())
    need = set()
    for (a, va), (b, vb) in itertools.combinations(params, 2):
        for x in va:
            for y in vb:
                need.add((a, repr(x), b, repr(y)))
    rows = []
    while need:
        best, bestc = None, -1
        for _ in range(30):
            row = {k: rnd.choice(v) for k, v in params}
            c = sum(1 for (a, x, b, y) in need if repr(row[a]) == x and repr(row[b]) == y)
            if c > bestc:
                best, bestc = row, c
        if bestc == 0:
            (a, x, b, y) = next(iter(need))
            best = {k: rnd.choice(v) for k, v in params}
            best[a] = [v for v in dict(params)[a] if repr(v) == x][0]
            best[b] = [v for v in dict(params)[b] if repr(v) == y][0]
        rows.append(best)
        need = {(a, x, b, y) for (a, x, b, y) in need if not (repr(best[a]) == x and repr(best[b]) == y)}
    return rows


def random_row(rnd):
    row = {k: rnd.random() < 0.5 for k in BOOL}
    row.update({k: rnd.choice(v) for k, v in STR.items()})
    if rnd.random() < 0.15:
        row['minified'] = True
    return row


def apply_prefs(p, row):
    p.useDefaults()
    if row.get('minified'):
        p.useMinified()
        return
    for k, v in row.items():
        setattr(p, k, v)


def transform(model, sheet, row, prefs):
    """what the preferences are documented to omit, applied to the model of the sheet"""
    c = P.cp()
    used = set()

    def collect(rs):
        for r in rs:
            if r.type == r.STYLE_RULE:
                for s in r.selectorList:
                    for i in s.seq:
                        if isinstance(i.value, tuple) and i.value[0] not in (None, -1, c._ANYNS if hasattr(c, '_ANYNS') else -1):
                            used.add(i.value[0])
            elif hasattr(r, 'cssRules') and r.type != r.PAGE_RULE:
                collect(r.cssRules)
    collect(sheet.cssRules)

    def decls(ds, style):
        out = list(ds)
        if prefs.validOnly:
            props = style.getProperties(all=True)
            out = [d for d, p in zip(out, props) if p.valid]
        if not prefs.keepAllProperties:
            # only the effective declaration of each name stays, where it stands
            eff = [id(p) for p in style.getProperties()]
            allp = style.getProperties(all=True)
            if prefs.validOnly:
                allp = [p for p in allp if p.valid]
            out = [d for d, p in zip(out, allp) if id(p) in eff]
        return out

    def has_comment(style):
        return prefs.keepComments and any(i.value.__class__.__name__ == 'CSSComment' for i in style.seq)

    def rules(ms, rs):
        out = []
        for m, r in zip(ms, rs):
            k = m[0]
            if k == 'comment':
                continue
            if k == 'unknown' and not prefs.keepUnknownAtRules:
                continue
            if k == 'namespace' and prefs.keepUsedNamespaceRulesOnly and m[2] not in used:
                continue
            if k == 'style':
                d = decls(m[2], r.style)
                # (a block that holds a comment is not empty for the serialiser)
                if not d and not prefs.keepEmptyRules and not has_comment(r.style):
                    continue
                out.append(('style', m[1], d))
            elif k == 'media':
                kids = rules(m[2], [x for x in r.cssRules])
                if not kids and not prefs.keepEmptyRules and not (
                        prefs.keepComments and any(x.type == x.COMMENT for x in r.cssRules)):
                    continue
                out.append(('media', m[1], kids))
            elif k == 'page':
                d = decls(m[2], r.style)
                margins = []
                for (name, md), mr in zip(m[3], r.cssRules):
                    dd = decls(md, mr.style)
                    # (keepEmptyRules is asked for style and @media rules only: a margin box, @page or @font-face rule
                    # without written content is left out under every setting - Props/C05 empty_page_is_never_written -
                    # which is also what the default serialisation does, so nothing changes meaning)
                    if dd or has_comment(mr.style):
                        margins.append((name, dd))
                if not d and not margins and not has_comment(r.style):
                    continue
                out.append(('page', m[1], d, margins))
            elif k == 'fontface':
                d = decls(m[1], r.style)
                if not d and not has_comment(r.style):
                    continue
                out.append(('fontface', d))
            else:
                out.append(m)
        return out
    return rules(model, [r for r in sheet.cssRules])


SAMPLES = None


def sample_sheets():
    global SAMPLES
    if SAMPLES is None:
        SAMPLES = []
        for path in sorted(glob.glob(os.path.join(lib.REPO, 'sheets', '*.css')) + glob.glob(os.path.join(lib.REPO, 'examples', '*.css'))):
            try:
                data = open(path, 'rb').read()
                if len(data) < 20000:
                    SAMPLES.append((os.path.basename(path), data))
            except OSError:
                pass
        # namespaces whose only use is inside :not() / an attribute selector / a universal selector (what
        # keepUsedNamespaceRulesOnly must still count as used), next to one that is not used at all
        for i, sel in enumerate(['*:not(svg|rect)', 'a:not(svg|*)', 'a:not([svg|href])', '[svg|href]', 'svg|*', 'g > *:not(svg|a).c',
                                 ':not(svg|a):not(.x)', 'b, i:not(svg|b)']):
            SAMPLES.append(('only-in-not-%d.css' % i, ('@namespace svg "http://www.w3.org/2000/svg"; @namespace un "http://unused/"; '
                                                      '%s { color: red } b { color: blue }' % sel).encode()))
            SAMPLES.append(('only-in-not-media-%d.css' % i, ('@namespace "http://d/"; @namespace svg "http://www.w3.org/2000/svg"; '
                                                            '@media print { %s { color: red } } .c:not(a) { top: 0 }' % sel).encode()))
    return SAMPLES


def one(case):
    seed, row = case
    rnd = random.Random(seed)
    c = P.cp()
    samples = sample_sheets()
    if samples and seed % 5 == 4:
        name, data = samples[(seed // 5) % len(samples)]
        src = data
        sheet = c.CSSParser(fetcher=lambda u: (None, '')).parseString(data, href='http://h/' + name)
    else:
        ast = G.gen_sheet(rnd)
        if rnd.random() < 0.5:
            # an empty rule, a duplicate declaration, an unused namespace: what the omitting preferences act on
            ast = ast + [('style', [G.gen_selector(rnd, 1)], []), ('style', [G.gen_selector(rnd, 1)],
                         [('top', [G.Comp('DIMENSION', '1px')], False), ('left', [G.Comp('NUMBER', '0')], False),
                          ('top', [G.Comp('DIMENSION', '2px')], rnd.random() < 0.3)] + (
                             # the same name !important more than once: the last !important one is the effective one
                             [('width', [G.Comp('DIMENSION', '1px')], True), ('width', [G.Comp('DIMENSION', '2px')], rnd.random() < 0.5),
                              ('width', [G.Comp('DIMENSION', '3px')], True), ('width', [G.Comp('DIMENSION', '4px')], rnd.random() < 0.3)]
                             if rnd.random() < 0.5 else []))]
            ast = [G.strip_ns(r) if not any(x[0] == 'namespace' and x[1] == 'p' for x in ast) else r for r in ast]
        src = G.render_sheet(ast, G.Layout(rnd) if seed % 2 else G.Layout(None), G.Respell(rnd) if seed % 3 == 0 else G.Plain())
        sheet = P.parse(src)
    prefs = c.ser.prefs
    try:
        prefs.useDefaults()
        m0 = G.sheet_model(sheet, comments=True)
        wanted = c.serialize.Preferences()
        apply_prefs(wanted, row)
        expected = transform(m0, sheet, row, wanted)      # (computed under the default preferences)
        apply_prefs(prefs, row)
        try:
            text = sheet.cssText
        except Exception as e:
            return 'serialising raised %s: %s with %r (sheet %r)' % (type(e).__name__, str(e)[:100], short(row), src[:200])
    finally:
        prefs.useDefaults()
    if prefs_lines(row) or wanted.validOnly:
        # line numbers are no CSS; validOnly is marked "should not be changed currently!!!" in the source: for both only
        # "serialising succeeds" is required
        return ''
    back = P.parse(text)
    d = P.diff(G.sheet_model(back, comments=False), expected)
    if d:
        return 'with %r the text %r of sheet %r re-parses differently: %s' % (short(row), text[:300], src[:300], P.show(d, 140))
    return ''


def prefs_lines(row):
    return bool(row.get('lineNumbers')) and not row.get('minified')


def short(row):
    c = P.cp()
    d = c.serialize.Preferences()
    return {k: v for k, v in row.items() if k == 'minified' or getattr(d, k) != v}


def oracle(case, _e=None):
    try:
        return one(case)
    except Exception:
        import traceback
        return 'harness: ' + traceback.format_exc()[-500:]


# ------------------------------------------------------------------ correspondence: Out.append

TYPES = {'comment': 'COMMENT', 's': 'S', 'string': 'STRING', 'uri': 'URI', 'hash': 'HASH', 'func': 'FUNCTION',
         'styletext': 'styletext', 'other': None}
VALS = ['a', 'b1', '1px', 'x y', 'z ', ',', ':', ';', '{', '}', '(', ')', '[', ']', '/', '=', '+', '>', '~', '-', '*', '\n', ' ', '\t',
        'f(', '#aabbcc', '#abc', 's t', '', 'u.png', 'a b.png', '/*c*/', '!important', '\r\n', '  ']
SP = ['', ' ', '  ', '\t', '\n', '\r\n']


def out_cases(tier, seed):
    rnd = random.Random(seed * 13 + 5)
    n = 800 if tier == 'quick' else 20000
    cases = []
    for _ in range(n):
        prefs = dict(spacer=rnd.choice(SP[:4]), listItemSpacer=rnd.choice(SP[:3]), propertyNameSpacer=rnd.choice(SP[:3]),
                     paranthesisSpacer=rnd.choice(SP[:3]), selectorCombinatorSpacer=rnd.choice(SP[:3]),
                     lineSeparator=rnd.choice(['\n', '', ' ', '\r\n', '\t', '\n\n']), indent=rnd.choice(['', ' ', '    ', '\t']),
                     keepComments=rnd.random() < 0.7, indentClosingBrace=rnd.random() < 0.5)
        level = rnd.randint(0, 3)
        ops = []
        for _ in range(rnd.randint(1, 10)):
            ty = rnd.choice(list(TYPES))
            val = rnd.choice(VALS)
            if ty in ('hash',):
                val = rnd.choice(['#aabbcc', '#abc', '#a1b2c3'])
            if ty == 'comment':
                val = rnd.choice(['/*c*/', '/* a b */', '/**/', '/*\n*/'])
            if rnd.random() < 0.1:
                val = rnd.choice(['a\nb', 'x: y;\n\nz: 1', 'p {\r\n    q: r\r\n    }', '\n\n', 'a\tb c'])
            flags = (rnd.random() < 0.85, rnd.random() < 0.15, rnd.random() < 0.1, rnd.random() < 0.1)
            ops.append((ty, flags, val))
        cases.append((prefs, level, rnd.random() < 0.2, ops))
    return cases


def pre_val(c, ty, val):
    """the text after the type-specific rewriting of Out.append's PRE step"""
    if ty == 'string':
        return c.helper.string(val)
    if ty == 'uri':
        return c.helper.uri(val)
    if ty == 'hash':
        return c.ser._hash(val)
    return val


def out_line(case):
    prefs, level, ks, ops = case
    c = P.cp()
    c.ser.prefs.minimizeColorHash = True
    words = ['out'] + [lib.enc(prefs[k]) for k in ('spacer', 'listItemSpacer', 'propertyNameSpacer', 'paranthesisSpacer',
                                                   'selectorCombinatorSpacer', 'lineSeparator', 'indent')]
    words.append(('1' if prefs['keepComments'] else '0') + ('1' if prefs['indentClosingBrace'] else '0'))
    words.append(str(level))
    words.append('1' if ks else '0')
    for ty, flags, val in ops:
        words.append('%s:%s:%s' % (ty, ''.join('1' if f else '0' for f in flags), lib.enc(pre_val(c, ty, val))))
    return ' '.join(words)


class _C:
    def __init__(self, t):
        self.cssText = t


def out_py(case):
    prefs, level, ks, ops = case
    c = P.cp()
    ser = c.serialize.CSSSerializer()
    for k, v in prefs.items():
        setattr(ser.prefs, k, v)
    ser._level = level
    out = c.serialize.Out(ser)
    for ty, flags, val in ops:
        v = _C(val) if ty == 'comment' else val
        out.append(v, TYPES[ty], space=flags[0], keepS=flags[1], indent=flags[2], alwaysS=flags[3])
    pieces = list(out.out)
    return ' '.join(lib.enc(x) for x in pieces) + ' | ' + lib.enc(out.value(keepS=ks))


def run(tier, seed):
    t0 = time.time()
    build = lib.build_and_audit(PROP)
    findings = lib.Findings(PROP)
    broken = []
    oc = out_cases(tier, seed)
    resO = corr.run('c05o', oc, out_line, out_py, None, chunk=500)
    if resO['n_mismatch']:
        c, line, e, g = resO['mismatches'][0]
        broken.append('correspondence op `out` diverges on %d inputs; first prefs=%r ops=%r: impl=%s model=%s' % (
            resO['n_mismatch'], c[0], c[3], e[:160], g[:160]))
    mc = c05o.cases(tier, seed, 650 if tier == 'quick' else 13000)
    resM = corr.run('c05omit', mc, c05o.omit_line, c05o.omit_py, c05o.skipped, chunk=100, judge=c05o.judge)
    if resM['n_mismatch']:
        c, line, e, g = resM['mismatches'][0]
        broken.append('correspondence op `omit` diverges on %d inputs; first prefs=%r sheet=%r: %s impl=%s model=%s' % (
            resM['n_mismatch'], short(c[1]) if not c[1].get('minified') else c[1], c05o.build(c)[1][:300], line[:200], e[:160], g[:160]))
    rnd = random.Random(seed * 7 + 1)
    rows = pairwise(rnd)
    n_random = 150 if tier == 'quick' else 12000
    per_row = 2 if tier == 'quick' else 40
    cases = []
    i = 0
    for row in rows:
        for _ in range(per_row):
            cases.append((seed * 100003 + i, row))
            i += 1
    for _ in range(n_random):
        cases.append((seed * 100003 + i, random_row(rnd)))
        i += 1
    res = corr.run('c05', cases, lambda c: 'numval -', lambda c: '~', oracle, chunk=40)
    for case, why in res['oracle_fail'][:8]:
        findings.add('prefs', repr(short(case[1])) + ' seed %d' % case[0], why)
    # how much of Out.append and of the declaration-block serialiser do the inputs execute (a measurement, not a verdict)
    coverage_lines = lib.modelled_code_coverage([('css_parser.serialize', 'Out.append'), ('css_parser.serialize', 'Out.value'),
                                                 ('css_parser.serialize', 'CSSSerializer.do_css_CSSStyleDeclaration'),
                                                 ('css_parser.serialize', 'CSSSerializer.do_CSSStyleSheet')],
                                                [lambda c=c: out_py(c) for c in oc[::max(1, len(oc) // 400)]] +
                                                [lambda c=c: c05o.omit_py(c) for c in mc[::max(1, len(mc) // 200)]], limit=700)
    coverage = {
        'modelled_code_line_coverage': coverage_lines,
        'evaluations': res['n'] + resO['n'] + resM['n'],
        'distinct_nontrivial': res['n'] + resO['n'] + resM['n'],
        'rule': 'a greedy pairwise-covering array over 18 boolean and 9 string-valued preferences (%d rows: every pair of values '
                'of two different preferences occurs) x %d sheets each, plus %d random points incl. useMinified, x sheets '
                'from the grammar G (half of them extended by an empty rule, duplicate declarations, an unused namespace; '
                'layouts and spellings vary) and the repository\'s sample sheets (%d): serialising must not raise and the text '
                're-parses to the model of the sheet transformed by what the preferences are documented to omit.  '
                'Correspondence: random sequences of 1-10 Out.append calls (8 types x 35 values x flags) under random '
                'spacer strings, line separators, indents, levels, then Out.value.  Correspondence `omit`: %d abstract sheets '
                '(60%% from the abstract generator, 10%% grammar G, 20%% character mutations, 10%% changed through the API) x the '
                '2^7 settings of the omission preferences and useMinified in turn: the output re-parsed and reduced equals '
                '`written` of the model; %d not compared (the text does not re-parse to the sheet even with every '
                'keep-preference at keep: escapes, malformed unknown rules)' % (
                    len(rows), per_row, n_random, len(sample_sheets()), resM['n'], resM['n_oracle_fail']),
        'traces_validated_against_impl': resO['n'] + resM['n'] - resM['n_oracle_fail'],
        'exhaustive': False,
        'distribution': {'pairwise rows': len(rows), 'preference points': len(cases), 'append sequences': resO['n'],
                         'omit sheets': resM['n'], 'omit (first 650)': c05o.distribution(mc[:650])},
        'samples': [repr(short(cases[i][1])) for i in (0, len(cases) // 2, len(cases) - 1)],
        'correspondence_mismatches': resO['n_mismatch'] + resM['n_mismatch'],
        'omission_findings_reproduced': [w for w, _src, _row, _got, ok in c05o.replay_findings() if ok],
        'oracle_failures': res['n_oracle_fail'],
    }
    assumptions = ['spacer-like preferences are strings of white space (possibly empty); a separator of other characters is text '
                   'the user asks to have inserted',
                   'lineNumbers=True prefixes every line with its number: such text is not CSS and is only required to be produced',
                   'resolveVariables / normalizedVarNames concern @variables, which the grammar G does not contain']
    return lib.finish(PROP, tier, seed, t0, build, findings, coverage, assumptions, broken)
