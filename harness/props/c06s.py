"""C06, re-entrant parses: correspondence between Model/SaveStack.lean (driver op `savestack`) and CSSParser.

A history is a forest of calls: each call is made on one of a few long-lived CSSParser objects (each with its own
parse-time raiseExceptions value); while it runs, its fetcher makes the child calls - on the same parser object or on
another - and a call may end by returning or by raising (a RuntimeError thrown by the fetcher passes through
parseString; the `finally` of the parser runs either way).  Between top-level calls the caller assigns the flag.
Observed: css_parser.log.raiseExceptions inside every call (when its fetcher starts) and after every call has ended.
"""
import random

from .. import lib


def _cp():
    import logging
    import css_parser
    css_parser.log.setLevel(logging.CRITICAL)
    return css_parser


def gen_forest(rnd, nparsers, depth, width):
    out = []
    for _ in range(rnd.randint(1, width)):
        kids = gen_forest(rnd, nparsers, depth - 1, width) if depth > 0 and rnd.random() < 0.7 else []
        out.append((rnd.randrange(nparsers), rnd.random() < 0.25, kids))
    return out


def gen_case(seed):
    rnd = random.Random(seed)
    n = rnd.randint(1, 3)
    pvs = [rnd.random() < 0.5 for _ in range(n)]
    flag = rnd.random() < 0.5
    top = []
    for call in gen_forest(rnd, n, rnd.randint(0, 4), 3):
        if rnd.random() < 0.4:
            top.append(('set', rnd.random() < 0.5))
        top.append(call)
    return (tuple(pvs), flag, tuple(top))


def events(top):
    ev = []

    def walk(call):
        p, _raises, kids = call
        ev.append('e%d' % p)
        for k in kids:
            walk(k)
        ev.append('x%d' % p)
    for item in top:
        if item[0] == 'set':
            ev.append('s%d' % int(item[1]))
        else:
            walk(item)
    return ev


def line_of(case):
    pvs, flag, top = case
    return 'savestack %s %d %s' % (''.join(str(int(b)) for b in pvs), int(flag), ','.join(events(top)))


class _Boom(RuntimeError):
    pass


def py_of(case):
    cp = _cp()
    pvs, flag, top = case
    old = cp.log.raiseExceptions
    trace = []
    try:
        cp.log.raiseExceptions = True      # parser objects remember nothing of the moment they are made (checked by varying it)
        parsers = [cp.CSSParser(raiseExceptions=pv) for pv in pvs]
        pending = []                       # stack of (children, raises) of the calls that are running

        def fetch(url):
            kids, raises, done = pending[-1]
            if not done[0]:
                done[0] = True
                trace.append(cp.log.raiseExceptions)       # inside the call
                for k in kids:
                    run(k)
                if raises:
                    raise _Boom()
            return None, 'i { top: 1px }'

        def run(call):
            p, raises, kids = call
            parsers[p].setFetcher(fetch)
            pending.append((kids, raises, [False]))
            try:
                parsers[p].parseString('@import "x.css"; a { left: 0 }', href='http://h/s.css')
            except _Boom:
                pass
            finally:
                pending.pop()
            trace.append(cp.log.raiseExceptions)           # after the call has ended
        cp.log.raiseExceptions = flag
        for item in top:
            if item[0] == 'set':
                cp.log.raiseExceptions = item[1]
                trace.append(cp.log.raiseExceptions)
            else:
                run(item)
    finally:
        cp.log.raiseExceptions = old
    return ''.join(str(int(bool(b))) for b in trace) + ';' + ','.join('0' for _ in pvs)


def oracle(case, _e=None):
    """the property itself: after every top-level call the flag is what the caller last set; inside a call it is the
    parser's parse-time value"""
    pvs, flag, top = case
    got = py_of(case).split(';')[0]
    exp = []
    cur = flag

    def walk(call):
        p, _r, kids = call
        exp.append(pvs[p])
        for k in kids:
            walk(k)
            exp.append(pvs[p])
    i = 0
    for item in top:
        if item[0] == 'set':
            cur = item[1]
            exp.append(cur)
        else:
            walk(item)
            exp.append(cur)
    exps = ''.join(str(int(b)) for b in exp)
    # (after a child call has ended the flag is the parent's parse-time value again - which the walk above writes after
    # each child - and after a top-level call the caller's)
    if got != exps:
        return 'flags observed %s, expected %s for parsers %r, caller flag %r, history %s' % (got, exps, pvs, flag, ','.join(events(top)))
    return ''


def run(tier, seed):
    from .. import corr
    n = 1500 if tier == 'quick' else 30000
    cases = [gen_case(seed * 1000003 + i) for i in range(n)]
    res = corr.run('c06s', cases, line_of, py_of, oracle, chunk=300)
    depth = {}
    for c in cases:
        d, m = 0, 0
        for e in events(c[2]):
            d += 1 if e[0] == 'e' else -1 if e[0] == 'x' else 0
            m = max(m, d)
        depth[m] = depth.get(m, 0) + 1
    return res, {'histories': n, 'by_max_depth': depth,
                 're-entered (a parser entered while active)': sum(1 for c in cases if _reentered(c[2]))}


def _reentered(top):
    act = []
    for e in events(top):
        if e[0] == 'e':
            if int(e[1:]) in act:
                return True
            act.append(int(e[1:]))
        elif e[0] == 'x':
            act.pop()
    return False
