"""Correspondence for the value-grammar model (`vparse`): the model, run on the kinds of the real tokenizer's
tokens, against the real PropertyValue (verdict, and the structure read off its seq)."""
import random

from .. import corr, lib, pipeline as P

LEX = {
    'i': ['a', 'serif', 'x-y', 'inherit'], 's': ['"s"', "'t u'"], 'u': ['U+26', 'u+0-7F'], 'n': ['0', '12', '-3', '+1.5', '.5'],
    'p': ['50%', '-1%'], 'd': ['1px', '2em', '-3deg', '1.5s'], 'r': ['url(x)', 'url("a b")'], 'c': ['#fff', '#a1b2c3', 'red', 'transparent'],
    'f': ['f(', 'attr(', 'translate('], 'g': ['rgb(', 'hsl('], 'G': ['rgba(', 'hsla('], 'k': ['calc('], ')': [')'], ',': [','],
    '/': ['/'], '+': ['+'], '-': ['-'], '*': ['*'], 'w': [' ', '\n', '  '], 'm': ['/*c*/'], 'o': ['(', '[', ']', ':', '=', '@x', '#ggg', '{', '}', '<', '>'],
}


def classify(tok):
    from css_parser.helper import normalize
    import css_parser.css.value as V
    t, v = tok[0], tok[1]
    if t == 'IDENT':
        return 'c' if normalize(v) in V.ColorValue.COLORS else 'i'
    if t == 'HASH':
        return 'c' if V.reHexcolor.match(v) else 'o'
    if t == 'FUNCTION':
        n = normalize(v)
        if n in ('rgb(', 'hsl('):
            return 'g'
        if n in ('rgba(', 'hsla('):
            return 'G'
        if n == 'calc(':
            return 'k'
        return 'f'
    return {'STRING': 's', 'UNICODE-RANGE': 'u', 'NUMBER': 'n', 'PERCENTAGE': 'p', 'DIMENSION': 'd', 'URI': 'r', 'S': 'w',
            'COMMENT': 'm'}.get(t) or ({')': ')', ',': ',', '/': '/', '+': '+', '-': '-', '*': '*'}.get(v) if t == 'CHAR' else None) or 'o'


def kinds_of(text):
    """(a RATIO token - NUMBER / NUMBER before ')' - is the division it is inside calc())"""
    import re
    from css_parser.tokenize2 import Tokenizer
    out = []
    for t in Tokenizer().tokenize(text):
        if t[0] == 'RATIO':
            out.extend('/' if p == '/' else ('n' if p.strip() else 'w') for p in re.findall(r'[0-9]+|/|\s+', t[1]))
        else:
            out.append(classify(t))
    return ''.join(out)


# ---- generation: derivations of the grammar under random layout, then mutations

def gap(rnd, must=False):
    r = rnd.random()
    if r < 0.15:
        return rnd.choice(['w', 'm', 'wm', 'mw', 'wmw', 'mm', 'ww'] if not must else ['w', 'wm', 'mw', 'wmw', 'ww'])
    if must or r < 0.5:
        return 'w'
    return ''


def g_term(rnd, depth=0):
    r = rnd.random()
    if r < 0.55 or depth > 2:
        return rnd.choice('isunpdrc')
    if r < 0.75:
        n = rnd.randint(0, 3)
        out = 'f' + gap(rnd)
        for i in range(n):
            if i:
                out += rnd.choice([gap(rnd) + ',' + gap(rnd), gap(rnd, True)])
            out += g_term(rnd, depth + 1)
        return out + gap(rnd) + ')'
    if r < 0.87:
        al = rnd.random() < 0.4
        n = 4 if al else 3
        out = ('G' if al else 'g') + gap(rnd)
        for i in range(n):
            if i:
                out += rnd.choice([gap(rnd) + ',' + gap(rnd), gap(rnd, True)])
            out += rnd.choice('np')
        return out + gap(rnd) + ')'
    out = 'k' + gap(rnd) + rnd.choice('npd')
    for _ in range(rnd.randint(0, 3)):
        op = rnd.choice('+-*/')
        if op in '+-':
            out += gap(rnd, True) + op + gap(rnd, True)
        else:
            out += gap(rnd) + op + gap(rnd)
        out += rnd.choice('npd')
    return out + gap(rnd) + ')'


def g_value(rnd):
    out = gap(rnd) + g_term(rnd)
    for _ in range(rnd.randint(0, 3)):
        out += rnd.choice([gap(rnd, True), gap(rnd) + ',' + gap(rnd), gap(rnd) + '/' + gap(rnd)]) + g_term(rnd)
    return out + gap(rnd)


def mutate(rnd, w):
    w = list(w)
    for _ in range(rnd.randint(1, 2)):
        i = rnd.randrange(len(w) + 1)
        r = rnd.random()
        if r < 0.4 and w:
            del w[min(i, len(w) - 1)]
        elif r < 0.8:
            w.insert(i, rnd.choice('isunpdrcfgGk),/+-*wmo'))
        elif w:
            w[min(i, len(w) - 1)] = rnd.choice('isunpdrcfgGk),/+-*wmo')
    return ''.join(w)


def text_of(rnd, w):
    """a text whose tokens have the wanted kinds (adjacent lexemes are separated where they would merge: then the
    kinds actually tokenized are used)"""
    return ''.join(rnd.choice(LEX[ch]) for ch in w)


def gen_cases(tier, seed):
    rnd = random.Random(seed * 31 + 2)
    n = 1500 if tier == 'quick' else 30000
    cases = []
    for i in range(n):
        w = g_value(rnd)
        if i % 3 == 2:
            w = mutate(rnd, w)
        text = text_of(rnd, w)
        kinds = kinds_of(text)
        if kinds:
            cases.append((text, kinds, i % 3 != 2 and kinds == w))
    return cases


def real_show(pv):
    def comp(v):
        n = v.__class__.__name__
        items = [i for i in v.seq if i.value.__class__.__name__ != 'CSSComment']
        if n == 'CSSCalc':
            out = 'k('
            for i in items[1:]:
                if i.type == 'S' or (i.type == 'CHAR' and i.value == ')'):
                    continue
                out += i.value if i.type == 'CHAR' else leaf(i.value)
            return out + ')'
        if n in ('CSSFunction', 'ColorValue') and items and items[0].type == 'FUNCTION':
            head = 'f(' if n == 'CSSFunction' else ('G(' if items[0].value in ('rgba(', 'hsla(') else 'g(')
            out, comma = head, False
            for i in items[1:]:
                if i.type == 'CHAR' and i.value == ',':
                    comma = True
                elif i.type == 'CHAR' and i.value == ')':
                    pass
                else:
                    out += (',' if comma else ' ') + comp(i.value)
                    comma = False
            return out + ')'
        return leaf(v)

    def leaf(v):
        n = v.__class__.__name__
        if n == 'ColorValue':
            return 'c'
        if n == 'URIValue':
            return 'r'
        if n == 'DimensionValue':
            return {'NUMBER': 'n', 'PERCENTAGE': 'p', 'DIMENSION': 'd'}[v.type]
        return {'IDENT': 'i', 'STRING': 's', 'UNICODE-RANGE': 'u'}.get(v.type, '?' + str(v.type))
    out, sep = '', ' '
    for i in pv.seq:
        if i.value.__class__.__name__ == 'CSSComment':
            continue
        if i.type == 'operator':
            sep = i.value
        else:
            out += sep + comp(i.value)
            sep = ' '
    return out


def py_of(case):
    c = P.cp()
    pv = c.css.PropertyValue(case[0])
    if not pv.wellformed:
        return 'bad'
    return real_show(pv)


def oracle(case, e):
    if case[2] and e == 'bad':
        return 'the value %r is derivable from the grammar and is rejected' % case[0]
    return ''


def judge(case, impl, model):
    """the model is exact on the derivations of the grammar and rejects everything else; outside the grammar the
    implementation is more lenient in places (a colour function with a component missing, a sub-value that failed
    inside a function): there only `model accepts => implementation builds the same value` is compared"""
    if model == 'bad' and not case[2]:
        return False
    return impl != model


def run_corr(tier, seed, broken, findings):
    cases = gen_cases(tier, seed)
    res = corr.run('c02v', cases, lambda c: 'vparse ' + c[1], py_of, oracle, chunk=500, judge=judge)
    if res['n_mismatch']:
        c, line, e, g = res['mismatches'][0]
        broken.append('correspondence op `vparse` diverges on %d inputs; first %r (%s): impl=%r model=%r' % (
            res['n_mismatch'], c[0], c[1], e, g))
    for case, why in res['oracle_fail'][:5]:
        findings.add('value', case[0], why)
    return {'n': res['n'], 'n_mismatch': res['n_mismatch'], 'distinct': len(set(c[1] for c in cases)),
            'samples': [repr(cases[i][:2]) for i in (0, len(cases) // 2, len(cases) - 1)], 'mismatches': res['mismatches']}
