"""C08 — tokenizing is total, lossless and reports true source positions.

Proof: lean/CssVerif/Props/C08.lean (about the model, instantiated with the
regenerated tables).  Tie: `tok` op, same texts to Tokenizer.tokenize and to the
model.  Search: direct oracle on the implementation (no Lean involved).
"""
import itertools
import random
import time

from .. import corr, lexgen, lib

lib.use_repo()

PROP = 'C08'
COMPLETIONS = {'', '*/', '"', "'", ')', '")', "')"}


def line_of(case):
    text, full, comments = case
    return 'tok %s%s %s' % ('F' if full else 'S', 'C' if comments else 'N', lib.enc(text))


def _tokens(text, full, comments):
    from css_parser.tokenize2 import Tokenizer
    return list(Tokenizer(doComments=comments).tokenize(text, fullsheet=full))


def py_of(case):
    text, full, comments = case
    toks = _tokens(text, full, comments)
    return 'done ' + ' '.join('%s:%s:%d:%d' % (t[0], lib.enc(t[1]), t[2], t[3]) for t in toks)


def line_col(prefix):
    line = 1 + prefix.count('\n')
    col = len(prefix) - (prefix.rfind('\n') + 1) + 1
    return line, col


def oracle(case, _expected=None):
    """the property itself, evaluated on the implementation; '' = holds"""
    text, full, comments = case
    toks = _tokens(text, full, comments)
    if full:
        if not toks or toks[-1][0] != 'EOF':
            return 'no EOF token in full-sheet mode'
        body = toks[:-1]
    else:
        body = toks
    if any(t[0] == 'EOF' for t in body):
        return 'EOF token inside the stream'
    if not comments:
        return ''  # the statement is about the token stream with comments kept; tie = correspondence only
    if '\\' in text:
        return ''  # positions for escaped texts are decided through the model (see check)
    joined = ''.join(t[1] for t in body)
    if not joined.startswith(text):
        return 'token values do not reproduce the text: %r' % joined[:60]
    extra = joined[len(text):]
    if extra not in COMPLETIONS or (extra and not full):
        return 'unexpected completion %r' % extra
    if extra and body[-1][0] not in ('COMMENT', 'STRING', 'URI'):
        return 'completion %r after a %s token' % (extra, body[-1][0])
    bom = len(body[0][1]) if body and body[0][0] == 'BOM' else 0
    off = 0
    for t in body:
        start = max(off - bom, 0) if t[0] != 'BOM' else 0
        exp = line_col(text[bom:bom + start]) if t[0] != 'BOM' else (1, 1)
        if (t[2], t[3]) != exp:
            return 'token %r at offset %d reports %d:%d, source position is %d:%d' % (t[0], off, t[2], t[3], exp[0], exp[1])
        off += len(t[1])
    return ''


def gen_cases(tier, seed):
    rnd = random.Random(seed)
    cases = []
    dist = {}
    n_exh = 4 if tier == 'quick' else 5
    alpha = lexgen.ALPHABET[:24]
    for n in range(0, n_exh + 1):
        for tup in itertools.product(alpha, repeat=n):
            s = ''.join(tup)
            cases.append((s, True, True))
            if n <= n_exh - 1:
                cases.append((s, False, True))
            if n <= 3:
                cases.append((s, True, False))
    dist['exhaustive_len_le'] = n_exh
    dist['exhaustive'] = len(cases)
    # code points as one-character texts
    if tier == 'quick':
        cps = set(range(0, 0x300)) | {0xfe, 0xff, 0xef, 0xbb, 0xbf, 0xfeff, 0xd800, 0xdfff, 0xffff, 0x10000, 0x10ffff}
        cps |= set(rnd.randrange(0x110000) for _ in range(3000))
    else:
        cps = range(0x110000)
    for c in cps:
        cases.append((chr(c), True, True))
        if tier != 'quick' or c < 0x300:
            cases.append(('a' + chr(c) + '(', False, True))
    dist['codepoints'] = len(cps)
    # BOM / @charset preludes
    for pre in ['\xfe\xff', '\xef\xbb\xbf', '﻿', '']:
        for rest in ['@charset "x";', '@charset  "x"', '@charset', 'a\n@charset b', '@CHARSET ', '\n', 'a', '@charset \n"']:
            for full in (True, False):
                cases.append((pre + rest, full, True))
    # random longer texts
    n_rand = 6000 if tier == 'quick' else 120000
    for i in range(n_rand):
        esc = rnd.random() < 0.6
        s = lexgen.soup(rnd, rnd.randint(1, 14 if tier == 'quick' else 40), esc=esc)
        cases.append((s, rnd.random() < 0.6, rnd.random() < 0.85))
    dist['random'] = n_rand
    return cases, dist


def run(tier, seed):
    t0 = time.time()
    build = lib.build_and_audit(PROP)
    findings = lib.Findings(PROP)
    cases, dist = gen_cases(tier, seed)
    res = corr.run('c08', cases, line_of, py_of, oracle, chunk=4000)
    broken = []
    for case, why in res['oracle_fail']:
        findings.add('oracle', repr(case), why)
    if res['n_mismatch']:
        c, line, exp, got = res['mismatches'][0]
        broken.append('correspondence op `tok` diverges on %d cases; first: %r impl=%s model=%s' % (
            res['n_mismatch'], c, exp[:200], got[:200]))
        # search: the model's positions are proved correct w.r.t. its own raw spans; where types and
        # values agree but positions differ, the implementation reports a wrong position.
        for c, line, exp, got in res['mismatches']:
            why = oracle(c)
            if why:
                findings.add('oracle', repr(c), why)
                continue
            e = [x.split(':') for x in exp.split()[1:]]
            g = [x.split(':') for x in got.split()[1:]]
            if [x[:2] for x in e] == [x[:2] for x in g] and e != g:
                bad = next((a, b) for a, b in zip(e, g) if a != b)
                if bad[0][0] != 'EOF':
                    findings.add('position', repr(c), 'token %s reports %s:%s, model (proved) %s:%s' % (
                        bad[0][0], bad[0][2], bad[0][3], bad[1][2], bad[1][3]))
    toktypes = {}
    for c in cases[:: max(1, len(cases) // 3000)]:
        for t in _tokens(*c):
            toktypes[t[0]] = toktypes.get(t[0], 0) + 1
    distinct = len(set(cases))
    # how much of the code the model transcribes do the correspondence inputs execute (a measurement, not a verdict)
    _sample = cases[::max(1, len(cases) // 3000)]
    coverage_lines = lib.modelled_code_coverage([('css_parser.tokenize2', 'Tokenizer.tokenize'), ('css_parser.tokenize2', 'has_at'), ('css_parser.tokenize2', 'suffix_eq')], [lambda c=c: py_of(c) for c in _sample], limit=3005)
    coverage = {
        'modelled_code_line_coverage': coverage_lines,
        'evaluations': res['n'],
        'distinct_nontrivial': distinct,
        'rule': 'cases = (text, fullsheet, doComments); exhaustive over all strings up to the stated length on a '
                '24-character alphabet, one-character texts per code point, BOM/@charset preludes, seeded random '
                'lexeme soup; distinct = distinct case tuples (every text is tokenized by both sides and all '
                '(type, value, line, col) compared; the direct oracle runs on the implementation for each)',
        'traces_validated_against_impl': res['n'],
        'exhaustive': True,
        'distribution': dist,
        'token_types_in_sample': toktypes,
        'samples': [list(cases[i]) for i in (5, 777, len(cases) // 2, len(cases) - 1)],
        'correspondence_mismatches': res['n_mismatch'],
        'oracle_failures': res['n_oracle_fail'],
    }
    assumptions = [
        'CPython `re` implements ordered-alternation greedy backtracking as modelled by CssVerif.Re.ms '
        '(differentially tested per production in C09)',
        'EOF has no start in the source and is excluded from the position clause',
    ]
    return lib.finish(PROP, tier, seed, t0, build, findings, coverage, assumptions, broken)
