"""C17 — numeric and colour values keep their meaning.

Proof: lean/CssVerif/Props/C17.lean.  Tie: (G) named colours, zero-length units, hex regex
regenerated; `num` op = DimensionValue parse + do_css_Value under both omitLeadingZero settings on
the bounded grid; `hexc` / `hash` ops on all #rgb and shortenable #rrggbb.
Search: exact-arithmetic oracles (fractions) evaluated on the real objects.
"""
import itertools
import random
import time
from fractions import Fraction

from .. import corr, lib

lib.use_repo()
PROP = 'C17'
MODEL_FIXED = '1'      # model variant matching /repo (see lean/CssVerif/Model/Number.lean `fixedRounding`)

UNITS = ['', '%', 'px', 'em', 'ex', 'cm', 'mm', 'in', 'pt', 'pc', 'deg', 'rad', 's', 'ms', 'hz', 'x', 'PX', 'Em']
ZERO_UNITS = {'cm', 'mm', 'in', 'px', 'pc', 'pt', 'em', 'ex'}


def _cp():
    import css_parser
    import logging
    css_parser.log.setLevel(logging.FATAL)
    return css_parser


def ser_num(text, omit):
    cp = _cp()
    v = cp.css.DimensionValue(text)
    old = cp.ser.prefs.omitLeadingZero
    cp.ser.prefs.omitLeadingZero = omit
    try:
        return v.cssText, v
    finally:
        cp.ser.prefs.omitLeadingZero = old


def line_of(c):
    if c[0] == 'num':
        return 'num %s %d %s' % (MODEL_FIXED, 1 if c[2] else 0, lib.enc(c[1].lower()))
    if c[0] == 'hex':
        return 'hexc %s' % lib.enc(c[1])
    if c[0] == 'hash':
        return 'hash %d %s' % (1 if c[2] else 0, lib.enc(c[1]))
    raise AssertionError(c)


def py_of(c):
    cp = _cp()
    if c[0] == 'num':
        return lib.enc(ser_num(c[1], c[2])[0])
    if c[0] == 'hex':
        v = cp.css.ColorValue(c[1])
        if not v.wellformed:
            return '~'
        return '%d,%d,%d' % (v.red, v.green, v.blue)
    if c[0] == 'hash':
        old = cp.ser.prefs.minimizeColorHash
        cp.ser.prefs.minimizeColorHash = c[2]
        try:
            return lib.enc(cp.css.ColorValue(c[1]).cssText)
        finally:
            cp.ser.prefs.minimizeColorHash = old
    raise AssertionError(c)


_REUSED = None


def lit_value(text):
    """exact value and unit of a numeric literal as written"""
    t = text
    i = 0
    if t[:1] in '+-':
        i = 1
    j = i
    while j < len(t) and (t[j].isdigit() or t[j] == '.'):
        j += 1
    return Fraction(t[:j] if t[i:j][:1] != '.' else t[:i] + '0' + t[i:j]), t[j:]


def oracle(c, _e=None):
    cp = _cp()
    if c[0] == 'num':
        text, omit = c[1], c[2]
        exact, unit = lit_value(text)
        out, v = ser_num(text, omit)
        # parsed value and unit
        if abs(Fraction(v.value) - exact) > Fraction(1, 10 ** 12) * max(1, abs(exact)):
            return 'parsed value %r differs from the literal %s' % (v.value, text)
        if (v.dimension or '') != unit.lower():
            return 'parsed unit %r, literal has %r' % (v.dimension, unit)
        # re-parse of the serialisation
        back = cp.css.DimensionValue(out)
        if not back.wellformed:
            return 'serialised %r does not re-parse' % out
        if abs(Fraction(back.value) - exact) > Fraction(1, 2 * 10 ** 6) + Fraction(1, 10 ** 12):
            return 'serialised %r re-parses to %r: differs from %s by more than 0.5e-6' % (out, back.value, text)
        bu = back.dimension or ''
        if bu != unit.lower() and not (bu == '' and unit.lower() in ZERO_UNITS and back.value == 0):
            return 'serialised %r lost the unit %r' % (out, unit)
        # the same text assigned to a value object that held another number before (a long-lived object per worker
        # process): it must report what a fresh object reports
        global _REUSED
        prev = _REUSED[1] if _REUSED else None
        if _REUSED is None:
            _REUSED = [cp.css.DimensionValue('1.5em'), '1.5em']
        r = _REUSED[0]
        r.cssText = text
        _REUSED[1] = text
        old = cp.ser.prefs.omitLeadingZero
        cp.ser.prefs.omitLeadingZero = omit
        try:
            got, want = (r.type, r.value, r.dimension, r.cssText), (v.type, v.value, v.dimension, v.cssText)
        finally:
            cp.ser.prefs.omitLeadingZero = old
        if got != want:
            return 'a DimensionValue holding %r and then assigned cssText=%r reports %r, a fresh one %r' % (
                prev or '1.5em', text, got, want)
        return ''      # (the fixpoint clause belongs to C03 and is checked there)
    if c[0] == 'hex':
        v = cp.css.ColorValue(c[1])
        h = c[1][1:]
        exp = tuple(int(x * 2, 16) for x in h) if len(h) == 3 else tuple(int(h[i:i + 2], 16) for i in (0, 2, 4))
        if (v.red, v.green, v.blue, v.alpha) != exp + (1.0,):
            return '%s reports %r, CSS3 gives %r' % (c[1], (v.red, v.green, v.blue, v.alpha), exp + (1.0,))
        return ''
    if c[0] == 'hash':
        old = cp.ser.prefs.minimizeColorHash
        cp.ser.prefs.minimizeColorHash = c[2]
        try:
            out = cp.css.ColorValue(c[1]).cssText
        finally:
            cp.ser.prefs.minimizeColorHash = old
        a, b = cp.css.ColorValue(c[1]), cp.css.ColorValue(out)
        if (a.red, a.green, a.blue, a.alpha) != (b.red, b.green, b.blue, b.alpha):
            return 'serialising %s as %s changes the components' % (c[1], out)
        return ''
    if c[0] == 'fn':
        return oracle_fn(c[1])
    if c[0] == 'name':
        v = cp.css.ColorValue(c[1])
        exp = c[2]
        if (v.red, v.green, v.blue, round(v.alpha * 1000)) != exp:
            return 'colour name %s reports %r, CSS3 gives %r' % (c[1], (v.red, v.green, v.blue, v.alpha), exp)
        return ''
    return ''


def hsl_exact(h, s, l):
    """CSS3 Color §4.2.4 algorithm over exact fractions"""
    h = (h % 360) / Fraction(360)
    s = min(max(s, 0), 1)
    l = min(max(l, 0), 1)
    m2 = l * (s + 1) if l <= Fraction(1, 2) else l + s - l * s
    m1 = l * 2 - m2

    def hue(m1, m2, h):
        if h < 0:
            h += 1
        if h > 1:
            h -= 1
        if h * 6 < 1:
            return m1 + (m2 - m1) * h * 6
        if h * 2 < 1:
            return m2
        if h * 3 < 2:
            return m1 + (m2 - m1) * (Fraction(2, 3) - h) * 6
        return m1
    return hue(m1, m2, h + Fraction(1, 3)), hue(m1, m2, h), hue(m1, m2, h - Fraction(1, 3))


def oracle_fn(spec):
    """spec = (kind, args as strings, alpha or None)"""
    cp = _cp()
    kind, args, alpha = spec
    text = '%s(%s%s)' % (kind + ('a' if alpha is not None else ''), ', '.join(args), '' if alpha is None else ', ' + alpha)
    v = cp.css.ColorValue(text)
    if not v.wellformed:
        return '%s is not accepted' % text
    if kind == 'rgb':
        exp = []
        for a in args:
            x = Fraction(a.rstrip('%'))
            x = x * 255 / 100 if a.endswith('%') else x
            exp.append(min(max(x, 0), 255))
    else:
        hh, ss, ll = Fraction(args[0]), Fraction(args[1].rstrip('%')) / 100, Fraction(args[2].rstrip('%')) / 100
        exp = [x * 255 for x in hsl_exact(hh, ss, ll)]
    got = (v.red, v.green, v.blue)
    for g, e in zip(got, exp):
        if abs(Fraction(g) - e) >= 1:
            return '%s reports %r, CSS3 gives (%s)' % (text, got, ', '.join('%.3f' % float(e) for e in exp))
        if not (0 <= g <= 255):
            return '%s reports component %r outside 0..255' % (text, g)
    ea = Fraction(1) if alpha is None else min(max(Fraction(alpha), 0), 1)
    if abs(Fraction(v.alpha) - ea) > Fraction(1, 10 ** 9):
        return '%s reports alpha %r, CSS3 gives %s' % (text, v.alpha, float(ea))
    return ''


def gen_cases(tier, seed):
    rnd = random.Random(seed)
    cases = []
    ints = ['', '0', '5', '00', '07', '12', '99', '000', '001', '010', '123', '999']
    fracs = [None, '0', '5', '00', '05', '50', '25', '000', '125', '500', '9995', '99995', '999995', '9999995',
             '0000001', '0000005', '0000004', '1234567', '5000000', '0000010', '4999999', '9999994', '123456']
    if tier != 'quick':
        ints += ['%d' % i for i in range(0, 1000, 37)] + ['%03d' % i for i in range(0, 1000, 41)]
        fracs += ['%07d' % rnd.randrange(10 ** 7) for _ in range(60)] + ['%d' % rnd.randrange(10 ** k) for k in range(1, 8) for _ in range(6)]
    n = 0
    for sign in ['', '+', '-']:
        for ip in ints:
            for fp in fracs:
                if ip == '' and fp is None:
                    continue
                lit = sign + ip + ('' if fp is None else '.' + fp)
                for unit in (UNITS if tier != 'quick' else rnd.sample(UNITS, 5) + ['', 'px']):
                    for omit in (False, True):
                        cases.append(('num', lit + unit, omit))
                n += 1
    dist = {'numeric_literals': n, 'number_cases': len(cases)}
    hexd = '0123456789abcdefABCDEF'
    low = '0123456789abcdef'
    for t in itertools.product(low, repeat=3):
        cases.append(('hex', '#' + ''.join(t)))
        s = '#' + ''.join(x * 2 for x in t)
        cases.append(('hex', s))
        cases.append(('hash', s, True))
        cases.append(('hash', s, False))
    for _ in range(2000 if tier == 'quick' else 20000):
        s = '#' + ''.join(rnd.choice(hexd) for _ in range(6))
        cases.append(('hex', s))
        cases.append(('hash', s, True))
    dist['hex_cases'] = len(cases) - dist['number_cases']
    return cases, dist


def gen_oracle_only(tier, seed):
    rnd = random.Random(seed + 3)
    out = []
    # named colours against the hand-pinned CSS3 table (read from the Lean Spec file)
    import re
    spec = open(lib.LEAN + '/CssVerif/Spec/Colors.lean').read()
    for m in re.finditer(r'/- (\w+) -/ \{ name := \[[^\]]*\], r := (\d+), g := (\d+), b := (\d+), alpha1000 := (\d+) \}', spec):
        n = m.group(1)
        exp = tuple(int(x) for x in m.groups()[1:])
        out.append(('name', n, exp))
        out.append(('name', n.upper(), exp))
    ints = ['0', '1', '127', '128', '255', '256', '300', '-5', '-1', '50', '12']
    pcts = ['0%', '50%', '100%', '33%', '150%', '-10%', '0.5%', '99.9%', '12.5%']
    for a in itertools.product(ints, repeat=3):
        if tier == 'quick' and rnd.random() > 0.12:
            continue
        out.append(('fn', ('rgb', a, None)))
    for a in itertools.product(pcts, repeat=3):
        if tier == 'quick' and rnd.random() > 0.15:
            continue
        out.append(('fn', ('rgb', a, rnd.choice([None, '0', '.5', '1', '2', '-1']))))
    hs = ['0', '30', '60', '120', '180', '240', '300', '359', '360', '-60', '480', '7']
    for h in hs:
        for s in ['0%', '25%', '50%', '91%', '100%', '150%']:
            for l in ['0%', '10%', '30%', '43%', '50%', '70%', '90%', '100%', '120%']:
                out.append(('fn', ('hsl', (h, s, l), rnd.choice([None, None, '.3', '0', '1', '1.5', '-0.5', '2']))))
    return out


def run(tier, seed):
    t0 = time.time()
    build = lib.build_and_audit(PROP)
    findings = lib.Findings(PROP)
    cases, dist = gen_cases(tier, seed)
    res = corr.run('c17', cases, line_of, py_of, oracle, chunk=4000)
    extra = gen_oracle_only(tier, seed)
    res2 = corr.run('c17o', extra, lambda c: 'numval -', lambda c: '~', oracle, chunk=300)
    broken = []
    for case, why in res['oracle_fail'] + res2['oracle_fail']:
        findings.add(case[0], repr(case[1:]), why)
    if res['n_mismatch']:
        c, line, e, g = res['mismatches'][0]
        broken.append('correspondence ops num/hexc/hash diverge on %d cases; first %r impl=%s model=%s' % (
            res['n_mismatch'], c, lib.dec(e) if e not in ('~',) and ',' not in e else e,
            lib.dec(g) if g not in ('~',) and ',' not in g else g))
    # how much of the code the model transcribes do the correspondence inputs execute (a measurement, not a verdict)
    _sample = cases[::max(1, len(cases) // 2000)]
    coverage_lines = lib.modelled_code_coverage([('css_parser.serialize', 'CSSSerializer.do_css_Value'), ('css_parser.serialize', 'CSSSerializer._strip_zeros'), ('css_parser.serialize', 'CSSSerializer._hash'), ('css_parser.css.value', 'DimensionValue._setCssText')], [lambda c=c: py_of(c) for c in _sample], limit=2005)
    findings.probe_known(lambda f: bool(oracle(tuple(f['case']))))
    coverage = {
        'modelled_code_line_coverage': coverage_lines,
        'evaluations': res['n'] + res2['n'],
        'distinct_nontrivial': len(set(cases)) + len(extra),
        'rule': 'numbers: sign x integer part (0-3 digits incl. leading zeros) x fraction (0-7 digits incl. the '
                'rounding boundaries) x units x omitLeadingZero, each parsed by DimensionValue and serialised by '
                'do_css_Value on both sides; colours: all 4096 #rgb, all 4096 shortenable #rrggbb, random #rrggbb, '
                'x minimizeColorHash; implementation-only oracles in exact fractions: all colour names (both cases) '
                'against the hand-pinned CSS3 table, rgb()/rgba() integer and percentage grids, hsl()/hsla() grid',
        'traces_validated_against_impl': res['n'],
        'implementation_only_oracle_cases': res2['n'],
        'exhaustive': True,
        'distribution': dist,
        'samples': [repr(cases[i]) for i in (7, len(cases) // 3, len(cases) - 1)] + [repr(extra[-1])],
        'correspondence_mismatches': res['n_mismatch'],
        'oracle_failures': res['n_oracle_fail'] + res2['n_oracle_fail'],
        'partial_theorems': ['hsl()/hsla() conversion (colorsys, floating point) is not modelled in Lean: decided by the '
                             'exact-fraction oracle with tolerance < 1 per component'],
    }
    assumptions = ["'%f' % x prints the exact binary value of the double rounded to 6 places (ties to even); Python "
                   'float(str) is the correctly rounded nearest double — both modelled exactly over unbounded integers',
                   'a percentage component maps to 255*p/100 with any rounding (|component - exact| < 1)']
    return lib.finish(PROP, tier, seed, t0, build, findings, coverage, assumptions, broken)
