"""C01 — parsing any text terminates and never raises.

Proof: lean/CssVerif/Props/C01.lean (totality of the modelled layers: tokenizer, boundary finder, statement and
declaration loops, import loading, for inputs of any length).  Search: structured fuzzing of the real parser —
token soup, every prefix of valid sheets, unbalanced / truncated constructs, pathological repetitions (with a
growth check on the running time), arbitrary code points — x {validate} x {parseComments} x {parseString,
parseStyle}, each parse under a CPU limit, then reading cssText.
"""
import random
import signal
import time

from .. import lib, lexgen, junkgen, selgen

lib.use_repo()
PROP = 'C01'
LIMIT_S = 10


def _cp():
    import css_parser
    import logging
    css_parser.log.setLevel(logging.FATAL)
    css_parser.log.raiseExceptions = False
    return css_parser


class Timeout(Exception):
    pass


def _alarm(signum, frame):
    raise Timeout()


def parse_one(text, validate, comments, kind, fetch='text'):
    """returns '' or a description of what went wrong; also the CPU seconds used"""
    cp = _cp()
    fetchers = {'text': lambda u: (None, 'i { top: 1px } @import "j.css";'), 'none': lambda u: None,
                'bytes': lambda u: ('utf-8', b'\xff\xfe i {'), 'weird': lambda u: (1, 2, 3), 'num': lambda u: 7,
                'unknown-enc': lambda u: ('x-nope', b'a{}'), 'oserror': None,
                # whatever a fetcher returns: other shapes, labels that are no text encoding, wrong types
                'rot13': lambda u: ('rot13', b'a{}'), 'int-content': lambda u: (None, 123), 'list-content': lambda u: (None, ['a']),
                'int-enc': lambda u: (123, b'a{}'), 'bytes-enc': lambda u: (b'utf-8', b'a{}'), 'bool-enc': lambda u: (True, b'a{}'),
                'float-content': lambda u: ('utf-8', 5.5), 'tuple-enc': lambda u: ((1, 2), b'a{}'), 'triple': lambda u: (None, 'a{}', 1),
                'bytearray': lambda u: (None, bytearray(b'i{top:0}')), 'dict': lambda u: {'a': 1}, 'str': lambda u: 'a{}',
                # a server that answers every URL with a sheet importing yet another URL (never the same one twice)
                'deepening': lambda u: (None, '@import "b/a.css"; i { top: 1px }'),
                'deepening-bytes': lambda u: ('utf-8', b'@import url(c/d.css) print; i { top: 1px }')}

    def oserr(u):
        raise OSError('x')
    fetchers['oserror'] = oserr
    p = cp.CSSParser(fetcher=fetchers[fetch], parseComments=comments, validate=validate)
    signal.signal(signal.SIGALRM, _alarm)
    signal.alarm(LIMIT_S)
    t0 = time.process_time()
    try:
        if kind == 'sheet':
            obj = p.parseString(text, href='http://h/s.css')
        else:
            obj = p.parseStyle(text)
        out = obj.cssText
        if kind == 'sheet':
            for r in obj.cssRules:
                r.cssText
                getattr(r, 'selectorText', None)
        if out is None and kind == 'sheet':
            return 'cssText is None', time.process_time() - t0
    except Timeout:
        return 'no result after %d s of CPU' % LIMIT_S, LIMIT_S
    except (UnicodeError, LookupError) as e:       # (LookupError: unknown encoding label or no text encoding)
        if isinstance(text, bytes):
            return '', time.process_time() - t0
        return 'raised %s' % type(e).__name__, time.process_time() - t0
    except ValueError as e:
        # byte input labelled with the css codec itself: refused by the codec, a decoding error
        if isinstance(text, bytes) and 'css not allowed' in str(e):
            return '', time.process_time() - t0
        return 'raised %s: %s' % (type(e).__name__, str(e)[:80]), time.process_time() - t0
    except RecursionError:
        return 'raised RecursionError', time.process_time() - t0
    except Exception as e:
        return 'raised %s: %s' % (type(e).__name__, str(e)[:80]), time.process_time() - t0
    finally:
        signal.alarm(0)
    return '', time.process_time() - t0


REPEAT = ['(', ')', '{', '}', '[', ']', 'a{', 'a{b:', '@media{', '@media print{a{', '/*', '*/', '"', "'", '\\', 'url(', 'a:not(',
          'calc(', 'a,', 'a ', '@import ', '@x', ';', ':', '!', '!important', '#', '.', '>', '+', 'a[b=', 'rgb(', '1e', '-', '--',
          '\\ ', '\\\n', 'u+', 'a b:c;', '@page{@top-left{', '@namespace ', '<!--', 'a:nth-child(', '"\\', "'\\'", '(a:b) and ',
          ',', '1 + ', 'a/**/', '@media a,b,', 'x|', '*|', '~=', 'a{b:c}}', 'p{color:red;;}', '@charset "', '﻿', '\0',
          'a{b:url(', 'var(', 'a{b:var(--', 'a{--x:{', 'a::', '@font-face{src:', 'a{b:c!', '\\1', '\\10FFFF', '1.', '.1.', '%']


# name positions x escapes outside the ordinary: out-of-range code points, zero, surrogates, escaped white space / newline,
# a lone backslash
ESC_TEMPLATES = ['@{}x;', '@x{} y;', '@imp{}ort "x";', '@media all{{@x{} y;}}', 'a{{@x{} y;}}', '@{} {{a:b}}', '{}a{{b:c}}', 'a{}{{b:c}}',
                 'a{{{}b:c}}', 'a{{b{}:c}}', 'a{{b:{}c}}', 'a{{b:c{}}}', 'a{{b:f{}(1)}}', 'a{{b:{}f(1)}}', 'a{{b:1p{}x}}', 'a{{b:1{}}}',
                 'a{{b:#f{}f}}', 'a{{color:#abc{}}}', 'a{{color:#abcde{}}}', 'a{{color:#ab{}cd}}', 'a{{b:"{}"}}', "a{{b:'{}'}}", 'a{{b:url({})}}', 'a{{b:url("{}")}}', 'a{{b:u{}rl(x)}}', 'a:{}hover{{}}',
                 'a:{}not(b){{}}', 'a::{}x{{}}', 'a[{}b=c]{{}}', 'a[b={}c]{{}}', 'a.{}{{}}', 'a#{}{{}}', '{}|a{{}}', '@media {}print{{}}',
                 '@media print and ({}color){{}}', '@page :{}first{{}}', '@page {}{{}}', '@page{{@top-{}left{{}}}}', '@namespace {}p "u";',
                 '@namespace p "{}";', '@font-face{{{}src:x}}', 'a{{b:c !{}important}}', 'a{{b:c !imp{}ortant}}', '@charset "{}";',
                 '@import url({}) {};', '@import "{}" {};', 'a{{b:calc(1p{}x + 2px)}}', 'a{{b:rgb({},1,2)}}', 'a{{b:U+{}}}', '/*{}*/',
                 'a{{b:c}}{}', '{}',
                 # escapes in the middle of a name next to the characters that split or join tokens of a selector / prelude
                 'a{}b|*{{}}', 'a{}b|c{{}}', '*|a{}b{{}}', 'x:not(p{}q|*){{}}', '[a{}b|c]{{}}', '[a{}b|c=d]{{}}', 'a{}b.c{}d#e{}f{{}}',
                 'a:b{}c(d{}e){{}}', '@media a{}b and (c{}d:e{}f){{}}', '@page a{}b:first{{}}', '@namespace a{}b "u";a{}b|c{{}}',
                 'a{{b{}c:d{}e f{}g(h{}i)}}', '@a{}b c{}d;', '@import "x" a{}b;', 'a{{b:c !impor{}tant}}']
ESCAPES = ['\\110000', '\\ffffff', '\\FFFFFF ', '\\0', '\\000000', '\\0 ', '\\d800', '\\dfff', '\\10ffff', '\\fffe', '\\1', '\\a',
           '\\ ', '\\\n', '\\', '\\\\', '\\7f', '\\80', '\\x', '\\-', '\\"', '\\110000x', '\\999999 \\999999',
           # the characters that delimit tokens, as hex and as literal escapes: part of the name, never a delimiter
           '\\7c ', '\\|', '\\7b ', '\\7d ', '\\3b ', '\\28 ', '\\29 ', '\\2a ', '\\*', '\\2c ', '\\3a ', '\\:', '\\2e ', '\\.',
           '\\23 ', '\\#', '\\5b ', '\\5d ', '\\40 ', '\\21 ', '\\2f ', '\\22 ', '\\27 ', '\\5c ', '\\20 ', '\\3d ', '\\25 ']

# constructs nested in themselves: (before, opening, closing, after)
NESTED = [('a{x:', 'var(x, ', ')', '}'), ('a{x:', 'var(x, f(', '))', '}'), ('a{x:', 'f(', ')', '}'), ('a{x:', 'f(1,', ')', '}'), ('a{x:', 'f(g(', '))', '}'), ('a{x:', 'calc(', ')', '}'),
          ('a{x:', 'rgb(', ')', '}'), ('a{x:', 'var(', ')', '}'), ('a{x:', '(', ')', '}'), ('a{x:', '[', ']', '}'), ('a{x:', '{', '}', '}'),
          ('a{x:', '-f(', ')', '}'), ('a{x:expression(', '(', ')', ')}'), ('a{x:alpha(', 'f(', ')', ')}'), ('', 'a:not(', ')', '{}'),
          ('', 'a:nth-child(', ')', '{}'), ('', 'a[', ']', '{}'), ('', '(', ')', '{}'), ('@media ', '(', ')', '{}'),
          ('@media (a:', 'f(', ')', '){}'), ('', '@media print{', '}', ''), ('@x ', '{', '}', ''), ('@x ', '(', ')', ';'),
          ('a{', '@x{', '}', '}'), ('@page{', '@top-left{', '}', '}'), ('@import url(', '(', ')', ');'), ('', 'a{', '}', ''),
          ('', '{', '}', ''), ('', '[', ']', ''), ('a{x:url(', 'url(', ')', ')}')]

# long flat runs: (before, item, after)
LONG = [('a{x:', '9', '.5}'), ('a{x:-', '9', '.5px}'), ('a{x:', '9', '}'), ('a{x:.', '0', '1em}'), ('a{color:hsl(', '9', ',50%,50%)}'),
        ('a{color:hsl(1,', '9', '.5%,50%)}'), ('a{color:rgb(', '9', '.5,1,1)}'), ('a{color:rgba(1,1,1,', '9', '.5)}'),
        ('a{x:', 'b ', '}'), ('a{x:', 'b,', 'c}'), ('a{x:', '1px ', '}'), ('a{x:', 'b/', 'c}'), ('a{x:f(', 'b ', ')}'), ('a{x:f(', 'b,', 'c)}'),
        ('a{x:', 'rgb(1,2,3) ', '}'), ('a{x:', 'calc(1px) ', '}'), ('a{x:calc(1px', ' + 1px', ')}'), ('a{x:', '"s" ', '}'),
        ('a{x:', 'url(u) ', '}'), ('a{x:', '#fff ', '}'), ('', 'a,', 'b{}'), ('', 'a ', '{}'), ('', 'a>', 'b{}'), ('a', '.b', '{}'),
        ('a', '[b]', '{}'), ('a', ':hover', '{}'), ('a', ':not(b)', '{}'), ('a{', 'b:c;', '}'), ('a{', ';', '}'), ('a{', 'b:c!important;', '}'),
        ('', 'a{}', ''), ('', '@import "x";', ''), ('', '@x;', ''), ('', '/**/', ''), ('', '@media print{}', ''), ('@media ', 'print,', 'tv{}'),
        ('@media print', ' and (color)', '{}'), ('@page{', '@top-left{}', '}'), ('a{x:', '/**/', 'b}'), ('a{x:b', ' /**/', '}'),
        ('', ' ', ''), ('', '\n', ''), ('', ';', ''), ('', '}', ''), ('', ')', ''), ('', '@namespace p "u";', ''), ('', '<!--', ''),
        ('a{x:"', 'é', '"}'), ('a{x:', 'é', '}'), ('a{font-family:', 'é', ' 1}'), ('a{font-family:', 'é ', ' 1}')]


def valid_sheet(rnd):
    g = selgen.Gen(rnd)
    parts = []
    for _ in range(rnd.randint(1, 5)):
        k = rnd.random()
        if k < 0.5:
            sel = ', '.join(g.selector()[0] for _ in range(rnd.randint(1, 2)))
            parts.append('%s { %s }' % (sel, '; '.join(rnd.choice(junkgen.GOOD_DECLS) for _ in range(rnd.randint(0, 3)))))
        else:
            parts.append(junkgen.GOOD_RULES[rnd.choice(list(junkgen.GOOD_RULES))])
    return ' '.join(parts)


def gen_cases(tier, seed):
    rnd = random.Random(seed)
    cases = []
    n = 300 if tier == 'quick' else 6000

    def settings():
        return (rnd.random() < 0.5, rnd.random() < 0.5, 'sheet' if rnd.random() < 0.7 else 'style',
                rnd.choice(['text', 'text', 'none', 'bytes', 'weird', 'num', 'unknown-enc', 'oserror', 'rot13', 'int-content',
                            'list-content', 'int-enc', 'bytes-enc', 'bool-enc', 'float-content', 'tuple-enc', 'triple', 'bytearray',
                            'dict', 'str', 'deepening', 'deepening', 'deepening-bytes']))
    for _ in range(n):
        cases.append(('soup', lexgen.soup(rnd, rnd.randint(1, 30))) + settings())
    for _ in range(n):
        t = valid_sheet(rnd)
        i = rnd.randrange(len(t) + 1)
        cases.append(('prefix', t[:i]) + settings())
    for _ in range(n):
        t = junkgen.soup(rnd, rnd.randint(1, 8), 1, True)
        # unbalance it
        for _ in range(rnd.randint(1, 3)):
            if t:
                i = rnd.randrange(len(t))
                t = t[:i] + rnd.choice(['', '{', '}', '(', ')', '[', ']', '"', "'", '/*', '\\', '@', ';']) + t[i + rnd.randint(0, 1):]
        cases.append(('unbalanced', t) + settings())
    for _ in range(n // 2):
        cases.append(('codepoints', ''.join(chr(rnd.choice([rnd.randrange(0, 0x80), rnd.randrange(0, 0x800), rnd.randrange(0xD7F0, 0xE010),
                                                               rnd.randrange(0x10000, 0x110000)])) for _ in range(rnd.randint(1, 40)))
                      ) + settings())
    # every repetition pattern alone, and mixed pairs
    for r in REPEAT:
        for k in ('sheet', 'style'):
            cases.append(('repeat', r * 60, False, True, k, 'text'))
    for _ in range(n // 3):
        a, b = rnd.choice(REPEAT), rnd.choice(REPEAT)
        cases.append(('repeat', (a * rnd.randint(1, 4) + b * rnd.randint(1, 3)) * rnd.randint(5, 40)) + settings())
    for tmpl in ESC_TEMPLATES:
        for e in ESCAPES:
            cases.append(('escape', tmpl.replace('{{', '\0').replace('}}', '\1').replace('{}', e).replace('\0', '{').replace('\1', '}'),
                          rnd.random() < 0.5, rnd.random() < 0.5, 'sheet' if rnd.random() < 0.8 else 'style', 'text'))
    for pre, o, c, post in NESTED:
        # (deeper nesting is covered by the growth measurements: an unknown rule with n nested blocks takes time ~ n^3,
        # which is polynomial, so a time-out at depth 3000 would be no violation)
        for n in (25, 35, 300, 1000):
            for closed in (True, False):
                cases.append(('nested', pre + o * n + (c * n if closed else '') + post, n % 2 == 1, True,
                              'style' if not pre and rnd.random() < 0.3 else 'sheet', 'text'))
    for t in VALIDATION_WALKS:
        cases.append(('validation-walk', t, True, True, 'sheet', 'text'))
        cases.append(('validation-walk', t[t.index('{') + 1:-1], True, False, 'style', 'text'))
    for pre, item, post in LONG:
        # (quadratic behaviour - inserting and serialising thousands of rules - is polynomial: longer runs are judged by the
        # growth measurement, not by the absolute limit)
        # (digit runs also beyond the 4300 digits CPython converts between int and str)
        for n in ((1200, 5000) if item in ('9', '0', '1') else (1200,)):
            cases.append(('long', pre + item * n + post, True, True, 'sheet', 'text'))
            cases.append(('long', pre + item * n + post, False, False, 'style' if pre.startswith('a{x') else 'sheet', 'text'))
    # an @charset rule naming every codec Python's registry knows (text encodings, bytes-to-bytes and str-to-str transforms,
    # idna / punycode / undefined): the parsed sheet must serialise whatever was accepted
    import encodings.aliases
    import pkgutil
    names = sorted(set(encodings.aliases.aliases) | set(encodings.aliases.aliases.values())
                   | set(m.name for m in pkgutil.iter_modules(encodings.__path__)))
    names += ['css', 'CSS', 'Css']          # (the codec this package registers itself)
    for nm in names:
        cases.append(('charset', '@charset "%s"; a{content:"\xe9\u4e2d"}' % nm.replace('_', rnd.choice('_-')), rnd.random() < 0.5, True,
                      'sheet', 'text'))
    # every @import whose fetcher answer has an odd shape, and hrefs the URL library refuses
    for f in sorted(set(['rot13', 'int-content', 'list-content', 'int-enc', 'bytes-enc', 'bool-enc', 'float-content', 'tuple-enc', 'triple',
                         'bytearray', 'dict', 'str', 'deepening', 'deepening', 'deepening-bytes'])):
        cases.append(('fetch', '@import "x.css"; a{top:0}', True, True, 'sheet', f))
    for t in ['@import "http://[a";', '@import url(//[);', '@import "http://a]b/";', '@import "http://[::1";', '@import "http://h:x/";',
              '@import "\0";', '@variables { /*c*/ a: 1; a: 2 }', '@variables { a: 1; /*c*/ a: 2; /*d*/ a: 3 } b{x:var(a)}']:
        cases.append(('fixed', t, True, True, 'sheet', 'text'))
        cases.append(('fixed', t, False, False, 'sheet', 'none'))
    byt = [('bytes', b) for b in [b'\xff\xfe', b'\xef\xbb\xbf@charset "', b'@charset "x', b'@charset "utf-16";a', b'\x00\x00\xfe\xff',
                                  b'a{content:"\xff"}', b'@charset "ascii";\xe9', b'\xff' * 10, b'@charset "";', b'@charset "css";a{}',
                                  b'@charset "CSS";a{}', b'\xef\xbb\xbf@charset "cSs";a{}', b'@charset "rot13";a{}', b'@charset "idna";a{}']]
    for k, b in byt:
        cases.append((k, b, False, True, 'sheet', 'text'))
    return cases


def run_case(case):
    kind, text, validate, comments, what, fetch = case
    why, secs = parse_one(text, validate, comments, what, fetch)
    if why:
        return '%s(%r, validate=%s, parseComments=%s, fetcher=%s): %s' % (
            'parseString' if what == 'sheet' else 'parseStyle', text if len(text) < 200 else text[:200] + '…', validate, comments, fetch, why)
    return ''


def growth_case(pattern, what):
    """running time at n, 2n, 4n repetitions: polynomial growth of small degree"""
    times = []
    for n in (150, 300, 600):
        why, secs = parse_one(pattern * n, False, True, what)
        if why:
            return '%r x %d: %s' % (pattern, n, why), None
        times.append(max(secs, 0.02))
    ratio = times[2] / times[0]
    if ratio > 64 and times[2] > 2.0:          # worse than ~n^3 on a 4x larger input, and not just noise
        return 'running time for %r x (150, 300, 600) repetitions: %s s — grows faster than n^3' % (
            pattern, ['%.2f' % t for t in times]), ratio
    return '', ratio


# values that walk the repeated groups of the flagged validation patterns and end in something invalid: with validation
# on, time must stay polynomial (voice-family and list-style did not before repairs 3e7d00c / 4795326)
VALIDATION_WALKS = ['a{voice-family: ' + 'a' * 60 + ' 1}', 'a{voice-family: ' + 'male, ' * 40 + '1}', 'a{list-style: ' + 'none ' * 60 + '1}',
                    'a{list-style: ' + 'inherit ' * 60 + '1}', 'a{font-family: ' + 'serif, ' * 60 + '1}', 'a{font: 1px ' + 'serif, ' * 60 + '1}',
                    'a{content: ' + '"a" ' * 60 + '1x}', 'a{counter-increment: ' + 'a 1 ' * 60 + '!}', 'a{counter-reset: ' + 'a ' * 60 + '"}',
                    'a{quotes: ' + '"a" "b" ' * 60 + '1}', 'a{page: ' + 'a' * 60 + ' 1}', '@font-face{src: ' + 'local(a), ' * 60 + '1}',
                    '@font-face{font-family: ' + 'a ' * 60 + '1}']


VALIDATION_REDOS = {
    'box-shadow': 'a { box-shadow: ' + '1px 1px 1px red, ' * 7 + 'x }',
    'text-shadow': 'a { text-shadow: ' + '1px 1px 1px red, ' * 7 + 'x }',
    'background': 'a { background: ' + 'red ' * 26 + 'x }',
}



def nested_growth(shape):
    """running time at nesting depths 8, 12, 16: doubling per level shows as a factor 256"""
    pre, o, c, post = shape
    times = []
    for n in (8, 12, 16):
        why, secs = parse_one(pre + o * n + c * n + post, True, True, 'sheet')
        if why:
            return '%r nested %d deep: %s' % (o, n, why)
        times.append(max(secs, 0.01))
    if times[2] / times[0] > 100 and times[2] > 1.0:
        return 'running time for %r nested (8, 12, 16) deep: %s s - exponential in the depth' % (
            pre + o + '...' + c + post, ['%.2f' % t for t in times])
    # and polynomial of small degree further out
    times = []
    for n in (150, 300, 600):
        why, secs = parse_one(pre + o * n + c * n + post, True, True, 'sheet')
        if why:
            return '%r nested %d deep: %s' % (o, n, why)
        times.append(max(secs, 0.02))
    if times[2] / times[0] > 4 ** 4 and times[2] > 2.0:
        return 'running time for %r nested (150, 300, 600) deep: %s s - grows faster than n^4' % (
            pre + o + '...' + c + post, ['%.2f' % t for t in times])
    return ''


def long_growth(shape):
    """running time for 300, 600, 1200 items: polynomial of small degree"""
    pre, item, post = shape
    times = []
    for n in (300, 600, 1200):
        why, secs = parse_one(pre + item * n + post, True, True, 'sheet')
        if why:
            return '%r x %d: %s' % (item, n, why)
        times.append(max(secs, 0.02))
    if times[2] / times[0] > 4 ** 4 and times[2] > 2.0:
        return 'running time for %r x (300, 600, 1200): %s s - grows faster than n^4' % (item, ['%.2f' % t for t in times])
    return ''


def one(c):
    if c[0] == 'long-growth':
        return long_growth(c[1])
    if c[0] == 'growth':
        return growth_case(c[1], c[2])[0]
    if c[0] == 'nested-growth':
        return nested_growth(c[1])
    return run_case(c)


def run(tier, seed):
    t0 = time.time()
    build = lib.build_and_audit(PROP)
    findings = lib.Findings(PROP)
    cases = gen_cases(tier, seed)
    growth = [('growth', r, k) for r in (REPEAT if tier != 'quick' else REPEAT[::3]) for k in ('sheet',)]
    growth += [('nested-growth', sh) for sh in NESTED]
    growth += [('long-growth', sh) for sh in LONG]
    allc = cases + growth
    res = lib.run_with_watchdog(one, allc, 3 * LIMIT_S)
    fails = []
    for c, r in zip(allc, res):
        if isinstance(r, tuple) and r[0] == 'TIMEOUT':
            fails.append((c, '%s: no result after %d s (the regular-expression engine does not return)' % (
                repr(c[1])[:160], r[1])))
        elif r:
            fails.append((c, r))
    for case, why in fails[:8]:
        findings.add(case[0], repr(case[1])[:160] + repr(case[2:]), why)
    # the recorded findings: validation patterns with exponential backtracking
    probes = [('probe', t, True, True, 'sheet', 'text') for t in VALIDATION_REDOS.values()]
    pres = lib.run_with_watchdog(one, probes, 6)
    for (prop, text), r in zip(VALIDATION_REDOS.items(), pres):
        if isinstance(r, tuple) and r[0] == 'TIMEOUT':
            findings.add('validation-time', prop, 'validation of %s takes exponential time: %r does not return' % (prop, text[:60]))
    dist = {}
    for c in cases:
        dist[c[0]] = dist.get(c[0], 0) + 1
    coverage = {
        'evaluations': len(allc),
        'distinct_nontrivial': len(set(repr(c) for c in allc)),
        'rule': 'lexeme soup (every token production, escapes, comments), every kind of prefix of generated valid sheets '
                '(level-3 selectors, all rule kinds), balanced soup made unbalanced by 1-3 insertions / deletions of brackets, '
                'quotes, comment openers and backslashes, arbitrary code points (ASCII controls, BMP, surrogates, astral), '
                '%d repetition patterns x 60 and mixed pairs, byte inputs with BOMs / truncated @charset; x validate x '
                'parseComments x {parseString, parseStyle} x 7 fetcher behaviours; each parse under a %d s CPU limit, then '
                'cssText of the result and of every rule; running-time growth of every repetition pattern at 150/300/600 '
                'repetitions (flagged above n^3); %d name positions x %d unusual escapes (out-of-range, zero, surrogate, escaped '
                'white space, lone backslash); %d constructs nested in themselves 25 / 35 / 300 / 3000 deep, closed and open, and '
                'their running time at depths 8 / 12 / 16 and 150 / 300 / 600; %d kinds of long flat runs (1200 items: terms, commas, selectors, '
                'declarations, rules, comments, non-ASCII names under validation) with growth measurements at 300 / 600 / 1200' % (
                    len(REPEAT), LIMIT_S, len(ESC_TEMPLATES), len(ESCAPES), len(NESTED), len(LONG)),
        'traces_validated_against_impl': 0,
        'exhaustive': False,
        'distribution': dict(dist, growth=len(growth)),
        'samples': [repr(cases[i])[:150] for i in (1, len(cases) // 2, len(cases) - 1)],
        'correspondence_mismatches': 0,
        'oracle_failures': len(fails),
    }
    assumptions = ['"polynomial time" is checked as growth below n^3 between 150 and 600 repetitions with a %d s CPU limit per parse; '
                   'the regular-expression engine itself is CPython\'s' % LIMIT_S]
    return lib.finish(PROP, tier, seed, t0, build, findings, coverage, assumptions, [])
