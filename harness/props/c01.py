"""C01 — parsing any text terminates and never raises.

Proof: lean/CssVerif/Props/C01.lean (totality of the modelled layers: tokenizer, boundary finder, statement and
declaration loops, import loading, for inputs of any length).  Search: structured fuzzing of the real parser —
token soup, every prefix of valid sheets, unbalanced / truncated constructs, pathological repetitions (with a
growth check on the running time), arbitrary code points — x {validate} x {parseComments} x {parseString,
parseStyle}, each parse under a CPU limit, then reading cssText.
"""
import random
import signal
import time

from .. import lib, lexgen, junkgen, selgen

lib.use_repo()
PROP = 'C01'
LIMIT_S = 10


def _cp():
    import css_parser
    import logging
    css_parser.log.setLevel(logging.FATAL)
    css_parser.log.raiseExceptions = False
    return css_parser


class Timeout(Exception):
    pass


def _alarm(signum, frame):
    raise Timeout()


def parse_one(text, validate, comments, kind, fetch='text'):
    """returns '' or a description of what went wrong; also the CPU seconds used"""
    cp = _cp()
    fetchers = {'text': lambda u: (None, 'i { top: 1px } @import "j.css";'), 'none': lambda u: None,
                'bytes': lambda u: ('utf-8', b'\xff\xfe i {'), 'weird': lambda u: (1, 2, 3), 'num': lambda u: 7,
                'unknown-enc': lambda u: ('x-nope', b'a{}'), 'oserror': None}

    def oserr(u):
        raise OSError('x')
    fetchers['oserror'] = oserr
    p = cp.CSSParser(fetcher=fetchers[fetch], parseComments=comments, validate=validate)
    signal.signal(signal.SIGALRM, _alarm)
    signal.alarm(LIMIT_S)
    t0 = time.process_time()
    try:
        if kind == 'sheet':
            obj = p.parseString(text, href='http://h/s.css')
        else:
            obj = p.parseStyle(text)
        out = obj.cssText
        if kind == 'sheet':
            for r in obj.cssRules:
                r.cssText
                getattr(r, 'selectorText', None)
        if out is None and kind == 'sheet':
            return 'cssText is None', time.process_time() - t0
    except Timeout:
        return 'no result after %d s of CPU' % LIMIT_S, LIMIT_S
    except (UnicodeDecodeError, UnicodeEncodeError, LookupError) as e:       # (LookupError: unknown encoding label)
        if isinstance(text, bytes):
            return '', time.process_time() - t0
        return 'raised %s' % type(e).__name__, time.process_time() - t0
    except RecursionError:
        return 'raised RecursionError', time.process_time() - t0
    except Exception as e:
        return 'raised %s: %s' % (type(e).__name__, str(e)[:80]), time.process_time() - t0
    finally:
        signal.alarm(0)
    return '', time.process_time() - t0


REPEAT = ['(', ')', '{', '}', '[', ']', 'a{', 'a{b:', '@media{', '@media print{a{', '/*', '*/', '"', "'", '\\', 'url(', 'a:not(',
          'calc(', 'a,', 'a ', '@import ', '@x', ';', ':', '!', '!important', '#', '.', '>', '+', 'a[b=', 'rgb(', '1e', '-', '--',
          '\\ ', '\\\n', 'u+', 'a b:c;', '@page{@top-left{', '@namespace ', '<!--', 'a:nth-child(', '"\\', "'\\'", '(a:b) and ',
          ',', '1 + ', 'a/**/', '@media a,b,', 'x|', '*|', '~=', 'a{b:c}}', 'p{color:red;;}', '@charset "', '﻿', '\0',
          'a{b:url(', 'var(', 'a{b:var(--', 'a{--x:{', 'a::', '@font-face{src:', 'a{b:c!', '\\1', '\\10FFFF', '1.', '.1.', '%']


def valid_sheet(rnd):
    g = selgen.Gen(rnd)
    parts = []
    for _ in range(rnd.randint(1, 5)):
        k = rnd.random()
        if k < 0.5:
            sel = ', '.join(g.selector()[0] for _ in range(rnd.randint(1, 2)))
            parts.append('%s { %s }' % (sel, '; '.join(rnd.choice(junkgen.GOOD_DECLS) for _ in range(rnd.randint(0, 3)))))
        else:
            parts.append(junkgen.GOOD_RULES[rnd.choice(list(junkgen.GOOD_RULES))])
    return ' '.join(parts)


def gen_cases(tier, seed):
    rnd = random.Random(seed)
    cases = []
    n = 300 if tier == 'quick' else 6000

    def settings():
        return (rnd.random() < 0.5, rnd.random() < 0.5, 'sheet' if rnd.random() < 0.7 else 'style',
                rnd.choice(['text', 'text', 'none', 'bytes', 'weird', 'num', 'unknown-enc', 'oserror']))
    for _ in range(n):
        cases.append(('soup', lexgen.soup(rnd, rnd.randint(1, 30))) + settings())
    for _ in range(n):
        t = valid_sheet(rnd)
        i = rnd.randrange(len(t) + 1)
        cases.append(('prefix', t[:i]) + settings())
    for _ in range(n):
        t = junkgen.soup(rnd, rnd.randint(1, 8), 1, True)
        # unbalance it
        for _ in range(rnd.randint(1, 3)):
            if t:
                i = rnd.randrange(len(t))
                t = t[:i] + rnd.choice(['', '{', '}', '(', ')', '[', ']', '"', "'", '/*', '\\', '@', ';']) + t[i + rnd.randint(0, 1):]
        cases.append(('unbalanced', t) + settings())
    for _ in range(n // 2):
        cases.append(('codepoints', ''.join(chr(rnd.choice([rnd.randrange(0, 0x80), rnd.randrange(0, 0x800), rnd.randrange(0xD7F0, 0xE010),
                                                               rnd.randrange(0x10000, 0x110000)])) for _ in range(rnd.randint(1, 40)))
                      ) + settings())
    # every repetition pattern alone, and mixed pairs
    for r in REPEAT:
        for k in ('sheet', 'style'):
            cases.append(('repeat', r * 60, False, True, k, 'text'))
    for _ in range(n // 3):
        a, b = rnd.choice(REPEAT), rnd.choice(REPEAT)
        cases.append(('repeat', (a * rnd.randint(1, 4) + b * rnd.randint(1, 3)) * rnd.randint(5, 40)) + settings())
    byt = [('bytes', b) for b in [b'\xff\xfe', b'\xef\xbb\xbf@charset "', b'@charset "x', b'@charset "utf-16";a', b'\x00\x00\xfe\xff',
                                  b'a{content:"\xff"}', b'@charset "ascii";\xe9', b'\xff' * 10, b'@charset "";']]
    for k, b in byt:
        cases.append((k, b, False, True, 'sheet', 'text'))
    return cases


def run_case(case):
    kind, text, validate, comments, what, fetch = case
    why, secs = parse_one(text, validate, comments, what, fetch)
    if why:
        return '%s(%r, validate=%s, parseComments=%s, fetcher=%s): %s' % (
            'parseString' if what == 'sheet' else 'parseStyle', text if len(text) < 200 else text[:200] + '…', validate, comments, fetch, why)
    return ''


def growth_case(pattern, what):
    """running time at n, 2n, 4n repetitions: polynomial growth of small degree"""
    times = []
    for n in (150, 300, 600):
        why, secs = parse_one(pattern * n, False, True, what)
        if why:
            return '%r x %d: %s' % (pattern, n, why), None
        times.append(max(secs, 0.02))
    ratio = times[2] / times[0]
    if ratio > 64 and times[2] > 2.0:          # worse than ~n^3 on a 4x larger input, and not just noise
        return 'running time for %r x (150, 300, 600) repetitions: %s s — grows faster than n^3' % (
            pattern, ['%.2f' % t for t in times]), ratio
    return '', ratio


VALIDATION_REDOS = {
    'box-shadow': 'a { box-shadow: ' + '1px 1px 1px red, ' * 7 + 'x }',
    'text-shadow': 'a { text-shadow: ' + '1px 1px 1px red, ' * 7 + 'x }',
    'background': 'a { background: ' + 'red ' * 26 + 'x }',
}


def one(c):
    return run_case(c) if c[0] != 'growth' else growth_case(c[1], c[2])[0]


def run(tier, seed):
    t0 = time.time()
    build = lib.build_and_audit(PROP)
    findings = lib.Findings(PROP)
    cases = gen_cases(tier, seed)
    growth = [('growth', r, k) for r in (REPEAT if tier != 'quick' else REPEAT[::3]) for k in ('sheet',)]
    allc = cases + growth
    res = lib.run_with_watchdog(one, allc, 3 * LIMIT_S)
    fails = []
    for c, r in zip(allc, res):
        if isinstance(r, tuple) and r[0] == 'TIMEOUT':
            fails.append((c, '%s: no result after %d s (the regular-expression engine does not return)' % (
                repr(c[1])[:160], r[1])))
        elif r:
            fails.append((c, r))
    for case, why in fails[:8]:
        findings.add(case[0], repr(case[1])[:160] + repr(case[2:]), why)
    # the recorded findings: validation patterns with exponential backtracking
    probes = [('probe', t, True, True, 'sheet', 'text') for t in VALIDATION_REDOS.values()]
    pres = lib.run_with_watchdog(one, probes, 6)
    for (prop, text), r in zip(VALIDATION_REDOS.items(), pres):
        if isinstance(r, tuple) and r[0] == 'TIMEOUT':
            findings.add('validation-time', prop, 'validation of %s takes exponential time: %r does not return' % (prop, text[:60]))
    dist = {}
    for c in cases:
        dist[c[0]] = dist.get(c[0], 0) + 1
    coverage = {
        'evaluations': len(allc),
        'distinct_nontrivial': len(set(repr(c) for c in allc)),
        'rule': 'lexeme soup (every token production, escapes, comments), every kind of prefix of generated valid sheets '
                '(level-3 selectors, all rule kinds), balanced soup made unbalanced by 1-3 insertions / deletions of brackets, '
                'quotes, comment openers and backslashes, arbitrary code points (ASCII controls, BMP, surrogates, astral), '
                '%d repetition patterns x 60 and mixed pairs, byte inputs with BOMs / truncated @charset; x validate x '
                'parseComments x {parseString, parseStyle} x 7 fetcher behaviours; each parse under a %d s CPU limit, then '
                'cssText of the result and of every rule; running-time growth of every repetition pattern at 150/300/600 '
                'repetitions (flagged above n^3)' % (len(REPEAT), LIMIT_S),
        'traces_validated_against_impl': 0,
        'exhaustive': False,
        'distribution': dict(dist, growth=len(growth)),
        'samples': [repr(cases[i])[:150] for i in (1, len(cases) // 2, len(cases) - 1)],
        'correspondence_mismatches': 0,
        'oracle_failures': len(fails),
    }
    assumptions = ['"polynomial time" is checked as growth below n^3 between 150 and 600 repetitions with a %d s CPU limit per parse; '
                   'the regular-expression engine itself is CPython\'s' % LIMIT_S]
    return lib.finish(PROP, tier, seed, t0, build, findings, coverage, assumptions, [])
